//! C19: the new-API codec (domain::new::base) and the established codec
//! (domain::base) agree on the wire format.
//!
//! (1) differential parsing of names / questions / records / messages,
//! (2) T2: the new name parsers, the old name parser and the known-class
//!     classifier against the extracted Coq model,
//! (3) build scripts on both builders, each output read by both readers.
use domain::base::iana::{Class, Rtype};
use domain::base::message_builder::{HashCompressor, MessageBuilder as OldBuilder, StaticCompressor, TreeCompressor};
use domain::base::name::{Name as OldName, ParsedName};
use domain::base::record::ParsedRecord;
use domain::base::{Message as OldMessage, Question as OldQuestion, Ttl};
use domain::dep::octseq::Parser;
use domain::new::base::build::{AsBytes, BuildInMessage, MessageBuilder, NameCompressor};
use domain::new::base::name::{Name, NameBuf, RevNameBuf};
use domain::new::base::parse::{MessageParser, ParseMessageBytes, SplitMessageBytes};
use domain::new::base::wire::{ParseBytes, U16};
use domain::new::base::{HeaderFlags, Message, MessageItem, QClass, QType, Question, RClass, RType, Record, UnparsedRecordData, TTL};
use domain::new::edns::{EdnsFlags, EdnsRecord};
use domain::new::rdata::{CName, Mx, Ns, Opt, RecordData, A};
use domain::new::base::wire::SizePrefixed;
use dv_harness::*;

// ------------------------------------------------------------ observations

#[derive(Clone, PartialEq, Debug)]
enum Obs { Ok(Vec<u8>, usize), Err, Panic }

impl Obs {
    fn show(&self) -> String {
        match self { Obs::Ok(w, e) => format!("Ok {} {}", hex(w), e), Obs::Err => "Err".into(), Obs::Panic => "Panic".into() }
    }
    fn is_ok(&self) -> bool { matches!(self, Obs::Ok(..)) }
}

fn flat<T>(r: Result<Result<T, ()>, String>) -> Result<T, bool> { match r { Ok(Ok(v)) => Ok(v), Ok(Err(())) => Err(false), Err(_) => Err(true) } }
fn obs(r: Result<Result<(Vec<u8>, usize), ()>, String>) -> Obs {
    match flat(r) { Ok((w, e)) => Obs::Ok(w, e), Err(false) => Obs::Err, Err(true) => Obs::Panic }
}

fn old_wire<O: AsRef<[u8]>>(n: &ParsedName<O>) -> Vec<u8> {
    let mut w = vec![];
    for l in n.iter() { w.push(l.as_slice().len() as u8); w.extend_from_slice(l.as_slice()); }
    w
}

/// old reader: Parser over the whole message, seek, ParsedName::parse
fn old_name(msg: &[u8], pos: usize) -> Obs {
    obs(catch(|| {
        let mut parser = Parser::from_ref(msg);
        parser.seek(pos).map_err(|_| ())?;
        let n = ParsedName::parse(&mut parser).map_err(|_| ())?;
        Ok((old_wire(&n), parser.pos()))
    }))
}

/// new reader: contents = msg[12..]; result positions are reported message-relative
fn new_split(msg: &[u8], pos: usize) -> Obs {
    obs(catch(|| {
        let (n, end) = NameBuf::split_message_bytes(&msg[12..], pos - 12).map_err(|_| ())?;
        Ok((n.as_bytes().to_vec(), end + 12))
    }))
}
fn new_parse(contents: &[u8], start: usize) -> Obs {
    obs(catch(|| { let n = NameBuf::parse_message_bytes(contents, start).map_err(|_| ())?; Ok((n.as_bytes().to_vec(), 0)) }))
}
fn rev_split(msg: &[u8], pos: usize) -> Obs {
    obs(catch(|| {
        let (n, end) = RevNameBuf::split_message_bytes(&msg[12..], pos - 12).map_err(|_| ())?;
        Ok((n.as_bytes().to_vec(), end + 12))
    }))
}
fn rev_parse(contents: &[u8], start: usize) -> Obs {
    obs(catch(|| { let n = RevNameBuf::parse_message_bytes(contents, start).map_err(|_| ())?; Ok((n.as_bytes().to_vec(), 0)) }))
}

/// reversed wire (root first, labels last-to-first) -> conventional wire
fn unreverse(r: &[u8]) -> Option<Vec<u8>> {
    if r.first() != Some(&0) { return None; }
    let mut labels: Vec<&[u8]> = vec![];
    let mut i = 1;
    while i < r.len() {
        let l = r[i] as usize;
        if l == 0 || l > 63 || i + 1 + l > r.len() { return None; }
        labels.push(&r[i..i + 1 + l]);
        i += 1 + l;
    }
    let mut w = vec![];
    for l in labels.iter().rev() { w.extend_from_slice(l); }
    w.push(0);
    Some(w)
}

/// The known classes, computed independently of the model: walk as the OLD
/// reader does; the first pointer that the old rule admits (target < its own
/// position) but that points into the header (`hdr`) or at/after the start of
/// the segment it sits in (`own`).
fn classify(msg: &[u8], pos: usize) -> &'static str {
    let lim = msg.len();
    let (mut cur, mut seg, mut nl) = (pos, pos, 0usize);
    loop {
        if cur >= lim { return "none"; }
        let b = msg[cur] as usize;
        if b <= 63 {
            if b == 0 || lim - (cur + 1) < b { return "none"; }
            nl += b + 1;
            if nl >= 255 { return "none"; }
            cur += 1 + b;
        } else if b >= 192 {
            if cur + 1 >= lim { return "none"; }
            let t = ((b & 0x3f) << 8) | msg[cur + 1] as usize;
            if t >= cur { return "none"; }
            if t < 12 { return "hdr"; }
            if t >= seg { return "own"; }
            cur = t; seg = t;
        } else { return "none"; }
    }
}

struct Ctx { out: Out, idx: u64, per_class: std::collections::BTreeMap<String, u64> }

impl Ctx {
    /// oracle verdict; at most 10 failures per class are written out (the shared
    /// collector keeps the first 200 lines only), the rest are counted.
    fn verdict(&mut self, ok: bool, class: &str, case: &str, detail: &str) {
        if ok { self.out.check(true, class, case, detail); return; }
        let n = self.per_class.entry(class.to_string()).or_insert(0);
        *n += 1;
        if *n <= 10 { self.out.check(false, class, case, detail); } else { self.out.count(&format!("more:{}", class)); }
    }
    fn mismatch(&mut self, what: &str, o_ok: bool, n_ok: bool, class: &str, case: &str, detail: &str) {
        // one accepts, the other rejects
        let cls = if o_ok && !n_ok && class == "own" { "ptr_into_own_segment".to_string() }
            else if o_ok && !n_ok && class == "hdr" { "ptr_into_header".to_string() }
            else if o_ok { format!("accept_reject_mismatch_{}_old_accepts", what) }
            else { format!("accept_reject_mismatch_{}_new_accepts", what) };
        self.verdict(false, &cls, case, detail);
    }

    /// one (message, position): all name readers, T2 lines, oracle
    fn name_case(&mut self, msg: &[u8], pos: usize, kind: &str, t2_all: bool) {
        self.idx += 1;
        if !self.out.wants(self.idx) { return; }
        assert!(msg.len() >= 12 && pos >= 12);
        let mh = hex(msg); let ch = hex(&msg[12..]);
        let case = format!("split {} {}", ch, pos - 12);
        self.out.begin(&case);
        let o = old_name(msg, pos);
        let n = new_split(msg, pos);
        let class = classify(msg, pos);
        // T2 (model positions: contents-relative for the new API)
        let n_rel = match &n { Obs::Ok(w, e) => Obs::Ok(w.clone(), e - 12), x => x.clone() };
        let nontriv = o.is_ok() || n.is_ok() || msg[12..].iter().any(|b| *b >= 0xc0);
        self.out.case(&case, &n_rel.show(), nontriv, &format!("{}:split", kind));
        self.out.case(&format!("old {} {}", mh, pos), &o.show(), nontriv, &format!("{}:old", kind));
        self.out.case(&format!("class {} {}", mh, pos), class, class != "none", &format!("{}:class", kind));
        // oracle: C19 as stated
        let tag = format!("old {} {}", mh, pos);
        match (&o, &n) {
            (Obs::Panic, _) => self.verdict(false, "panic_old", &tag, "old name parser panicked"),
            (_, Obs::Panic) => self.verdict(false, "panic_new", &case, "new name parser panicked"),
            (Obs::Ok(a, e1), Obs::Ok(b, e2)) => self.verdict(a == b && e1 == e2, "content_mismatch", &tag,
                &format!("old {} end {} new {} end {}", hex(a), e1, hex(b), e2)),
            (Obs::Err, Obs::Err) => self.verdict(true, "", "", ""),
            (a, b) => self.mismatch("name", a.is_ok(), b.is_ok(), class, &tag, &format!("old={} new={} class={}", a.show(), b.show(), class)),
        }
        // the new API against itself: RevNameBuf and parse_message_bytes
        let r = rev_split(msg, pos);
        let r_rel = match &r { Obs::Ok(w, e) => Obs::Ok(w.clone(), e - 12), x => x.clone() };
        if t2_all { self.out.case(&format!("rsplit {} {}", ch, pos - 12), &r_rel.show(), nontriv, &format!("{}:rsplit", kind)); }
        let same = match (&n, &r) {
            (Obs::Ok(a, e1), Obs::Ok(b, e2)) => unreverse(b).as_ref() == Some(a) && e1 == e2,
            (Obs::Err, Obs::Err) => true,
            _ => false,
        };
        self.verdict(same, if matches!(r, Obs::Panic) { "panic_new" } else { "new_revname_mismatch" }, &case, &format!("NameBuf {} RevNameBuf {}", n.show(), r.show()));
        let show = |x: &Obs| match x { Obs::Ok(w, _) => format!("Ok {}", hex(w)), y => y.show() };
        // the two exact-parse entry points (ParseMessageBytes) must agree with each other on every
        // range: up to the end of the first segment (if the split readers found one) and up to
        // the end of the contents
        {
            let mut ends = vec![msg.len()];
            if let Obs::Ok(_, e) = &n { ends.push(*e); }
            if let Obs::Ok(_, e) = &r { ends.push(*e); }
            ends.sort(); ends.dedup();
            for e in ends {
                if pos > e { continue; }
                let c = &msg[12..e];
                let cs = format!("parse {} {}", hex(c), pos - 12);
                self.out.begin(&format!("r{}", cs));
                let (np, rp) = (new_parse(c, pos - 12), rev_parse(c, pos - 12));
                let agree = match (&np, &rp) { (Obs::Ok(a, _), Obs::Ok(b, _)) => unreverse(b).as_ref() == Some(a), (Obs::Err, Obs::Err) => true, _ => false };
                self.verdict(agree, if matches!(np, Obs::Panic) || matches!(rp, Obs::Panic) { "panic_new" } else { "new_parse_revparse_mismatch" }, &cs,
                    &format!("NameBuf::parse_message_bytes {} RevNameBuf::parse_message_bytes {}", show(&np), show(&rp)));
                // an exact parse that succeeds returns what the split reader returns
                if let (Obs::Ok(a, _), Obs::Ok(w, e2)) = (&np, &n) { self.verdict(a == w && *e2 == e, "new_parse_split_mismatch", &cs, &format!("parse {} split {}", show(&np), n.show())); }
                if kind.starts_with("chain") || kind.starts_with("cname") {
                    self.out.case(&cs, &show(&np), true, &format!("{}:parse", kind));
                    self.out.case(&format!("r{}", cs), &show(&rp), true, &format!("{}:rparse", kind));
                }
            }
        }
        if let Obs::Ok(w, e) = &n {
            let c = &msg[12..*e];
            let p = new_parse(c, pos - 12);
            // (a later segment may legitimately need octets beyond the end of the first one)
            self.verdict(!p.is_ok() || p == Obs::Ok(w.clone(), 0), "new_parse_split_mismatch", &case, &format!("parse_message_bytes over [..{}] = {}", e - 12, p.show()));
            if t2_all {
                self.out.case(&format!("parse {} {}", hex(c), pos - 12), &show(&p), true, &format!("{}:parse", kind));
                let rp = rev_parse(c, pos - 12);
                self.out.case(&format!("rparse {} {}", hex(c), pos - 12), &show(&rp), true, &format!("{}:rparse", kind));
            }
        } else if t2_all {
            let p = new_parse(&msg[12..], pos - 12);
            self.out.case(&format!("parse {} {}", ch, pos - 12), &show(&p), false, &format!("{}:parse", kind));
        }
    }

    /// questions and (untyped) records at a position through both APIs
    fn item_case(&mut self, msg: &[u8], pos: usize) {
        self.idx += 1;
        if !self.out.wants(self.idx) { return; }
        let mh = hex(msg);
        let class = classify(msg, pos);
        // question
        let tag = format!("question {} {}", mh, pos);
        self.out.begin(&tag);
        let oq = flat(catch(|| {
            let mut p = Parser::from_ref(msg); p.seek(pos).map_err(|_| ())?;
            let q = OldQuestion::<ParsedName<&[u8]>>::parse(&mut p).map_err(|_| ())?;
            Ok((old_wire(q.qname()), q.qtype().to_int(), q.qclass().to_int(), p.pos()))
        }));
        let nq = flat(catch(|| {
            let (q, e) = Question::<NameBuf>::split_message_bytes(&msg[12..], pos - 12).map_err(|_| ())?;
            Ok((q.qname.as_bytes().to_vec(), q.qtype.code.get(), q.qclass.code.get(), e + 12))
        }));
        self.out.case(&format!("nquestion {} {}", hex(&msg[12..]), pos - 12),
            &match &nq { Ok((w, t, c, e)) => format!("Ok {} {} {} {}", hex(w), t, c, e - 12), Err(true) => "Panic".into(), Err(false) => "Err".into() },
            oq.is_ok() || nq.is_ok(), "item:question");
        match (&oq, &nq) {
            (Err(true), _) => self.verdict(false, "panic_old", &tag, "old Question::parse panicked"),
            (_, Err(true)) => self.verdict(false, "panic_new", &tag, "new Question::split_message_bytes panicked"),
            (Ok(a), Ok(b)) => self.verdict(a == b, "content_mismatch", &tag, &format!("old {:?} new {:?}", a, b)),
            (Err(_), Err(_)) => self.verdict(true, "", "", ""),
            (a, b) => self.mismatch("question", a.is_ok(), b.is_ok(), class, &tag, &format!("old={:?} new={:?}", a, b)),
        }
        // record (header fields + raw RDATA)
        let tag = format!("record {} {}", mh, pos);
        self.out.begin(&tag);
        let or = flat(catch(|| {
            let mut p = Parser::from_ref(msg); p.seek(pos).map_err(|_| ())?;
            let r = ParsedRecord::parse(&mut p).map_err(|_| ())?;
            let end = p.pos(); let rdlen = r.rdlen() as usize;
            Ok((old_wire(&r.owner()), r.rtype().to_int(), r.class().to_int(), r.ttl().as_secs(), msg[end - rdlen..end].to_vec(), end))
        }));
        let nr = flat(catch(|| {
            let (r, e) = Record::<NameBuf, &UnparsedRecordData>::split_message_bytes(&msg[12..], pos - 12).map_err(|_| ())?;
            let rd: &[u8] = r.rdata;
            Ok((r.rname.as_bytes().to_vec(), r.rtype.code.get(), r.rclass.code.get(), r.ttl.value.get(), rd.to_vec(), e + 12))
        }));
        self.out.case(&format!("nrecord {} {}", hex(&msg[12..]), pos - 12),
            &match &nr { Ok((w, t, c, ttl, rd, e)) => format!("Ok {} {} {} {} {} {}", hex(w), t, c, ttl, e - 12 - rd.len(), e - 12), Err(true) => "Panic".into(), Err(false) => "Err".into() },
            or.is_ok() || nr.is_ok(), "item:record");
        match (&or, &nr) {
            (Err(true), _) => self.verdict(false, "panic_old", &tag, "old ParsedRecord::parse panicked"),
            (_, Err(true)) => self.verdict(false, "panic_new", &tag, "new Record::split_message_bytes panicked"),
            (Ok(a), Ok(b)) => self.verdict(a == b, "content_mismatch", &tag, &format!("old {:?} new {:?}", a, b)),
            (Err(_), Err(_)) => self.verdict(true, "", "", ""),
            (a, b) => self.mismatch("record", a.is_ok(), b.is_ok(), class, &tag, &format!("old={:?} new={:?}", a.is_ok(), b.is_ok())),
        }
    }

    /// whole message: sections by header counts, untyped records
    fn message_case(&mut self, msg: &[u8]) {
        self.idx += 1;
        if !self.out.wants(self.idx) { return; }
        let tag = format!("message {}", hex(msg));
        self.out.begin(&tag);
        type Items = (Vec<(u8, Vec<u8>, u16, u16, u32, Vec<u8>)>, bool);
        let old: Result<Items, bool> = flat(catch(|| {
            let m = OldMessage::from_octets(msg).map_err(|_| ())?;
            let mut items = vec![];
            for q in m.question() {
                match q { Ok(q) => items.push((0u8, old_wire(q.qname()), q.qtype().to_int(), q.qclass().to_int(), 0u32, vec![])), Err(_) => return Ok((items, false)) }
            }
            let mut sec = match m.answer() { Ok(s) => s, Err(_) => return Ok((items, false)) };
            let mut sno = 1u8;
            loop {
                for r in sec.by_ref() {
                    match r {
                        Ok(r) => {
                            let rd = r.to_record::<domain::base::rdata::UnknownRecordData<&[u8]>>().map_err(|_| ())?.ok_or(())?;
                            let d: &[u8] = rd.data().data();
                            items.push((sno, old_wire(&r.owner()), r.rtype().to_int(), r.class().to_int(), r.ttl().as_secs(), d.to_vec()));
                        }
                        Err(_) => return Ok((items, false)),
                    }
                }
                match sec.next_section() { Ok(Some(s)) => { sec = s; sno += 1; } Ok(None) => break, Err(_) => return Ok((items, false)) }
            }
            Ok((items, true))
        }));
        let new: Result<Items, bool> = flat(catch(|| {
            let m: &Message = <&Message>::parse_bytes(msg).map_err(|_| ())?;
            let c = &m.contents;
            let counts = [m.header.counts.questions.get(), m.header.counts.answers.get(), m.header.counts.authorities.get(), m.header.counts.additionals.get()];
            let mut items = vec![]; let mut off = 0usize;
            for _ in 0..counts[0] {
                match Question::<NameBuf>::split_message_bytes(c, off) {
                    Ok((q, e)) => { off = e; items.push((0u8, q.qname.as_bytes().to_vec(), q.qtype.code.get(), q.qclass.code.get(), 0u32, vec![])); }
                    Err(_) => return Ok((items, false)),
                }
            }
            for s in 1..4 {
                for _ in 0..counts[s] {
                    match Record::<NameBuf, &UnparsedRecordData>::split_message_bytes(c, off) {
                        Ok((r, e)) => { off = e; let rd: &[u8] = r.rdata; items.push((s as u8, r.rname.as_bytes().to_vec(), r.rtype.code.get(), r.rclass.code.get(), r.ttl.value.get(), rd.to_vec())); }
                        Err(_) => return Ok((items, false)),
                    }
                }
            }
            Ok((items, true))
        }));
        self.out.oracle_case(&tag, true, "message");
        match (&old, &new) {
            (Err(true), _) => self.verdict(false, "panic_old", &tag, "old Message iteration panicked"),
            (_, Err(true)) => self.verdict(false, "panic_new", &tag, "new message iteration panicked"),
            (Err(false), Err(false)) => self.verdict(true, "", "", ""),
            (Ok((a, ca)), Ok((b, cb))) => {
                let n = a.len().min(b.len());
                if a[..n] != b[..n] { self.verdict(false, "content_mismatch", &tag, "items read by both differ"); }
                else if a.len() == b.len() && ca == cb { self.verdict(true, "", "", ""); }
                else {
                    // one reader went on where the other stopped
                    let old_further = a.len() > b.len() || (a.len() == b.len() && *ca);
                    let known = (12..msg.len()).map(|p| classify(msg, p)).find(|c| *c != "none").unwrap_or("none");
                    self.mismatch("message", old_further, !old_further, known, &tag, &format!("old complete={} ({} items) new complete={} ({} items)", ca, a.len(), cb, b.len()));
                }
            }
            (a, b) => self.mismatch("message", a.is_ok(), b.is_ok(), "none", &tag, "header"),
        }
    }
}

// ------------------------------------------------------------ generators

fn wire(labels: &[Vec<u8>]) -> Vec<u8> {
    let mut v = vec![];
    for l in labels { v.push(l.len() as u8); v.extend_from_slice(l); }
    v.push(0);
    v
}

fn rand_label(rng: &mut Rng) -> Vec<u8> {
    const POOL: [&[u8]; 12] = [b"a", b"b", b"c", b"x", b"A", b"example", b"EXAMPLE", b"com", b"org", b"www", b"z1", b"\x01a"];
    if rng.chance(5, 6) { rng.pick(&POOL).to_vec() } else { let n = rng.range(1, 9) as usize; (0..n).map(|_| *rng.pick(b"abcAB\x00\x01\xc0.-")).collect() }
}

fn rand_name(rng: &mut Rng) -> Vec<Vec<u8>> {
    let n = match rng.below(10) { 0 => 0, 1..=3 => 1, 4..=6 => 2, 7..=8 => 3, _ => rng.range(4, 7) } as usize;
    (0..n).map(|_| rand_label(rng)).collect()
}

/// a long name whose wire length is exactly `total` (>= 3) octets incl. root
fn name_of_len(total: usize, fill: u8) -> Vec<Vec<u8>> {
    let mut left = total - 1; let mut ls = vec![];
    while left > 0 {
        let take = if left > 64 { if left - 64 == 1 { 62 } else { 63 } } else { left - 1 };
        ls.push(vec![fill; take]); left -= take + 1;
    }
    ls
}

fn header(qd: u16, an: u16, ns: u16, ar: u16) -> Vec<u8> {
    let mut h = vec![0x12, 0x34, 0x81, 0x80];
    for c in [qd, an, ns, ar] { h.extend_from_slice(&c.to_be_bytes()); }
    h
}

fn put_name(m: &mut Vec<u8>, rng: &mut Rng, name_pos: &mut Vec<usize>) {
    let here = m.len();
    let labels = rand_name(rng);
    let keep = if name_pos.is_empty() || rng.chance(1, 3) { labels.len() } else { rng.below(labels.len() as u64 + 1) as usize };
    for l in &labels[..keep] { m.push(l.len() as u8); m.extend_from_slice(l); }
    if keep == labels.len() && (name_pos.is_empty() || rng.chance(1, 2)) { m.push(0); }
    else {
        // pointer to an earlier name or into it
        let base = *rng.pick(&name_pos[..]);
        let t = if rng.chance(3, 4) { base } else { (base + rng.below(6) as usize).min(here) };
        m.push(0xc0 | (t >> 8) as u8); m.push(t as u8);
    }
    name_pos.push(here);
}

/// hand-made message with compression: returns bytes and the positions of names
fn handmade(rng: &mut Rng) -> (Vec<u8>, Vec<usize>) {
    let nq = rng.range(0, 2) as u16; let na = rng.range(0, 4) as u16;
    let mut m = header(nq, na, 0, 0);
    let mut name_pos: Vec<usize> = vec![];
    for _ in 0..nq { put_name(&mut m, rng, &mut name_pos); m.extend_from_slice(&[0, 1, 0, 1]); }
    for _ in 0..na {
        put_name(&mut m, rng, &mut name_pos);
        let kind = rng.below(3);
        m.extend_from_slice(&[0, if kind == 0 { 1 } else if kind == 1 { 2 } else { 15 }, 0, 1, 0, 0, 0, 60]);
        let lenpos = m.len(); m.extend_from_slice(&[0, 0]);
        match kind { 0 => m.extend_from_slice(&[192, 0, 2, 1]), 1 => put_name(&mut m, rng, &mut name_pos), _ => { m.extend_from_slice(&[0, 10]); put_name(&mut m, rng, &mut name_pos); } }
        let l = (m.len() - lenpos - 2) as u16; m[lenpos..lenpos + 2].copy_from_slice(&l.to_be_bytes());
    }
    (m, name_pos)
}

/// structure-aware mutation near names
fn mutate(rng: &mut Rng, m: &mut Vec<u8>, name_pos: &[usize]) {
    let n = rng.range(1, 3);
    for _ in 0..n {
        if m.len() <= 12 { return; }
        let i = if !name_pos.is_empty() && rng.chance(2, 3) { (*rng.pick(name_pos) + rng.below(8) as usize).min(m.len() - 1) } else { rng.range(0, m.len() as u64 - 1) as usize };
        match rng.below(9) {
            0 => m[i] = 0xc0,
            1 => { m[i] = 0xc0; if i + 1 < m.len() { m[i + 1] = rng.range(0, m.len() as u64 + 2) as u8; } }
            2 => m[i] = *rng.pick(&[0x40u8, 0x41, 0x7f, 0x80, 0xbf, 0x3f, 0x3e]),
            3 => m[i] = m[i].wrapping_add(1),
            4 => m[i] = m[i].wrapping_sub(1),
            5 => m[i] = 0,
            6 => { m.truncate(i.max(12)); }
            7 => { if i + 1 < m.len() { m[i] = 0xc0; m[i + 1] = i as u8; } }          // self pointer
            _ => { if i + 1 < m.len() { m[i] = 0xc0; m[i + 1] = (i as u8).wrapping_sub(rng.range(1, 6) as u8); } }
        }
    }
}

fn raw_random(rng: &mut Rng) -> Vec<u8> {
    let n = rng.range(0, 40) as usize;
    let mut m = header(rng.below(3) as u16, rng.below(3) as u16, 0, 0);
    if rng.chance(1, 4) { for b in m.iter_mut() { if rng.chance(1, 3) { *b = *rng.pick(&[0u8, 1, 2, 3, 0xc0]); } } }
    for _ in 0..n {
        let b = match rng.below(8) { 0 | 1 => 0, 2 | 3 => rng.range(1, 4) as u8, 4 => 0xc0, 5 => rng.range(0, 52) as u8, 6 => *rng.pick(&[0x40u8, 0x80, 0xbf, 0xc1, 0xff, 0x3f]), _ => rng.u8() };
        m.push(b);
    }
    m
}

/// fixed boundary / regression corpus: (message, position)
fn corpus() -> Vec<(Vec<u8>, usize)> {
    let mut v: Vec<(Vec<u8>, usize)> = vec![];
    let h = || header(0, 0, 0, 0);
    let mk = |tail: &[u8]| { let mut m = header(0, 0, 0, 0); m.extend_from_slice(tail); m };
    // DESIGN section 7 #17: pointer back into the name's own first segment
    v.push((mk(&[3, 1, 0x7a, 0, 0xc0, 0x0d]), 12));
    v.push((mk(&[1, 0x61, 0xc0, 0x0c]), 12));                  // pointer to its own start (endless a.a.a..., both reject)
    v.push((mk(&[1, 0x61, 0, 1, 0x62, 0xc0, 0x0c]), 15));      // ordinary backward pointer
    v.push((mk(&[1, 0x61, 0, 1, 0x62, 0xc0, 0x0f]), 15));      // to the start of its own segment
    v.push((mk(&[1, 0x61, 0, 0xc0, 0x0c, 0xc0, 0x0f]), 17));   // pointer to pointer
    v.push((mk(&[1, 0x61, 0, 1, 0x62, 0xc0, 0x0c, 1, 0x63, 0xc0, 0x11]), 19)); // into the middle of an earlier compressed name
    v.push((mk(&[1, 0x61, 0, 1, 0x62, 0xc0, 0x0c, 1, 0x63, 0xc0, 0x0f]), 19));
    // pointers into the header
    v.push((mk(&[0xc0, 0x0b]), 12));
    v.push((mk(&[0xc0, 0x00]), 12));
    v.push((mk(&[1, 0x61, 0xc0, 0x04]), 12));
    { let mut m = header(0, 0, 0, 0); m[10] = 1; m[11] = 0x41; m.extend_from_slice(&[0, 0xc0, 0x0a]); v.push((m, 13)); }
    // pointer to offset 12 exactly, to itself, forward, past the end
    v.push((mk(&[0, 0xc0, 0x0c]), 13));
    v.push((mk(&[0xc0, 0x0c]), 12));
    v.push((mk(&[0xc0, 0x0e, 0]), 12));
    v.push((mk(&[0, 0xc0, 0xff]), 13));
    v.push((mk(&[0, 0xff, 0xff]), 13));
    // label types 0x40..0xbf, truncated input
    for t in [0x40u8, 0x41, 0x7f, 0x80, 0xbf] { v.push((mk(&[t, 0]), 12)); v.push((mk(&[1, 0x61, t, 0]), 12)); }
    v.push((mk(&[]), 12)); v.push((mk(&[1]), 12)); v.push((mk(&[3, 0x61, 0x62]), 12)); v.push((mk(&[0xc0]), 12));
    v.push((mk(&[1, 0x61, 0xc0]), 12)); v.push((mk(&[0]), 13)); v.push((mk(&[0]), 14)); v.push((mk(&[63]), 12));
    // root
    v.push((mk(&[0]), 12)); v.push((mk(&[0, 0]), 12));
    // length cap: 253 / 254 / 255 / 256 / 257 octets uncompressed
    for total in [253usize, 254, 255, 256, 257] { let mut m = h(); m.extend_from_slice(&wire(&name_of_len(total, b'x'))); v.push((m, 12)); }
    // the same totals reached through a pointer: tail first, then a head pointing at it
    for total in [254usize, 255, 256] {
        for head in [2usize, 64, 130] {
            let mut m = h(); let tail = wire(&name_of_len(total - head, b't')); m.extend_from_slice(&tail);
            let pos = m.len(); let hd = wire(&name_of_len(head + 1, b'h')); m.extend_from_slice(&hd[..hd.len() - 1]);
            m.extend_from_slice(&[0xc0, 0x0c]); v.push((m, pos));
        }
    }
    // 63/64-octet labels
    { let mut m = h(); m.push(63); m.extend_from_slice(&[b'l'; 63]); m.push(0); v.push((m, 12)); }
    { let mut m = h(); m.push(64); m.extend_from_slice(&[b'l'; 64]); m.push(0); v.push((m, 12)); }
    v
}

/// pointer chains: segments that end in pointers to other segments (backward, forward, to
/// themselves, to other pointers); returns the message and the segment starts
fn chain_message(rng: &mut Rng) -> (Vec<u8>, Vec<usize>) {
    let mut m = header(0, 0, 0, 0);
    let k = rng.range(2, 6) as usize;
    // lay the segments out first with placeholder pointers
    let mut starts = vec![]; let mut ptr_at = vec![];
    for i in 0..k {
        starts.push(m.len());
        let nl = if rng.chance(1, 3) { 0 } else { rng.range(1, 2) };
        for _ in 0..nl { let l = rand_label(rng); m.push(l.len() as u8); m.extend_from_slice(&l); }
        if i == 0 && rng.chance(2, 3) || rng.chance(1, 6) { m.push(0); ptr_at.push(None); }
        else { ptr_at.push(Some(m.len())); m.extend_from_slice(&[0xc0, 0]); }
        if rng.chance(1, 4) { m.extend_from_slice(&[0, 0][..rng.range(1, 2) as usize]); }
    }
    for i in 0..k {
        if let Some(p) = ptr_at[i] {
            // mostly an earlier segment; sometimes itself, a later one, or a pointer position
            let t = match rng.below(8) { 0 => starts[i], 1 => *rng.pick(&starts[..]), 2 => ptr_at[rng.below(k as u64) as usize].unwrap_or(12), _ => starts[rng.below(i.max(1) as u64) as usize] };
            m[p] = 0xc0 | (t >> 8) as u8; m[p + 1] = t as u8;
        }
    }
    (m, starts)
}

/// fixed pointer chains (message, position of the name)
fn chain_corpus() -> Vec<(Vec<u8>, usize)> {
    let mk = |tail: &[u8]| { let mut m = header(0, 0, 0, 0); m.extend_from_slice(tail); m };
    vec![
        (mk(b"\x03org\x00\x01a\xc0\x0c\x03www\xc0\x11"), 21),                    // www -> a -> org.
        (mk(b"\x01a\xc0\x12\x00\x00\x03org\x00\x03www\xc0\x0c"), 23),          // second hop goes forward
        (mk(b"\xc0\x0c\x01x\xc0\x0c"), 14),                                         // pointer to a pointer to itself
        (mk(b"\xc0\x0c\xc0\x0c"), 14),
        (mk(b"\x00\xc0\x0c\xc0\x0d\x01a\xc0\x0f"), 17),                          // pointer -> pointer -> pointer -> root
        (mk(b"\x01a\xc0\x0c\x01b\xc0\x0c"), 16),                                   // second hop to the start of its own segment
        (mk(b"\x00\x01a\xc0\x0c\x01b\xc0\x0d\x01c\xc0\x11\x01d\xc0\x15"), 25), // four hops
        (mk(b"\x01a\xc0\x14\x00\x00\x00\x00\x01b\xc0\x0c\x01c\xc0\x14"), 24), // a -> (forward) b -> a ...
    ]
}

/// CNAME records whose RDATA is a (compressed) name: (message, position of the record, start and end of the RDATA)
fn cname_message(rng: &mut Rng, chain: bool) -> (Vec<u8>, usize, usize, usize) {
    let (mut m, starts) = if chain { chain_message(rng) } else { let mut m = header(0, 1, 0, 0); let mut np = vec![]; put_name(&mut m, rng, &mut np); put_name(&mut m, rng, &mut np); (m, np) };
    let pos = m.len();
    m.extend_from_slice(&[1, b'o', 0, 0, 5, 0, 1, 0, 0, 0, 9, 0, 0]);
    let rd = m.len();
    for _ in 0..rng.below(3) { let l = rand_label(rng); m.push(l.len() as u8); m.extend_from_slice(&l); }
    if rng.chance(1, 4) { m.push(0); } else { let t = if rng.chance(1, 8) { rd } else { *rng.pick(&starts[..]) }; m.push(0xc0 | (t >> 8) as u8); m.push(t as u8); }
    if rng.chance(1, 10) { m.push(0); }                     // trailing octet inside the RDATA
    let end = m.len();
    let l = (end - rd) as u16; m[rd - 2..rd].copy_from_slice(&l.to_be_bytes());
    if rng.chance(1, 4) { m.extend_from_slice(&[0, 1, 2][..rng.range(1, 3) as usize]); }
    (m, pos, rd, end)
}

/// large messages around the 14-bit pointer limit
fn big_corpus() -> Vec<(Vec<u8>, usize)> {
    let mut v = vec![];
    for target in [0x3ffeusize, 0x3fff, 0x4000, 0x4001] {
        let mut m = vec![0u8; 16420]; m[2] = 0x80;
        for i in 12..m.len() { m[i] = 0x07; }
        m[target] = 0;
        m[target - 2] = 1; m[target - 1] = b'q';
        let pos = m.len();
        m.extend_from_slice(&[1, b'p', 0xc0 | ((target >> 8) & 0x3f) as u8, target as u8]);
        v.push((m.clone(), pos));
        let t2 = target - 2;
        let l = m.len(); m[l - 2] = 0xc0 | ((t2 >> 8) & 0x3f) as u8; m[l - 1] = t2 as u8;
        v.push((m, pos));
    }
    { let mut m = vec![0u8; 16400]; m[0x3fff] = 0; let pos = m.len(); m.extend_from_slice(&[0xff, 0xff]); v.push((m, pos)); }
    // names that START at 16383 / 16384 / 16385 in a message > 16 KiB, read in place and
    // through a later pointer (only 16383 is addressable; c0|(x>>8)&3f wraps for the others)
    for at in [16383usize, 16384, 16385] {
        let mut m = vec![7u8; 16500]; for b in m[..12].iter_mut() { *b = 0; }
        m[at..at + 5].copy_from_slice(&[1, b'n', 1, b'z', 0]);
        v.push((m.clone(), at));
        let pos = m.len();
        m.extend_from_slice(&[1, b'p', 0xc0 | ((at >> 8) & 0x3f) as u8, at as u8]);
        v.push((m.clone(), pos));
        // and a chain: p2 -> p -> name
        let pos2 = m.len();
        m.extend_from_slice(&[1, b'r', 0xc0 | ((pos >> 8) & 0x3f) as u8, pos as u8]);
        v.push((m, pos2));
    }
    v
}

// ------------------------------------------------------------ build scripts

#[derive(Clone, Debug)]
enum Rd { A([u8; 4]), Raw(Vec<u8>), Ns(Vec<Vec<u8>>), CName(Vec<Vec<u8>>), Mx(u16, Vec<Vec<u8>>) }
#[derive(Clone, Debug)]
enum Op { Q(Vec<Vec<u8>>, u16), R(u8, Vec<Vec<u8>>, u32, Rd) }

const RAW_TYPE: u16 = 65280;

/// canonical item: (section, owner wire lower-cased, type, ttl, rdata canonical)
type Item = (u8, Vec<u8>, u16, u32, Vec<u8>);

fn lower(w: &[u8]) -> Vec<u8> { w.iter().map(|b| b.to_ascii_lowercase()).collect() }

fn expected(ops: &[Op]) -> Vec<Item> {
    ops.iter().map(|op| match op {
        Op::Q(n, t) => (0u8, lower(&wire(n)), *t, 0u32, vec![]),
        Op::R(s, n, ttl, rd) => {
            let (t, d) = match rd {
                Rd::A(o) => (1u16, o.to_vec()), Rd::Raw(b) => (RAW_TYPE, b.clone()),
                Rd::Ns(x) => (2, lower(&wire(x))), Rd::CName(x) => (5, lower(&wire(x))),
                Rd::Mx(p, x) => { let mut d = p.to_be_bytes().to_vec(); d.extend(lower(&wire(x))); (15, d) }
            };
            (*s, lower(&wire(n)), t, *ttl, d)
        }
    }).collect()
}

fn oname(labels: &[Vec<u8>]) -> OldName<Vec<u8>> { OldName::from_octets(wire(labels)).unwrap() }

fn build_old<T>(target: T, ops: &[Op]) -> Result<Vec<u8>, String>
where T: domain::base::wire::Composer + AsRef<[u8]> + AsMut<[u8]> + domain::dep::octseq::Truncate {
    use domain::rdata::{Cname as OCname, Mx as OMx, Ns as ONs, A as OA};
    let mut qb = OldBuilder::from_target(target).map_err(|_| "from_target".to_string())?.question();
    for op in ops { if let Op::Q(n, t) = op { qb.push((oname(n), Rtype::from_int(*t), Class::IN)).map_err(|e| format!("push q {}", e))?; } }
    macro_rules! sect { ($b:expr, $s:expr) => {{
        for op in ops { if let Op::R(s, n, ttl, rd) = op { if *s == $s {
            let (o, t) = (oname(n), Ttl::from_secs(*ttl));
            match rd {
                Rd::A(x) => $b.push((o, Class::IN, t, OA::from_octets(x[0], x[1], x[2], x[3]))),
                Rd::Raw(x) => $b.push((o, Class::IN, t, domain::base::rdata::UnknownRecordData::from_octets(Rtype::from_int(RAW_TYPE), x.clone()).unwrap())),
                Rd::Ns(x) => $b.push((o, Class::IN, t, ONs::new(oname(x)))),
                Rd::CName(x) => $b.push((o, Class::IN, t, OCname::new(oname(x)))),
                Rd::Mx(p, x) => $b.push((o, Class::IN, t, OMx::new(*p, oname(x)))),
            }.map_err(|e| format!("push r {}", e))?;
        } } }
    }}; }
    let mut ab = qb.answer(); sect!(ab, 1u8);
    let mut ub = ab.authority(); sect!(ub, 2u8);
    let mut db = ub.additional(); sect!(db, 3u8);
    Ok(db.finish().as_ref().to_vec())
}

/// new builder; returns (bytes, per-op success)
fn build_new(ops: &[Op], bufsize: usize, rev: bool) -> (Vec<u8>, Vec<bool>) {
    let mut buffer = vec![0u8; bufsize];
    let mut comp = NameCompressor::default();
    let mut b = MessageBuilder::new(&mut buffer, &mut comp, U16::new(0x1234), HeaderFlags::default());
    let mut okv = vec![];
    for op in ops {
        let ok = match op {
            Op::Q(n, t) => {
                let w = wire(n); let name: &Name = <&Name>::parse_bytes(&w).unwrap();
                if rev { b.push_question(&Question::<RevNameBuf> { qname: RevNameBuf::parse_bytes(&w).unwrap(), qtype: QType { code: U16::new(*t) }, qclass: QClass::IN }).is_ok() }
                else { b.push_question(&Question::<&Name> { qname: name, qtype: QType { code: U16::new(*t) }, qclass: QClass::IN }).is_ok() }
            }
            Op::R(s, n, ttl, rd) => {
                let w = wire(n); let name: &Name = <&Name>::parse_bytes(&w).unwrap();
                let (xw, raw): (Vec<u8>, Vec<u8>) = match rd { Rd::Ns(x) | Rd::CName(x) | Rd::Mx(_, x) => (wire(x), vec![]), Rd::Raw(r) => (vec![0], r.clone()), Rd::A(_) => (vec![0], vec![]) };
                let xn: &Name = <&Name>::parse_bytes(&xw).unwrap();
                macro_rules! push { ($rec:expr) => { match s { 1 => b.push_answer($rec).is_ok(), 2 => b.push_authority($rec).is_ok(), _ => b.push_additional($rec).is_ok() } }; }
                let ttl = TTL::from(*ttl);
                match rd {
                    Rd::Raw(_) => {
                        let rdata: &UnparsedRecordData = unsafe { UnparsedRecordData::new_unchecked(&raw) };
                        push!(&Record::<&Name, &UnparsedRecordData> { rname: name, rtype: RType { code: U16::new(RAW_TYPE) }, rclass: RClass::IN, ttl, rdata })
                    }
                    Rd::A(o) if rev => push!(&Record::<RevNameBuf, RecordData<'_, &Name>> { rname: RevNameBuf::parse_bytes(&w).unwrap(), rtype: RType::A, rclass: RClass::IN, ttl, rdata: RecordData::A(A { octets: *o }) }),
                    Rd::Ns(_) if rev => push!(&Record::<RevNameBuf, RecordData<'_, &Name>> { rname: RevNameBuf::parse_bytes(&w).unwrap(), rtype: RType::NS, rclass: RClass::IN, ttl, rdata: RecordData::Ns(Ns { server: xn }) }),
                    Rd::A(o) => push!(&Record::<&Name, RecordData<'_, &Name>> { rname: name, rtype: RType::A, rclass: RClass::IN, ttl, rdata: RecordData::A(A { octets: *o }) }),
                    Rd::Ns(_) => push!(&Record::<&Name, RecordData<'_, &Name>> { rname: name, rtype: RType::NS, rclass: RClass::IN, ttl, rdata: RecordData::Ns(Ns { server: xn }) }),
                    Rd::CName(_) => push!(&Record::<&Name, RecordData<'_, &Name>> { rname: name, rtype: RType::CNAME, rclass: RClass::IN, ttl, rdata: RecordData::CName(CName { name: xn }) }),
                    Rd::Mx(p, _) => push!(&Record::<&Name, RecordData<'_, &Name>> { rname: name, rtype: RType::MX, rclass: RClass::IN, ttl, rdata: RecordData::Mx(Mx { preference: U16::new(*p), exchange: xn }) }),
                }
            }
        };
        okv.push(ok);
    }
    let m = b.finish();
    let mut bytes = m.header.as_bytes().to_vec();
    bytes.extend_from_slice(&m.contents);
    (bytes, okv)
}

fn read_old(msg: &[u8]) -> Result<Vec<Item>, String> {
    use domain::rdata::{Cname as OCname, Mx as OMx, Ns as ONs};
    let m = OldMessage::from_octets(msg).map_err(|_| "short".to_string())?;
    let mut items: Vec<Item> = vec![];
    for q in m.question() { let q = q.map_err(|e| format!("question: {}", e))?; items.push((0, lower(&old_wire(q.qname())), q.qtype().to_int(), 0, vec![])); }
    let mut sec = m.answer().map_err(|e| format!("answer(): {}", e))?;
    let mut sno = 1u8;
    loop {
        for r in sec.by_ref() {
            let r = r.map_err(|e| format!("record: {}", e))?;
            let t = r.rtype().to_int();
            let d = match t {
                2 => lower(&old_wire(r.to_record::<ONs<ParsedName<&[u8]>>>().map_err(|e| format!("ns: {}", e))?.ok_or("ns none")?.data().nsdname())),
                5 => lower(&old_wire(r.to_record::<OCname<ParsedName<&[u8]>>>().map_err(|e| format!("cname: {}", e))?.ok_or("cname none")?.data().cname())),
                15 => { let x = r.to_record::<OMx<ParsedName<&[u8]>>>().map_err(|e| format!("mx: {}", e))?.ok_or("mx none")?; let mut d = x.data().preference().to_be_bytes().to_vec(); d.extend(lower(&old_wire(x.data().exchange()))); d }
                _ => { let x = r.to_record::<domain::base::rdata::UnknownRecordData<&[u8]>>().map_err(|e| format!("raw: {}", e))?.ok_or("raw none")?; let d: &[u8] = x.data().data(); d.to_vec() }
            };
            items.push((sno, lower(&old_wire(&r.owner())), t, r.ttl().as_secs(), d));
        }
        match sec.next_section().map_err(|e| format!("next_section: {}", e))? { Some(s) => { sec = s; sno += 1; } None => break }
    }
    Ok(items)
}

fn read_new(msg: &[u8]) -> Result<Vec<Item>, String> {
    let mut items: Vec<Item> = vec![];
    let p = MessageParser::new(msg).map_err(|_| "short".to_string())?;
    for it in p {
        let it = it.map_err(|_| format!("item {} fails to parse", items.len()))?;
        let (s, r) = match it {
            MessageItem::Question(q) => { items.push((0, lower(&unreverse(q.qname.as_bytes()).ok_or("revname")?), q.qtype.code.get(), 0, vec![])); continue; }
            MessageItem::Answer(r) => (1u8, r), MessageItem::Authority(r) => (2, r), MessageItem::Additional(r) => (3, r),
            MessageItem::Edns(_) => return Err("unexpected EDNS item".into()),
        };
        let d = match &r.rdata {
            RecordData::A(a) => a.octets.to_vec(),
            RecordData::Ns(x) => lower(x.server.as_bytes()),
            RecordData::CName(x) => lower(x.name.as_bytes()),
            RecordData::Mx(x) => { let mut d = x.preference.get().to_be_bytes().to_vec(); d.extend(lower(x.exchange.as_bytes())); d }
            RecordData::Unknown(_, u) => { let b: &[u8] = u.as_bytes(); b.to_vec() }
            _ => return Err("unexpected rdata variant".into()),
        };
        items.push((s, lower(&unreverse(r.rname.as_bytes()).ok_or("revname")?), r.rtype.code.get(), r.ttl.value.get(), d));
    }
    Ok(items)
}

fn rng_bit(rng: &mut Rng) -> bool { rng.chance(1, 2) }
fn rand_small(rng: &mut Rng) -> Vec<u8> { rng.pick(&[&b"a"[..], b"b", b"c", b"x", b"B", b"example", b"com", b"ab", b"\x01a", b"a\x01"]).to_vec() }

fn script_name(rng: &mut Rng, pool: &mut Vec<Vec<Vec<u8>>>) -> Vec<Vec<u8>> {
    // names sharing suffixes with earlier ones (and with each other's middles)
    let n = if !pool.is_empty() && rng.chance(3, 5) {
        let base = rng.pick(&pool[..]).clone();
        match rng.below(5) {
            0 => base,
            1 => { let k = rng.below(base.len() as u64 + 1) as usize; let mut v = vec![rand_small(rng)]; v.extend_from_slice(&base[k..]); v }
            2 => { let mut v = vec![rand_small(rng), rand_small(rng)]; v.extend_from_slice(&base); v }
            3 => { let mut v = base.clone(); if !v.is_empty() { let i = rng.below(v.len() as u64) as usize; v[i] = rand_small(rng); } v }
            _ => { let mut v = base.clone(); if v.len() > 1 { let i = rng.below(v.len() as u64) as usize; v.remove(i); } v }
        }
    } else { (0..rng.range(0, 4)).map(|_| rand_small(rng)).collect() };
    let n: Vec<Vec<u8>> = if wire(&n).len() > 255 { vec![] } else { n };
    pool.push(n.clone());
    n
}

fn gen_script(rng: &mut Rng, pad_to: Option<usize>) -> Vec<Op> {
    let mut pool = vec![]; let mut ops = vec![];
    for _ in 0..rng.below(3) { ops.push(Op::Q(script_name(rng, &mut pool), 1)); }
    if let Some(target) = pad_to {
        let mut size = 12 + ops.iter().map(|o| if let Op::Q(n, _) = o { wire(n).len() + 4 } else { 0 }).sum::<usize>();
        while size + 11 < target {
            let l = (target - size - 11).min(4000);
            ops.push(Op::R(1, vec![], 1, Rd::Raw(vec![0x07; l]))); size += 11 + l;
        }
    }
    let mut sec = 1u8;
    for _ in 0..rng.range(1, 8) {
        if rng.chance(1, 5) && sec < 3 { sec += 1; }
        let owner = script_name(rng, &mut pool);
        let rd = match rng.below(6) { 0 => Rd::A([192, 0, 2, rng.u8()]), 1 => { let k = rng.below(12) as usize; Rd::Raw(rng.bytes(k)) }, 2 | 3 => Rd::Ns(script_name(rng, &mut pool)), 4 => Rd::CName(script_name(rng, &mut pool)), _ => Rd::Mx(rng.u16(), script_name(rng, &mut pool)) };
        ops.push(Op::R(sec, owner, rng.below(100000) as u32, rd));
    }
    ops
}

fn script_str(ops: &[Op]) -> String {
    let nm = |n: &Vec<Vec<u8>>| hex(&wire(n));
    ops.iter().map(|o| match o {
        Op::Q(n, t) => format!("Q:{}:{}", nm(n), t),
        Op::R(s, n, ttl, rd) => format!("R{}:{}:{}:{}", s, nm(n), ttl, match rd { Rd::A(o) => format!("A{}", hex(o)), Rd::Raw(b) => format!("RAW#{}", b.len()), Rd::Ns(x) => format!("NS{}", nm(x)), Rd::CName(x) => format!("CNAME{}", nm(x)), Rd::Mx(p, x) => format!("MX{}/{}", p, nm(x)) }),
    }).collect::<Vec<_>>().join(",")
}

fn first_diff(a: &[Item], b: &[Item]) -> String {
    for i in 0..a.len().max(b.len()) {
        if a.get(i) != b.get(i) {
            let f = |x: Option<&Item>| x.map(|x| format!("(sec {} owner {} type {} ttl {} rdata {})", x.0, hex(&x.1), x.2, x.3, if x.4.len() > 80 { format!("#{}", x.4.len()) } else { hex(&x.4) })).unwrap_or("-".into());
            return format!("item {}: expected {} read {}", i, f(a.get(i)), f(b.get(i)));
        }
    }
    "-".into()
}

fn run_script(cx: &mut Ctx, ops: &[Op], kind: &str, bufsize: usize, with_old: bool) {
    cx.idx += 1;
    if !cx.out.wants(cx.idx) { return; }
    let tag = format!("script buf={} {}", bufsize, script_str(ops));
    cx.out.begin(&tag);
    cx.out.oracle_case(&tag, true, kind);
    let want = expected(ops);
    let mut outputs: Vec<(&str, Vec<u8>, Vec<Item>)> = vec![];
    if with_old {
        for (nm, r) in [("old_static", catch(|| build_old(StaticCompressor::new(Vec::new()), ops))),
                        ("old_tree", catch(|| build_old(TreeCompressor::new(Vec::new()), ops))),
                        ("old_hash", catch(|| build_old(HashCompressor::new(Vec::new()), ops)))] {
            match r {
                Ok(Ok(b)) => outputs.push((nm, b, want.clone())),
                Ok(Err(e)) => cx.verdict(false, "old_builder_rejects_script", &tag, &format!("{}: {}", nm, e)),
                Err(p) => cx.verdict(false, "panic_old_builder", &tag, &format!("{}: {}", nm, p)),
            }
        }
    }
    for (nm, rev) in [("new", false), ("new_rev", true)] {
    let opsv = ops.to_vec();
    match catch(move || build_new(&opsv, bufsize, rev)) {
        Ok((b, okv)) => {
            let w: Vec<Item> = want.iter().zip(okv.iter()).filter(|(_, ok)| **ok).map(|(i, _)| i.clone()).collect();
            if with_old { cx.verdict(okv.iter().all(|x| *x), "new_builder_rejects_script", &tag, &format!("{:?}", okv)); }
            outputs.push((nm, b, w));
        }
        Err(p) => {
            let cls = if p.contains("overflow") { "new_compressor_pointer_overflow" } else if p.contains("did not correspond") { "new_builder_stale_compressor_panic" }
                else if p.contains("valid last label") { "new_compressor_label_boundary_panic" } else { "panic_new_builder" };
            cx.verdict(false, cls, &tag, &format!("{}: {}", nm, p));
        }
    }
    }
    for (nm, bytes, want) in &outputs {
        let is_new = nm.starts_with("new");
        let b1 = bytes.clone(); let b2 = bytes.clone();
        let ro = catch(move || read_old(&b1)); let rn = catch(move || read_new(&b2));
        for (reader, r) in [("old", ro), ("new", rn)] {
            let ctx = format!("built by {} ({} octets) read by {}", nm, bytes.len(), reader);
            let dump = if bytes.len() < 400 { hex(bytes) } else { "".into() };
            match r {
                Err(p) => cx.verdict(false, if reader == "old" { "panic_old" } else { "panic_new" }, &tag, &format!("{}: {}", ctx, p)),
                Ok(Err(e)) => cx.verdict(false, if *nm == "new_rev" { "new_revname_compressor_bad_pointer" } else if is_new { "new_compressor_bad_pointer" } else { "built_old_unreadable" }, &tag, &format!("{}: {} :: {}", ctx, e, dump)),
                Ok(Ok(items)) => {
                    let ok = &items == want;
                    // a difference confined to names (owner / name-bearing RDATA) is the compressor's
                    let names_only = items.len() == want.len() && items.iter().zip(want.iter()).all(|(a, b)| a.0 == b.0 && a.2 == b.2 && a.3 == b.3 && (a.4 == b.4 || [2u16, 5, 15].contains(&a.2)));
                    let cls = if is_new && names_only { (if *nm == "new_rev" { "new_revname_compressor_bad_pointer" } else { "new_compressor_bad_pointer" }).to_string() } else if is_new { format!("built_new_read_{}_mismatch", reader) } else { format!("built_old_read_{}_mismatch", reader) };
                    cx.verdict(ok, &cls, &tag, &format!("{}: {} :: {}", ctx, first_diff(want, &items), dump));
                }
            }
        }
    }
}

// ------------------------------------------------------------ typed RDATA names, whole messages

/// a CNAME record: old codec, new codec with NameBuf and with RevNameBuf (the RDATA name goes
/// through the exact-parse entry points ParseMessageBytes of both name types)
fn cname_case(cx: &mut Ctx, msg: &[u8], pos: usize, rd: usize, end: usize) {
    use domain::rdata::Cname as OCname;
    cx.idx += 1;
    if !cx.out.wants(cx.idx) { return; }
    let tag = format!("cname {} {}", hex(msg), pos);
    cx.out.begin(&tag);
    cx.out.oracle_case(&tag, true, "cname");
    let old = flat(catch(|| {
        let mut p = Parser::from_ref(msg); p.seek(pos).map_err(|_| ())?;
        let r = ParsedRecord::parse(&mut p).map_err(|_| ())?;
        let c = r.to_record::<OCname<ParsedName<&[u8]>>>().map_err(|_| ())?.ok_or(())?;
        Ok((old_wire(c.data().cname()), p.pos()))
    }));
    let na = flat(catch(|| {
        let (r, e) = Record::<NameBuf, RecordData<'_, NameBuf>>::split_message_bytes(&msg[12..], pos - 12).map_err(|_| ())?;
        match r.rdata { RecordData::CName(c) => Ok((c.name.as_bytes().to_vec(), e + 12)), _ => Err(()) }
    }));
    let nb = flat(catch(|| {
        let (r, e) = Record::<RevNameBuf, RecordData<'_, RevNameBuf>>::split_message_bytes(&msg[12..], pos - 12).map_err(|_| ())?;
        match r.rdata { RecordData::CName(c) => Ok((unreverse(c.name.as_bytes()).ok_or(())?, e + 12)), _ => Err(()) }
    }));
    let panicked = matches!(na, Err(true)) || matches!(nb, Err(true));
    cx.verdict(!panicked, "panic_new", &tag, "typed CNAME parse panicked");
    cx.verdict(!matches!(old, Err(true)), "panic_old", &tag, "old CNAME parse panicked");
    cx.verdict(na == nb, "new_name_type_mismatch", &tag, &format!("RecordData<NameBuf> {:?} RecordData<RevNameBuf> {:?}", na, nb));
    let class = classify(&msg[..end.min(msg.len())], rd);
    match (&old, &na) {
        (Ok(a), Ok(b)) => cx.verdict(a == b, "content_mismatch", &tag, &format!("old {:?} new {:?}", a, b)),
        (Err(_), Err(_)) => cx.verdict(true, "", "", ""),
        (a, b) => cx.mismatch("cname", a.is_ok(), b.is_ok(), class, &tag, &format!("old={:?} new={:?}", a, b)),
    }
}

/// whole-message iteration: the new MessageParser against the old Message (questions, then
/// every record of the three sections), and T2 kind `mparse`.  The records carry types the new
/// RecordData does not know (their typed parse cannot fail) or are the OPT record.
/// true when every record the untyped reader finds (following the header counts) has a type
/// whose typed RecordData parse cannot fail on well-framed RDATA: a type the new RecordData does
/// not know, or OPT (whose option framing the model checks).  Otherwise the typed parse of the
/// real iterator may refuse RDATA that neither the model nor the old Message iteration looks at.
fn opaque_only(msg: &[u8]) -> bool {
    const KNOWN: [u16; 19] = [1, 2, 5, 6, 12, 13, 15, 16, 17, 28, 33, 39, 43, 46, 47, 48, 50, 51, 63];
    let m = msg.to_vec();
    catch(move || {
        let Ok(mm) = <&Message>::parse_bytes(&m) else { return true };
        let c = &mm.contents;
        let counts = [mm.header.counts.questions.get(), mm.header.counts.answers.get(), mm.header.counts.authorities.get(), mm.header.counts.additionals.get()];
        let mut off = 0usize;
        for _ in 0..counts[0] { match Question::<NameBuf>::split_message_bytes(c, off) { Ok((_, e)) => off = e, Err(_) => return true } }
        for s in 1..4 { for _ in 0..counts[s] {
            match Record::<NameBuf, &UnparsedRecordData>::split_message_bytes(c, off) {
                Ok((r, e)) => {
                    off = e;
                    let t = r.rtype.code.get();
                    if KNOWN.contains(&t) { return false; }
                    // an OPT record (possibly produced by a shifted interpretation of other octets) whose
                    // options are not well framed: the new codec checks the framing, the old iteration does not
                    let rd: &[u8] = r.rdata;
                    if t == 41 && <&Opt>::parse_bytes(rd).is_err() { return false; }
                }
                Err(_) => return true,
            }
        } }
        true
    }).unwrap_or(true)
}

fn mparse_case(cx: &mut Ctx, msg: &[u8], kind: &str) {
    cx.idx += 1;
    if !cx.out.wants(cx.idx) { return; }
    if !opaque_only(msg) { cx.out.count("mparse:skipped-typed-rdata"); return; }
    let case = format!("mparse {}", hex(msg));
    cx.out.begin(&case);
    let mv = msg.to_vec();
    let new = catch(move || {
        let mut p = match MessageParser::new(&mv) { Ok(p) => p, Err(_) => return ("Short".to_string(), None, 0usize, 0usize) };
        let mut items: Vec<String> = vec![]; let mut complete = true;
        while let Some(it) = p.next() {
            match it {
                Err(_) => { complete = false; break; }
                Ok(MessageItem::Question(q)) => items.push(format!("Q:{}:{}:{}", hex(&unreverse(q.qname.as_bytes()).unwrap_or_default()), q.qtype.code.get(), q.qclass.code.get())),
                Ok(MessageItem::Edns(e)) => items.push(format!("E:{}:{}:{}:{}:{}", e.max_udp_payload.get(), e.ext_rcode, e.version, e.flags.bits(), (*e.data).as_bytes().len())),
                Ok(MessageItem::Answer(r)) | Ok(MessageItem::Authority(r)) | Ok(MessageItem::Additional(r)) => {
                    let rdlen = match &r.rdata { RecordData::Unknown(_, u) => { let b: &[u8] = u.as_bytes(); b.len() as i64 } RecordData::Opt(o) => o.as_bytes().len() as i64, _ => -1 };
                    items.push(format!("R:{}:{}:{}:{}:{}", hex(&unreverse(r.rname.as_bytes()).unwrap_or_default()), r.rtype.code.get(), r.rclass.code.get(), r.ttl.value.get(), rdlen));
                }
            }
        }
        // after an error the iterator is fused
        let fused = p.next().is_none();
        let n = items.len();
        (format!("Ok {} {} {} {}", if items.is_empty() { "-".to_string() } else { items.join(",") }, p.offset(), if complete { "complete" } else { "error" }, if fused { "fused" } else { "notfused" }), Some(complete), n, p.offset())
    });
    let (obs, ncomplete, nitems, stop) = match new { Ok(x) => x, Err(_) => ("Panic".to_string(), None, 0, 0) };
    cx.out.case(&case, &obs, true, kind);
    cx.verdict(obs != "Panic", "panic_new", &case, "MessageParser panicked");
    let old: Result<(usize, bool), bool> = flat(catch(|| {
        let m = OldMessage::from_octets(msg).map_err(|_| ())?;
        let mut n = 0usize;
        for q in m.question() { if q.is_err() { return Ok((n, false)); } n += 1; }
        let mut sec = match m.answer() { Ok(s) => s, Err(_) => return Ok((n, false)) };
        loop {
            for r in sec.by_ref() { if r.is_err() { return Ok((n, false)); } n += 1; }
            match sec.next_section() { Ok(Some(s)) => sec = s, Ok(None) => break, Err(_) => return Ok((n, false)) }
        }
        Ok((n, true))
    }));
    match (&old, ncomplete) {
        (Err(true), _) => cx.verdict(false, "panic_old", &case, "old Message iteration panicked"),
        (Err(false), None) => cx.verdict(true, "", "", ""),
        (Ok((on, oc)), Some(nc)) => {
            // where the new iterator stopped with an error an item starts whose owner name may be in
            // one of the two known classes (old reader accepts the pointer, new reader refuses it):
            // then the old codec legitimately reads further
            let class = if !nc && 12 + stop <= msg.len() { classify(msg, 12 + stop) } else { "none" };
            if *on > nitems && !nc && class != "none" {
                cx.mismatch("message", true, false, class, &case, &format!("old read {} items, new stopped after {} at offset {} (owner name class {}) :: {}", on, nitems, 12 + stop, class, obs));
            } else {
                cx.verdict(*on == nitems, "message_item_count_mismatch", &case, &format!("old read {} items, new read {} items ({})", on, nitems, obs));
                if *oc != nc { cx.verdict(false, if nc { "accept_reject_mismatch_message_new_accepts" } else { "accept_reject_mismatch_message_old_accepts" }, &case,
                    &format!("header counts {:?}: old complete={} new complete={} :: {}", &msg[4..12], oc, nc, obs)); }
                else { cx.verdict(true, "", "", ""); }
            }
        }
        (a, b) => cx.verdict(false, "accept_reject_mismatch_message_header", &case, &format!("old {:?} new {:?}", a.is_ok(), b)),
    }
}

/// a well-formed message of questions, opaque-typed records and an optional OPT record;
/// returns the octets and the offsets behind each item
fn counted_message(rng: &mut Rng) -> (Vec<u8>, Vec<usize>) {
    let counts = [rng.below(3) as u16, rng.below(3) as u16, rng.below(2) as u16, rng.below(3) as u16];
    let mut m = header(counts[0], counts[1], counts[2], counts[3]);
    let mut np: Vec<usize> = vec![]; let mut bounds = vec![m.len()];
    let name = |m: &mut Vec<u8>, rng: &mut Rng, np: &mut Vec<usize>| {
        let here = m.len();
        for _ in 0..rng.below(3) { let l = rand_small(rng); m.push(l.len() as u8); m.extend_from_slice(&l); }
        if np.is_empty() || rng.chance(1, 2) { m.push(0); } else { let t = *rng.pick(&np[..]); m.push(0xc0 | (t >> 8) as u8); m.push(t as u8); }
        if m.len() - here > 2 { np.push(here); }
    };
    for _ in 0..counts[0] { name(&mut m, rng, &mut np); m.extend_from_slice(&[0xff, 0, 0, 1]); bounds.push(m.len()); }
    for s in 1..4 {
        for i in 0..counts[s] {
            if s == 3 && i + 1 == counts[3] && rng.chance(1, 2) {
                let d = opt_bytes(&[(10, rng.bytes(8))]);
                m.extend_from_slice(&[0, 0, 41, 4, 208, 0, 0, 0x80, 0]); m.extend_from_slice(&(d.len() as u16).to_be_bytes()); m.extend_from_slice(&d);
            } else {
                name(&mut m, rng, &mut np);
                let t: u16 = *rng.pick(&[65280u16, 99, 250, 65534]);
                m.extend_from_slice(&t.to_be_bytes()); m.extend_from_slice(&[0, 1]); m.extend_from_slice(&rng.u32().to_be_bytes());
                let k = rng.below(9) as usize; let d = rng.bytes(k);
                m.extend_from_slice(&(k as u16).to_be_bytes()); m.extend_from_slice(&d);
            }
            bounds.push(m.len());
        }
    }
    (m, bounds)
}

fn mparse_cases(cx: &mut Ctx, rng: &mut Rng, scale: usize) {
    // fixed: bare headers with and without counts; the seeded shape QD=1 AN=2 with one answer
    for c in [[0u16, 0, 0, 0], [1, 0, 0, 0], [0, 1, 0, 0], [0, 0, 0, 1], [0, 0, 0, 65535]] { mparse_case(cx, &header(c[0], c[1], c[2], c[3]), "mparse:corpus"); }
    for an in [0u8, 1, 2, 3] {
        let mut b = vec![0, 42, 0x81, 0x80, 0, 1, 0, an, 0, 0, 0, 0];
        b.extend_from_slice(b"\x03www\x07example\x03org\x00\x00\x01\x00\x01");
        b.extend_from_slice(&[0xc0, 12, 0xff, 0, 0, 1, 0, 0, 14, 16, 0, 4, 127, 0, 0, 1]);
        mparse_case(cx, &b, "mparse:corpus");
    }
    mparse_case(cx, &[0u8; 11], "mparse:corpus");
    // an owner name of a known pointer class inside a whole message: the old codec reads the record, the new one stops
    { let mut b = header(0, 1, 0, 0); b.extend_from_slice(&[3, 1, 0x7a, 0, 0xc0, 0x0d, 0xff, 0, 0, 1, 0, 0, 0, 1, 0, 0]); mparse_case(cx, &b, "mparse:corpus"); }
    { let mut b = header(0, 1, 0, 0); b.extend_from_slice(&[0xc0, 0x0b, 0xff, 0, 0, 1, 0, 0, 0, 1, 0, 0]); mparse_case(cx, &b, "mparse:corpus"); }
    mparse_case(cx, &unhex("1234818000020001000100020178017800ff000001017800ff00000113d5d5bd0001480201610000630001a5113b4a00065618cc989b31026162c02300630001c421644a0004b8c82d3b"), "mparse:corpus");
    for _ in 0..160 * scale {
        let (m, bounds) = counted_message(rng);
        mparse_case(cx, &m, "mparse:valid");
        // over- and understated counts, alone and with a cut on an item boundary / inside an item
        for _ in 0..3 {
            let mut x = m.clone();
            let f = 4 + 2 * rng.below(4) as usize;
            let cur = u16::from_be_bytes([x[f], x[f + 1]]);
            let nv = match rng.below(4) { 0 => cur.wrapping_add(1), 1 => cur.wrapping_add(rng.range(2, 4) as u16), 2 => cur.saturating_sub(1), _ => cur };
            x[f..f + 2].copy_from_slice(&nv.to_be_bytes());
            match rng.below(4) {
                0 => {}
                1 | 2 => { let b = *rng.pick(&bounds[..]); x.truncate(b); }
                _ => { let k = rng.range(12, x.len() as u64) as usize; x.truncate(k); }
            }
            mparse_case(cx, &x, "mparse:counts");
        }
    }
}

// ------------------------------------------------------------ uncompressed names, typed RDATA

/// the uncompressed (flat) name parsers of the new API - `<&Name>`, NameBuf, RevNameBuf
/// parse_bytes / split_bytes - against the old flat parser Name::from_octets, and T2 kind `flat`
fn flat_case(cx: &mut Ctx, b: &[u8], kind: &str) {
    use domain::new::base::wire::SplitBytes;
    cx.idx += 1;
    if !cx.out.wants(cx.idx) { return; }
    let case = format!("flat {}", hex(b));
    cx.out.begin(&case);
    let bb = b.to_vec();
    let r = catch(move || {
        let a = <&Name>::split_bytes(&bb).map(|(n, rest)| (n.as_bytes().to_vec(), rest.len())).ok();
        let a2 = NameBuf::split_bytes(&bb).map(|(n, rest)| (n.as_bytes().to_vec(), rest.len())).ok();
        let p1 = <&Name>::parse_bytes(&bb).map(|n| n.as_bytes().to_vec()).ok();
        let p2 = NameBuf::parse_bytes(&bb).map(|n| n.as_bytes().to_vec()).ok();
        let rv = RevNameBuf::parse_bytes(&bb).ok();
        let p3 = rv.as_ref().and_then(|n| unreverse(n.as_bytes()));
        // the conversion re-parses; a panic there is reported on its own below
        let conv = match rv { None => Some(None), Some(n) => catch(move || { let nb: NameBuf = n.into(); nb.as_bytes().to_vec() }).ok().map(Some) };
        (a, a2, p1, p2, p3, conv)
    });
    let old_exact = |x: &[u8]| OldName::from_octets(x.to_vec()).is_ok();
    match r {
        Err(p) => { cx.out.case(&case, "Panic", true, kind); cx.verdict(false, "panic_new", &case, &p); }
        Ok((a, a2, p1, p2, p3, conv)) => {
            let obs = match &a { Some((w, rl)) => format!("Ok {} {}", hex(w), rl), None => "Err".to_string() };
            cx.out.case(&case, &obs, a.is_some(), kind);
            cx.verdict(a == a2, "new_flat_name_mismatch", &case, &format!("<&Name>::split_bytes {:?} NameBuf::split_bytes {:?}", a, a2));
            cx.verdict(conv.is_some(), "panic_new", &case, "NameBuf::from(RevNameBuf) panicked");
            let conv = conv.unwrap_or(p3.clone());
            cx.verdict(p1 == p2 && p2 == p3 && p3 == conv, "new_flat_name_mismatch", &case, &format!("parse_bytes: &Name {:?} NameBuf {:?} RevNameBuf {:?} NameBuf::from(RevNameBuf) {:?}", p1.as_ref().map(|x| hex(x)), p2.as_ref().map(|x| hex(x)), p3.as_ref().map(|x| hex(x)), conv.as_ref().map(|x| hex(x))));
            // exact parse: both codecs accept the same octet strings as a name
            let o = old_exact(b);
            if o != p1.is_some() { cx.verdict(false, if o { "accept_reject_mismatch_flat_name_old_accepts" } else { "accept_reject_mismatch_flat_name_new_accepts" }, &case, &format!("old Name::from_octets accepts={} new <&Name>::parse_bytes accepts={} ({} octets)", o, p1.is_some(), b.len())); }
            else { cx.verdict(p1.as_ref().map_or(true, |w| w == b), "content_mismatch", &case, "flat name differs from its octets"); }
            // split: the prefix the new parser takes is a name for the old parser
            if let Some((w, _)) = &a { cx.verdict(old_exact(w), "accept_reject_mismatch_flat_name_new_accepts", &case, "prefix taken by split_bytes is not a name for the old codec"); }
        }
    }
}

fn flat_cases(cx: &mut Ctx, rng: &mut Rng, scale: usize) {
    for total in 250usize..=258 { for fill in [b'x', 0x01] { flat_case(cx, &wire(&name_of_len(total, fill)), "flat:len"); let mut w = wire(&name_of_len(total, fill)); w.extend_from_slice(&[1, 2]); flat_case(cx, &w, "flat:len"); } }
    flat_case(cx, &[0], "flat:len"); flat_case(cx, &[], "flat:len"); flat_case(cx, &[0xc0, 0x0c], "flat:len"); flat_case(cx, &[1, b'a', 0xc0, 0], "flat:len");
    for _ in 0..200 * scale {
        let mut w = if rng.chance(1, 3) { wire(&name_of_len(rng.range(240, 258) as usize, b'k')) } else { wire(&rand_name(rng)) };
        match rng.below(6) {
            0 => { let i = rng.below(w.len() as u64) as usize; w[i] = w[i].wrapping_add(1); }
            1 => { let k = rng.below(w.len() as u64 + 1) as usize; w.truncate(k); }
            2 => { let i = rng.below(w.len() as u64) as usize; w[i] = *rng.pick(&[0x40u8, 0x80, 0xc0, 0x3f, 0]); }
            3 => { let k = rng.below(4) as usize; w.extend(rng.bytes(k)); }
            _ => {}
        }
        flat_case(cx, &w, "flat:random");
    }
}

/// a name inside RDATA: written out, or some leading labels and a pointer to the question name
#[derive(Clone)]
struct RdName { bytes: Vec<u8>, full: Vec<u8> }

fn rd_name(rng: &mut Rng, qname: &[Vec<u8>], qpos: usize, allow_ptr: bool, long: bool) -> RdName {
    if long { let n = name_of_len(rng.range(253, 256) as usize, b'd'); let w = wire(&n); return RdName { bytes: w.clone(), full: w }; }
    let lead: Vec<Vec<u8>> = (0..rng.below(3)).map(|_| rand_small(rng)).collect();
    if allow_ptr && rng.chance(2, 3) {
        let mut b = vec![]; for l in &lead { b.push(l.len() as u8); b.extend_from_slice(l); }
        b.push(0xc0 | (qpos >> 8) as u8); b.push(qpos as u8);
        let mut all = lead.clone(); all.extend_from_slice(qname);
        RdName { bytes: b, full: wire(&all) }
    } else { let w = wire(&lead); RdName { bytes: w.clone(), full: w } }
}

/// records of the types both codecs know whose RDATA carries domain names, read through the new
/// dispatcher RecordData (what MessageParser uses) and through the old typed record data
fn typed_name_case(cx: &mut Ctx, rng: &mut Rng) {
    use domain::rdata::{Cname as OCname, Dname as ODname, Mx as OMx, Ns as ONs, Ptr as OPtr, Rp as ORp, Soa as OSoa, Srv as OSrv};
    cx.idx += 1;
    if !cx.out.wants(cx.idx) { return; }
    let qname: Vec<Vec<u8>> = vec![b"example".to_vec(), b"org".to_vec()];
    let mut m = header(1, 1, 0, 0);
    let qpos = m.len(); m.extend_from_slice(&wire(&qname)); m.extend_from_slice(&[0, 1, 0, 1]);
    let pos = m.len();
    m.extend_from_slice(&[0xc0, qpos as u8]);
    // (type, names decompressed by both codecs?)  SRV and DNAME carry their name uncompressed
    let (t, compressible): (u16, bool) = *rng.pick(&[(2u16, true), (5, true), (12, true), (15, true), (6, true), (17, true), (33, false), (39, false)]);
    let long = rng.chance(1, 6);
    let n1 = rd_name(rng, &qname, qpos, compressible, long);
    let n2 = rd_name(rng, &qname, qpos, compressible, false);
    let mut rd = vec![];
    match t {
        15 => { rd.extend_from_slice(&[0, 10]); rd.extend_from_slice(&n1.bytes); }
        6 => { rd.extend_from_slice(&n1.bytes); rd.extend_from_slice(&n2.bytes); rd.extend_from_slice(&[0, 0, 0, 1, 0, 0, 0, 2, 0, 0, 0, 3, 0, 0, 0, 4, 0, 0, 0, 5]); }
        17 => { rd.extend_from_slice(&n1.bytes); rd.extend_from_slice(&n2.bytes); }
        33 => { rd.extend_from_slice(&[0, 1, 0, 2, 0, 53]); rd.extend_from_slice(&n1.bytes); }
        _ => rd.extend_from_slice(&n1.bytes),
    }
    let two = t == 6 || t == 17;
    m.extend_from_slice(&t.to_be_bytes()); m.extend_from_slice(&[0, 1, 0, 0, 0, 60]); m.extend_from_slice(&(rd.len() as u16).to_be_bytes()); m.extend_from_slice(&rd);
    let want: Vec<Vec<u8>> = if two { vec![n1.full.clone(), n2.full.clone()] } else { vec![n1.full.clone()] };
    let tag = format!("typed type={} {} {}", t, hex(&m), pos);
    cx.out.begin(&tag);
    cx.out.oracle_case(&tag, true, "typed-names");
    let mm = m.clone();
    let old: Result<Vec<Vec<u8>>, bool> = flat(catch(move || {
        let mut p = Parser::from_ref(&mm[..]); p.seek(pos).map_err(|_| ())?;
        let r = ParsedRecord::parse(&mut p).map_err(|_| ())?;
        macro_rules! one { ($ty:ty, $f:ident) => {{ let x = r.to_record::<$ty>().map_err(|_| ())?.ok_or(())?; vec![old_wire(x.data().$f())] }}; }
        Ok(match t {
            2 => one!(ONs<ParsedName<&[u8]>>, nsdname), 5 => one!(OCname<ParsedName<&[u8]>>, cname), 12 => one!(OPtr<ParsedName<&[u8]>>, ptrdname),
            15 => one!(OMx<ParsedName<&[u8]>>, exchange), 33 => one!(OSrv<ParsedName<&[u8]>>, target), 39 => one!(ODname<ParsedName<&[u8]>>, dname),
            6 => { let x = r.to_record::<OSoa<ParsedName<&[u8]>>>().map_err(|_| ())?.ok_or(())?; vec![old_wire(x.data().mname()), old_wire(x.data().rname())] }
            _ => { let x = r.to_record::<ORp<ParsedName<&[u8]>>>().map_err(|_| ())?.ok_or(())?; vec![old_wire(x.data().mbox()), old_wire(x.data().txt())] }
        })
    }));
    let mm = m.clone();
    let new: Result<Vec<Vec<u8>>, bool> = flat(catch(move || {
        let (r, _) = Record::<NameBuf, RecordData<'_, NameBuf>>::split_message_bytes(&mm[12..], pos - 12).map_err(|_| ())?;
        Ok(match &r.rdata {
            RecordData::Ns(x) => vec![x.server.as_bytes().to_vec()], RecordData::CName(x) => vec![x.name.as_bytes().to_vec()],
            RecordData::Ptr(x) => vec![x.name.as_bytes().to_vec()], RecordData::Mx(x) => vec![x.exchange.as_bytes().to_vec()],
            RecordData::Soa(x) => vec![x.mname.as_bytes().to_vec(), x.rname.as_bytes().to_vec()],
            RecordData::Rp(x) => vec![x.mailbox.as_bytes().to_vec(), x.texts.as_bytes().to_vec()],
            RecordData::Srv(x) => vec![x.name.as_bytes().to_vec()], RecordData::DName(x) => vec![x.name.as_bytes().to_vec()],
            _ => return Err(()),
        })
    }));
    // the same record through the whole-message iterator
    let mm = m.clone();
    let via_parser = catch(move || { let mut ok = true; if let Ok(p) = MessageParser::new(&mm) { for it in p { if it.is_err() { ok = false; } } } else { ok = false; } ok });
    match (&old, &new) {
        (Err(true), _) => cx.verdict(false, "panic_old", &tag, "old typed record data parse panicked"),
        (_, Err(true)) => cx.verdict(false, "panic_new", &tag, "new RecordData parse panicked"),
        (Ok(a), Ok(b)) => {
            cx.verdict(a == b && a.iter().map(|x| lower(x)).collect::<Vec<_>>() == want.iter().map(|x| lower(x)).collect::<Vec<_>>(), "content_mismatch", &tag, &format!("names in RDATA: old {:?} new {:?} written {:?}", a, b, want));
            cx.verdict(matches!(via_parser, Ok(true)), "accept_reject_mismatch_typed_rdata_old_accepts", &tag, "Record::split_message_bytes reads the record, MessageParser does not");
        }
        (Err(false), Err(false)) => cx.verdict(true, "", "", ""),
        (a, b) => cx.verdict(false, if a.is_ok() { "accept_reject_mismatch_typed_rdata_old_accepts" } else { "accept_reject_mismatch_typed_rdata_new_accepts" }, &tag,
            &format!("type {}: old typed parse ok={} new RecordData parse ok={}", t, a.is_ok(), b.is_ok())),
    }
}

// ------------------------------------------------------------ EDNS

#[derive(Clone, PartialEq, Debug)]
struct Edns { udp: u16, ext: u8, ver: u8, flags: u16, do_: bool, data: Vec<u8> }

fn opt_bytes(opts: &[(u16, Vec<u8>)]) -> Vec<u8> {
    let mut v = vec![];
    for (c, d) in opts { v.extend_from_slice(&c.to_be_bytes()); v.extend_from_slice(&(d.len() as u16).to_be_bytes()); v.extend_from_slice(d); }
    v
}

/// old codec: Message::opt() / OptRecord
fn edns_old(msg: &[u8]) -> Result<Option<Edns>, bool> {
    flat(catch(|| {
        let m = OldMessage::from_octets(msg).map_err(|_| ())?;
        Ok(m.opt().map(|o| {
            let mut data = vec![];
            for x in o.opt().iter::<domain::base::opt::UnknownOptData<_>>() {
                if let Ok(x) = x { data.extend_from_slice(&x.code().to_int().to_be_bytes()); let d: &[u8] = x.data().as_ref(); data.extend_from_slice(&(d.len() as u16).to_be_bytes()); data.extend_from_slice(d); }
            }
            Edns { udp: o.udp_payload_size(), ext: o.rcode(m.header()).ext(), ver: o.version(), flags: o.as_record().ttl().as_secs() as u16, do_: o.dnssec_ok(), data }
        }))
    }))
}

fn edns_of_new(e: &EdnsRecord<&Opt>) -> Edns {
    Edns { udp: e.max_udp_payload.get(), ext: e.ext_rcode, ver: e.version, flags: e.flags.bits(), do_: e.flags.is_dnssec_ok(), data: (*e.data).as_bytes().to_vec() }
}

/// new codec, three ways: MessageParser item / TryFrom<Record> / EdnsRecord::split_bytes at `pos`
fn edns_new(msg: &[u8], pos: usize) -> [Result<Option<Edns>, bool>; 3] {
    let a = flat(catch(|| {
        for it in MessageParser::new(msg).map_err(|_| ())? {
            if let MessageItem::Edns(e) = it.map_err(|_| ())? { return Ok(Some(edns_of_new(&e))); }
        }
        Ok(None)
    }));
    let b = flat(catch(|| {
        let (r, _) = Record::<NameBuf, RecordData<'_, NameBuf>>::split_message_bytes(&msg[12..], pos - 12).map_err(|_| ())?;
        let e = EdnsRecord::<&Opt>::try_from(r).map_err(|_| ())?;
        Ok(Some(edns_of_new(&e)))
    }));
    let c = flat(catch(|| {
        use domain::new::base::wire::SplitBytes;
        let (e, _) = EdnsRecord::<&Opt>::split_bytes(&msg[pos..]).map_err(|_| ())?;
        Ok(Some(edns_of_new(&e)))
    }));
    [a, b, c]
}

/// T2: EdnsRecord::<&Opt>::split_bytes on raw octets against the model
fn edns_t2(cx: &mut Ctx, b: &[u8], kind: &str) {
    use domain::new::base::wire::SplitBytes;
    let bb = b.to_vec();
    let r = catch(move || EdnsRecord::<&Opt>::split_bytes(&bb).map(|(e, rest)| (edns_of_new(&e), rest.len())).map_err(|_| ()));
    let obs = match r { Ok(Ok((e, rl))) => format!("Ok {} {} {} {} {} {}", e.udp, e.ext, e.ver, e.flags, hex(&e.data), rl), Ok(Err(())) => "Err".to_string(), Err(_) => "Panic".to_string() };
    cx.out.case(&format!("edns {}", hex(b)), &obs, obs.starts_with("Ok"), kind);
}

fn edns_compare(cx: &mut Ctx, tag: &str, who: &str, want: &Edns, got: &Result<Option<Edns>, bool>) {
    match got {
        Err(true) => cx.verdict(false, if who.starts_with("old") { "panic_old" } else { "panic_new" }, tag, &format!("{} panicked", who)),
        Err(false) | Ok(None) => cx.verdict(false, &format!("edns_unreadable_{}", if who.starts_with("old") { "old" } else { "new" }), tag, &format!("{}: no OPT record read", who)),
        Ok(Some(g)) => {
            cx.verdict(g.udp == want.udp, "edns_field_mismatch_udp_payload_size", tag, &format!("{}: {} expected {}", who, g.udp, want.udp));
            cx.verdict(g.ext == want.ext, "edns_field_mismatch_ext_rcode", tag, &format!("{}: {} expected {}", who, g.ext, want.ext));
            cx.verdict(g.ver == want.ver, "edns_field_mismatch_version", tag, &format!("{}: {} expected {}", who, g.ver, want.ver));
            cx.verdict(g.flags == want.flags, "edns_field_mismatch_flags", tag, &format!("{}: {:04x} expected {:04x}", who, g.flags, want.flags));
            cx.verdict(g.do_ == want.do_, "edns_field_mismatch_dnssec_ok", tag, &format!("{}: {} expected {}", who, g.do_, want.do_));
            cx.verdict(g.data == want.data, "edns_field_mismatch_options", tag, &format!("{}: {} expected {}", who, hex(&g.data), hex(&want.data)));
        }
    }
}

fn edns_one(cx: &mut Ctx, want: &Edns, rcode: u8, with_q: bool, opts: &[(u16, Vec<u8>)]) {
    cx.idx += 1;
    if !cx.out.wants(cx.idx) { return; }
    let tag = format!("edns udp={} ext={} ver={} flags={:04x} rcode={} q={} opt={}", want.udp, want.ext, want.ver, want.flags, rcode, with_q, hex(&want.data));
    cx.out.begin(&tag);
    cx.out.oracle_case(&tag, want.ext != 0 || want.ver != 0 || want.flags != 0, "edns");
    // (1) hand-written wire
    let mut m = header(with_q as u16, 0, 0, 1); m[3] = (m[3] & 0xf0) | (rcode & 0x0f);
    if with_q { m.extend_from_slice(b"\x03www\x07example\x03org\x00\x00\x01\x00\x01"); }
    let pos = m.len();
    m.extend_from_slice(&[0, 0, 41]); m.extend_from_slice(&want.udp.to_be_bytes());
    m.extend_from_slice(&[want.ext, want.ver]); m.extend_from_slice(&want.flags.to_be_bytes());
    m.extend_from_slice(&(want.data.len() as u16).to_be_bytes()); m.extend_from_slice(&want.data);
    edns_t2(cx, &m[pos..], "edns:t2");
    { let mut x = m[pos..].to_vec(); x.extend_from_slice(&[1, 2, 3]); edns_t2(cx, &x, "edns:t2"); }
    edns_compare(cx, &tag, "old<-wire", want, &edns_old(&m));
    for (w, r) in ["new(parser)<-wire", "new(try_from)<-wire", "new(split_bytes)<-wire"].iter().zip(edns_new(&m, pos).iter()) { edns_compare(cx, &tag, w, want, r); }
    // (2) built by the new MessageBuilder::push_edns
    let w2 = want.clone();
    let built = catch(move || {
        let mut buffer = vec![0u8; 12 + 64 + w2.data.len()];
        let mut comp = NameCompressor::default();
        let mut b = MessageBuilder::new(&mut buffer, &mut comp, U16::new(7), HeaderFlags::default());
        if with_q { let n: NameBuf = "www.example.org.".parse().unwrap(); b.push_question(&Question::<&Name> { qname: &*n, qtype: QType::A, qclass: QClass::IN }).map_err(|_| ())?; }
        let flags: EdnsFlags = *<&EdnsFlags>::parse_bytes(&w2.flags.to_be_bytes()).map_err(|_| ())?;
        let opt: &Opt = <&Opt>::parse_bytes(&w2.data).map_err(|_| ())?;
        b.push_edns(&EdnsRecord::<&Opt> { max_udp_payload: U16::new(w2.udp), ext_rcode: w2.ext, version: w2.ver, flags, data: SizePrefixed::new(opt) }).map_err(|_| ())?;
        let m = b.finish();
        let mut bytes = m.header.as_bytes().to_vec(); bytes.extend_from_slice(&m.contents);
        Ok::<_, ()>(bytes)
    });
    match built {
        Ok(Ok(bytes)) => {
            let p = bytes.len() - 11 - want.data.len();
            edns_compare(cx, &tag, "old<-new_builder", want, &edns_old(&bytes));
            for (w, r) in ["new(parser)<-new_builder", "new(try_from)<-new_builder", "new(split_bytes)<-new_builder"].iter().zip(edns_new(&bytes, p).iter()) { edns_compare(cx, &tag, w, want, r); }
        }
        Ok(Err(())) => cx.verdict(false, "new_builder_rejects_edns", &tag, "push_edns failed"),
        Err(p) => cx.verdict(false, "panic_new_builder", &tag, &p),
    }
    // (3) built by the old builder (it can only set the DO flag)
    if want.flags & 0x7fff == 0 {
        let (w3, o3) = (want.clone(), opts.to_vec());
        let built = catch(move || {
            use domain::base::iana::{OptRcode, OptionCode, Rcode};
            use domain::dep::octseq::OctetsBuilder;
            let mut qb = OldBuilder::new_vec().question();
            if with_q { qb.push((OldName::<Vec<u8>>::from_octets(b"\x03www\x07example\x03org\x00".to_vec()).unwrap(), Rtype::A)).map_err(|_| ())?; }
            let mut ab = qb.additional();
            ab.opt(|o| {
                o.set_udp_payload_size(w3.udp);
                o.set_rcode(OptRcode::from_parts(Rcode::masked_from_int(rcode & 0x0f), w3.ext));
                o.set_version(w3.ver);
                o.set_dnssec_ok(w3.do_);
                for (c, d) in &o3 { o.push_raw_option(OptionCode::from_int(*c), d.len() as u16, |t| t.append_slice(d))?; }
                Ok(())
            }).map_err(|_| ())?;
            Ok::<_, ()>(ab.finish())
        });
        match built {
            Ok(Ok(bytes)) => {
                let p = bytes.len() - 11 - want.data.len();
                edns_compare(cx, &tag, "old<-old_builder", want, &edns_old(&bytes));
                for (w, r) in ["new(parser)<-old_builder", "new(try_from)<-old_builder", "new(split_bytes)<-old_builder"].iter().zip(edns_new(&bytes, p).iter()) { edns_compare(cx, &tag, w, want, r); }
            }
            Ok(Err(())) => cx.verdict(false, "old_builder_rejects_edns", &tag, "opt() failed"),
            Err(p) => cx.verdict(false, "panic_old_builder", &tag, &p),
        }
    }
}

fn edns_cases(cx: &mut Ctx, rng: &mut Rng, scale: usize) {
    let cookie = (10u16, vec![6, 148, 57, 104, 176, 18, 234, 57]);
    let optsets: Vec<Vec<(u16, Vec<u8>)>> = vec![vec![], vec![cookie.clone()], vec![(65001, vec![]), (65002, vec![1, 2, 3])], vec![(12, vec![0; 20]), cookie.clone()]];
    // fixed: every field non-zero on its own and together (BADVERS = ext 1, BADCOOKIE = 23 -> ext 1 rcode 7)
    for (udp, ext, ver, flags, rcode) in [(1232u16, 0u8, 0u8, 0u16, 0u8), (512, 1, 0, 0, 0), (4096, 0, 1, 0, 0), (1232, 1, 0, 0x8000, 7), (1232, 0, 0, 0x8000, 0), (65535, 2, 3, 0x8000, 1),
                                         (0, 255, 0, 0, 15), (1, 0, 255, 0x4000, 0), (1400, 0x12, 0x34, 0x5678, 3), (1400, 0x34, 0x12, 0xffff, 3), (1232, 0, 0, 0x0001, 0), (1232, 0x80, 0x01, 0x7fff, 0)] {
        for (i, os) in optsets.iter().enumerate() {
            let want = Edns { udp, ext, ver, flags, do_: flags & 0x8000 != 0, data: opt_bytes(os) };
            edns_one(cx, &want, rcode, i % 2 == 0, os);
        }
    }
    for _ in 0..120 * scale {
        let flags = match rng.below(4) { 0 => 0, 1 => 0x8000, 2 => rng.u16(), _ => 0x8000 | (rng.u16() & 0x00ff) };
        let os: Vec<(u16, Vec<u8>)> = (0..rng.below(4)).map(|_| { let k = rng.below(12) as usize; (*rng.pick(&[3u16, 8, 10, 11, 12, 15, 65001, 0]), rng.bytes(k)) }).collect();
        let want = Edns { udp: *rng.pick(&[0u16, 512, 1232, 4096, 65535, 1400]), ext: if rng.chance(1, 2) { rng.u8() } else { rng.below(3) as u8 }, ver: if rng.chance(1, 2) { rng.u8() } else { rng.below(2) as u8 }, flags, do_: flags & 0x8000 != 0, data: opt_bytes(&os) };
        edns_one(cx, &want, rng.below(16) as u8, rng.chance(1, 2), &os);
    }
    // raw octets around a valid record: truncations, wrong prefix, wrong sizes
    for _ in 0..150 * scale {
        let os: Vec<(u16, Vec<u8>)> = (0..rng.below(3)).map(|_| { let k = rng.below(6) as usize; (rng.u16(), rng.bytes(k)) }).collect();
        let d = opt_bytes(&os);
        let mut b = vec![0u8, 0, 41]; b.extend_from_slice(&rng.u16().to_be_bytes()); b.push(rng.u8()); b.push(rng.u8()); b.extend_from_slice(&rng.u16().to_be_bytes());
        b.extend_from_slice(&(d.len() as u16).to_be_bytes()); b.extend_from_slice(&d);
        match rng.below(6) {
            0 => { let k = rng.below(b.len() as u64 + 1) as usize; b.truncate(k); }
            1 => { let i = rng.below(3) as usize; b[i] = b[i].wrapping_add(1); }
            2 => { let i = 9 + rng.below(2) as usize; b[i] = b[i].wrapping_add(rng.range(1, 3) as u8); }
            3 => { if b.len() > 13 { let i = 11 + rng.below((b.len() - 11) as u64) as usize; b[i] = b[i].wrapping_add(1); } }
            4 => { let k = rng.below(5) as usize; b.extend(rng.bytes(k)); }
            _ => {}
        }
        edns_t2(cx, &b, "edns:t2");
    }
    // malformed option framing: both codecs must refuse the record alike
    for tail in [vec![0u8, 10, 0, 9, 1, 2], vec![0, 10, 0], vec![0, 10, 0, 0, 0], vec![0, 10, 255, 255]] {
        cx.idx += 1;
        if !cx.out.wants(cx.idx) { continue; }
        let mut m = header(0, 0, 0, 1); let pos = m.len();
        m.extend_from_slice(&[0, 0, 41, 4, 208, 1, 0, 0x80, 0]); m.extend_from_slice(&(tail.len() as u16).to_be_bytes()); m.extend_from_slice(&tail);
        let tag = format!("edns-raw {}", hex(&m));
        cx.out.oracle_case(&tag, true, "edns:malformed");
        edns_t2(cx, &m[pos..], "edns:t2");
        let o = edns_old(&m); let n = edns_new(&m, pos);
        let o_ok = matches!(o, Ok(Some(_)));
        for (w, r) in ["parser", "try_from", "split_bytes"].iter().zip(n.iter()) {
            let n_ok = matches!(r, Ok(Some(_)));
            let panicked = matches!(r, Err(true)) || matches!(o, Err(true));
            cx.verdict(!panicked, "panic_new", &tag, w);
            cx.verdict(o_ok == n_ok, if o_ok { "accept_reject_mismatch_edns_old_accepts" } else { "accept_reject_mismatch_edns_new_accepts" }, &tag, &format!("old accepts={} new({}) accepts={}", o_ok, w, n_ok));
        }
    }
}

/// RDATA longer than a 16-bit size prefix can hold, through the safe API (Vec<u8> implements
/// BuildInMessage): the builder must refuse with an error like the old builder's LongRecordData,
/// not panic.
fn long_rdata_case(cx: &mut Ctx, rdlen: usize) {
    cx.idx += 1;
    if !cx.out.wants(cx.idx) { return; }
    let tag = format!("long-rdata {}", rdlen);
    cx.out.begin(&tag);
    cx.out.oracle_case(&tag, true, "script:long-rdata");
    let r = catch(move || {
        let mut buffer = vec![0u8; 12 + rdlen + 64];
        let mut comp = NameCompressor::default();
        let mut b = MessageBuilder::new(&mut buffer, &mut comp, U16::new(1), HeaderFlags::default());
        let w = [1u8, b'a', 0]; let name: &Name = <&Name>::parse_bytes(&w).unwrap();
        let ok = b.push_answer(&Record::<&Name, Vec<u8>> { rname: name, rtype: RType { code: U16::new(RAW_TYPE) }, rclass: RClass::IN, ttl: TTL::from(1), rdata: vec![7u8; rdlen] }).is_ok();
        let m = b.finish();
        let mut bytes = m.header.as_bytes().to_vec(); bytes.extend_from_slice(&m.contents);
        (ok, bytes)
    });
    let old_ok = domain::base::rdata::UnknownRecordData::from_octets(Rtype::from_int(RAW_TYPE), vec![7u8; rdlen]).is_ok();
    match r {
        Err(p) => cx.verdict(false, "new_builder_rdata_overflow_panic", &tag, &format!("old builder: {}; new builder panicked: {}", if old_ok { "accepts" } else { "LongRecordData error" }, p)),
        Ok((ok, bytes)) => {
            cx.verdict(ok == old_ok, "new_builder_rdata_length_mismatch", &tag, &format!("old accepts={} new accepts={}", old_ok, ok));
            if ok { let b2 = bytes.clone(); let ro = catch(move || read_old(&b2)); cx.verdict(matches!(ro, Ok(Ok(ref v)) if v.len() == 1 && v[0].4.len() == rdlen), "built_new_read_old_mismatch", &tag, "record of maximal RDATA does not read back"); }
        }
    }
}

/// T2 for the compressor model: Name::build_in_message for a list of names,
/// starting at contents offset `base` of a zeroed buffer; observation = the
/// octets written.  Oracle: every name reads back (both readers) as pushed.
fn bim_case(cx: &mut Ctx, base: usize, names: &[Vec<Vec<u8>>], kind: &str) { bim_case_x(cx, base, names, kind, false); bim_case_x(cx, base, names, kind, true); }

/// `rev`: the names are written as RevNameBuf (compress_revname; T2 kind `bimrev`)
fn bim_case_x(cx: &mut Ctx, base: usize, names: &[Vec<Vec<u8>>], kind: &str, rev: bool) {
    cx.idx += 1;
    if !cx.out.wants(cx.idx) { return; }
    let wires: Vec<Vec<u8>> = names.iter().map(|n| wire(n)).collect();
    let case = format!("{} {} {}", if rev { "bimrev" } else { "bim" }, base, wires.iter().map(|w| hex(w)).collect::<Vec<_>>().join(","));
    cx.out.begin(&case);
    let ws = wires.clone();
    let r = catch(move || {
        let mut buf = vec![0u8; 12 + base + 300 * ws.len() + 16];
        let mut comp = NameCompressor::default();
        let mut off = base; let mut starts = vec![];
        for w in &ws {
            starts.push(off);
            if rev { let n = RevNameBuf::parse_bytes(w).unwrap(); off = n.build_in_message(&mut buf[12..], off, &mut comp).unwrap(); }
            else { let n: &Name = <&Name>::parse_bytes(w).unwrap(); off = n.build_in_message(&mut buf[12..], off, &mut comp).unwrap(); }
        }
        buf.truncate(12 + off);
        (buf, starts)
    });
    match r {
        Err(p) => {
            cx.out.case(&case, "Panic", true, &if rev { format!("{}:rev", kind) } else { kind.to_string() });
            let cls = if p.contains("overflow") { "new_compressor_pointer_overflow" } else if p.contains("valid last label") { "new_compressor_label_boundary_panic" } else if p.contains("left != right") || p.contains("assertion") { "new_compressor_unused_slot_debug_assert" } else { "panic_new_builder" };
            cx.verdict(false, cls, &case, &p);
        }
        Ok((buf, starts)) => {
            cx.out.case(&case, &format!("Ok {}", hex(&buf[12 + base..])), true, &if rev { format!("{}:rev", kind) } else { kind.to_string() });
            let bad = if rev { "new_revname_compressor_bad_pointer" } else { "new_compressor_bad_pointer" };
            for (w, st) in wires.iter().zip(starts.iter()) {
                let n = new_split(&buf, 12 + st); let o = old_name(&buf, 12 + st);
                let okn = matches!(&n, Obs::Ok(x, _) if lower(x) == lower(w));
                let oko = matches!(&o, Obs::Ok(x, _) if lower(x) == lower(w));
                cx.verdict(okn && oko, bad, &case, &format!("name {} at contents offset {} reads back as new={} old={}", hex(w), st, n.show(), o.show()));
            }
        }
    }
}

// ------------------------------------------------------------ main

fn main() {
    let a = args();
    let out = Out::new(&a, "C19", 20);
    let mut cx = Ctx { out, idx: 0, per_class: Default::default() };
    let mut rng = Rng::new(a.seed);
    let scale = a.scale.max(1) as usize * if a.thorough { 25 } else { 1 };

    // (1) corpus
    for (m, p) in corpus() { cx.name_case(&m, p, "corpus", true); cx.item_case(&m, p); }
    for (m, p) in big_corpus() { cx.name_case(&m, p, "big", false); }

    // pointer chains through all four name readers
    for (m, p) in chain_corpus() { cx.name_case(&m, p, "chain", true); }
    for _ in 0..300 * scale {
        let (m, starts) = chain_message(&mut rng);
        for p in &starts { cx.name_case(&m, *p, "chain", false); }
    }
    for _ in 0..250 * scale {
        let ch = rng_bit(&mut rng); let (m, pos, rd, end) = cname_message(&mut rng, ch);
        cname_case(&mut cx, &m, pos, rd, end);
        cx.name_case(&m[..end], rd, "cname", false);
    }
    mparse_cases(&mut cx, &mut rng, scale);
    flat_cases(&mut cx, &mut rng, scale);
    for _ in 0..400 * scale { typed_name_case(&mut cx, &mut rng); }
    // (2) hand-made compressed messages, all name positions and some others
    for _ in 0..500 * scale {
        let (m, np) = handmade(&mut rng);
        for p in &np { let all = rng.chance(1, 4); cx.name_case(&m, *p, "handmade", all); }
        if rng.chance(1, 3) { let p = rng.range(12, m.len() as u64) as usize; cx.name_case(&m, p, "handmade-off", false); }
        if rng.chance(1, 2) { let p = if np.is_empty() { 12 } else { *rng.pick(&np[..]) }; cx.item_case(&m, p); }
        cx.message_case(&m);
    }
    // (3) structure-aware mutations
    for _ in 0..900 * scale {
        let (mut m, np) = handmade(&mut rng);
        mutate(&mut rng, &mut m, &np);
        if m.len() < 12 { continue; }
        let k = rng.range(1, 4);
        for _ in 0..k {
            let p = if !np.is_empty() && rng.chance(2, 3) { (*rng.pick(&np[..])).min(m.len()) } else { rng.range(12, m.len() as u64 + 1) as usize };
            let all = rng.chance(1, 6);
            cx.name_case(&m, p.max(12), "mutated", all);
            if rng.chance(1, 3) { cx.item_case(&m, p.max(12)); }
        }
        cx.message_case(&m);
    }
    // (4) raw random, every offset
    for _ in 0..350 * scale {
        let m = raw_random(&mut rng);
        for p in 12..=m.len().min(12 + 14) { cx.name_case(&m, p, "random", false); }
        cx.item_case(&m, 12);
        cx.message_case(&m);
    }
    // (5) messages built by both builders, every offset as a name position
    for _ in 0..60 * scale {
        let ops = gen_script(&mut rng, None);
        let opsv = ops.clone();
        if let Ok((b, _)) = catch(move || build_new(&opsv, 2000, false)) {
            if b.len() <= 300 { for p in 12..b.len() { cx.name_case(&b, p, "built-new", false); } cx.message_case(&b); }
        }
        if let Ok(Ok(b)) = catch(|| build_old(TreeCompressor::new(Vec::new()), &ops)) {
            if b.len() <= 300 { for p in (12..b.len()).step_by(2) { cx.name_case(&b, p, "built-old", false); } cx.message_case(&b); }
        }
    }

    // (6) build scripts: fixed regressions first
    let l = |s: &[&str]| -> Vec<Vec<u8>> { s.iter().map(|x| x.as_bytes().to_vec()).collect() };
    // the parent-attachment defect: b.c, a.c, x.a.b.c
    run_script(&mut cx, &[Op::Q(l(&["b", "c"]), 1), Op::R(1, l(&["a", "c"]), 60, Rd::A([1, 2, 3, 4])), Op::R(1, l(&["x", "a", "b", "c"]), 60, Rd::A([1, 2, 3, 4]))], "script:regress", 600, true);
    run_script(&mut cx, &[Op::R(1, l(&["b", "c"]), 60, Rd::Ns(l(&["a", "c"]))), Op::R(1, l(&["x", "a", "b", "c"]), 60, Rd::CName(l(&["y", "a", "c"])))], "script:regress", 600, true);
    run_script(&mut cx, &[Op::Q(l(&["b", "c"]), 1), Op::R(1, l(&["x", "b", "c"]), 60, Rd::A([1, 2, 3, 4]))], "script:regress", 600, true);
    // pointer arithmetic at the 16 KiB boundary
    for base in [16340usize, 16360, 16372, 16380, 16384, 16395, 16400] {
        let mut ops = vec![];
        let mut size = 12; while size + 11 < base { let k = (base - size - 11).min(4000); ops.push(Op::R(1, vec![], 1, Rd::Raw(vec![7; k]))); size += 11 + k; }
        ops.push(Op::R(1, l(&["a", "example"]), 60, Rd::A([1, 1, 1, 1])));
        ops.push(Op::R(1, l(&["b", "example"]), 60, Rd::Ns(l(&["c", "a", "example"]))));
        ops.push(Op::R(1, l(&["a", "example"]), 60, Rd::A([1, 1, 1, 2])));
        run_script(&mut cx, &ops, "script:boundary", 20000, true);
    }
    // a push that does not fit, followed by pushes that do (new builder only)
    run_script(&mut cx, &[Op::Q(l(&["abc", "de"]), 1), Op::Q(l(&["de"]), 1)], "script:truncated", 22, false);
    run_script(&mut cx, &[Op::R(1, l(&["a", "de"]), 1, Rd::Raw(vec![1; 40])), Op::R(1, l(&["b", "de"]), 1, Rd::A([1, 2, 3, 4])), Op::R(1, l(&["c", "b", "de"]), 1, Rd::A([1, 2, 3, 4]))], "script:truncated", 12 + 45, false);
    // folding collisions: a label LENGTH octet n must only ever match the octet n.
    // For every n in 1..=63 an earlier name holds, inside one label, the octet f(n)
    // followed by the n octets of the next name's label, for the foldings
    // f = |0x20, ^0x20, &!0x20, +32 (what a sloppy case fold would identify with n).
    for n in 1usize..=63 {
        for f in [n | 0x20, n ^ 0x20, n & !0x20, n + 32, n.wrapping_sub(32) & 0xff] {
            if f == n || f > 255 { continue; }
            let x: Vec<u8> = (0..n).map(|i| b'a' + ((i * 7 + n) % 26) as u8).collect();
            for lead in [1usize, 3] {
                if lead + 1 + n > 63 { continue; }
                let mut big = vec![b'k'; lead]; big.push(f as u8); big.extend_from_slice(&x);
                let first = vec![big.clone(), b"com".to_vec()];
                let second = vec![b"q".to_vec(), x.clone(), b"com".to_vec()];
                bim_case(&mut cx, 0, &[first.clone(), second.clone()], "bim:fold");
                // the colliding label in the middle of the earlier name / no shared tail
                bim_case(&mut cx, 0, &[vec![b"w".to_vec(), big.clone(), b"com".to_vec()], second.clone(), vec![x.clone(), b"com".to_vec()]], "bim:fold");
                bim_case(&mut cx, 0, &[vec![big.clone()], vec![b"q".to_vec(), x.clone()]], "bim:fold");
            }
        }
    }
    // octets that a `| 0x20` fold identifies but to_ascii_lowercase does not
    for (a, b) in [(b'@', b'`'), (b'[', b'{'), (b'\\', b'|'), (b']', b'}'), (b'^', b'~'), (b'_', 0x7fu8), (0x00u8, b' '), (0x01u8, b'!'), (0x10u8, b'0'), (0x1fu8, b'?'), (0x80u8, 0xa0u8), (0xc1u8, 0xe1u8), (b'A', b'a'), (b'Z', b'z')] {
        for (l1, l2) in [(vec![b'x', a, b'y'], vec![b'x', b, b'y']), (vec![a], vec![b]), (vec![b, b'm'], vec![a, b'm'])] {
            bim_case(&mut cx, 0, &[vec![l1.clone(), b"org".to_vec()], vec![l2.clone(), b"org".to_vec()], vec![b"n".to_vec(), l2.clone(), b"org".to_vec()], vec![b"n".to_vec(), l1.clone(), b"org".to_vec()]], "bim:fold");
        }
    }
    // EDNS
    edns_cases(&mut cx, &mut rng, scale);
    // 65536 and more: finding new_builder_rdata_overflow_panic (pending/C19-sizeprefixed-overflow-error.diff);
    // (repaired in /repo by 074d5d8; these cases must stay silent)
    for n in [65534usize, 65535] { long_rdata_case(&mut cx, n); }
    for n in [65536usize, 70000] { long_rdata_case(&mut cx, n); }
    // compressor alone (T2 against the model)
    bim_case(&mut cx, 0, &[l(&["b", "c"]), l(&["a", "c"]), l(&["x", "a", "b", "c"])], "bim:regress");
    bim_case(&mut cx, 0, &[l(&["a", "ab"]), l(&["\x01a", "ab"])], "bim:regress");
    // a label whose 16-bit hash is 0 under a hit in slot 0: unused slots have hash 0 and parent 0
    for zero in ["1rr", "wk7c", "nz4d", "4d0e"] { bim_case(&mut cx, 0, &[l(&["a", "com"]), l(&[zero, "com"])], "bim:regress"); }
    bim_case(&mut cx, 0, &[l(&["example", "org"]), l(&["unequal", "ORG"]), l(&["www", "Example", "org"]), vec![], l(&["org"])], "bim:regress");
    for base in [16350usize, 16358, 16359, 16360, 16370, 16371, 16372, 16383, 16384] {
        bim_case(&mut cx, base, &[l(&["a", "example"]), l(&["b", "example"]), l(&["c", "a", "example"])], "bim:boundary");
    }
    for _ in 0..400 * scale {
        let mut pool = vec![];
        let k = rng.range(1, 7);
        let names: Vec<Vec<Vec<u8>>> = (0..k).map(|_| script_name(&mut rng, &mut pool)).collect();
        let base = match rng.below(8) { 0 => rng.range(16330, 16400) as usize, 1 => rng.range(1, 40) as usize, _ => 0 };
        bim_case(&mut cx, base, &names, if base > 1000 { "bim:16k" } else { "bim:small" });
    }
    // many names: eviction of compressor entries (32 slots)
    for _ in 0..12 * scale {
        let mut pool = vec![];
        let names: Vec<Vec<Vec<u8>>> = (0..rng.range(30, 60)).map(|_| { let mut n = script_name(&mut rng, &mut pool); if rng.chance(1, 2) { n.insert(0, vec![b'k', b'0' + rng.below(10) as u8, b'a' + rng.below(26) as u8]); } if wire(&n).len() > 255 { vec![] } else { n } }).collect();
        bim_case(&mut cx, 0, &names, "bim:many");
    }
    for _ in 0..500 * scale {
        let ops = gen_script(&mut rng, None);
        run_script(&mut cx, &ops, "script:small", 4000, true);
    }
    for _ in 0..40 * scale {
        let target = rng.range(16300, 16420) as usize;
        let ops = gen_script(&mut rng, Some(target));
        run_script(&mut cx, &ops, "script:16k", 24000, true);
    }
    for _ in 0..150 * scale {
        let ops = gen_script(&mut rng, None);
        let bufsize = 12 + rng.range(5, 90) as usize;
        run_script(&mut cx, &ops, "script:tight", bufsize, false);
    }
    cx.out.finish(&[]);
}
