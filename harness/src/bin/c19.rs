//! probe stage (to be replaced by the full harness)
use domain::base::name::ParsedName;
use domain::dep::octseq::Parser;
use domain::new::base::build::{AsBytes, BuildInMessage, MessageBuilder, NameCompressor};
use domain::new::base::name::{Name, NameBuf, RevNameBuf};
use domain::new::base::parse::SplitMessageBytes;
use domain::new::base::wire::{ParseBytes, U16};
use domain::new::base::{HeaderFlags, QClass, QType, Question};
use dv_harness::*;

fn old_name(msg: &[u8], pos: usize) -> Result<(Vec<Vec<u8>>, usize), String> {
    let mut parser = Parser::from_ref(msg);
    parser.seek(pos).map_err(|e| format!("{}", e))?;
    let n = ParsedName::parse(&mut parser).map_err(|e| format!("{}", e))?;
    let labels: Vec<Vec<u8>> = n.iter().map(|l| l.as_slice().to_vec()).collect();
    Ok((labels, parser.pos()))
}

fn new_name(msg: &[u8], pos: usize) -> Result<(Vec<Vec<u8>>, usize), String> {
    let (n, end) = NameBuf::split_message_bytes(&msg[12..], pos - 12).map_err(|_| "err".to_string())?;
    let labels: Vec<Vec<u8>> = n.labels().map(|l| l.as_bytes().to_vec()).collect();
    Ok((labels, end + 12))
}

fn wire(labels: &[&[u8]]) -> Vec<u8> {
    let mut v = vec![];
    for l in labels { v.push(l.len() as u8); v.extend_from_slice(l); }
    v.push(0);
    v
}

fn main() {
    std::panic::set_hook(Box::new(|_| {}));
    let mut m = vec![0u8; 12];
    m.extend_from_slice(&[3, 1, 0x7a, 0, 0xc0, 0x0d]);
    println!("own-seg old={:?} new={:?}", catch(|| old_name(&m, 12)), catch(|| new_name(&m, 12)));
    let mut m = vec![0u8; 12];
    m.extend_from_slice(&[0xc0, 0x0b]);
    println!("hdr old={:?} new={:?}", catch(|| old_name(&m, 12)), catch(|| new_name(&m, 12)));

    // compressor: b.c ; a.c ; x.a.b.c
    let mut buf = vec![0u8; 200];
    let mut comp = NameCompressor::default();
    let names: Vec<Vec<u8>> = vec![wire(&[b"b", b"c"]), wire(&[b"a", b"c"]), wire(&[b"x", b"a", b"b", b"c"])];
    let mut off = 0usize;
    let mut starts = vec![];
    for w in &names {
        let n: &Name = <&Name>::parse_bytes(w).unwrap();
        starts.push(off);
        off = n.build_in_message(&mut buf[12..], off, &mut comp).unwrap();
    }
    println!("contents {}", hex(&buf[12..12 + off]));
    for (i, s) in starts.iter().enumerate() {
        println!("name {} intended {} old={:?} new={:?}", i, hex(&names[i]), catch(|| old_name(&buf[..12 + off], 12 + s)), catch(|| new_name(&buf[..12 + off], 12 + s)));
    }

    // truncated push then another push
    let r = catch(|| {
        let mut buffer = [0u8; 22];
        let mut compressor = NameCompressor::default();
        let mut b = MessageBuilder::new(&mut buffer, &mut compressor, U16::new(0), HeaderFlags::default());
        let q1 = Question::<RevNameBuf> { qname: "abc.de.".parse().unwrap(), qtype: QType::A, qclass: QClass::IN };
        let r1 = b.push_question(&q1).is_ok();
        let q2 = Question::<RevNameBuf> { qname: "de.".parse().unwrap(), qtype: QType::A, qclass: QClass::IN };
        let r2 = b.push_question(&q2).is_ok();
        let nb: NameBuf = "de.".parse().unwrap();
        let q3 = Question::<&Name> { qname: &*nb, qtype: QType::A, qclass: QClass::IN };
        let r3 = b.push_question(&q3).is_ok();
        format!("{} {} {} {}", r1, r2, r3, hex(&b.message().contents))
    });
    println!("trunc-then-push {:?}", r);
    for base in [16350usize, 16360, 16365, 16370, 16372, 16380, 16383, 16384] {
        let r = catch(move || {
            let mut buf = vec![0u8; 17000];
            let mut comp = NameCompressor::default();
            let a = wire(&[b"a", b"example"]); let b2 = wire(&[b"b", b"example"]);
            let na: &Name = <&Name>::parse_bytes(&a).unwrap();
            let nb: &Name = <&Name>::parse_bytes(&b2).unwrap();
            let o1 = na.build_in_message(&mut buf[12..], base, &mut comp).unwrap();
            let o2 = nb.build_in_message(&mut buf[12..], o1, &mut comp).unwrap();
            format!("second name bytes {} old={:?} new={:?}", hex(&buf[12 + o1..12 + o2]), old_name(&buf[..12 + o2], 12 + o1), new_name(&buf[..12 + o2], 12 + o1))
        });
        println!("base {} -> {:?}", base, r);
    }
    let _ = (Rng::new(1), QClass::IN);
}
