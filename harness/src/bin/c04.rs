//! C04 -- equality, ordering and hashing of labels, names (flat, parsed inside
//! a message, chains), character strings, record data and records:
//! correspondence cases for the Coq model and the property oracle on the
//! implementation.
//!
//! T2 case syntax (octet strings lowercase hex, `-` for empty):
//!   lower <n>                               => <n>            u8::to_ascii_lowercase
//!   leq|lcmp|lcomp|llc <label> <label>      => true|false | Lt|Eq|Gt
//!   lhash <label>                           => <octets fed to the Hasher>
//!   neq|neqi|ncmp|ccmp|ccmpi|lccmp <wire> <wire>   flat names (i = iterator path)
//!   nhash <wire>; nord <wire> <wire> (Ord::cmp of Name); req|rord <relwire> <relwire>, rhash <relwire> (RelativeName ==, Ord, Hash)
//!   peq|pcmp <msg> <pos> <wire>, phash <msg> <pos>   name parsed at pos
//!   psuf <msg> <pos> <k> <wire>    name parsed at pos, k x parent(): `Ok <eq> <cmp> <composed> <lc> <hash>`
//!   cheq|chcmp|chlc <relwire> <abswire> <wire>        chain against a flat name
//!   cseq|cscmp|csccmp <str> <str>, cshash <str>       CharStr
//!   nsec <wire> <bitmap> <wire> <bitmap>              Nsec::canonical_cmp
//!   rec <owner> <class> <ttl> <rtype> <rdata> (x2)    Record::canonical_cmp
//!   svcb <prio> <target wire> <params> (x2)           SvcbRdata::canonical_cmp
//!   unkeq|unkccmp <rtype> <data> <rtype> <data>       ZoneRecordData::Unknown ==, canonical_cmp
//!   ipsec <prec> <alg> <gateway wire> <key> (x2)      Ipseckey::canonical_cmp, name gateway
//!   alleq <rtype> <data> <rtype> <data>, alleqopt <opts> <opts>   AllRecordData ==
//!   pzone|prrsig <u32> <u32>, pnsec3 <salt> <salt>   partial_cmp of ZONEMD (serial) / RRSIG (expiration) / NSEC3 (salt) differing in that field
//!   hdr <owner> <rtype> <class> <ttl> <rdlen> (x2)     RecordHeader: `<==> <cmp>`
//!   rdx <rtype> <field values> | <field values>      typed record data: `<==> <canonical_cmp> <cmp> <partial_cmp> <canonical_cmp> <hash tokens>`
//!   rdh <rtype> <tag>:<value> ...                    hash tokens of A, AAAA, TXT, SVCB/HTTPS, IPSECKEY, TSIG, OPT
//!   ueq abs|rel <wire> abs|rel <wire>, uhash abs|rel <wire>   UncertainName
//!   ipsechash <prec> <alg>                            hashing an IPSECKEY without gateway: Ok|Panic
//! Results: `Ok <v>` or `Panic`.
use bytes::Bytes;
use domain::base::cmp::CanonicalOrd;
use domain::base::iana::{Class, Rtype};
use domain::base::message_builder::{HashCompressor, StaticCompressor, TreeCompressor};
use domain::base::name::{Label, Name, OwnedLabel, ParsedName, RelativeName, ToName, ToRelativeName};
use domain::base::rdata::{ComposeRecordData, ParseRecordData, UnknownRecordData};
use domain::base::record::RecordHeader;
use domain::base::{CharStr, Message, MessageBuilder, Record, Ttl};
use domain::rdata::dnssec::{Nsec, RtypeBitmap};
use domain::rdata::{AllRecordData, ZoneRecordData};
use dv_harness::*;
use octseq::Parser;
use std::cmp::Ordering;
use std::hash::{Hash, Hasher};

// ------------------------------------------------------------ small helpers

thread_local! { static PER_CLASS: std::cell::RefCell<std::collections::HashMap<String, u32>> = Default::default(); }
/// `Out::check`, but at most 6 failures per class are written (the shared
/// collector stops writing after 200 failures in total; every class must be
/// visible).  Further failures of a class are counted in `suppressed_failures`.
fn chk(out: &mut Out, ok: bool, class: &str, case: &str, detail: &str) {
    if !ok {
        let n = PER_CLASS.with(|m| { let mut m = m.borrow_mut(); let e = m.entry(class.to_string()).or_insert(0); *e += 1; *e });
        if n > 6 { out.count("suppressed_failures"); out.check(true, class, case, detail); return; }
    }
    out.check(ok, class, case, detail);
}

/// Records what a Hasher is fed.  `Hasher` does not promise that adjacent
/// writes are merged, so equal values must produce the same SEQUENCE OF
/// CALLS: a `write_u8` records its octet, every other call (a raw `write`,
/// also reached through the default write_u16 / write_usize ...) records an
/// escape, the length of the slice and the slice - one `write(&[a, b])` is
/// not the same as `write_u8(a); write_u8(b)`.
#[derive(Default)]
struct RecHasher(Vec<u8>);
impl Hasher for RecHasher {
    fn finish(&self) -> u64 { 0 }
    fn write(&mut self, b: &[u8]) { self.0.extend_from_slice(&[0x1B, 0x5B, (b.len() >> 8) as u8, b.len() as u8]); self.0.extend_from_slice(b) }
    fn write_u8(&mut self, i: u8) { self.0.push(i) }
}
/// Hasher recording the calls as tokens: b.. write_u8, w.... write_u16,
/// d........ write_u32, n<dec> write_usize (slice length prefix), r<hex> raw write
#[derive(Default)]
struct TokHasher(Vec<String>);
impl Hasher for TokHasher {
    fn finish(&self) -> u64 { 0 }
    fn write(&mut self, b: &[u8]) { self.0.push(format!("r{}", hex(b))) }
    fn write_u8(&mut self, i: u8) { self.0.push(format!("b{:02x}", i)) }
    fn write_u16(&mut self, i: u16) { self.0.push(format!("w{:04x}", i)) }
    fn write_u32(&mut self, i: u32) { self.0.push(format!("d{:08x}", i)) }
    fn write_u64(&mut self, i: u64) { self.0.push(format!("q{:016x}", i)) }
    fn write_usize(&mut self, i: usize) { self.0.push(format!("n{}", i)) }
}
fn toks<T: Hash + ?Sized>(x: &T) -> String { let mut h = TokHasher::default(); x.hash(&mut h); if h.0.is_empty() { "-".into() } else { h.0.join(",") } }
fn feed<T: Hash + ?Sized>(x: &T) -> Vec<u8> { let mut h = RecHasher::default(); x.hash(&mut h); h.0 }

fn ord(o: Ordering) -> &'static str { match o { Ordering::Less => "Lt", Ordering::Equal => "Eq", Ordering::Greater => "Gt" } }
fn show<T>(r: Result<T, String>, f: impl Fn(&T) -> String) -> String {
    match r { Ok(v) => format!("Ok {}", f(&v)), Err(_) => "Panic".into() }
}
fn lc(b: u8) -> u8 { if (b'A'..=b'Z').contains(&b) { b + 32 } else { b } }
fn lcs(v: &[u8]) -> Vec<u8> { v.iter().map(|b| lc(*b)).collect() }

const SPICE: [u8; 24] = [0x40, 0x41, 0x5A, 0x5B, 0x60, 0x61, 0x7A, 0x7B, 0x00, 0xFF, 0x2E, 0x2D, 0x30, 0x20,
    b'a', b'A', b'z', b'Z', b'm', b'M', b'b', b'B', 0x01, 0x3F];

type Labels = Vec<Vec<u8>>;

fn wire_rel(n: &Labels) -> Vec<u8> { let mut v = vec![]; for l in n { v.push(l.len() as u8); v.extend_from_slice(l); } v }
fn wire_abs(n: &Labels) -> Vec<u8> { let mut v = wire_rel(n); v.push(0); v }
fn valid(n: &Labels) -> bool { n.iter().all(|l| !l.is_empty() && l.len() <= 63) && wire_rel(n).len() <= 254 }

fn gen_octet(r: &mut Rng) -> u8 { if r.chance(7, 10) { *r.pick(&SPICE) } else { r.u8() } }
fn gen_label(r: &mut Rng) -> Vec<u8> {
    let n = match r.below(10) { 0..=4 => r.range(1, 3), 5..=7 => r.range(1, 8), 8 => 63, _ => r.range(20, 62) } as usize;
    (0..n).map(|_| gen_octet(r)).collect()
}
fn gen_name(r: &mut Rng) -> Labels {
    let k = match r.below(12) { 0 => 0, 1..=8 => r.range(1, 4), 9 | 10 => r.range(5, 9), _ => r.range(10, 40) } as usize;
    let mut n: Labels = vec![];
    for _ in 0..k {
        let l = gen_label(r);
        n.push(l);
        if !valid(&n) { n.pop(); break; }
    }
    if r.chance(1, 70) {
        // the maximal number of labels: 127 one-octet labels (255 octets with the root), or a few less
        let count = *r.pick(&[127usize, 127, 127, 126, 126, 125, 124, 100, 64]);
        let fill = gen_octet(r);
        n = (0..count).map(|_| vec![if r.chance(1, 8) { gen_octet(r) } else { fill }]).collect();
        return n;
    }
    if r.chance(1, 25) {
        // exactly the maximal length: 255 octets with the root label
        loop {
            let used = wire_rel(&n).len();
            if used >= 254 { break; }
            let room = 254 - used;
            if room == 1 { if let Some(l) = n.iter_mut().find(|l| l.len() < 63) { l.push(gen_octet(r)); } else { break; } }
            else { let len = std::cmp::min(63, room - 1); n.push((0..len).map(|_| gen_octet(r)).collect()); }
        }
        debug_assert!(valid(&n));
    }
    n
}
fn near_octets(r: &mut Rng, v: &[u8], min: usize, max: usize) -> Vec<u8> {
    let mut w = v.to_vec();
    match r.below(8) {
        0 => {}
        1 => { let idx: Vec<usize> = (0..w.len()).filter(|i| w[*i].is_ascii_alphabetic()).collect();
               if !idx.is_empty() { let i = *r.pick(&idx); w[i] ^= 0x20; } }
        2 => { if !w.is_empty() { let i = r.below(w.len() as u64) as usize; w[i] = if r.chance(1, 2) { w[i].wrapping_add(1) } else { w[i].wrapping_sub(1) }; } }
        3 => { if !w.is_empty() { let i = r.below(w.len() as u64) as usize; w[i] = *r.pick(&SPICE); } }
        4 => { if w.len() < max { w.push(gen_octet(r)); } }
        5 => { if w.len() > min { w.pop(); } }
        6 => { for b in w.iter_mut() { if b.is_ascii_alphabetic() { *b ^= 0x20; } } }
        _ => { if w.len() < max { w.insert(0, gen_octet(r)); } }
    }
    w
}
fn near_name(r: &mut Rng, n: &Labels) -> Labels {
    let mut m = n.clone();
    match r.below(11) {
        0 => {}
        1 | 2 | 3 => { if !m.is_empty() { let i = r.below(m.len() as u64) as usize; m[i] = near_octets(r, &m[i], 1, 63); } }
        4 => { // a.b -> a\.b
            if m.len() >= 2 { let i = r.below(m.len() as u64 - 1) as usize;
                let mut j = m[i].clone(); j.push(b'.'); j.extend_from_slice(&m[i + 1]);
                if j.len() <= 63 { m[i] = j; m.remove(i + 1); } } }
        5 => { // a\.b or ab -> a.b
            if !m.is_empty() { let i = r.below(m.len() as u64) as usize;
                if m[i].len() >= 2 {
                    let l = m[i].clone();
                    if let Some(p) = l.iter().position(|c| *c == b'.').filter(|p| *p > 0 && *p + 1 < l.len()) {
                        m[i] = l[..p].to_vec(); m.insert(i + 1, l[p + 1..].to_vec());
                    } else { let p = r.range(1, l.len() as u64 - 1) as usize; m[i] = l[..p].to_vec(); m.insert(i + 1, l[p..].to_vec()); }
                } } }
        6 => { if !m.is_empty() { m.remove(0); } }
        7 => { m.insert(0, gen_label(r)); }
        8 => { if r.chance(1, 2) { m.push(gen_label(r)); } else { m.pop(); } }
        9 => { for l in m.iter_mut() { for b in l.iter_mut() { if b.is_ascii_alphabetic() { *b ^= 0x20; } } } }
        _ => { if m.len() >= 2 { let i = r.below(m.len() as u64 - 1) as usize; m.swap(i, i + 1); } }
    }
    if valid(&m) { m } else { n.clone() }
}

// independent RFC 4034 6.1 implementation
fn rfc_label_cmp(a: &[u8], b: &[u8]) -> Ordering { lcs(a).cmp(&lcs(b)) }
fn rfc_name_cmp(a: &Labels, b: &Labels) -> Ordering {
    let (mut i, mut j) = (a.len(), b.len());
    loop {
        if i == 0 && j == 0 { return Ordering::Equal; }
        if i == 0 { return Ordering::Less; }
        if j == 0 { return Ordering::Greater; }
        i -= 1; j -= 1;
        match rfc_label_cmp(&a[i], &b[j]) { Ordering::Equal => {} o => return o }
    }
}
fn rfc_name_eq(a: &Labels, b: &Labels) -> bool { a.len() == b.len() && a.iter().zip(b).all(|(x, y)| lcs(x) == lcs(y)) }
fn canon_wire(a: &Labels) -> Vec<u8> { wire_abs(&a.iter().map(|l| lcs(l)).collect()) }

// ------------------------------------------------------- representations

type FName = Name<Vec<u8>>;
fn flat(n: &Labels) -> FName { Name::from_octets(wire_abs(n)).expect("valid name") }

/// message with the name at `pos`: labels[..k] followed by a pointer to the
/// suffix labels[k..] stored earlier (k == len: no pointer at all)
fn parsed_msg(r: &mut Rng, n: &Labels, k: usize) -> (Vec<u8>, usize) {
    let mut m = r.bytes(12);
    if r.chance(1, 3) { m.extend_from_slice(&[3, b'x', b'y', b'z', 0]); }
    if k >= n.len() { let pos = m.len(); m.extend_from_slice(&wire_abs(n)); m.extend_from_slice(&r.bytes(2)); return (m, pos); }
    let mut off = m.len();
    let rest = n[k..].to_vec();
    if rest.len() >= 2 && r.chance(1, 3) {
        // two hops: the suffix itself ends in a pointer to its own suffix stored earlier
        let j = r.range(1, rest.len() as u64 - 1) as usize;
        let off2 = m.len();
        m.extend_from_slice(&wire_abs(&rest[j..].to_vec()));
        off = m.len();
        m.extend_from_slice(&wire_rel(&rest[..j].to_vec()));
        m.push(0xC0 | (off2 >> 8) as u8); m.push(off2 as u8);
    } else {
        m.extend_from_slice(&wire_abs(&rest));
    }
    if r.chance(1, 2) { m.extend_from_slice(&r.bytes(3)); }
    let pos = m.len();
    m.extend_from_slice(&wire_rel(&n[..k].to_vec()));
    m.push(0xC0 | (off >> 8) as u8); m.push(off as u8);
    m.extend_from_slice(&r.bytes(2));
    (m, pos)
}
fn parse_at(m: &Bytes, pos: usize) -> Option<ParsedName<Bytes>> {
    let mut p = Parser::from_ref(m);
    p.advance(pos).ok()?;
    ParsedName::parse(&mut p).ok()
}

struct Ops { eq: bool, cmp: Ordering, comp: Ordering, lcomp: Ordering }
fn ops<A: ToName + ?Sized, B: ToName + ?Sized>(a: &A, b: &B) -> Ops {
    Ops { eq: a.name_eq(b), cmp: a.name_cmp(b), comp: a.composed_cmp(b), lcomp: a.lowercase_composed_cmp(b) }
}
fn ops_s(o: &Ops) -> String { format!("{} {} {} {}", o.eq, ord(o.cmp), ord(o.comp), ord(o.lcomp)) }

// --------------------------------------------------------------- labels

fn label_cases(out: &mut Out, r: &mut Rng, n: u64) {
    for b in 0..=255u8 {
        let c = format!("lower {}", b);
        out.case(&c, &format!("{}", b.to_ascii_lowercase()), b.is_ascii_uppercase(), "lower");
        out.case(&format!("stdlower {}", b), &format!("{}", b.to_ascii_lowercase()), b.is_ascii_uppercase(), "stdlower");
        chk(out, (b.to_ascii_lowercase() == b'x').eq(&(b == b'x' || b == b'X')) && [b].eq_ignore_ascii_case(&[lc(b)]) && { let mut v = [b]; v.make_ascii_lowercase(); v[0] == lc(b) }, "ascii_lowercase", &c, "eq_ignore_ascii_case / make_ascii_lowercase");
        chk(out, b.to_ascii_lowercase() == lc(b), "ascii_lowercase", &c, "");
    }
    let mut corpus: Vec<(Vec<u8>, Vec<u8>)> = vec![
        (vec![], vec![]), (b"a".to_vec(), b"A".to_vec()), (b"[".to_vec(), b"a".to_vec()), (b"Z".to_vec(), b"[".to_vec()),
        (b"@".to_vec(), b"`".to_vec()), (b"z".to_vec(), b"{".to_vec()), (b"ab".to_vec(), b"a".to_vec()), (vec![0], vec![]),
        (vec![0xFF], vec![0x7F]), (b"a.b".to_vec(), b"a".to_vec()), (vec![b'A'; 63], vec![b'a'; 63]),
    ];
    for i in 0..n {
        let (a, b) = if !corpus.is_empty() { corpus.remove(0) } else {
            let a = if r.chance(1, 20) { vec![] } else { gen_label(r) };
            let b = if r.chance(1, 6) { gen_label(r) } else { near_octets(r, &a, 0, 63) };
            (a, b)
        };
        let c3 = near_octets(r, &b, 0, 63);
        let (la, lb, l3) = (Label::from_slice(&a).unwrap(), Label::from_slice(&b).unwrap(), Label::from_slice(&c3).unwrap());
        let pair = format!("{} {}", hex(&a), hex(&b));
        out.begin(&pair);
        let nt = a != b;
        let eq = la == lb;
        let cm = la.cmp(lb);
        out.case(&format!("leq {}", pair), &format!("{}", eq), nt, "leq");
        out.case(&format!("lcmp {}", pair), ord(cm), nt, "lcmp");
        out.case(&format!("lcomp {}", pair), ord(la.composed_cmp(lb)), nt, "lcomp");
        out.case(&format!("llc {}", pair), ord(la.lowercase_composed_cmp(lb)), nt, "llc");
        let (ha, hb) = (feed(la), feed(lb));
        if i % 2 == 0 { out.case(&format!("lhash {}", hex(&a)), &hex(&ha), true, "lhash"); }
        // oracle
        chk(out, eq == (lb == la), "label_eq_sym", &pair, "");
        chk(out, eq == (lcs(&a) == lcs(&b)), "label_eq_ci", &pair, "");
        chk(out, cm == lb.cmp(la).reverse(), "label_cmp_antisym", &pair, "");
        chk(out, (cm == Ordering::Equal) == eq, "label_cmp_eq", &pair, "");
        chk(out, cm == rfc_label_cmp(&a, &b), "label_order_rfc4034", &pair, ord(cm));
        chk(out, !eq || ha == hb, "label_eq_hash", &pair, "");
        let mut wa = vec![a.len() as u8]; wa.extend_from_slice(&a);
        let mut wb = vec![b.len() as u8]; wb.extend_from_slice(&b);
        chk(out, la.composed_cmp(lb) == wa.cmp(&wb), "label_composed_bytewise", &pair, "");
        let mut wa = vec![a.len() as u8]; wa.extend_from_slice(&lcs(&a));
        let mut wb = vec![b.len() as u8]; wb.extend_from_slice(&lcs(&b));
        chk(out, la.lowercase_composed_cmp(lb) == wa.cmp(&wb), "label_lc_composed_bytewise", &pair, "");
        // OwnedLabel is the same label in another representation
        {
            let (oa, ob) = (OwnedLabel::from_label(la), OwnedLabel::from_label(lb));
            chk(out, (oa == ob) == eq && oa.cmp(&ob) == cm && feed(&oa) == ha && oa.as_label() == la && oa.to_canonical().as_label().as_slice() == &lcs(&a)[..],
                "repr_independent_owned_label", &pair, "");
        }
        // triples
        let t = format!("{} {}", pair, hex(&c3));
        if la == lb && lb == l3 { chk(out, la == l3, "label_eq_trans", &t, ""); }
        if la.cmp(lb) != Ordering::Greater && lb.cmp(l3) != Ordering::Greater { chk(out, la.cmp(l3) != Ordering::Greater, "label_cmp_trans", &t, ""); }
    }
}

// ---------------------------------------------------------------- names

fn name_cases(out: &mut Out, r: &mut Rng, n: u64) {
    let s = |x: &str| -> Labels { x.split('.').filter(|p| !p.is_empty()).map(|p| p.as_bytes().to_vec()).collect() };
    let mut corpus: Vec<(Labels, Labels)> = vec![
        (vec![], vec![]), (s("a.b"), vec![b"a.b".to_vec()]), (s("a.b"), s("A.B")), (s("b"), s("aa")), (s("z.a"), s("a.b")),
        (s("example"), s("a.example")), (s("yljkjljk.a.example"), s("Z.a.example")), (s("zABC.a.EXAMPLE"), s("z.example")),
        (vec![vec![1], b"z".to_vec(), b"example".to_vec()], s("*.z.example")), (vec![vec![200], b"z".to_vec(), b"example".to_vec()], s("*.z.example")),
        (s("www.example.com"), s("example.com")), (vec![b"@".to_vec()], vec![b"`".to_vec()]), (vec![b"[".to_vec()], vec![b"{".to_vec()]),
        (vec![vec![b'a'; 63], vec![b'b'; 63], vec![b'c'; 63], vec![b'd'; 61]], vec![vec![b'A'; 63], vec![b'B'; 63], vec![b'C'; 63], vec![b'D'; 61]]),
        (vec![vec![b'm']; 127], s("z")), (vec![vec![b'm']; 127], vec![vec![b'm']; 126]), (vec![vec![b'm']; 127], vec![vec![b'M']; 127]),
        (vec![vec![b'm']; 126], s("z")), (vec![vec![b'a']; 127], { let mut v = vec![vec![b'a']; 127]; v[0] = vec![b'b']; v }),
    ];
    for i in 0..n {
        let (a, b) = if !corpus.is_empty() { corpus.remove(0) } else {
            let a = gen_name(r);
            let b = if r.chance(1, 8) { gen_name(r) } else { near_name(r, &a) };
            (a, b)
        };
        let c3 = near_name(r, &b);
        let (wa, wb) = (wire_abs(&a), wire_abs(&b));
        let pair = format!("{} {}", hex(&wa), hex(&wb));
        out.begin(&pair);
        let nt = a != b;
        let (fa, fb, f3) = (flat(&a), flat(&b), flat(&c3));
        let (fa2, fb2) = (fa.clone(), fb.clone());
        let base = match catch(move || ops(&fa2, &fb2)) { Ok(o) => o, Err(e) => { chk(out, false, "name_panic", &pair, &e); continue; } };
        out.case(&format!("neq {}", pair), &format!("Ok {}", base.eq), nt, "neq");
        out.case(&format!("ncmp {}", pair), &format!("Ok {}", ord(base.cmp)), nt, "ncmp");
        out.case(&format!("ccmp {}", pair), &format!("Ok {}", ord(base.comp)), nt, "ccmp");
        out.case(&format!("lccmp {}", pair), &format!("Ok {}", ord(base.lcomp)), nt, "lccmp");
        // iterator path on flat names: `&N` has no flat slice
        let (ra, rb) = (&fa, &fb);
        let it = ops(&ra, &rb);
        out.case(&format!("neqi {}", pair), &format!("Ok {}", it.eq), nt, "neqi");
        out.case(&format!("ccmpi {}", pair), &format!("Ok {}", ord(it.comp)), nt, "ccmpi");
        let (ha, hb) = (feed(&fa), feed(&fb));
        if i % 2 == 0 { out.case(&format!("nhash {}", hex(&wa)), &format!("Ok {}", hex(&ha)), true, "nhash"); }
        // what Name::from_octets accepts (the premise of the flat-name theorems)
        if i % 4 == 0 {
            let mut w = wa.clone();
            match r.below(6) { 0 => {}, 1 => { w.pop(); }, 2 => { w.push(0); }, 3 => { if !w.is_empty() { let k = r.below(w.len() as u64) as usize; w[k] = *r.pick(&[0u8, 1, 63, 64, 0x80, 0xC0, 0xFF]); } },
                4 => { let k = r.below(w.len() as u64 + 1) as usize; w.insert(k, r.u8()); }, _ => { w.extend_from_slice(&[63]); w.extend_from_slice(&[b'x'; 63]); w.push(0); } }
            let ok = Name::from_octets(w.clone()).is_ok();
            out.case(&format!("nacc {}", hex(&w)), &format!("{}", ok), !ok, "nacc");
        }
        // the operators (Ord::cmp as used by BTreeMap, sort_by, max)
        out.case(&format!("nord {}", pair), &show(catch({ let (x, y) = (fa.clone(), fb.clone()); move || x.cmp(&y) }), |o| ord(*o).to_string()), nt, "nord");
        {
            let (x, y) = (fa.clone(), fb.clone());
            let r2 = catch(move || (x.cmp(&y), y.cmp(&x), x.partial_cmp(&y), x.canonical_cmp(&y), std::cmp::max(&x, &y) == &y, x < y, x <= y, x > y));
            match r2 { Err(e) => chk(out, false, "name_ord_panic", &pair, &e), Ok((c1, c2, pc, cc, mx, lt, le, gt)) => {
                let want = rfc_name_cmp(&a, &b);
                chk(out, c1 == want, "name_ord_rfc4034_6_1", &pair, &format!("Ord::cmp {} want {}", ord(c1), ord(want)));
                chk(out, c2 == want.reverse(), "name_ord_rfc4034_6_1", &pair, "reversed");
                chk(out, pc == Some(c1) && cc == c1, "name_ord_differs_from_partial_cmp", &pair, &format!("cmp {} partial_cmp {:?} canonical_cmp {}", ord(c1), pc, ord(cc)));
                chk(out, mx == (want != Ordering::Greater) && lt == (want == Ordering::Less) && le == (want != Ordering::Greater) && gt == (want == Ordering::Greater), "name_ord_operators", &pair, "");
            } }
        }
        // ---- oracle on the flat pair
        chk(out, base.eq == (fa == fb) && base.cmp == fa.cmp(&fb) && fa.partial_cmp(&fb) == Some(base.cmp)
                  && fa.canonical_cmp(&fb) == base.cmp, "name_operator_is_trait_fn", &pair, "");
        chk(out, base.eq == fb.name_eq(&fa), "name_eq_sym", &pair, "");
        chk(out, base.eq == rfc_name_eq(&a, &b), "name_eq_ci_labelwise", &pair, &format!("{}", base.eq));
        chk(out, base.cmp == fb.name_cmp(&fa).reverse(), "name_cmp_antisym", &pair, "");
        chk(out, (base.cmp == Ordering::Equal) == base.eq, "name_cmp_eq", &pair, "");
        chk(out, base.cmp == rfc_name_cmp(&a, &b), "name_order_rfc4034_6_1", &pair, ord(base.cmp));
        chk(out, !base.eq || ha == hb, "name_eq_hash", &pair, "");
        chk(out, base.comp == wa.cmp(&wb), "composed_cmp_bytewise", &pair, ord(base.comp));
        chk(out, base.lcomp == canon_wire(&a).cmp(&canon_wire(&b)), "lowercase_composed_cmp_bytewise", &pair, ord(base.lcomp));
        chk(out, ops_s(&it) == ops_s(&base), "repr_independent_iter_path", &pair, &format!("{} vs {}", ops_s(&it), ops_s(&base)));
        {
            let mut ca = Vec::new(); fa.compose_canonical(&mut ca).unwrap();
            chk(out, ca == canon_wire(&a), "compose_canonical_lowercases", &pair, &hex(&ca));
        }
        // other octets types holding the same name
        {
            let sa: Name<&[u8]> = Name::from_octets(&wa[..]).unwrap();
            let ba: Name<Bytes> = Name::from_octets(Bytes::from(wa.clone())).unwrap();
            let o1 = ops(&sa, &fb); let o2 = ops(&ba, &fb);
            chk(out, ops_s(&o1) == ops_s(&base) && ops_s(&o2) == ops_s(&base) && feed(&sa) == ha && feed(&ba) == ha && sa == fa && ba == sa,
                "repr_independent_octets_type", &pair, "");
        }
        // triples
        let t = format!("{} {}", pair, hex(&wire_abs(&c3)));
        if base.eq && fb == f3 { chk(out, fa == f3, "name_eq_trans", &t, ""); }
        if base.cmp != Ordering::Greater && fb.cmp(&f3) != Ordering::Greater { chk(out, fa.cmp(&f3) != Ordering::Greater, "name_cmp_trans", &t, ""); }
        if base.cmp == Ordering::Less && fb.cmp(&f3) == Ordering::Less { chk(out, fa.cmp(&f3) == Ordering::Less, "name_cmp_trans", &t, ""); }

        // ---- other representations of a (and of b), compared with flat b
        // parsed (compressed) name
        let k = if a.is_empty() { 0 } else { r.below(a.len() as u64 + 1) as usize };
        let (m, pos) = parsed_msg(r, &a, k);
        let mb = Bytes::from(m.clone());
        match parse_at(&mb, pos) {
            None => chk(out, false, "parsed_repr_unparseable", &format!("{} {}", hex(&m), pos), ""),
            Some(pa) => {
                let c = format!("{} {} {}", hex(&m), pos, hex(&wb));
                let (pa2, fb2) = (pa.clone(), fb.clone());
                match catch(move || ops(&pa2, &fb2)) {
                    Err(e) => chk(out, false, "parsed_name_panic", &c, &e),
                    Ok(po) => {
                        let ntp = nt && k < a.len();
                        out.case(&format!("peq {}", c), &format!("Ok {}", po.eq), ntp, "peq");
                        out.case(&format!("pcmp {}", c), &format!("Ok {}", ord(po.cmp)), ntp, "pcmp");
                        let hp = feed(&pa);
                        if i % 2 == 0 { out.case(&format!("phash {} {}", hex(&m), pos), &format!("Ok {}", hex(&hp)), k < a.len(), "phash"); }
                        chk(out, ops_s(&po) == ops_s(&base), "repr_independent_parsed", &c, &format!("{} vs {}", ops_s(&po), ops_s(&base)));
                        let rev = ops(&fb, &pa);
                        chk(out, rev.eq == po.eq && rev.cmp == po.cmp.reverse() && rev.comp == po.comp.reverse() && rev.lcomp == po.lcomp.reverse(),
                                  "repr_independent_parsed_rhs", &c, "");
                        chk(out, hp == ha, "repr_independent_hash_parsed", &c, &hex(&hp));
                        chk(out, toks(&pa) == toks(&fa), "repr_independent_hash_calls_parsed", &c, &format!("{} vs {}", toks(&pa), toks(&fa)));
                        chk(out, (pa == fb) == base.eq && pa.partial_cmp(&fb) == Some(base.cmp) && (fa == pa) && pa.cmp(&pa.clone()) == Ordering::Equal,
                                  "repr_independent_parsed_ops", &c, "");
                        // parsed vs parsed
                        let kb = if b.is_empty() { 0 } else { r.below(b.len() as u64 + 1) as usize };
                        let (m2, pos2) = parsed_msg(r, &b, kb);
                        let mb2 = Bytes::from(m2.clone());
                        if let Some(pb) = parse_at(&mb2, pos2) {
                            let pp = ops(&pa, &pb);
                            chk(out, ops_s(&pp) == ops_s(&base), "repr_independent_parsed_parsed", &format!("{} | {} {}", c, hex(&m2), pos2), &ops_s(&pp));
                            chk(out, !pp.eq || feed(&pb) == hp, "name_eq_hash_parsed", &c, "");
                        }
                    }
                }
            }
        }
        // chain of relative prefix + absolute suffix
        let k = if a.is_empty() { 0 } else { r.below(a.len() as u64 + 1) as usize };
        let (pl, sl) = (a[..k].to_vec(), a[k..].to_vec());
        let (pw, sw) = (wire_rel(&pl), wire_abs(&sl));
        let c = format!("{} {} {}", hex(&pw), hex(&sw), hex(&wb));
        let rel = RelativeName::from_octets(pw.clone()).expect("valid relative name");
        let ch = rel.clone().chain(flat(&sl)).expect("chain fits");
        let (ch2, fb2) = (ch.clone(), fb.clone());
        match catch(move || ops(&ch2, &fb2)) {
            Err(e) => chk(out, false, "chain_name_panic", &c, &e),
            Ok(co) => {
                out.case(&format!("cheq {}", c), &format!("Ok {}", co.eq), nt, "cheq");
                out.case(&format!("chcmp {}", c), &format!("Ok {}", ord(co.cmp)), nt, "chcmp");
                out.case(&format!("chlc {}", c), &format!("Ok {}", ord(co.lcomp)), nt, "chlc");
                chk(out, ops_s(&co) == ops_s(&base), "repr_independent_chain", &c, &format!("{} vs {}", ops_s(&co), ops_s(&base)));
                let rev = ops(&fb, &ch);
                chk(out, rev.eq == co.eq && rev.cmp == co.cmp.reverse() && rev.comp == co.comp.reverse() && rev.lcomp == co.lcomp.reverse(),
                          "repr_independent_chain_rhs", &c, "");
                chk(out, (fb == ch) == base.eq && fb.partial_cmp(&ch) == Some(base.cmp.reverse()), "repr_independent_chain_ops", &c, "");
                let back: FName = ch.to_name();
                chk(out, back.as_slice() == &wa[..] && feed(&back) == ha, "repr_independent_chain_to_name", &c, "");
                // three-part chain: (rel . rel) . abs
                if k >= 1 {
                    let j = r.below(k as u64 + 1) as usize;
                    let r1 = RelativeName::from_octets(wire_rel(&pl[..j].to_vec())).unwrap();
                    let r2 = RelativeName::from_octets(wire_rel(&pl[j..].to_vec())).unwrap();
                    let ch3 = r1.chain(r2).unwrap().chain(flat(&sl)).unwrap();
                    let o3 = ops(&ch3, &fb);
                    chk(out, ops_s(&o3) == ops_s(&base), "repr_independent_chain3", &c, &ops_s(&o3));
                }
            }
        }
        // relative names: eq / cmp / hash on the prefixes of a and b
        if i % 3 == 0 {
            let kb = if b.is_empty() { 0 } else { r.below(b.len() as u64 + 1) as usize };
            let (x, y) = (pl.clone(), b[..kb].to_vec());
            let (rx, ry) = (RelativeName::from_octets(wire_rel(&x)).unwrap(), RelativeName::from_octets(wire_rel(&y)).unwrap());
            let c = format!("rel {} {}", hex(&wire_rel(&x)), hex(&wire_rel(&y)));
            let e = rx == ry;
            out.case(&format!("req {} {}", hex(&wire_rel(&x)), hex(&wire_rel(&y))), &format!("Ok {}", e), x != y, "req");
            out.case(&format!("rord {} {}", hex(&wire_rel(&x)), hex(&wire_rel(&y))), &format!("Ok {}", ord(rx.cmp(&ry))), x != y, "rord");
            out.case(&format!("rhash {}", hex(&wire_rel(&x))), &format!("Ok {}", hex(&feed(&rx))), true, "rhash");
            chk(out, rx.partial_cmp(&ry) == Some(rx.cmp(&ry)), "relname_ord_differs_from_partial_cmp", &c, "");
            chk(out, e == rfc_name_eq(&x, &y), "relname_eq_ci_labelwise", &c, "");
            chk(out, e == (ry == rx), "relname_eq_sym", &c, "");
            chk(out, rx.cmp(&ry) == rfc_name_cmp(&x, &y), "relname_order_rfc4034_6_1", &c, "");
            chk(out, (rx.cmp(&ry) == Ordering::Equal) == e, "relname_cmp_eq", &c, "");
            chk(out, !e || feed(&rx) == feed(&ry), "relname_eq_hash", &c, "");
            // UncertainName holding the same names
            {
                use domain::base::name::UncertainName;
                let (ux, uy) = (UncertainName::relative(rx.clone()), UncertainName::relative(ry.clone()));
                let (ua, ub) = (UncertainName::absolute(fa.clone()), UncertainName::absolute(fb.clone()));
                out.case(&format!("ueq rel {} rel {}", hex(&wire_rel(&x)), hex(&wire_rel(&y))), &format!("Ok {}", ux == uy), x != y, "ueq");
                out.case(&format!("ueq abs {} abs {}", hex(&wa), hex(&wb)), &format!("Ok {}", ua == ub), nt, "ueq");
                out.case(&format!("ueq abs {} rel {}", hex(&wa), hex(&wire_rel(&y))), &format!("Ok {}", ua == uy), true, "ueq");
                out.case(&format!("uhash rel {}", hex(&wire_rel(&x))), &format!("Ok {}", hex(&feed(&ux))), true, "uhash");
                out.case(&format!("uhash abs {}", hex(&wa)), &format!("Ok {}", hex(&feed(&ua))), true, "uhash");
                chk(out, (ux == uy) == e && (ua == ub) == base.eq && !(ua == uy) && !(ux == ub), "uncertain_eq", &c, "");
                chk(out, (ux == uy) == (uy == ux) && (ua == ub) == (ub == ua), "uncertain_eq_sym", &c, "");
                chk(out, (!(ux == uy) || feed(&ux) == feed(&uy)) && (!(ua == ub) || feed(&ua) == feed(&ub)), "uncertain_eq_hash", &c, "");
                chk(out, feed(&ux) == feed(&rx) && feed(&ua) == ha, "repr_independent_uncertain_hash", &c, "");
            }
            let (px, py) = (&rx, &ry);
            chk(out, ToRelativeName::name_eq(&px, &py) == e && ToRelativeName::name_cmp(&px, &py) == rx.cmp(&ry), "repr_independent_rel_iter_path", &c, "");
        }
    }
}

// ------------------------------------- names derived from parsed names

/// the full battery on a derived ParsedName against the flat name with the same labels
fn suffix_battery(out: &mut Out, how: &str, d: &ParsedName<Bytes>, labels: &Labels, other: &Labels, c: &str) {
    let (fl, fo) = (flat(labels), flat(other));
    let (d2, fl2, fo2) = (d.clone(), fl.clone(), fo.clone());
    let r = catch(move || {
        let (a, b) = (ops(&d2, &fo2), ops(&fl2, &fo2));
        let (ra, rb) = (ops(&fo2, &d2), ops(&fo2, &fl2));
        let same = ops(&d2, &fl2);
        let mut comp = Vec::new(); d2.compose(&mut comp).unwrap();
        let mut ccomp = Vec::new(); d2.compose_canonical(&mut ccomp).unwrap();
        let cow = d2.to_cow();
        let vecn: FName = d2.to_name();
        (ops_s(&a), ops_s(&b), ops_s(&ra), ops_s(&rb), same.eq && same.cmp == Ordering::Equal && same.comp == Ordering::Equal && same.lcomp == Ordering::Equal,
         d2 == fl2 && fl2 == d2 && d2.cmp(&d2.clone()) == Ordering::Equal, feed(&d2) == feed(&fl2), comp, ccomp, cow.as_slice().to_vec(), vecn.as_slice().to_vec(),
         d2.label_count(), d2.iter().rev().count())
    });
    match r {
        Err(e) => chk(out, false, &format!("repr_independent_parsed_suffix_panic_{}", how), c, &e),
        Ok((a, b, ra, rb, same, opsame, hsame, comp, ccomp, cow, vecn, lc1, lc2)) => {
            chk(out, a == b, &format!("repr_independent_parsed_suffix_ops_{}", how), c, &format!("{} vs flat {}", a, b));
            chk(out, ra == rb, &format!("repr_independent_parsed_suffix_rhs_{}", how), c, &format!("{} vs flat {}", ra, rb));
            chk(out, same && opsame, &format!("repr_independent_parsed_suffix_eq_{}", how), c, "the derived name is not ==/Equal to its flat equivalent");
            chk(out, hsame, &format!("repr_independent_parsed_suffix_hash_{}", how), c, "");
            let w = wire_abs(labels);
            chk(out, comp == w && cow == w && vecn == w && ccomp == canon_wire(labels), &format!("repr_independent_parsed_suffix_compose_{}", how), c, &hex(&comp));
            chk(out, lc1 == labels.len() + 1 && lc2 == lc1, &format!("repr_independent_parsed_suffix_labels_{}", how), c, "");
        }
    }
}

fn derived(out: &mut Out, pn: &ParsedName<Bytes>, n: &Labels, other: &Labels, c: &str) {
    // iter_suffixes
    let sufs: Vec<ParsedName<Bytes>> = match catch({ let p = pn.clone(); move || p.iter_suffixes().collect::<Vec<_>>() }) { Ok(v) => v, Err(e) => { chk(out, false, "repr_independent_parsed_suffix_panic_iter", c, &e); return; } };
    chk(out, sufs.len() == n.len() + 1, "repr_independent_parsed_suffix_count", c, &format!("{}", sufs.len()));
    for (k, s) in sufs.iter().enumerate() { if k <= n.len() { suffix_battery(out, "iter", s, &n[k..].to_vec(), other, &format!("{} suffix {}", c, k)); } }
    // parent() steps
    let mut p = pn.clone();
    for k in 1..=n.len() {
        let mut q = p.clone();
        match catch(move || { let ok = q.parent(); (ok, q) }) { Ok((ok, q)) => { chk(out, ok, "repr_independent_parsed_suffix_count", c, "parent returned false early"); p = q; } Err(e) => { chk(out, false, "repr_independent_parsed_suffix_panic_parent", c, &e); return; } }
        suffix_battery(out, "parent", &p, &n[k..].to_vec(), other, &format!("{} parent {}", c, k));
    }
    let mut q = p.clone(); chk(out, !q.parent(), "repr_independent_parsed_suffix_count", c, "parent of the root is true");
    // split_first() steps
    let mut p = pn.clone();
    for k in 1..=n.len() {
        let mut q = p.clone();
        match catch(move || { let first = q.split_first().map(|r| r.as_slice().to_vec()); (first, q) }) {
            Ok((first, q)) => { let mut want = vec![n[k - 1].len() as u8]; want.extend_from_slice(&n[k - 1]);
                chk(out, first.as_deref() == Some(&want[..]), "repr_independent_parsed_suffix_split_label", c, &format!("{:?}", first.map(|f| hex(&f)))); p = q; }
            Err(e) => { chk(out, false, "repr_independent_parsed_suffix_panic_split", c, &e); return; }
        }
        suffix_battery(out, "split", &p, &n[k..].to_vec(), other, &format!("{} split {}", c, k));
    }
}

fn suffix_cases(out: &mut Out, r: &mut Rng, n: u64) {
    for i in 0..n {
        // a name with at least three labels; its suffixes are pushed first so that the
        // compressors chain: a.b.c.d -> a + ptr -> (b + ptr -> (c.d))
        let mut name = gen_name(r);
        while name.len() < 3 || !valid(&name) { name = gen_name(r); if name.len() < 3 { name.push(gen_label(r)); name.push(gen_label(r)); name.push(gen_label(r)); } if !valid(&name) { name.clear(); } }
        let j2 = r.range(2, name.len() as u64 - 1) as usize;   // 2 <= j2 < len
        let j1 = r.range(1, j2 as u64 - 1) as usize;           // 1 <= j1 < j2
        let other = if r.chance(1, 2) { near_name(r, &name[j1..].to_vec()) } else { near_name(r, &name) };
        let owners = [name[j2..].to_vec(), name[j1..].to_vec(), name.clone()];
        let which = i % 3;
        let o2 = owners.clone();
        let tgt = name.clone();
        let built = catch(move || {
            macro_rules! build { ($comp:expr) => {{
                let mut mb = MessageBuilder::from_target($comp).unwrap().answer();
                for o in o2.iter() { mb.push((flat(o), 7u32, domain::rdata::A::from_octets(1, 2, 3, 4))).ok()?; }
                // a CNAME whose target is compressed against the chained owner
                mb.push((flat(&o2[0]), 7u32, domain::rdata::Cname::new(flat(&tgt)))).ok()?;
                Some(Bytes::from(mb.finish().into_target()))
            }}; }
            match which { 0 => build!(StaticCompressor::new(Vec::new())), 1 => build!(TreeCompressor::new(Vec::new())), _ => build!(HashCompressor::new(Vec::new())) }
        });
        let mbytes = match built { Ok(Some(b)) => b, _ => { out.count("suffix_unbuildable"); continue; } };
        let c = format!("suffix {} {} other {}", ["static", "tree", "hash"][which as usize], hex(&mbytes), hex(&wire_abs(&other)));
        out.begin(&c);
        out.oracle_case(&c, true, "parsed_suffix");
        let msg = match Message::from_octets(mbytes.clone()) { Ok(m) => m, Err(_) => { chk(out, false, "repr_independent_parsed_suffix_unparseable", &c, ""); continue; } };
        let recs: Vec<_> = msg.answer().unwrap().filter_map(|rr| rr.ok()).collect();
        if recs.len() != 4 { chk(out, false, "repr_independent_parsed_suffix_unparseable", &c, "records"); continue; }
        let pn: ParsedName<Bytes> = recs[2].owner().deref_octets();
        if !pn.is_compressed() { out.count("suffix_owner_not_compressed"); }
        derived(out, &pn, &name, &other, &c);
        if let Ok(Some(rec)) = recs[3].to_record::<domain::rdata::Cname<ParsedName<Bytes>>>() {
            derived(out, &rec.data().cname().clone(), &name, &other, &format!("{} cname", c));
        }
    }
    // hand-built messages (position known): T2 against the model, same battery
    for _ in 0..n {
        let a = gen_name(r);
        let b = if r.chance(1, 6) { gen_name(r) } else { near_name(r, &a) };
        let k = if a.is_empty() { 0 } else { r.below(a.len() as u64 + 1) as usize };
        let (m, pos) = parsed_msg(r, &a, k);
        let mb = Bytes::from(m.clone());
        let pa = match parse_at(&mb, pos) { Some(p) => p, None => continue };
        let steps = r.below(a.len() as u64 + 2) as usize;
        let c = format!("psuf {} {} {} {}", hex(&m), pos, steps, hex(&wire_abs(&b)));
        out.begin(&c);
        let (p2, fb) = (pa.clone(), flat(&b));
        let obs = catch(move || { let mut q = p2; for _ in 0..steps { q.parent(); } let o = ops(&q, &fb); format!("Ok {} {} {} {} {}", o.eq, ord(o.cmp), ord(o.comp), ord(o.lcomp), hex(&feed(&q))) });
        out.case(&c, &obs.unwrap_or_else(|_| "Panic".into()), true, "psuf");
        let (p2, fb) = (pa.clone(), flat(&b));
        let obs = catch(move || { let mut q = p2; for _ in 0..steps { let _ = q.split_first(); } let o = ops(&q, &fb); format!("Ok {} {} {} {} {}", o.eq, ord(o.cmp), ord(o.comp), ord(o.lcomp), hex(&feed(&q))) });
        out.case(&format!("ssuf {} {} {} {}", hex(&m), pos, steps, hex(&wire_abs(&b))), &obs.unwrap_or_else(|_| "Panic".into()), true, "ssuf");
        derived(out, &pa, &a, &b, &c);
    }
}

// -------------------------------------------------------------- CharStr

fn charstr_cases(out: &mut Out, r: &mut Rng, n: u64) {
    let mut corpus: Vec<(Vec<u8>, Vec<u8>)> = vec![(vec![], vec![]), (b"a".to_vec(), b"A".to_vec()), (b"b".to_vec(), b"aa".to_vec()),
        (b"ab".to_vec(), b"a".to_vec()), (vec![b'x'; 255], vec![b'X'; 255]), (b"[".to_vec(), b"a".to_vec())];
    for i in 0..n {
        let (a, b) = if !corpus.is_empty() { corpus.remove(0) } else {
            let la = match r.below(6) { 0 => 0, 5 => r.range(60, 255), _ => r.range(1, 6) } as usize;
            let a: Vec<u8> = (0..la).map(|_| gen_octet(r)).collect();
            let b = if r.chance(1, 6) { (0..r.range(0, 6)).map(|_| gen_octet(r)).collect() } else { near_octets(r, &a, 0, 255) };
            (a, b)
        };
        let c3 = near_octets(r, &b, 0, 255);
        let (sa, sb, s3) = (CharStr::from_octets(a.clone()).unwrap(), CharStr::from_octets(b.clone()).unwrap(), CharStr::from_octets(c3.clone()).unwrap());
        let pair = format!("{} {}", hex(&a), hex(&b));
        out.begin(&pair);
        let nt = a != b;
        let (eq, cm, cc) = (sa == sb, sa.cmp(&sb), sa.canonical_cmp(&sb));
        out.case(&format!("cseq {}", pair), &format!("{}", eq), nt, "cseq");
        out.case(&format!("cscmp {}", pair), ord(cm), nt, "cscmp");
        out.case(&format!("csccmp {}", pair), ord(cc), nt, "csccmp");
        let (ha, hb) = (feed(&sa), feed(&sb));
        if i % 2 == 0 { out.case(&format!("cshash {}", hex(&a)), &hex(&ha), true, "cshash"); }
        chk(out, eq == (sb == sa), "charstr_eq_sym", &pair, "");
        chk(out, cm == sb.cmp(&sa).reverse(), "charstr_cmp_antisym", &pair, "");
        chk(out, (cm == Ordering::Equal) == eq, "charstr_cmp_eq", &pair, "");
        chk(out, sa.partial_cmp(&sb) == Some(cm), "charstr_partial_cmp", &pair, "");
        chk(out, !eq || ha == hb, "charstr_eq_hash", &pair, "");
        let (mut wa, mut wb) = (Vec::new(), Vec::new());
        sa.compose(&mut wa).unwrap(); sb.compose(&mut wb).unwrap();
        chk(out, cc == wa.cmp(&wb), "canonical_cmp_not_bytewise_charstr", &pair, ord(cc));
        chk(out, cc == sb.canonical_cmp(&sa).reverse(), "charstr_canonical_antisym", &pair, "");
        let t = format!("{} {}", pair, hex(&c3));
        if eq && sb == s3 { chk(out, sa == s3, "charstr_eq_trans", &t, ""); }
        if cm != Ordering::Greater && sb.cmp(&s3) != Ordering::Greater { chk(out, sa.cmp(&s3) != Ordering::Greater, "charstr_cmp_trans", &t, ""); }
    }
}

// ---------------------------------------------------------- record data

#[derive(Clone, Debug)]
enum F { U8(u8), U16(u16), U32(u32), Fixed(Vec<u8>), Name(Labels), Str(Vec<u8>), Strs(Vec<Vec<u8>>), Pfx(Vec<u8>), Tail(Vec<u8>, usize),
         Bitmap(Vec<u16>), Params(Vec<(u16, Vec<u8>)>), Tag(Vec<u8>),
         /// IPSECKEY: gateway type, algorithm, gateway (nothing / 4 / 16 octets / name)
         Gw(u8, u8, Vec<u8>, Labels) }

fn bitmap_wire(ts: &[u16]) -> Vec<u8> {
    let mut v: Vec<u16> = ts.to_vec(); v.sort(); v.dedup();
    let mut out = vec![];
    let mut i = 0;
    while i < v.len() {
        let w = (v[i] >> 8) as u8;
        let mut bits = [0u8; 32];
        let mut maxb = 0;
        while i < v.len() && (v[i] >> 8) as u8 == w {
            let lo = (v[i] & 0xFF) as usize;
            bits[lo / 8] |= 0x80 >> (lo % 8);
            maxb = maxb.max(lo / 8);
            i += 1;
        }
        out.push(w); out.push(maxb as u8 + 1); out.extend_from_slice(&bits[..=maxb]);
    }
    out
}
fn f_wire(f: &F, v: &mut Vec<u8>) {
    match f {
        F::U8(x) => v.push(*x), F::U16(x) => v.extend_from_slice(&x.to_be_bytes()), F::U32(x) => v.extend_from_slice(&x.to_be_bytes()),
        F::Fixed(b) | F::Tail(b, _) => v.extend_from_slice(b),
        F::Name(n) => v.extend_from_slice(&wire_abs(n)),
        F::Str(s) | F::Pfx(s) | F::Tag(s) => { v.push(s.len() as u8); v.extend_from_slice(s); }
        F::Strs(ss) => for s in ss { v.push(s.len() as u8); v.extend_from_slice(s); },
        F::Bitmap(ts) => v.extend_from_slice(&bitmap_wire(ts)),
        F::Gw(kind, alg, addr, name) => { v.push(*kind); v.push(*alg);
            match kind { 1 => v.extend_from_slice(&addr[..4]), 2 => v.extend_from_slice(&addr[..16]), 3 => v.extend_from_slice(&wire_abs(name)), _ => {} } }
        F::Params(ps) => for (k, val) in ps { v.extend_from_slice(&k.to_be_bytes()); v.extend_from_slice(&(val.len() as u16).to_be_bytes()); v.extend_from_slice(val); },
    }
}
fn gen_small(r: &mut Rng, min: usize, max: usize) -> Vec<u8> { let n = r.range(min as u64, max as u64) as usize; (0..n).map(|_| gen_octet(r)).collect() }
fn gen_types(r: &mut Rng) -> Vec<u16> { let n = r.range(0, 5); (0..n).map(|_| *r.pick(&[1u16, 2, 5, 6, 15, 16, 28, 46, 47, 48, 255, 256, 257, 1000, 65280])).collect() }
fn gen_f(r: &mut Rng, k: &str) -> F {
    match k {
        "u8" => F::U8(if r.chance(1, 2) { r.below(4) as u8 } else { r.u8() }),
        "u16" => F::U16(match r.below(3) { 0 => r.below(4) as u16, 1 => *r.pick(&[0u16, 1, 255, 256, 257, 0x7FFF, 0x8000, 0x8001, 0xFFFE, 0xFFFF]), _ => r.u16() }),
        "u32" => F::U32(match r.below(3) { 0 => r.below(4) as u32, 1 => *r.pick(&[0u32, 1, 0x7FFF_FFFE, 0x7FFF_FFFF, 0x8000_0000, 0x8000_0001, 0xFFFF_FFFE, 0xFFFF_FFFF, 0x100, 0xFF]), _ => r.u32() }),
        "a" => F::Fixed(r.bytes(4)), "aaaa" => F::Fixed(r.bytes(16)),
        "name" => F::Name(gen_name(r)),
        "str" => F::Str(gen_small(r, 0, 5)),
        "strs" => F::Strs((0..r.range(1, 3)).map(|_| gen_small(r, 0, 4)).collect()),
        "pfx" => F::Pfx(gen_small(r, 0, 4)),
        "pfx1" => F::Pfx(gen_small(r, 1, 5)),
        "tail" => F::Tail(gen_small(r, 0, 6), 0),
        "tail1" => F::Tail(gen_small(r, 1, 6), 1),
        "tail12" => F::Tail(gen_small(r, 12, 15), 12),
        "bitmap" => F::Bitmap(gen_types(r)),
        "tag" => { let n = r.range(1, 5) as usize; F::Tag((0..n).map(|_| *r.pick(b"issuewildIODEF0129aAzZ")).collect()) }
        "gw" => F::Gw(r.below(4) as u8, r.range(1, 2) as u8, r.bytes(16), gen_name(r)),
        "params" => { let mut ks: Vec<u16> = (0..r.below(3)).map(|_| r.range(7, 12) as u16).collect(); ks.sort(); ks.dedup();
                      F::Params(ks.into_iter().map(|k| (k, gen_small(r, 0, 4))).collect()) }
        _ => unreachable!(),
    }
}
fn near_f(r: &mut Rng, f: &F) -> F {
    match f {
        F::U8(x) => F::U8(match r.below(3) { 0 => x.wrapping_add(1), 1 => x.wrapping_sub(1), _ => r.u8() }),
        F::U16(x) => F::U16(match r.below(6) { 0 => x.wrapping_add(1), 1 => x.wrapping_sub(1), 2 => x.swap_bytes(), 3 => x.wrapping_add(0x8000), 4 => x.wrapping_add(0x7FFF), _ => x ^ (1 << r.below(16)) }),
        F::U32(x) => F::U32(match r.below(7) { 0 => x.wrapping_add(1), 1 => x.wrapping_sub(1), 2 => x.swap_bytes(), 3 => x.wrapping_add(0x8000_0000), 4 => x.wrapping_add(0x7FFF_FFFF), 5 => x.wrapping_add(0x8000_0001), _ => x ^ (1 << r.below(32)) }),
        F::Fixed(b) => { let mut c = b.clone(); let i = r.below(c.len() as u64) as usize; c[i] = if r.chance(1, 2) { c[i].wrapping_add(1) } else { r.u8() }; F::Fixed(c) }
        F::Name(n) => F::Name(near_name(r, n)),
        F::Str(s) => F::Str(near_octets(r, s, 0, 255)),
        F::Strs(ss) => { let mut c = ss.clone(); match r.below(4) {
            0 => { c.push(gen_small(r, 0, 3)); }
            1 => { if c.len() > 1 { c.pop(); } }
            _ => { let i = r.below(c.len() as u64) as usize; c[i] = near_octets(r, &c[i], 0, 255); } } F::Strs(c) }
        F::Pfx(s) => F::Pfx(near_octets(r, s, 0, 255)),
        F::Tag(s) => { let mut c = near_octets(r, s, 1, 15); for b in c.iter_mut() { if !b.is_ascii_alphanumeric() { *b = b'x'; } } F::Tag(c) }
        F::Tail(t, min) => F::Tail(near_octets(r, t, *min, 300), *min),
        F::Bitmap(ts) => { let mut c = ts.clone(); if r.chance(1, 2) || c.is_empty() { c.push(*r.pick(&[1u16, 2, 3, 46, 47, 256, 1234])); } else { c.pop(); } F::Bitmap(c) }
        F::Gw(k, alg, addr, name) => match r.below(6) {
            0 => F::Gw((k + 1) % 4, *alg, addr.clone(), name.clone()),
            1 => F::Gw(*k, 3 - alg, addr.clone(), name.clone()),
            2 => { let mut c = addr.clone(); let i = r.below(if *k == 1 { 4 } else { 16 }) as usize; c[i] = c[i].wrapping_add(1); F::Gw(*k, *alg, c, name.clone()) }
            _ => F::Gw(*k, *alg, addr.clone(), near_name(r, name)),
        },
        F::Params(ps) => { let mut c = ps.clone(); if c.is_empty() || r.chance(1, 3) { let k = c.last().map_or(7, |x| x.0 + 1); c.push((k, gen_small(r, 0, 3))); }
            else { let i = r.below(c.len() as u64) as usize; c[i].1 = near_octets(r, &c[i].1, 0, 20); } F::Params(c) }
    }
}

const TYPES: &[(u16, &str, &[&str])] = &[
    (1, "a", &["a"]), (28, "aaaa", &["aaaa"]), (2, "ns", &["name"]), (5, "cname", &["name"]), (12, "ptr", &["name"]), (39, "dname", &["name"]),
    (7, "mb", &["name"]), (15, "mx", &["u16", "name"]), (6, "soa", &["name", "name", "u32", "u32", "u32", "u32", "u32"]),
    (16, "txt", &["strs"]), (13, "hinfo", &["str", "str"]), (14, "minfo", &["name", "name"]), (17, "rp", &["name", "name"]),
    (33, "srv", &["u16", "u16", "u16", "name"]), (43, "ds", &["u16", "u8", "u8", "tail"]), (59, "cds", &["u16", "u8", "u8", "tail"]),
    (48, "dnskey", &["u16", "u8", "u8", "tail"]), (60, "cdnskey", &["u16", "u8", "u8", "tail"]),
    (46, "rrsig", &["u16", "u8", "u8", "u32", "u32", "u32", "u16", "name", "tail"]), (47, "nsec", &["name", "bitmap"]),
    (50, "nsec3", &["u8", "u8", "u16", "pfx", "pfx1", "bitmap"]), (51, "nsec3param", &["u8", "u8", "u16", "pfx"]),
    (52, "tlsa", &["u8", "u8", "u8", "tail"]), (44, "sshfp", &["u8", "u8", "tail"]), (257, "caa", &["u8", "tag", "tail"]),
    (35, "naptr", &["u16", "u16", "str", "str", "str", "name"]), (61, "openpgpkey", &["tail"]), (63, "zonemd", &["u32", "u8", "u8", "tail12"]),
    (45, "ipseckey", &["u8", "gw", "tail1"]), (64, "svcb", &["u16", "name", "params"]), (65, "svcb", &["u16", "name", "params"]), (65280, "unknown", &["tail"]), (65281, "unknown", &["tail"]),
];

/// record types of the T1 table rd_table (typed model)
const TABLE_TYPES: [u16; 19] = [15, 6, 33, 13, 14, 17, 52, 44, 63, 43, 59, 48, 60, 46, 47, 50, 51, 257, 35];
type ZD = ZoneRecordData<Bytes, ParsedName<Bytes>>;
fn rd_wire(fs: &[F]) -> Vec<u8> { let mut v = vec![]; for f in fs { f_wire(f, &mut v); } v }
fn parse_rd(rtype: u16, w: &[u8]) -> Option<ZD> {
    let b = Bytes::copy_from_slice(w);
    let r = catch(move || {
        let mut p = Parser::from_ref(&b);
        match ZD::parse_rdata(Rtype::from_int(rtype), &mut p) { Ok(Some(d)) if p.remaining() == 0 => Some(d), _ => None }
    });
    r.ok().flatten()
}
fn canon_rd<D: ComposeRecordData>(d: &D) -> Vec<u8> { let mut v = Vec::new(); d.compose_canonical_rdata(&mut v).unwrap(); v }

fn rdata_pair(out: &mut Out, tname: &str, rt: u16, x: &ZD, y: &ZD, c: &str) {
    let (x2, y2) = (x.clone(), y.clone());
    let res = catch(move || (x2.canonical_cmp(&y2), y2.canonical_cmp(&x2), x2 == y2, y2 == x2, x2.partial_cmp(&y2), canon_rd(&x2), canon_rd(&y2)));
    let (cc, ccr, eq, eqr, pc, bx, by) = match res { Ok(t) => t, Err(e) => { chk(out, false, &format!("rdata_panic_{}", tname), c, &e); return; } };
    let _ = rt;
    chk(out, cc == bx.cmp(&by), &format!("canonical_cmp_not_bytewise_{}", tname), c, &format!("canonical_cmp {} but canonical forms {} vs {}", ord(cc), hex(&bx), hex(&by)));
    chk(out, cc == ccr.reverse(), &format!("canonical_cmp_antisym_{}", tname), c, "");
    chk(out, eq == eqr, &format!("rdata_eq_sym_{}", tname), c, "");
    chk(out, (pc == Some(Ordering::Equal)) == eq, &format!("cmp_eq_inconsistent_{}", tname), c, &format!("eq={} cmp={:?}", eq, pc));
    let (x3, y3) = (x.clone(), y.clone());
    if let Ok((tc, tcr)) = catch(move || (x3.cmp(&y3), y3.cmp(&x3))) {
        chk(out, pc == Some(tc), &format!("partial_cmp_differs_from_cmp_{}", tname), c, &format!("partial_cmp {:?} cmp {}", pc, ord(tc)));
        chk(out, tc == tcr.reverse(), &format!("cmp_antisym_{}", tname), c, "");
    }
    let (x2, y2) = (x.clone(), y.clone());
    match catch(move || (feed(&x2), feed(&y2))) {
        Err(e) => chk(out, false, &format!("rdata_hash_panic_{}", tname), c, &e),
        Ok((hx, hy)) => chk(out, !eq || hx == hy, &format!("eq_hash_{}", tname), c, &format!("{} vs {}", hex(&hx), hex(&hy))),
    }
}

fn gen_rdata(r: &mut Rng) -> (usize, Vec<F>) { let ti = r.below(TYPES.len() as u64) as usize; (ti, TYPES[ti].2.iter().map(|k| gen_f(r, k)).collect()) }
fn near_rdata(r: &mut Rng, fs: &[F]) -> Vec<F> { let mut g = fs.to_vec(); if r.chance(1, 12) { return g; } let i = r.below(g.len() as u64) as usize; g[i] = near_f(r, &g[i]); if r.chance(1, 5) { let j = r.below(g.len() as u64) as usize; g[j] = near_f(r, &g[j]); } g }

fn rdata_cases(out: &mut Out, r: &mut Rng, n: u64) {
    for i in 0..n {
        let (ti, fs) = if (i as usize) < 2 * TYPES.len() { let ti = i as usize % TYPES.len(); (ti, TYPES[ti].2.iter().map(|k| gen_f(r, k)).collect::<Vec<F>>()) } else { gen_rdata(r) };
        let (rt, tname, _) = TYPES[ti];
        let gs = near_rdata(r, &fs);
        let (wx, wy) = (rd_wire(&fs), rd_wire(&gs));
        let c = format!("rdata {} {} {}", rt, hex(&wx), hex(&wy));
        out.begin(&c);
        let (x, y) = match (parse_rd(rt, &wx), parse_rd(rt, &wy)) { (Some(x), Some(y)) => (x, y), _ => { out.count("rdata_unparseable"); continue; } };
        out.oracle_case(&c, wx != wy, &format!("rdata_{}", tname));
        rdata_pair(out, tname, rt, &x, &y, &c);
        // T2: ==, canonical_cmp, cmp, partial_cmp and the Hasher tokens of typed values (types of the T1 tables)
        if (TABLE_TYPES.contains(&rt) || [1u16, 28, 16, 64, 65, 45].contains(&rt)) && i % 2 == 1 {
            fn vals(rt: u16, fs: &[F]) -> Option<(u32, Vec<String>)> {
                let val = |f: &F| -> String { match f {
                    F::U8(x) => format!("{}", x), F::U16(x) => format!("{}", x), F::U32(x) => format!("{}", x),
                    F::Name(n) => hex(&wire_abs(n)), F::Str(v) | F::Pfx(v) | F::Tag(v) | F::Tail(v, _) | F::Fixed(v) => hex(v),
                    F::Bitmap(ts) => hex(&bitmap_wire(ts)), F::Strs(_) | F::Params(_) => { let mut w = vec![]; f_wire(f, &mut w); hex(&w) }
                    F::Gw(..) => "?".into() } };
                if rt == 45 {
                    if let (F::U8(p), F::Gw(k, alg, addr, name), F::Tail(key, _)) = (&fs[0], &fs[1], &fs[2]) {
                        let mut v = vec![format!("{}", p), format!("{}", k), format!("{}", alg)];
                        match k { 1 => v.push(hex(&addr[..4])), 2 => v.push(hex(&addr[..16])), 3 => v.push(hex(&wire_abs(name))), _ => {} }
                        v.push(hex(key));
                        return Some((45000 + *k as u32, v));
                    }
                    return None;
                }
                Some((rt as u32, fs.iter().map(val).collect()))
            }
            if let (Some((ca_, va)), Some((cb_, vb))) = (vals(rt, &fs), vals(rt, &gs)) {
                if ca_ == cb_ {
                    let t2 = format!("rdx {} {} | {}", ca_, va.join(" "), vb.join(" "));
                    let (x2, y2) = (x.clone(), y.clone());
                    let oo = |o: Option<Ordering>| match o { Some(x) => ord(x), None => "None" };
                    if let Ok(obs) = catch(move || format!("{} {} {} {} {} {}", x2 == y2, ord(x2.canonical_cmp(&y2)), ord(x2.cmp(&y2)), oo(x2.partial_cmp(&y2)), ord(x2.canonical_cmp(&y2)), toks(&x2))) {
                        out.case(&t2, &obs, wx != wy, "rdx");
                    }
                    // whole records with this data: ==, cmp, partial_cmp
                    if i % 4 == 1 {
                        let oa = gen_name(r); let ob = if r.chance(1, 2) { oa.clone() } else { near_name(r, &oa) };
                        let (cla, clb) = (*r.pick(&[1u16, 1, 3]), *r.pick(&[1u16, 1, 3]));
                        let ra = Record::new(flat(&oa), Class::from_int(cla), Ttl::from_secs(r.below(9) as u32), x.clone());
                        let rb = Record::new(flat(&ob), Class::from_int(clb), Ttl::from_secs(r.below(9) as u32), y.clone());
                        let t3 = format!("reco {} {} {} {} | {} {} {}", ca_, hex(&wire_abs(&oa)), cla, va.join(" "), hex(&wire_abs(&ob)), clb, vb.join(" "));
                        if let Ok(obs) = catch(move || format!("{} {} {} {}", ra == rb, ord(ra.cmp(&rb)), oo(ra.partial_cmp(&rb)), toks(&ra))) { out.case(&t3, &obs, true, "reco"); }
                    }
                }
            }
        }
        // T2: Hasher tokens of the types outside the table
        if [1u16, 28, 16, 64, 65, 45].contains(&rt) && i % 2 == 1 {
            let tagged: Option<Vec<String>> = match rt {
                1 => Some(vec![format!("4:{}", hex(&wx))]), 28 => Some(vec![format!("6:{}", hex(&wx))]), 16 => Some(vec![format!("o:{}", hex(&wx))]),
                64 | 65 => match (&fs[0], &fs[1], &fs[2]) { (F::U16(p), F::Name(n), F::Params(_)) => { let mut pw = vec![]; f_wire(&fs[2], &mut pw);
                        Some(vec![format!("w:{}", p), format!("n:{}", hex(&wire_abs(n))), format!("o:{}", hex(&pw))]) } _ => None },
                _ => match (&fs[0], &fs[1], &fs[2]) { (F::U8(p), F::Gw(k, alg, addr, name), F::Tail(key, _)) => {
                        let mut v = vec![format!("b:{}", p), format!("b:{}", k), format!("b:{}", alg)];
                        match k { 1 => v.push(format!("4:{}", hex(&addr[..4]))), 2 => v.push(format!("6:{}", hex(&addr[..16]))), 3 => v.push(format!("n:{}", hex(&wire_abs(name)))), _ => {} }
                        v.push(format!("o:{}", hex(key))); Some(v) } _ => None },
            };
            if let Some(tv) = tagged {
                let x2 = x.clone();
                if let Ok(obs) = catch(move || toks(&x2)) { out.case(&format!("rdh {} {}", rt, tv.join(" ")), &obs, true, "rdh"); }
            }
        }
        // the same octets through AllRecordData's dispatch
        if i % 4 == 0 {
            let (bx, by) = (Bytes::copy_from_slice(&wx), Bytes::copy_from_slice(&wy));
            let (x2, y2) = (x.clone(), y.clone());
            let r = catch(move || {
                let (mut p1, mut p2) = (Parser::from_ref(&bx), Parser::from_ref(&by));
                type AD = AllRecordData<Bytes, ParsedName<Bytes>>;
                match (AD::parse_rdata(Rtype::from_int(rt), &mut p1), AD::parse_rdata(Rtype::from_int(rt), &mut p2)) {
                    (Ok(Some(a)), Ok(Some(b))) => Some(a.canonical_cmp(&b) == x2.canonical_cmp(&y2) && (rt >= 65280 || (a == b) == (x2 == y2)) && canon_rd(&a) == canon_rd(&x2)),
                    _ => None,
                }
            });
            match r { Ok(Some(same)) => chk(out, same, &format!("all_record_data_dispatch_{}", tname), &c, ""), Ok(None) => out.count("all_record_data_unparseable"), Err(e) => chk(out, false, &format!("rdata_panic_{}", tname), &c, &e) }
        }
        // same data after a trip through a compressed message
        if i % 2 == 0 {
            let owner = flat(&vec![b"o".to_vec(), b"example".to_vec()]);
            let suffix_owner = match fs.iter().find_map(|f| if let F::Name(n) = f { Some(n.clone()) } else { None }) { Some(n) if !n.is_empty() => flat(&n[n.len() - 1..].to_vec()), _ => owner.clone() };
            let (x2, y2) = (x.clone(), y.clone());
            let built = catch(move || {
                let mut mb = MessageBuilder::from_target(StaticCompressor::new(Vec::new())).unwrap().answer();
                mb.push((suffix_owner.clone(), 1u32, UnknownRecordData::from_octets(Rtype::from_int(65300), &b"z"[..]).unwrap())).ok()?;
                mb.push((owner.clone(), Class::IN, Ttl::from_secs(7), x2)).ok()?;
                mb.push((owner.clone(), Class::IN, Ttl::from_secs(7), y2)).ok()?;
                Some(Bytes::from(mb.finish().into_target()))
            });
            if let Ok(Some(mbytes)) = built {
                if let Ok(msg) = Message::from_octets(mbytes.clone()) {
                    let recs: Vec<ZD> = msg.answer().unwrap().filter_map(|rr| rr.ok()).filter_map(|rr| rr.to_record::<ZD>().ok().flatten()).map(|rec| rec.data().clone()).collect();
                    if recs.len() == 3 {
                        let c2 = format!("{} via {}", c, hex(&mbytes));
                        rdata_pair(out, tname, rt, &recs[1], &recs[2], &c2);
                        let (p1, x2, y2) = (recs[1].clone(), x.clone(), y.clone());
                        match catch(move || (p1 == x2 && x2 == p1 && p1.canonical_cmp(&x2) == Ordering::Equal && canon_rd(&p1) == canon_rd(&x2),
                                             p1.canonical_cmp(&y2) == x2.canonical_cmp(&y2) && (p1 == y2) == (x2 == y2))) {
                            Ok((a, b)) => { chk(out, a, &format!("repr_independent_rdata_{}", tname), &c2, "");
                                            chk(out, b, &format!("repr_independent_rdata_{}", tname), &c2, "mixed"); }
                            Err(e) => chk(out, false, &format!("rdata_panic_{}", tname), &c2, &e),
                        }
                        let (p1, x2) = (recs[1].clone(), x.clone());
                        if let Ok(same) = catch(move || feed(&p1) == feed(&x2)) { chk(out, same, &format!("repr_independent_rdata_hash_{}", tname), &c2, ""); }
                    }
                }
            }
        }
    }
    // different types: order by rtype
    for _ in 0..n / 10 {
        let ((t1, f1), (t2, f2)) = (gen_rdata(r), gen_rdata(r));
        if TYPES[t1].0 == TYPES[t2].0 { continue; }
        if let (Some(x), Some(y)) = (parse_rd(TYPES[t1].0, &rd_wire(&f1)), parse_rd(TYPES[t2].0, &rd_wire(&f2))) {
            let c = format!("rdata2 {} {} {} {}", TYPES[t1].0, hex(&rd_wire(&f1)), TYPES[t2].0, hex(&rd_wire(&f2)));
            out.oracle_case(&c, true, "rdata_cross_type");
            let both_unknown = TYPES[t1].0 >= 65280 && TYPES[t2].0 >= 65280;
            chk(out, x.canonical_cmp(&y) == TYPES[t1].0.cmp(&TYPES[t2].0), if both_unknown { "unknown_rdata_ignores_rtype" } else { "canonical_cmp_cross_type" }, &c, "canonical_cmp of data of different types is not the order of the types");
            chk(out, x != y, if both_unknown { "unknown_rdata_ignores_rtype" } else { "rdata_eq_cross_type" }, &c, "record data of different types compare equal");
        }
    }
    // unknown record data of two types with the same octets
    for _ in 0..20 {
        let d = gen_small(r, 0, 4);
        let (x, y) = (parse_rd(65280, &d).unwrap(), parse_rd(65281, &d).unwrap());
        let c = format!("unknown 65280 65281 {}", hex(&d));
        out.oracle_case(&c, true, "rdata_unknown_types");
        chk(out, !(x == y) || feed(&x) == feed(&y), "unknown_rdata_ignores_rtype", &c, "equal although the types differ, and hashed differently");
        out.case(&format!("rdh 65280 o:{}", hex(&d)), &toks(&x), true, "rdh");
    }
}

// -------------------------------------------------------------- records

/// the RDATA octets of the records of a message without question section, as they stand in the message
fn raw_rdata(m: &[u8]) -> Vec<Vec<u8>> {
    let mut out = vec![]; let mut p = 12;
    while p < m.len() {
        loop { if p >= m.len() { return out; } let b = m[p]; if b == 0 { p += 1; break; } if b >= 0xC0 { p += 2; break; } p += 1 + b as usize; }
        if p + 10 > m.len() { return out; }
        let rdlen = u16::from_be_bytes([m[p + 8], m[p + 9]]) as usize; p += 10;
        if p + rdlen > m.len() { return out; }
        out.push(m[p..p + rdlen].to_vec()); p += rdlen;
    }
    out
}
type Rec = Record<FName, ZD>;
fn record_cases(out: &mut Out, r: &mut Rng, n: u64) {
    for i in 0..n {
        let (ti, fs) = gen_rdata(r);
        let rt = TYPES[ti].0;
        let (oa, ca, ta) = (gen_name(r), *r.pick(&[1u16, 1, 1, 3, 4, 254, 255, 256]), r.u32() >> r.below(32));
        let mut ob = oa.clone(); let mut cb = ca; let mut tb = ta; let mut gs = fs.clone(); let mut rtb = rt; let mut tib = ti;
        let what = r.below(8);
        match what {
            0 => { tb = tb.wrapping_add(1 + r.below(5) as u32) & 0x7FFF_FFFF; }
            1 => { ob = near_name(r, &oa); }
            2 => { cb = match r.below(3) { 0 => ca.wrapping_add(1), 1 => ca.swap_bytes(), _ => ca ^ 0x100 }; }
            3 | 4 => { gs = near_rdata(r, &fs); }
            5 => { let (t2, f2) = gen_rdata(r); tib = t2; rtb = TYPES[t2].0; gs = f2; }
            6 => { ob = near_name(r, &oa); gs = near_rdata(r, &fs); }
            _ => { ob = near_name(r, &oa); cb = ca ^ 1; }
        }
        let ta = ta & 0x7FFF_FFFF;
        let _ = tib;
        let (wx, wy) = (rd_wire(&fs), rd_wire(&gs));
        let c = format!("record {} {} {} {} {} | {} {} {} {} {}", hex(&wire_abs(&oa)), ca, ta, rt, hex(&wx), hex(&wire_abs(&ob)), cb, tb, rtb, hex(&wy));
        out.begin(&c);
        let (x, y) = match (parse_rd(rt, &wx), parse_rd(rtb, &wy)) { (Some(x), Some(y)) => (x, y), _ => { out.count("record_unparseable"); continue; } };
        let ra: Rec = Record::new(flat(&oa), Class::from_int(ca), Ttl::from_secs(ta), x.clone());
        let rb: Rec = Record::new(flat(&ob), Class::from_int(cb), Ttl::from_secs(tb), y.clone());
        out.oracle_case(&c, true, "record");
        let (ra2, rb2) = (ra.clone(), rb.clone());
        let res = catch(move || (ra2 == rb2, rb2 == ra2, ra2.canonical_cmp(&rb2), rb2.canonical_cmp(&ra2), ra2.partial_cmp(&rb2)));
        let (eq, eqr, cc, ccr, pc) = match res { Ok(t) => t, Err(e) => { chk(out, false, "record_panic", &c, &e); continue; } };
        let (ra2, rb2) = (ra.clone(), rb.clone());
        // a panic while hashing the record data is reported once, by rdata_pair (rdata_hash_panic_<type>)
        let (ha, hb) = match catch(move || (feed(&ra2), feed(&rb2))) { Ok(t) => t, Err(_) => { out.count("record_hash_panicked"); continue; } };
        chk(out, eq == eqr, "record_eq_sym", &c, "");
        let only_ttl = oa == ob && ca == cb && rt == rtb && wx == wy && ta != tb;
        chk(out, !eq || ha == hb, if only_ttl { "record_hash_includes_ttl" } else { "record_eq_hash" }, &c, "");
        if only_ttl { chk(out, eq, "record_eq_ignores_ttl", &c, ""); }
        chk(out, cc == ccr.reverse(), "record_canonical_antisym", &c, "");
        // class, owner (RFC 4034 6.1), type, then record data
        let want = ca.cmp(&cb).then(rfc_name_cmp(&oa, &ob)).then(rt.cmp(&rtb)).then_with(|| x.canonical_cmp(&y));
        chk(out, cc == want, "record_canonical_order", &c, &format!("{} want {}", ord(cc), ord(want)));
        if ca == cb && rfc_name_eq(&oa, &ob) && rt == rtb {
            // within one RRset (RFC 4034 6.3): order of the canonical RDATA.  Types whose own
            // canonical_cmp disagrees with their canonical form are reported by rdata_pair.
            chk(out, cc == x.canonical_cmp(&y), "record_rrset_order_rfc4034_6_3", &c, "");
        }
        {
            let (ra2, rb2) = (ra.clone(), rb.clone());
            // (a disagreement inside the record data is reported by rdata_pair under its own type)
            let data_ok = { let (x2, y2) = (x.clone(), y.clone()); catch(move || x2.partial_cmp(&y2) == Some(x2.cmp(&y2))).unwrap_or(false) };
            if data_ok { if let Ok(tc) = catch(move || ra2.cmp(&rb2)) { chk(out, pc == Some(tc), "partial_cmp_differs_from_cmp_record", &c, &format!("{:?} vs {}", pc, ord(tc))); } }
        }
        // header
        let (h1, h2) = (RecordHeader::new(flat(&oa), Rtype::from_int(rt), Class::from_int(ca), Ttl::from_secs(ta), wx.len() as u16),
                        RecordHeader::new(flat(&ob), Rtype::from_int(rtb), Class::from_int(cb), Ttl::from_secs(tb), wy.len() as u16));
        chk(out, !(h1 == h2) || feed(&h1) == feed(&h2), "header_eq_hash", &c, "");
        chk(out, (h1 == h2) == (h2 == h1) && (h1.cmp(&h2) == Ordering::Equal) == (h1 == h2) && h1.cmp(&h2) == h2.cmp(&h1).reverse(), "header_cmp_eq", &c, "");
        chk(out, h1.partial_cmp(&h2) == Some(h1.cmp(&h2)), "header_partial_cmp", &c, "");
        {
            let want = rfc_name_cmp(&oa, &ob).then(rt.cmp(&rtb)).then(ca.cmp(&cb)).then(ta.cmp(&tb)).then((wx.len() as u16).cmp(&(wy.len() as u16)));
            chk(out, h1.cmp(&h2) == want, "header_order", &c, &format!("{} want {}", ord(h1.cmp(&h2)), ord(want)));
            let t2 = format!("hdr {} {} {} {} {} {} {} {} {} {}", hex(&wire_abs(&oa)), rt, ca, ta, wx.len(), hex(&wire_abs(&ob)), rtb, cb, tb, wy.len());
            out.case(&t2, &format!("{} {} {}", h1 == h2, ord(h1.cmp(&h2)), toks(&h1)), true, "hdr");
        }
        // T2: the record order with opaque record data
        if i % 2 == 0 {
            let (da, db) = (gen_small(r, 0, 4), if r.chance(1, 2) { wx.iter().take(3).cloned().collect() } else { gen_small(r, 0, 4) });
            let (da, db) = if r.chance(1, 3) { (da.clone(), da) } else { (da, db) };
            let (ua, ub) = (65280 + (rt % 3), 65280 + (rtb % 3));
            let t2 = format!("rec {} {} {} {} {} {} {} {} {} {}", hex(&wire_abs(&oa)), ca, ta, ua, hex(&da), hex(&wire_abs(&ob)), cb, tb, ub, hex(&db));
            let r1 = Record::new(flat(&oa), Class::from_int(ca), Ttl::from_secs(ta), UnknownRecordData::from_octets(Rtype::from_int(ua), da.clone()).unwrap());
            let r2 = Record::new(flat(&ob), Class::from_int(cb), Ttl::from_secs(tb), UnknownRecordData::from_octets(Rtype::from_int(ub), db.clone()).unwrap());
            out.case(&t2, ord(r1.canonical_cmp(&r2)), true, "rec");
        }
        // representation independence: both records through a compressing builder
        if i % 2 == 1 {
            for tree in [false, true] {
                let (ra2, rb2) = (ra.clone(), rb.clone());
                let built = catch(move || {
                    if tree {
                        let mut mb = MessageBuilder::from_target(TreeCompressor::new(Vec::new())).unwrap().answer();
                        mb.push(ra2).ok()?; mb.push(rb2).ok()?; Some(Bytes::from(mb.finish().into_target()))
                    } else {
                        let mut mb = MessageBuilder::from_target(StaticCompressor::new(Vec::new())).unwrap().answer();
                        mb.push(ra2).ok()?; mb.push(rb2).ok()?; Some(Bytes::from(mb.finish().into_target()))
                    }
                });
                if let Ok(Some(mbytes)) = built {
                    if let Ok(msg) = Message::from_octets(mbytes.clone()) {
                        let recs: Vec<Record<ParsedName<Bytes>, ZD>> = msg.answer().unwrap().filter_map(|rr| rr.ok()).filter_map(|rr| rr.to_record::<ZD>().ok().flatten()).collect();
                        // ParsedRecord: == is reflexive, symmetric, and equal ParsedRecords parse to equal records
                        {
                            let prs: Vec<_> = msg.answer().unwrap().filter_map(|rr| rr.ok()).collect();
                            if prs.len() == 2 {
                                let c2 = format!("{} via {}", c, hex(&mbytes));
                                let (p0, p1) = (&prs[0], &prs[1]);
                                chk(out, p0 == p0 && p1 == p1 && (p0 == p1) == (p1 == p0), "parsed_record_eq_equiv", &c2, "");
                                if !tree {
                                    let raws = raw_rdata(&mbytes);
                                    if raws.len() == 2 {
                                        let (d0, d1) = (raws[0].clone(), raws[1].clone());
                                        let line = |p: &domain::base::record::ParsedRecord<'_, Bytes>, o: &Labels, d: &Vec<u8>| format!("{} {} {} {} {} {}", hex(&wire_abs(o)), p.rtype().to_int(), p.class().to_int(), p.ttl().as_secs(), p.rdlen(), hex(d));
                                        out.case(&format!("preq {} {}", line(p0, &oa, &d0), line(p1, &ob, &d1)), &format!("{}", p0 == p1), true, "preq");
                                    }
                                }
                                if p0 == p1 { chk(out, eq, "parsed_record_eq_implies_record_eq", &c2, ""); }
                            }
                        }
                        if recs.len() == 2 {
                            let c2 = format!("{} via {}", c, hex(&mbytes));
                            let (q0, q1, ra2, rb2) = (recs[0].clone(), recs[1].clone(), ra.clone(), rb.clone());
                            match catch(move || (q0 == ra2 && ra2 == q0 && q0.canonical_cmp(&ra2) == Ordering::Equal && feed(&q0) == feed(&ra2),
                                                 (q0 == q1) == eq && q0.canonical_cmp(&q1) == cc && q0.canonical_cmp(&rb2) == cc && ra2.canonical_cmp(&q1) == cc)) {
                                Ok((a, b)) => { chk(out, a, "repr_independent_record", &c2, "self"); chk(out, b, "repr_independent_record", &c2, "pair"); }
                                Err(e) => chk(out, false, "record_panic", &c2, &e),
                            }
                        }
                    }
                }
            }
        }
    }
}

// ------------------------------------------------------------- NSEC (T2)

fn nsec_cases(out: &mut Out, r: &mut Rng, n: u64) {
    for _ in 0..n {
        let a = gen_name(r);
        let b = if r.chance(1, 2) { a.clone() } else { near_name(r, &a) };
        let ta = gen_types(r);
        let tb = if r.chance(1, 3) { ta.clone() } else { gen_types(r) };
        let (ba, bb) = (bitmap_wire(&ta), bitmap_wire(&tb));
        let c = format!("nsec {} {} {} {}", hex(&wire_abs(&a)), hex(&ba), hex(&wire_abs(&b)), hex(&bb));
        out.begin(&c);
        let x = Nsec::new(flat(&a), RtypeBitmap::from_octets(ba.clone()).unwrap());
        let y = Nsec::new(flat(&b), RtypeBitmap::from_octets(bb.clone()).unwrap());
        out.case(&c, &format!("Ok {}", ord(x.canonical_cmp(&y))), a != b || ba != bb, "nsec");
    }
}

// ------------------------------------------------- SVCB and unknown data (T2)

fn svcb_cases(out: &mut Out, r: &mut Rng, n: u64) {
    for i in 0..n {
        let t1 = gen_name(r);
        let t2 = if r.chance(1, 4) { t1.clone() } else { near_name(r, &t1) };
        let p1 = *r.pick(&[0u16, 1, 1, 2, 255, 256]);
        let p2 = if r.chance(2, 3) { p1 } else { *r.pick(&[0u16, 1, 2, 255, 256]) };
        let q1 = if r.chance(1, 2) { vec![] } else { let mut v = vec![0, 7, 0, 1]; v.push(gen_octet(r)); v };
        let q2 = if r.chance(1, 2) { q1.clone() } else if r.chance(1, 2) { vec![] } else { let mut v = vec![0, 7, 0, 1]; v.push(gen_octet(r)); v };
        let rt = if i % 2 == 0 { 64 } else { 65 };
        let w = |p: u16, t: &Labels, q: &Vec<u8>| { let mut v = p.to_be_bytes().to_vec(); v.extend_from_slice(&wire_abs(t)); v.extend_from_slice(q); v };
        let (x, y) = match (parse_rd(rt, &w(p1, &t1, &q1)), parse_rd(rt, &w(p2, &t2, &q2))) { (Some(x), Some(y)) => (x, y), _ => continue };
        let c = format!("svcb {} {} {} {} {} {}", p1, hex(&wire_abs(&t1)), hex(&q1), p2, hex(&wire_abs(&t2)), hex(&q2));
        out.begin(&c);
        out.case(&c, &format!("Ok {}", ord(x.canonical_cmp(&y))), t1 != t2 || p1 != p2 || q1 != q2, "svcb");
    }
    // IPSECKEY with a name gateway; hashing a value without gateway
    for i in 0..n {
        let g1 = gen_name(r);
        let g2 = if r.chance(1, 4) { g1.clone() } else { near_name(r, &g1) };
        let (p1, a1) = (*r.pick(&[0u8, 1, 10, 255]), r.range(1, 2) as u8);
        let (p2, a2) = (if r.chance(3, 4) { p1 } else { p1.wrapping_add(1) }, if r.chance(3, 4) { a1 } else { 3 - a1 });
        let k1 = gen_small(r, 1, 3);
        let k2 = if r.chance(1, 2) { k1.clone() } else { near_octets(r, &k1, 1, 6) };
        let w = |p: u8, a: u8, g: &Labels, k: &Vec<u8>| { let mut v = vec![p, 3, a]; v.extend_from_slice(&wire_abs(g)); v.extend_from_slice(k); v };
        let (x, y) = match (parse_rd(45, &w(p1, a1, &g1, &k1)), parse_rd(45, &w(p2, a2, &g2, &k2))) { (Some(x), Some(y)) => (x, y), _ => continue };
        let c = format!("ipsec {} {} {} {} {} {} {} {}", p1, a1, hex(&wire_abs(&g1)), hex(&k1), p2, a2, hex(&wire_abs(&g2)), hex(&k2));
        out.begin(&c);
        let obs = show(catch(move || x.canonical_cmp(&y)), |o| ord(*o).to_string());
        out.case(&c, &obs, g1 != g2 || k1 != k2 || p1 != p2 || a1 != a2, "ipsec");
        if i % 20 == 0 {
            let z = parse_rd(45, &[p1, 0, a1, 7]).unwrap();
            let obs = match catch(move || feed(&z)) { Ok(_) => "Ok", Err(_) => "Panic" };
            out.case(&format!("ipsechash {} {}", p1, a1), obs, true, "ipsechash");
        }
    }
    // AllRecordData: == on the Unknown and Opt variants (reflexivity)
    type AD = AllRecordData<Bytes, ParsedName<Bytes>>;
    let parse_ad = |rt: u16, w: &[u8]| -> Option<AD> {
        let b = Bytes::copy_from_slice(w);
        catch(move || { let mut p = Parser::from_ref(&b); AD::parse_rdata(Rtype::from_int(rt), &mut p).ok().flatten() }).ok().flatten()
    };
    for _ in 0..n / 4 {
        let d1 = gen_small(r, 0, 3);
        let d2 = if r.chance(2, 3) { d1.clone() } else { near_octets(r, &d1, 0, 8) };
        let r1 = 65280 + r.below(3) as u16;
        let r2 = if r.chance(2, 3) { r1 } else { 65280 + r.below(3) as u16 };
        if let (Some(x), Some(y)) = (parse_ad(r1, &d1), parse_ad(r2, &d2)) {
            let c = format!("alleq {} {} {} {}", r1, hex(&d1), r2, hex(&d2));
            out.begin(&c);
            out.case(&c, &format!("{}", x == y), true, "alleq");
            chk(out, x == x.clone() && y == y.clone(), "all_record_data_eq_not_reflexive", &c, "AllRecordData::Unknown value is not equal to itself");
            chk(out, (x.cmp(&y) == Ordering::Equal) == (x == y), "all_record_data_eq_not_reflexive", &c, "cmp and == disagree");
        }
        // OPT: a sequence of options (code, length, data)
        let o1: Vec<u8> = if r.chance(1, 3) { vec![] } else { let v = gen_small(r, 0, 3); let mut w = vec![0, 10, 0, v.len() as u8]; w.extend_from_slice(&v); w };
        let o2 = if r.chance(2, 3) { o1.clone() } else { vec![0, 10, 0, 1, gen_octet(r)] };
        if let (Some(x), Some(y)) = (parse_ad(41, &o1), parse_ad(41, &o2)) {
            let c = format!("alleqopt {} {}", hex(&o1), hex(&o2));
            out.begin(&c);
            out.case(&c, &format!("{}", x == y), true, "alleqopt");
            chk(out, x == x.clone() && y == y.clone(), "all_record_data_eq_not_reflexive", &c, "AllRecordData::Opt value is not equal to itself");
        }
    }
    // PartialOrd of ZONEMD / RRSIG / NSEC3 on the one field where it is written differently from Ord
    let oo = |o: Option<Ordering>| match o { Some(x) => ord(x).to_string(), None => "None".to_string() };
    const EXT: [u32; 10] = [0, 1, 0x7FFF_FFFE, 0x7FFF_FFFF, 0x8000_0000, 0x8000_0001, 0xFFFF_FFFE, 0xFFFF_FFFF, 0x1234_5678, 0x9234_5678];
    for _ in 0..n {
        let a = if r.chance(2, 3) { *r.pick(&EXT) } else { r.u32() };
        let b = match r.below(5) { 0 => a, 1 => a.wrapping_add(0x8000_0000), 2 => a.wrapping_add(0x7FFF_FFFF + r.below(3) as u32), 3 => *r.pick(&EXT), _ => r.u32() };
        let z = |s: u32| { let mut v = s.to_be_bytes().to_vec(); v.extend_from_slice(&[1, 1]); v.extend_from_slice(&[7u8; 12]); v };
        if let (Some(x), Some(y)) = (parse_rd(63, &z(a)), parse_rd(63, &z(b))) {
            let c = format!("pzone {} {}", a, b); out.begin(&c);
            out.case(&c, &oo(x.partial_cmp(&y)), a != b, "pzone");
        }
        let g = |e: u32| { let mut v = vec![0, 1, 8, 2, 0, 0, 0, 9]; v.extend_from_slice(&e.to_be_bytes()); v.extend_from_slice(&[0, 0, 0, 5, 0, 7, 1, b'a', 0, 9]); v };
        if let (Some(x), Some(y)) = (parse_rd(46, &g(a)), parse_rd(46, &g(b))) {
            let c = format!("prrsig {} {}", a, b); out.begin(&c);
            out.case(&c, &oo(x.partial_cmp(&y)), a != b, "prrsig");
        }
        let (s1, s2) = { let s1 = gen_small(r, 0, 3); let s2 = if r.chance(1, 3) { s1.clone() } else { near_octets(r, &s1, 0, 6) }; (s1, s2) };
        let h = |s: &Vec<u8>| { let mut v = vec![1, 0, 0, 5, s.len() as u8]; v.extend_from_slice(s); v.extend_from_slice(&[1, 9]); v };
        if let (Some(x), Some(y)) = (parse_rd(50, &h(&s1)), parse_rd(50, &h(&s2))) {
            let c = format!("pnsec3 {} {}", hex(&s1), hex(&s2)); out.begin(&c);
            out.case(&c, &oo(x.partial_cmp(&y)), s1 != s2, "pnsec3");
        }
    }
    // TSIG and OPT (pseudo record types) through AllRecordData: canonical order against the canonical form
    for i in 0..n {
        let mut tagged: Option<Vec<String>> = None;
        let mut rdx_line: Option<String> = None;
        let (rt, wx, wy) = if i % 3 == 0 {
            let o1: Vec<u8> = (0..r.below(3)).flat_map(|_| { let v = gen_small(r, 0, 3); let mut w = vec![0, r.range(8, 12) as u8, 0, v.len() as u8]; w.extend_from_slice(&v); w }).collect();
            let o2 = if r.chance(1, 3) { o1.clone() } else { near_octets(r, &o1, 0, 40) };
            tagged = Some(vec![format!("o:{}", hex(&o1))]);
            rdx_line = Some(format!("rdx 41 {} | {}", hex(&o1), hex(&o2)));
            (41u16, o1, o2)
        } else {
            let tsig = |alg: &Labels, time: u64, fudge: u16, mac: &Vec<u8>, id: u16, err: u16, other: &Vec<u8>| { let mut v = wire_abs(alg);
                v.extend_from_slice(&time.to_be_bytes()[2..]); v.extend_from_slice(&fudge.to_be_bytes()); v.extend_from_slice(&(mac.len() as u16).to_be_bytes()); v.extend_from_slice(mac);
                v.extend_from_slice(&id.to_be_bytes()); v.extend_from_slice(&err.to_be_bytes()); v.extend_from_slice(&(other.len() as u16).to_be_bytes()); v.extend_from_slice(other); v };
            let alg = gen_name(r); let time = r.next() >> 16; let fudge = r.u16(); let mac = gen_small(r, 0, 4); let id = r.u16(); let err = r.below(20) as u16; let other = gen_small(r, 0, 3);
            let f1 = (alg.clone(), time, fudge, mac.clone(), id, err, other.clone());
            let f2 = match r.below(8) { 0 => f1.clone(), 1 => (near_name(r, &alg), time, fudge, mac.clone(), id, err, other.clone()), 2 => (alg.clone(), time ^ (1 << r.below(48)), fudge, mac.clone(), id, err, other.clone()),
                3 => (alg.clone(), time, fudge.wrapping_add(1), mac.clone(), id, err, other.clone()), 4 => (alg.clone(), time, fudge, near_octets(r, &mac, 0, 300), id, err, other.clone()),
                5 => (alg.clone(), time, fudge, mac.clone(), id.swap_bytes(), err, other.clone()), 6 => (alg.clone(), time, fudge, mac.clone(), id, err ^ 1, other.clone()), _ => (alg.clone(), time, fudge, mac.clone(), id, err, near_octets(r, &other, 0, 300)) };
            let (w1, w2) = (tsig(&f1.0, f1.1, f1.2, &f1.3, f1.4, f1.5, &f1.6), tsig(&f2.0, f2.1, f2.2, &f2.3, f2.4, f2.5, &f2.6));
            tagged = Some(vec![format!("n:{}", hex(&wire_abs(&alg))), format!("q:{}", time), format!("w:{}", fudge), format!("l:{}", hex(&mac)), format!("w:{}", id), format!("w:{}", err), format!("l:{}", hex(&other))]);
            let plain = |f: &(Labels, u64, u16, Vec<u8>, u16, u16, Vec<u8>)| format!("{} {} {} {} {} {} {}", hex(&wire_abs(&f.0)), f.1, f.2, hex(&f.3), f.4, f.5, hex(&f.6));
            rdx_line = Some(format!("rdx 250 {} | {}", plain(&f1), plain(&f2)));
            (250u16, w1, w2)
        };
        let tname = if rt == 41 { "opt" } else { "tsig" };
        if let (Some(x), Some(y)) = (parse_ad(rt, &wx), parse_ad(rt, &wy)) {
            let c = format!("ad {} {} {}", rt, hex(&wx), hex(&wy));
            out.begin(&c);
            out.oracle_case(&c, wx != wy, &format!("rdata_{}", tname));
            if let Some(tv) = &tagged { let x2 = x.clone(); if let Ok(obs) = catch(move || toks(&x2)) { out.case(&format!("rdh {} {}", rt, tv.join(" ")), &obs, true, "rdh"); } }
            if let Some(line) = &rdx_line {
                let (x2, y2) = (x.clone(), y.clone());
                let oo = |o: Option<Ordering>| match o { Some(x) => ord(x), None => "None" };
                if let Ok(obs) = catch(move || format!("{} {} {} {} {} {}", x2 == y2, ord(x2.canonical_cmp(&y2)), ord(x2.cmp(&y2)), oo(x2.partial_cmp(&y2)), ord(x2.canonical_cmp(&y2)), toks(&x2))) {
                    out.case(line, &obs, wx != wy, "rdx");
                }
            }
            match catch(move || (x.canonical_cmp(&y), y.canonical_cmp(&x), x == y, y == x, x.cmp(&y), canon_rd(&x), canon_rd(&y), feed(&x), feed(&y))) {
                Err(e) => chk(out, false, &format!("rdata_panic_{}", tname), &c, &e),
                Ok((cc, ccr, eq, eqr, cm, bx, by, hx, hy)) => {
                    chk(out, cc == bx.cmp(&by), &format!("canonical_cmp_not_bytewise_{}", tname), &c, &format!("{} but {} vs {}", ord(cc), hex(&bx), hex(&by)));
                    chk(out, cc == ccr.reverse(), &format!("canonical_cmp_antisym_{}", tname), &c, "");
                    chk(out, eq == eqr, &format!("rdata_eq_sym_{}", tname), &c, "");
                    chk(out, !eq || hx == hy, &format!("eq_hash_{}", tname), &c, "");
                    chk(out, (cm == Ordering::Equal) == eq, &format!("cmp_eq_inconsistent_{}", tname), &c, &format!("eq={} cmp={}", eq, ord(cm)));
                }
            }
        } else { out.count("ad_unparseable"); }
    }
    for _ in 0..n / 2 {
        let d1 = gen_small(r, 0, 3);
        let d2 = if r.chance(1, 2) { d1.clone() } else { near_octets(r, &d1, 0, 8) };
        let r1 = 65280 + r.below(3) as u16;
        let r2 = if r.chance(1, 2) { r1 } else { 65280 + r.below(3) as u16 };
        let (x, y) = (parse_rd(r1, &d1).unwrap(), parse_rd(r2, &d2).unwrap());
        let c = format!("{} {} {} {}", r1, hex(&d1), r2, hex(&d2));
        out.begin(&c);
        out.case(&format!("unkeq {}", c), &format!("{}", x == y), r1 != r2 || d1 != d2, "unkeq");
        out.case(&format!("unkccmp {}", c), ord(x.canonical_cmp(&y)), r1 != r2 || d1 != d2, "unkccmp");
    }
}

fn main() {
    let a = args();
    if a.extra.iter().any(|x| x == "--dump-toks") {
        let show = |rt: u16, w: &[u8]| { if let Some(x) = parse_rd(rt, w) { println!("ZD {} {} => {}", rt, hex(w), toks(&x)); } else { println!("ZD {} {} unparseable", rt, hex(w)); } };
        show(1, &[1, 2, 3, 4]); show(28, &[1, 2, 3, 4, 5, 6, 7, 8, 9, 10, 11, 12, 13, 14, 15, 16]);
        show(16, &[1, b'A', 0, 2, b'b', b'c']); show(64, &[0, 1, 1, b'A', 0, 0, 7, 0, 1, 9]); show(65, &[0, 1, 0]);
        show(45, &[2, 0, 2, 7]); show(45, &[2, 1, 2, 9, 8, 7, 6, 5]); show(45, &[2, 3, 2, 1, b'A', 0, 5]);
        show(45, &[2, 2, 2, 1, 2, 3, 4, 5, 6, 7, 8, 9, 10, 11, 12, 13, 14, 15, 16, 5]);
        let show_ad = |rt: u16, w: &[u8]| { let b = Bytes::copy_from_slice(w); let mut p = Parser::from_ref(&b);
            match AllRecordData::<Bytes, ParsedName<Bytes>>::parse_rdata(Rtype::from_int(rt), &mut p) { Ok(Some(x)) => println!("AD {} {} => {}", rt, hex(w), toks(&x)), _ => println!("AD {} unparseable", rt) } };
        show_ad(41, &[0, 10, 0, 1, 65]); show_ad(41, &[]);
        show_ad(250, &[1, b'A', 0, 0, 0, 0, 0, 1, 2, 0, 3, 0, 2, 8, 9, 0, 4, 0, 5, 0, 1, 7]);
        show_ad(65280, &[1, 2]);
        return;
    }
    let mut out = Out::new(&a, "C04", 60);
    let mut r = Rng::new(a.seed);
    let k = if a.thorough { 10 } else { 1 } * a.scale;
    label_cases(&mut out, &mut r, 3000 * k);
    name_cases(&mut out, &mut r, 6000 * k);
    suffix_cases(&mut out, &mut r, 700 * k);
    charstr_cases(&mut out, &mut r, 2500 * k);
    nsec_cases(&mut out, &mut r, 600 * k);
    svcb_cases(&mut out, &mut r, 600 * k);
    rdata_cases(&mut out, &mut r, 16000 * k);
    record_cases(&mut out, &mut r, 6000 * k);
    out.finish(&[]);
}
