//! C07 -- the in-place zone-file reader (`domain::zonefile::inplace`).
//!
//! (a) totality: random / weighted-alphabet / grammar-fuzzed byte strings are
//!     read entry by entry until end or the first error under catch_unwind and
//!     the hang watchdog (`panic_reader_*`, hang);
//! (b) metamorphic: a logical zone (list of $ORIGIN / $TTL / records) is
//!     rendered canonically and with one layout rewrite kind enabled at a time
//!     (and all mixed); every rendering must give the same record sequence
//!     (`layout_dependent_<rewrite>`);
//! (c) T2: files over the alphabet the Coq model covers are read by the
//!     implementation and by the extracted model (`read <hex>`).
use domain::base::iana::Rtype;
use domain::base::name::ToName;
use domain::base::rdata::ComposeRecordData;
use domain::zonefile::inplace::{Entry, Zonefile};
use dv_harness::*;

// ---------------------------------------------------------------- reading

#[derive(Clone, PartialEq, Eq, Debug)]
enum End { Eof, Err(String), Panic(String), Cap, Hang }

fn show_entry(e: &Entry) -> String {
    match e {
        Entry::Record(r) => {
            let mut o = Vec::new();
            r.owner().compose(&mut o).unwrap();
            let mut d = Vec::new();
            r.data().compose_rdata(&mut d).unwrap();
            format!("R:{}:{}:{}:{}:{}", hex(&o), r.class().to_int(), r.ttl().as_secs(), r.rtype().to_int(), hex(&d))
        }
        Entry::Include { path, origin } => {
            let p: &str = path.as_ref();
            let o = match origin { Some(n) => hex(n.as_slice()), None => "-".to_string() };
            format!("I:{}:{}", hex(p.as_bytes()), o)
        }
    }
}

/// "L:C: msg[: context]" -> msg with '_' for ' '
fn err_word(s: &str) -> String {
    let mut it = s.splitn(3, ": ");
    let _pos = it.next();
    let msg = it.next().unwrap_or("?");
    msg.replace(' ', "_")
}

/// line and column of an error message "L:C: msg"
fn position(s: &str) -> Option<(u64, u64)> {
    let p = s.split(": ").next()?;
    let mut it = p.split(':');
    match (it.next(), it.next(), it.next()) {
        (Some(l), Some(c), None) => Some((l.parse().ok()?, c.parse().ok()?)),
        _ => None,
    }
}

/// The position must lie inside the file: a line that exists (or the one after
/// the last line feed) and a column between 1 and one past the longest
/// possible line. A wrapped-around column (line_start bookkeeping gone wrong
/// after trim_to / split_to) or a line count that runs ahead shows up here.
fn position_in_range(data: &[u8], l: u64, c: u64) -> bool {
    let lines = 1 + data.iter().filter(|b| **b == b'\n').count() as u64;
    l >= 1 && l <= lines && c >= 1 && c <= data.len() as u64 + 2
}

fn has_position(s: &str) -> bool {
    let p = s.split(": ").next().unwrap_or("");
    let mut it = p.split(':');
    match (it.next(), it.next(), it.next()) {
        (Some(l), Some(c), None) => l.parse::<u64>().is_ok() && c.parse::<u64>().is_ok(),
        _ => false,
    }
}

fn read_all_inner(data: Vec<u8>) -> (Vec<String>, End, bool) {
    let cap = data.len() + 8;
    let data2 = data.clone();
    let r = catch(move || {
        let mut z = Zonefile::from(&data[..]);
        let mut v = vec![];
        loop {
            match z.next_entry() {
                Ok(Some(e)) => { v.push(show_entry(&e)); if v.len() > cap { return (v, End::Cap, true); } }
                Ok(None) => return (v, End::Eof, true),
                Err(e) => { let s = e.to_string(); let ok = match position(&s) { Some((l, c)) => position_in_range(&data2, l, c), None => false }; return (v, End::Err(err_word(&s)), has_position(&s) && ok); }
            }
        }
    });
    match r { Ok(x) => x, Err(p) => (vec![], End::Panic(p), true) }
}

/// The reader's result must not depend on how the buffer was filled: from a
/// byte slice, through `Zonefile::load` (any `io::Read`), by `extend_from_slice`
/// in pieces, through the `BufMut` interface, or from a `&str` (when the octets
/// happen to be UTF-8). Full observation: entries, ending, and the complete
/// error text with its position.
const CTORS: [&str; 5] = ["slice", "load", "extend", "bufmut", "str"];

fn read_ctor(data: &[u8], ctor: usize) -> Option<String> {
    let d = data.to_vec();
    let cap = d.len() + 8;
    let r = catch(move || {
        let mut z = match ctor {
            0 => Zonefile::from(&d[..]),
            1 => { let mut rd = &d[..]; match Zonefile::load(&mut rd) { Ok(z) => z, Err(e) => return Some(format!("LOAD-FAILED {:?}", e.kind())) } }
            2 => { let mut z = Zonefile::new(); let h = d.len() / 2; z.extend_from_slice(&d[..h]); z.extend_from_slice(&d[h..]); z }
            3 => { use bytes::BufMut; let mut z = Zonefile::with_capacity(0); for ch in d.chunks(7) { z.put_slice(ch); } z }
            _ => match std::str::from_utf8(&d) { Ok(t) => Zonefile::from(t), Err(_) => return None },
        };
        let mut o = String::new();
        let mut n = 0;
        loop {
            match z.next_entry() {
                Ok(Some(e)) => { o.push_str(&show_entry(&e)); o.push(' '); n += 1; if n > cap { o.push_str("CAP"); return Some(o); } }
                Ok(None) => { o.push_str("EOF"); return Some(o); }
                Err(e) => { o.push_str("ERR "); o.push_str(&e.to_string()); return Some(o); }
            }
        }
    });
    match r { Ok(x) => x, Err(p) => Some(format!("PANIC {}", p)) }
}

fn constructors_agree(out: &mut Out, data: &[u8]) {
    let d = data.to_vec();
    let (tx, rx) = std::sync::mpsc::channel();
    std::thread::spawn(move || { let v: Vec<Option<String>> = (0..CTORS.len()).map(|k| read_ctor(&d, k)).collect(); let _ = tx.send(v); });
    let v = match rx.recv_timeout(std::time::Duration::from_secs(HANG_SECS + HANG_RETRY_SECS)) { Ok(v) => v, Err(_) => { out.count("constructors_skipped_no_answer"); return; } };
    let c = format!("read {}", hex(data));
    let base = v[0].clone().unwrap_or_default();
    for k in 1..CTORS.len() {
        if let Some(o) = &v[k] {
            out.check(*o == base, &format!("constructor_dependent_{}", CTORS[k]), &c, &format!("{} <> {}", o, base));
        }
    }
}

/// Every read runs in its own thread: a reader that does not come back within
/// `HANG_SECS` is abandoned (the thread keeps spinning) and reported as a hang,
/// so that one hanging input does not end the whole run.
const HANG_SECS: u64 = 4;
const HANG_RETRY_SECS: u64 = 90;
fn read_all(data: &[u8]) -> (Vec<String>, End, bool) {
    let d = data.to_vec();
    let (tx, rx) = std::sync::mpsc::channel();
    std::thread::spawn(move || { let _ = tx.send(read_all_inner(d)); });
    match rx.recv_timeout(std::time::Duration::from_secs(HANG_SECS)) {
        Ok(x) => x,
        // not back yet: this may be machine load, not a hang. Give the same
        // thread a long second chance before calling it one (a reader that
        // really spins never answers; one that was merely starved does).
        Err(_) => match rx.recv_timeout(std::time::Duration::from_secs(HANG_RETRY_SECS)) {
            Ok(x) => x,
            Err(_) => (vec![], End::Hang, true),
        },
    }
}

/// Reading with the reader's options: lenient mode (`allow_invalid`) and a preset
/// class (`set_default_class`). Same observation as `read_all`.
fn read_opts(data: &[u8], lenient: bool, preset: Option<u16>) -> (Vec<String>, End) {
    let d = data.to_vec();
    let cap = d.len() + 8;
    let (tx, rx) = std::sync::mpsc::channel();
    std::thread::spawn(move || {
        let r = catch(move || {
            let mut z = Zonefile::from(&d[..]);
            if lenient { z = z.allow_invalid(); }
            if let Some(c) = preset { z.set_default_class(domain::base::iana::Class::from_int(c)); }
            let mut v = vec![];
            loop {
                match z.next_entry() {
                    Ok(Some(e)) => { v.push(show_entry(&e)); if v.len() > cap { return (v, End::Cap); } }
                    Ok(None) => return (v, End::Eof),
                    Err(e) => return (v, End::Err(err_word(&e.to_string()))),
                }
            }
        });
        let _ = tx.send(match r { Ok(x) => x, Err(p) => (vec![], End::Panic(p)) });
    });
    match rx.recv_timeout(std::time::Duration::from_secs(HANG_SECS + HANG_RETRY_SECS)) { Ok(x) => x, Err(_) => (vec![], End::Hang) }
}

/// class field of a shown record entry ("R:owner:class:...")
fn shown_class(s: &str) -> Option<u16> {
    let mut it = s.split(':');
    if it.next() != Some("R") { return None; }
    it.nth(1)?.parse().ok()
}

/// one label of a name in presentation format. spelling 0: plain, 1: first octet as
/// `\\DDD`, 2: last octet as `\\DDD`, 3: a middle octet as `\\c`, 4: every octet as `\\DDD`
fn spell_label(o: &mut Vec<u8>, lab: &[u8], spelling: usize) {
    for (i, &b) in lab.iter().enumerate() {
        let esc = match spelling { 1 => i == 0, 2 => i + 1 == lab.len(), 4 => true, _ => false };
        if esc { o.extend_from_slice(format!("\\{:03}", b).as_bytes()); }
        else if spelling == 3 && i == lab.len() / 2 && !b.is_ascii_digit() { o.push(b'\\'); o.push(b); }
        else { o.push(b); }
    }
}

fn obs(v: &[String], e: &End) -> String {
    let mut s = String::new();
    for x in v { s.push_str(x); s.push(' '); }
    match e {
        End::Eof => s.push_str("EOF"),
        End::Err(w) => { s.push_str("ERR:"); s.push_str(w); }
        End::Panic(_) => { s.clear(); s.push_str("PANIC"); }
        End::Cap => s.push_str("CAP"),
        End::Hang => { s.clear(); s.push_str("HANG"); }
    }
    s
}

/// Does the input contain an over-long UTF-8 encoding (C0/C1 lead, E0 80..9F, F0 80..8F)?
fn has_overlong(d: &[u8]) -> bool {
    d.windows(2).any(|w| (w[0] == 0xC0 || w[0] == 0xC1) && (w[1] & 0xC0) == 0x80
        || w[0] == 0xE0 && (0x80..0xA0).contains(&w[1])
        || w[0] == 0xF0 && (0x80..0x90).contains(&w[1]))
}

fn mentions_txt(d: &[u8]) -> bool {
    let l: Vec<u8> = d.iter().filter(|b| **b != b'\\').map(|b| b.to_ascii_lowercase()).collect();
    l.windows(3).any(|w| w == b"txt") || d.contains(&b'\\')
}

/// Specific class words for the panics of the reader.
fn panic_class(msg: &str, data: &[u8]) -> &'static str {
    if has_overlong(data) { "overlong_utf8_panic" }
    else if msg.contains("attempt to add with overflow") { "int_scan_add_overflow_panic" }
    else if msg.contains("index out of bounds") && mentions_txt(data) { "charstr_entry_no_token_panic" }
    else if msg.contains("missing token prefix space") && data.starts_with(b"$") && data.contains(&b'"') { "scan_string_closing_quote_panic" }
    else if msg.contains("missing token prefix space") { "panic_reader_missing_prefix_space" }
    else if msg.contains("token not completely read") { "panic_reader_token_not_read" }
    else { "panic_reader" }
}

/// The Coq model covers the record types below; a file is sent through the
/// correspondence check only if no other type mnemonic (nor a TYPEnnn form nor
/// the RFC 3597 `\#` marker) can possibly be formed from its octets. The test
/// over-approximates what the tokenizer could see: backslashes are dropped,
/// `\DDD` is decoded, and mnemonics are searched as substrings.
const SUPPORTED: [&str; 24] = ["A", "NS", "CNAME", "SOA", "PTR", "HINFO", "MX", "TXT", "SRV", "NAPTR",
    "MB", "MD", "MF", "MG", "MR", "DNAME", "MINFO", "RP", "SSHFP", "TLSA", "OPENPGPKEY", "NSEC3PARAM", "NSEC", "NSEC3"];

struct Elig { unsupported: Vec<Vec<u8>> }
impl Elig {
    fn new() -> Elig {
        let mut v = vec![];
        for m in all_mnemonics() {
            if !SUPPORTED.contains(&m.as_str()) { v.push(m.to_ascii_lowercase().into_bytes()); }
        }
        Elig { unsupported: v }
    }
    fn ok(&self, data: &[u8]) -> bool {
        let mut flat: Vec<u8> = Vec::with_capacity(data.len());
        let mut i = 0;
        while i < data.len() {
            let b = data[i];
            if b == b'\\' {
                if i + 3 < data.len() && data[i + 1].is_ascii_digit() && data[i + 2].is_ascii_digit() && data[i + 3].is_ascii_digit() {
                    let v = (data[i + 1] - b'0') as u32 * 100 + (data[i + 2] - b'0') as u32 * 10 + (data[i + 3] - b'0') as u32;
                    flat.push(if v < 128 { (v as u8).to_ascii_lowercase() } else { b'?' });
                    i += 4;
                } else { i += 1; }
            } else { flat.push(if b < 128 { b.to_ascii_lowercase() } else { b'?' }); i += 1; }
        }
        // tokens of the flattened text: split at every delimiter octet and at quotes
        for tok in flat.split(|b| matches!(*b, b' ' | b'\t' | b'\r' | b'\n' | b'(' | b')' | b';' | b'"')) {
            if tok.len() > 4 && &tok[..4] == b"type" { return false; }
            if self.unsupported.iter().any(|m| &m[..] == tok) { return false; }
        }
        true
    }
}



// ------------------------------------------------------------ Symbol (T2)

fn sym_case(out: &mut Out, data: &[u8], kind: &str) {
    use domain::base::scan::Symbol;
    let c = format!("sym {}", hex(data));
    out.begin(&c);
    let d = data.to_vec();
    let r = catch(move || match Symbol::from_slice_index(&d, 0) {
        Ok(None) => "End".to_string(),
        Err(_) => "Err".to_string(),
        Ok(Some((sy, end))) => {
            let show = match sy {
                Symbol::Char(ch) => format!("c{:x}", ch as u32),
                Symbol::SimpleEscape(b) => format!("s{:x}", b),
                Symbol::DecimalEscape(b) => format!("d{:x}", b),
            };
            let o = sy.into_octet().map(|b| format!("{:x}", b)).unwrap_or("-".into());
            let a = sy.into_ascii().map(|b| format!("{:x}", b)).unwrap_or("-".into());
            let ch = sy.into_char().map(|b| format!("{:x}", b as u32)).unwrap_or("-".into());
            let g = sy.into_digit(10).map(|b| format!("{:x}", b)).unwrap_or("-".into());
            format!("Ok {} {} w{} o{} a{} c{} g{}", show, end, if sy.is_word_char() { 1 } else { 0 }, o, a, ch, g)
        }
    });
    match r {
        Ok(o) => { out.case(&c, &o, o.starts_with("Ok"), kind); out.check(true, "panic_symbol", &c, ""); }
        Err(m) => { out.case(&c, "PANIC", false, kind); out.check(false, "panic_symbol", &c, &m); }
    }
}

// ------------------------------------------------ zonetree::parsed conversion
//
// `parsed::Zonefile::try_from(inplace::Zonefile)` is the second entry point of
// the reader. A conversion that does not stop at the reader's first error can
// spin while allocating, so it runs in a child process (this binary with
// `--parsed-child`) under an address-space limit; the parent feeds one input
// per line and waits for one answer per line.

fn parsed_child_main() {
    use std::io::{BufRead, Write};
    std::panic::set_hook(Box::new(|_| {}));
    let stdin = std::io::stdin();
    let stdout = std::io::stdout();
    for line in stdin.lock().lines() {
        let line = match line { Ok(l) => l, Err(_) => break };
        let data = unhex(line.trim());
        let r = catch(move || {
            let src = Zonefile::from(&data[..]);
            match domain::zonetree::parsed::Zonefile::try_from(src) {
                Ok(_) => "OK".to_string(),
                Err(_) => "ERR".to_string(),
            }
        });
        let ans = match r { Ok(a) => a, Err(m) => format!("PANIC {}", m.replace('\n', " ")) };
        let mut o = stdout.lock();
        let _ = writeln!(o, "{}", ans);
        let _ = o.flush();
    }
}

struct ParsedChild {
    proc_: std::process::Child,
    stdin: std::process::ChildStdin,
    rx: std::sync::mpsc::Receiver<String>,
}

enum Ask { Answer(String), Timeout, Died }

impl ParsedChild {
    fn spawn() -> Option<ParsedChild> {
        use std::io::BufRead;
        let exe = std::env::current_exe().ok()?;
        let cmd = format!("ulimit -v 4000000 2>/dev/null; exec '{}' --parsed-child", exe.display());
        let mut p = std::process::Command::new("sh").arg("-c").arg(cmd)
            .stdin(std::process::Stdio::piped()).stdout(std::process::Stdio::piped())
            .stderr(std::process::Stdio::null()).spawn().ok()?;
        let stdin = p.stdin.take()?;
        let stdout = p.stdout.take()?;
        let (tx, rx) = std::sync::mpsc::channel();
        std::thread::spawn(move || {
            for l in std::io::BufReader::new(stdout).lines() {
                match l { Ok(l) => { if tx.send(l).is_err() { break; } } Err(_) => break }
            }
        });
        Some(ParsedChild { proc_: p, stdin, rx })
    }
    fn ask(&mut self, data: &[u8], secs: u64) -> Ask {
        use std::io::Write;
        if writeln!(self.stdin, "{}", hex(data)).is_err() || self.stdin.flush().is_err() { return Ask::Died; }
        match self.rx.recv_timeout(std::time::Duration::from_secs(secs)) {
            Ok(a) => Ask::Answer(a),
            Err(std::sync::mpsc::RecvTimeoutError::Timeout) => Ask::Timeout,
            Err(std::sync::mpsc::RecvTimeoutError::Disconnected) => Ask::Died,
        }
    }
    fn kill(mut self) { let _ = self.proc_.kill(); let _ = self.proc_.wait(); }
}

struct ParsedOracle { child: Option<ParsedChild>, skipped: u64, no_answer: u64 }

impl ParsedOracle {
    fn new() -> ParsedOracle { ParsedOracle { child: ParsedChild::spawn(), skipped: 0, no_answer: 0 } }
    /// One conversion. A missing answer is only reported after a fresh child
    /// given a minute fails on the same input as well.
    fn run(&mut self, out: &mut Out, data: &[u8]) {
        let c = format!("parsed {}", hex(data));
        // three inputs without an answer are evidence enough; every further one
        // would cost minutes of waiting
        if self.no_answer >= 3 { self.skipped += 1; out.count("parsed_skipped_after_3_without_answer"); return; }
        if self.child.is_none() { self.child = ParsedChild::spawn(); }
        let mut ch = match self.child.take() { Some(c) => c, None => { self.skipped += 1; out.count("parsed_skipped_no_child"); return; } };
        match ch.ask(data, 10) {
            Ask::Answer(a) => { self.child = Some(ch); self.verdict(out, &c, &a); }
            first => {
                ch.kill();
                let mut ch2 = match ParsedChild::spawn() { Some(c) => c, None => { self.skipped += 1; out.count("parsed_skipped_no_child"); return; } };
                match ch2.ask(data, 60) {
                    Ask::Answer(a) => { self.child = Some(ch2); self.verdict(out, &c, &a); }
                    Ask::Timeout => { ch2.kill(); self.no_answer += 1; out.check(false, "parsed_zonefile_hang", &c, "no answer within 10 s and, in a fresh process, within 60 s"); }
                    Ask::Died => {
                        ch2.kill(); self.no_answer += 1;
                        let what = if matches!(first, Ask::Timeout) { "no answer within 10 s, then the fresh process died" } else { "the process died twice on this input (abort, stack overflow or the 4 GB address space limit)" };
                        out.check(false, "parsed_zonefile_crash", &c, what);
                    }
                }
            }
        }
    }
    fn verdict(&mut self, out: &mut Out, c: &str, a: &str) {
        if let Some(m) = a.strip_prefix("PANIC ") {
            let class = if m.contains("token not completely read") { "parsed_zonefile_reads_on_after_error" } else { "panic_parsed_zonefile" };
            out.check(false, class, c, m);
        } else {
            out.check(a == "OK" || a == "ERR", "parsed_zonefile_bad_answer", c, a);
        }
    }
}

fn totality(out: &mut Out, el: &Elig, po: &mut ParsedOracle, kind: &str, data: &[u8]) -> (Vec<String>, End) {
    let c = format!("read {}", hex(data));
    out.begin(&c);
    let (v, e, pos) = read_all(data);
    if el.ok(data) && e != End::Cap && e != End::Hang { out.case(&c, &obs(&v, &e), !v.is_empty(), kind); }
    else { out.oracle_case(&c, !v.is_empty(), kind); }
    match &e {
        End::Panic(m) => out.check(false, panic_class(m, data), &c, m),
        End::Hang => out.check(false, if has_overlong(data) { "overlong_utf8_hang" } else { "hang_reader" }, &c, "no result within 94 s"),
        End::Cap => out.check(false, "reader_no_progress", &c, "more entries than input octets"),
        End::Err(_) => out.check(pos, "error_position_missing_or_out_of_range", &c, "the error carries no line:column, or one that lies outside the file"),
        End::Eof => out.check(true, "panic_reader", &c, ""),
    }
    if !matches!(e, End::Hang | End::Panic(_) | End::Cap) { constructors_agree(out, data); }
    if !matches!(e, End::Hang) { po.run(out, data); }
    (v, e)
}

// ------------------------------------------------------------- logical zone

type Name = Vec<Vec<u8>>; // absolute name: non-root labels, leftmost first

#[derive(Clone, Debug)]
enum Field {
    Name(Name),
    Int(u64),
    Str(Vec<u8>),   // character string (<= 255 octets)
    Word(String),   // plain token without special characters (address, hex, base64, mnemonic)
}

#[derive(Clone, Debug)]
struct Rec { owner: Name, ttl: u32, class: u16, rtype: &'static str, fields: Vec<Field> }

#[derive(Clone, Debug)]
enum Item { Origin(Name), Ttl(u32), Rec(Rec), Include(Vec<u8>, Option<Name>) }

#[derive(Clone, Copy, Default, Debug)]
struct Layout {
    comments: bool, blank: bool, parens: bool, spacing: bool, crlf: bool,
    quote: bool, escape: bool, relname: bool, at: bool, at_rdata: bool, quote_include: bool,
    inh_owner: bool, inh_ttl: bool, inh_class: bool, ctr_order: bool,
    /// class handed to `set_default_class` before reading (lenient-mode oracle only)
    preset_class: Option<u16>,
}

const REWRITES: [&str; 15] = ["comments", "blank_lines", "parens", "spacing", "crlf", "quoted",
    "escaped", "relative_name", "at_origin", "inherit_owner", "inherit_ttl", "inherit_class", "class_ttl_order", "at_origin_rdata", "quoted_include"];

fn layout_of(i: usize) -> Layout {
    let mut l = Layout::default();
    match i {
        0 => l.comments = true, 1 => l.blank = true, 2 => l.parens = true, 3 => l.spacing = true,
        4 => l.crlf = true, 5 => l.quote = true, 6 => l.escape = true, 7 => l.relname = true,
        8 => l.at = true, 9 => l.inh_owner = true, 10 => l.inh_ttl = true, 11 => l.inh_class = true,
        12 => l.ctr_order = true,
        13 => l.at_rdata = true,
        14 => l.quote_include = true,
        _ => l = Layout { comments: true, blank: true, parens: true, spacing: true, crlf: true, quote: true,
                 escape: true, relname: true, at: true, at_rdata: true, quote_include: false, inh_owner: true, inh_ttl: true, inh_class: true, ctr_order: true, preset_class: None },
    }
    l
}

/// octet -> presentation inside/outside quotes. `fancy` picks alternative escapes.
fn put_octet(o: &mut Vec<u8>, b: u8, quoted: bool, in_name: bool, fancy: Option<&mut Rng>) {
    let special_unq = matches!(b, b' ' | b'\t' | b'"' | b';' | b'(' | b')' | b'\\' | b'@' | b'$') || (in_name && b == b'.');
    // a leading `$` or a lone `@` is recognised in quoted tokens as well: always escape them
    let special_q = matches!(b, b'"' | b'\\' | b'@' | b'$') || (in_name && b == b'.');
    let printable = (0x21..0x7F).contains(&b) || (quoted && b == b' ');
    let special = if quoted { special_q } else { special_unq };
    let mode = match fancy {
        Some(r) => r.below(6), // 0,1: minimal  2: \X if allowed  3: \DDD  4,5 minimal
        None => 0,
    };
    if !printable || (mode == 3) {
        o.extend_from_slice(format!("\\{:03}", b).as_bytes());
    } else if special || (mode == 2 && !b.is_ascii_digit()) {
        o.push(b'\\'); o.push(b);
    } else {
        o.push(b);
    }
}

fn put_name(o: &mut Vec<u8>, n: &Name, origin: &Option<Name>, l: &Layout, r: &mut Rng, owner: bool) {
    let quoted = l.quote && r.chance(1, 2);
    // '@' for the origin itself
    if let Some(org) = origin {
        if (if owner { l.at } else { l.at_rdata }) && n == org && r.chance(2, 3) {
            if quoted { o.extend_from_slice(b"\"@\""); } else { o.push(b'@'); }
            return;
        }
    }
    let mut labels: &[Vec<u8>] = &n[..];
    let mut relative = false;
    if let Some(org) = origin {
        if l.relname && n.len() > org.len() && n[n.len() - org.len()..] == org[..] && r.chance(2, 3) {
            labels = &n[..n.len() - org.len()];
            relative = true;
        }
    }
    if quoted { o.push(b'"'); }
    if labels.is_empty() { o.push(b'.'); }
    for (i, lab) in labels.iter().enumerate() {
        for &b in lab.iter() {
            if l.escape { put_octet(o, b, quoted, true, Some(r)); } else { put_octet(o, b, quoted, true, None); }
        }
        if !(relative && i + 1 == labels.len()) { o.push(b'.'); }
    }
    if quoted { o.push(b'"'); }
}

fn put_str(o: &mut Vec<u8>, s: &[u8], l: &Layout, r: &mut Rng, canonical_quoted: bool) {
    // canonical: quoted with minimal escapes
    let quoted = if l.quote { r.chance(1, 2) } else { canonical_quoted };
    let quoted = quoted || s.is_empty();
    if quoted { o.push(b'"'); }
    for &b in s {
        if l.escape { put_octet(o, b, quoted, false, Some(r)); } else { put_octet(o, b, quoted, false, None); }
    }
    if quoted { o.push(b'"'); }
}

fn comment(o: &mut Vec<u8>, r: &mut Rng) {
    o.push(b';');
    let n = r.below(12);
    for _ in 0..n {
        let b = *r.pick(&[b'a', b' ', b'"', b'(', b')', b';', b'\\', b'\t', b'$', b'@', 0xC3, 0xFF, b'1', b'.']);
        o.push(b);
    }
}

fn sep(o: &mut Vec<u8>, l: &Layout, r: &mut Rng, in_parens: bool) {
    // a separator between two tokens
    if in_parens && r.chance(1, 2) {
        if l.spacing && r.chance(1, 2) { o.push(b' '); }
        if l.comments && r.chance(1, 3) { o.push(b' '); comment(o, r); }
        if l.crlf && r.chance(1, 2) { o.push(b'\r'); }
        o.push(b'\n');
        // after a line break inside parentheses any amount of space (even none) is fine
        let k = r.below(3);
        for _ in 0..k { o.push(if r.chance(1, 2) { b' ' } else { b'\t' }); }
        if k == 0 && r.chance(1, 2) { o.push(b' '); }
        return;
    }
    if l.spacing {
        let k = 1 + r.below(3);
        for _ in 0..k { o.push(if r.chance(1, 2) { b' ' } else { b'\t' }); }
    } else {
        o.push(b' ');
    }
}

fn eol(o: &mut Vec<u8>, l: &Layout, r: &mut Rng) {
    if l.spacing && r.chance(1, 3) { o.push(b' '); }
    if l.comments && r.chance(1, 3) { if r.chance(1, 2) { o.push(b' '); } comment(o, r); }
    if l.crlf && r.chance(2, 3) { o.push(b'\r'); }
    o.push(b'\n');
    if l.blank {
        for _ in 0..r.below(3) {
            match r.below(4) {
                0 => {}
                1 => o.extend_from_slice(b"  "),
                2 => o.push(b'\t'),
                _ => { if l.comments { comment(o, r); } }
            }
            if l.crlf && r.chance(1, 2) { o.push(b'\r'); }
            o.push(b'\n');
        }
    }
    if l.comments && r.chance(1, 5) { comment(o, r); o.push(b'\n'); }
}

fn class_token(c: u16) -> Vec<u8> {
    match c { 1 => b"IN".to_vec(), 3 => b"CH".to_vec(), 4 => b"HS".to_vec(), n => format!("CLASS{}", n).into_bytes() }
}

fn render(items: &[Item], l: &Layout, r: &mut Rng) -> Vec<u8> {
    let mut o = Vec::new();
    let mut origin: Option<Name> = None;
    let mut last_owner: Option<Name> = None;
    let mut stated_ttl: Option<u32> = None; // last TTL written explicitly
    let mut dollar_ttl: Option<u32> = None;
    // the class may be left out only where every reading of "inherited class" agrees: the
    // first stated (or preset) class and the last stated class are both the record's class
    let mut first_class: Option<u16> = l.preset_class;
    let mut last_class: Option<u16> = l.preset_class;
    for it in items {
        match it {
            Item::Origin(n) => {
                o.extend_from_slice(b"$ORIGIN");
                sep(&mut o, l, r, false);
                // the argument of $ORIGIN is written absolute
                let none = None;
                put_name(&mut o, n, &none, l, r, false);
                eol(&mut o, l, r);
                origin = Some(n.clone());
            }
            Item::Include(path, org) => {
                o.extend_from_slice(b"$INCLUDE");
                sep(&mut o, l, r, false);
                // the path: text; inside quotes only `"` and `\` need a backslash, outside
                // also blanks, `;`, `(` and `)`. With quote_include the quoted form is used and
                // further printable non-digit characters are escaped at random (quoted AND escaped).
                if l.quote_include { o.push(b'"'); }
                for &b in path.iter() {
                    let must = if l.quote_include { matches!(b, b'"' | b'\\') }
                               else { matches!(b, b' ' | b'\t' | b';' | b'(' | b')' | b'"' | b'\\') };
                    let may = l.quote_include && (0x21..0x7F).contains(&b) && !b.is_ascii_digit() && r.chance(1, 6);
                    if must || may { o.push(b'\\'); }
                    o.push(b);
                }
                if l.quote_include { o.push(b'"'); }
                if let Some(n) = org {
                    sep(&mut o, l, r, false);
                    put_name(&mut o, n, &origin, l, r, false);
                }
                eol(&mut o, l, r);
            }
            Item::Ttl(t) => {
                o.extend_from_slice(b"$TTL");
                sep(&mut o, l, r, false);
                o.extend_from_slice(t.to_string().as_bytes());
                eol(&mut o, l, r);
                dollar_ttl = Some(*t);
            }
            Item::Rec(rec) => {
                // tokens of the record
                let mut toks: Vec<Vec<u8>> = Vec::new();
                let blank_owner = l.inh_owner && last_owner.as_ref() == Some(&rec.owner) && r.chance(2, 3);
                if !blank_owner {
                    let mut t = Vec::new();
                    put_name(&mut t, &rec.owner, &origin, l, r, true);
                    toks.push(t);
                }
                let inherited = dollar_ttl.or(stated_ttl);
                let omit_ttl = l.inh_ttl && inherited == Some(rec.ttl) && r.chance(2, 3);
                let omit_class = l.inh_class && first_class == Some(rec.class) && last_class == Some(rec.class) && r.chance(2, 3);
                let ttl_tok = rec.ttl.to_string().into_bytes();
                let class_tok = class_token(rec.class);
                let swap = l.ctr_order && r.chance(1, 2);
                if swap {
                    if !omit_class { toks.push(class_tok.clone()); }
                    if !omit_ttl { toks.push(ttl_tok.clone()); }
                } else {
                    if !omit_ttl { toks.push(ttl_tok.clone()); }
                    if !omit_class { toks.push(class_tok.clone()); }
                }
                if !omit_ttl { stated_ttl = Some(rec.ttl); }
                if !omit_class { last_class = Some(rec.class); if first_class.is_none() { first_class = Some(rec.class); } }
                toks.push(rec.rtype.as_bytes().to_vec());
                for f in &rec.fields {
                    let mut t = Vec::new();
                    match f {
                        Field::Name(n) => put_name(&mut t, n, &origin, l, r, false),
                        Field::Int(i) => t.extend_from_slice(i.to_string().as_bytes()),
                        Field::Str(s) => put_str(&mut t, s, l, r, true),
                        Field::Word(w) => t.extend_from_slice(w.as_bytes()),
                    }
                    toks.push(t);
                }
                // parentheses: open before token `po` (>= 1), close after token `pc`
                let n = toks.len();
                let (po, pc) = if l.parens && n >= 2 && r.chance(3, 4) {
                    let po = 1 + r.below((n - 1) as u64) as usize;
                    let pc = po + r.below((n - po) as u64) as usize;
                    (po, pc)
                } else { (usize::MAX, usize::MAX) };
                if blank_owner {
                    if l.spacing { for _ in 0..1 + r.below(2) { o.push(if r.chance(1, 2) { b' ' } else { b'\t' }); } } else { o.push(b' '); }
                }
                let mut inp = false;
                for (i, t) in toks.iter().enumerate() {
                    if i > 0 { sep(&mut o, l, r, inp); }
                    if i == po {
                        o.push(b'(');
                        inp = true;
                        if r.chance(1, 2) { sep(&mut o, l, r, inp); }
                    }
                    o.extend_from_slice(t);
                    if i == pc {
                        if r.chance(1, 2) { sep(&mut o, l, r, inp); }
                        o.push(b')');
                        inp = false;
                    }
                }
                eol(&mut o, l, r);
                last_owner = Some(rec.owner.clone());
            }
        }
    }
    o
}

// ------------------------------------------------------------- generators

fn gen_label(r: &mut Rng, plain: bool) -> Vec<u8> {
    let mx = if r.chance(1, 10) { 63 } else { 8 };
    let n = 1 + r.below(mx) as usize;
    (0..n).map(|_| {
        if plain || r.chance(5, 6) { *r.pick(b"abcdexyzABZ0123456789-_") }
        else { *r.pick(&[b'.', b' ', b'\\', b'"', b';', b'(', b')', b'@', b'$', 0, 9, 10, 13, 127, 200, 255, b'*']) }
    }).collect()
}

fn gen_name(r: &mut Rng, base: &Name, plain: bool) -> Name {
    let mut n: Name = Vec::new();
    for _ in 0..r.below(3) { n.push(gen_label(r, plain)); }
    n.extend(base.iter().cloned());
    // keep within 255 octets
    while n.iter().map(|l| l.len() + 1).sum::<usize>() + 1 > 255 { n.remove(0); }
    n
}

fn gen_str(r: &mut Rng) -> Vec<u8> {
    let n = if r.chance(1, 12) { 200 + r.below(56) as usize } else { r.below(12) as usize };
    (0..n).map(|_| if r.chance(4, 5) { *r.pick(b"abc xyz0123=-_./:") } else { *r.pick(&[b'"', b'\\', b';', b'(', b')', b'@', 0, 10, 13, 9, 127, 128, 255, b'$']) }).collect()
}

/// one to three hex tokens whose digits add up to an even number
fn hex_words(r: &mut Rng) -> Vec<Field> {
    let total = 2 * (1 + r.below(8)) as usize;
    let digits: String = (0..total).map(|_| *r.pick(b"0123456789abcdefABCDEF") as char).collect();
    let mut cuts = vec![0usize, total];
    for _ in 0..r.below(3) { cuts.push(1 + r.below(total as u64 - 1) as usize); }
    cuts.sort(); cuts.dedup();
    cuts.windows(2).map(|w| Field::Word(digits[w[0]..w[1]].to_string())).collect()
}

/// Base 64 text of 1..12 octets, cut into one to three tokens
fn b64_words(r: &mut Rng) -> Vec<Field> {
    const AL: &[u8] = b"ABCDEFGHIJKLMNOPQRSTUVWXYZabcdefghijklmnopqrstuvwxyz0123456789+/";
    let n = 1 + r.below(12) as usize;
    let data = r.bytes(n);
    let mut t = String::new();
    for ch in data.chunks(3) {
        let b = [ch[0], *ch.get(1).unwrap_or(&0), *ch.get(2).unwrap_or(&0)];
        t.push(AL[(b[0] >> 2) as usize] as char);
        t.push(AL[(((b[0] & 3) << 4) | (b[1] >> 4)) as usize] as char);
        if ch.len() > 1 { t.push(AL[(((b[1] & 15) << 2) | (b[2] >> 6)) as usize] as char); } else { t.push('='); }
        if ch.len() > 2 { t.push(AL[(b[2] & 63) as usize] as char); } else { t.push('='); }
    }
    let total = t.len();
    let mut cuts = vec![0usize, total];
    for _ in 0..r.below(3) { cuts.push(1 + r.below(total as u64 - 1) as usize); }
    cuts.sort(); cuts.dedup();
    cuts.windows(2).map(|w| Field::Word(t[w[0]..w[1]].to_string())).collect()
}

fn gen_zone(r: &mut Rng) -> Vec<Item> { gen_zone_of(r, false) }

fn gen_zone_of(r: &mut Rng, model_types: bool) -> Vec<Item> {
    let mut items = Vec::new();
    let tlds: [&[u8]; 3] = [b"example", b"test", b"org"];
    let mut origin: Name = vec![b"zone".to_vec(), r.pick(&tlds).to_vec()];
    if r.chance(1, 8) { origin = vec![]; }
    if r.chance(3, 4) { items.push(Item::Origin(origin.clone())); }
    if r.chance(1, 2) { items.push(Item::Ttl(*r.pick(&[0u32, 60, 300, 3600, 86400, 4294967295]))); }
    let nrec = 1 + r.below(7);
    let pl = r.chance(3, 4);
    let mut owner = gen_name(r, &origin, pl);
    for _ in 0..nrec {
        if r.chance(1, 8) { origin = gen_name(r, &origin, true); items.push(Item::Origin(origin.clone())); }
        if r.chance(1, 10) { items.push(Item::Ttl(*r.pick(&[0u32, 60, 300, 3600, 7200]))); }
        if r.chance(1, 6) {
            let n = 1 + r.below(8) as usize;
            let mut path: Vec<u8> = Vec::new();
            for _ in 0..n {
                match r.below(12) {
                    0 => path.push(b'\\'), 1 => path.push(b'"'), 2 => path.extend_from_slice("\u{e9}".as_bytes()),
                    3 => path.extend_from_slice("\u{20ac}".as_bytes()), 4 => path.push(b' '),
                    _ => path.push(*r.pick(b"abcxyz019./-_:;(@$")),
                }
            }
            let org = if r.chance(1, 2) { Some(gen_name(r, &origin, true)) } else { None };
            items.push(Item::Include(path, org));
        }
        if r.chance(1, 2) { let pl = r.chance(3, 4); owner = if r.chance(1, 4) { origin.clone() } else { gen_name(r, &origin, pl) }; }
        let ttl = *r.pick(&[0u32, 60, 300, 300, 3600, 3600, 86400, 2147483647]);
        let plain = r.chance(3, 4);
        let nm = |r: &mut Rng| Field::Name(if r.chance(1, 6) { vec![] } else if r.chance(1, 5) { origin.clone() } else { gen_name(r, &origin, plain) });
        let pickt = if model_types { *r.pick(&[0u64, 2, 3, 4, 5, 6, 7, 7, 8, 9, 10, 12, 13, 13, 14, 15, 16, 16, 17, 18, 18, 19, 19, 20, 20, 21, 21]) } else { r.below(22) };
        let (rtype, fields): (&'static str, Vec<Field>) = match pickt {
            0 => ("A", vec![Field::Word(format!("{}.{}.{}.{}", r.below(256), r.below(256), r.below(256), r.below(256)))]),
            1 => ("AAAA", vec![Field::Word(r.pick(&["2001:db8::1", "::", "::1", "fe80::1:2:3:4", "1:2:3:4:5:6:7:8", "::ffff:192.0.2.1"]).to_string())]),
            2 => ("NS", vec![nm(r)]),
            3 => ("CNAME", vec![nm(r)]),
            4 => ("PTR", vec![nm(r)]),
            5 => ("MX", vec![Field::Int(r.below(65536)), nm(r)]),
            6 => ("SOA", vec![nm(r), nm(r), Field::Int(r.below(1 << 32)), Field::Int(r.below(100000)), Field::Int(r.below(100000)), Field::Int(r.below(1 << 31)), Field::Int(r.below(100000))]),
            7 => ("TXT", (0..1 + r.below(4)).map(|_| Field::Str(gen_str(r))).collect()),
            8 => ("SRV", vec![Field::Int(r.below(65536)), Field::Int(r.below(65536)), Field::Int(r.below(65536)), nm(r)]),
            9 => ("HINFO", vec![Field::Str(gen_str(r)), Field::Str(gen_str(r))]),
            10 => ("NAPTR", vec![Field::Int(r.below(65536)), Field::Int(r.below(65536)), Field::Str(gen_str(r)), Field::Str(gen_str(r)), Field::Str(gen_str(r)), nm(r)]),
            11 => ("DS", vec![Field::Int(r.below(65536)), Field::Int(r.below(256)), Field::Int(r.below(256)), Field::Word("0123456789abcdef".into()), Field::Word("AABBCCDD".into())]),
            12 => ("DNAME", vec![nm(r)]),
            13 => { let mut f = vec![Field::Int(r.below(256)), Field::Int(r.below(256))]; f.extend(hex_words(r)); ("SSHFP", f) }
            14 => ("MINFO", vec![nm(r), nm(r)]),
            15 => ("RP", vec![nm(r), nm(r)]),
            16 => { let mut f = vec![Field::Int(r.below(256)), Field::Int(r.below(256)), Field::Int(r.below(256))]; f.extend(hex_words(r)); ("TLSA", f) }
            17 => (*r.pick(&["MB", "MD", "MF", "MG", "MR"]), vec![nm(r)]),
            18 => ("OPENPGPKEY", b64_words(r)),
            20 => {
                let mut f = vec![nm(r)];
                for _ in 0..r.below(6) { f.push(Field::Word(r.pick(&SUPPORTED).to_string())); }
                ("NSEC", f)
            }
            21 => {
                let salt = if r.chance(1, 4) { "-".to_string() } else { let n = 1 + r.below(6) as usize; (0..2 * n).map(|_| *r.pick(b"0123456789abcdefABCDEF") as char).collect() };
                let hl = *r.pick(&[2usize, 4, 5, 7, 8, 16, 32, 10, 15]);
                let hash: String = (0..hl).map(|_| *r.pick(b"0123456789abcdefghijklmnopqrstuvABCDEFGHIJKLMNOPQRSTUV") as char).collect();
                let mut f = vec![Field::Int(r.below(256)), Field::Int(r.below(256)), Field::Int(r.below(65536)), Field::Word(salt), Field::Word(hash)];
                for _ in 0..r.below(6) { f.push(Field::Word(r.pick(&SUPPORTED).to_string())); }
                ("NSEC3", f)
            }
            _ => {
                let salt = if r.chance(1, 4) { "-".to_string() } else { let n = 1 + r.below(6) as usize; (0..2 * n).map(|_| *r.pick(b"0123456789abcdefABCDEF") as char).collect() };
                ("NSEC3PARAM", vec![Field::Int(r.below(256)), Field::Int(r.below(256)), Field::Int(r.below(65536)), Field::Word(salt)])
            }
        };
        items.push(Item::Rec(Rec { owner: owner.clone(), ttl, class: 1, rtype, fields }));
    }
    items
}

const ALPHA: &[(u8, u32)] = &[(b'a', 8), (b'x', 4), (b'A', 3), (b'N', 2), (b'I', 2), (b'T', 2), (b'X', 2), (b'M', 2), (b'S', 2),
    (b'0', 4), (b'1', 5), (b'2', 3), (b'5', 3), (b'9', 2), (b' ', 14), (b'\t', 3), (b'\r', 2), (b'\n', 8), (b';', 3), (b'(', 3), (b')', 3),
    (b'"', 5), (b'\\', 6), (b'$', 2), (b'@', 2), (b'.', 6), (b'#', 1), (b'=', 1), (b'-', 1), (0xC3, 1), (0xA9, 1), (0xC0, 1), (0xA0, 1), (0xFF, 1), (0, 1), (0x7F, 1), (0xE2, 1), (0x82, 1), (0xAC, 1)];

fn alpha_byte(r: &mut Rng) -> u8 {
    let total: u32 = ALPHA.iter().map(|x| x.1).sum();
    let mut k = r.below(total as u64) as u32;
    for (b, w) in ALPHA { if k < *w { return *b; } k -= *w; }
    b' '
}

fn mutate(r: &mut Rng, data: &mut Vec<u8>) {
    let k = 1 + r.below(4);
    for _ in 0..k {
        if data.is_empty() { data.push(alpha_byte(r)); continue; }
        let p = r.below(data.len() as u64) as usize;
        match r.below(5) {
            0 => { data.remove(p); }
            1 => { data.insert(p, alpha_byte(r)); }
            2 => { data[p] = alpha_byte(r); }
            3 => { data.truncate(p); }
            _ => { let q = r.below(data.len() as u64) as usize; data.swap(p, q); }
        }
    }
}

fn all_mnemonics() -> Vec<String> {
    let mut v = vec![];
    for i in 0..=65535u16 { if let Some(m) = Rtype::from_int(i).to_mnemonic() { v.push(String::from_utf8_lossy(m).to_string()); } }
    v
}

// ------------------------------------------------------------------ main

fn main() {
    let a = args();
    if a.extra.iter().any(|x| x == "--parsed-child") { parsed_child_main(); return; }
    // the global watchdog only guards against the harness itself getting stuck;
    // per-read hangs are detected (and survived) by read_all
    let mut out = Out::new(&a, "C07", 300);
    let mut r = Rng::new(a.seed);
    let scale = a.scale * if a.thorough { 20 } else { 1 };

    // ---- corpus: boundary / regression inputs (findings first)
    let corpus: Vec<&[u8]> = vec![
        b"", b"\n", b"a. 1 IN A 1.2.3.4\n", b"a. 1 IN A 1.2.3.4",
        // empty-token loop via an over-long UTF-8 encoding of a delimiter
        b"a. 1 IN NAPTR 1 1 \xC0\xA0 b.\n",
        b"a. 1 IN HINFO x\xC0\xA0 y\n",
        b"a. 1 IN TXT \xC0\xA0\n",
        b"a. 1 IN NSEC a. \xC0\xA0\n",
        // scan_charstr_entry at the end of the buffer
        b"a. 1 IN TXT \"foo\"", b"a. 1 IN TXT\n", b"a. 1 IN TXT\nb. 1 IN A 1.2.3.4\n",
        // integer scan: checked_mul then unchecked +=
        b"a. 1 IN MX 65539 b.\n", b"$TTL 4294967299\n", b"a. 1 IN SOA a. b. 4294967296 1 1 1 1\n",
        b"a. 1 IN DS 1 1 259 00\n",
        b"$ORIGIN x.\n@ 1 IN NS @\n\"@\" NS a\n", b"$INCLUDE \"f i\" x.\n$INCLUDE g\n",
        // scan_string keeps the closing quote of an unescaped quoted string
        b"a..b. 1 IN A 1.2.3.4\n", b"a.. 1 IN A 1.2.3.4\n", b".. 1 IN A 1.2.3.4\n", b"a. 1 IN NS b..c.\n", b"a. 1 IN NS b.\\..c.\n", b"a. 1 IN NS \"b..\"\n",
        // errors in the middle of a token / raised by next_item itself (what a caller that went on after an error would trip over)
        b"$ORIGIN e.\n@ 1 IN SOA n h 1 1 1 1 1\nw 1 IN TXT \"v \\3x0 -all\"\nf 1 IN A 192.0.2.3\n",
        b"$ORIGIN e.\n@ 1 IN SOA n h 1 1 1 1 1\nw 1 IN MX 1O m\nf 1 IN A 192.0.2.3\n",
        b"$ORIGIN e.\n@ 1 IN SOA n h 1 1 1 1 1\nw 1 IN A 192.0.2.1 )\nf 1 IN A 192.0.2.3\n",
        // quoted strings with escapes through scan_string
        b"$INCLUDE \"C:\\\\zones\\\\my zone.db\" sub.\n", b"$INCLUDE C:\\\\zones\\\\my\\ zone.db sub.\n", b"\"$TT\\L\" 300\n",
        b"$INCLUDE \"\\\"old\\\" zones.db\"\n", b"$INCLUDE \"a\\bc\" x.\n", b"$INCLUDE \"\\a\"\n", b"$INCLUDE \"ab\\\"\"\n", b"$INCLUDE \"\xC3\xA9\\ \xE2\x82\xAC\"\n", b"$INCLUDE \xC3\xA9\\065\n",
        b"$INCLUDE \"f\"x.\n", b"$INCLUDE \"f\"\n", b"$INCLUDE \"f\\ i\"x.\n", b"\"$TTL\" 5\n", b"$INCLUDE f\\ i x.\n",
        b"( a. 1 IN A 1.2.3.4 )\n", b"a. 1 IN A ( 1.2.3.4\n", b"a. 1 IN A 1.2.3.4 )\n",
        b"a. 1 IN TXT \"a\nb\"\n", b"a. 1 IN TXT \"abc", b"a. 1 IN TXT a\\", b"a. 1 IN TXT a\\0", b"@", b"$", b"\\#",
        b"a. 1 IN TYPE999 \\# 2 0102\n", b"a. 1 IN TYPE999 \\# 0\n", b"a. 1 IN A \\# 4 01020304\n",
        b"$\xC0\x80 x\n", b"$INCLUDE \xC0\x80\n",
        b"a. 1 IN DS 1 1 1 \xC0\xA0\n", b"a. 1 IN SSHFP 1 1 \xC0\xA0\n", b"a. 1 IN SSHFP 1 1 ab c\n", b"a. 1 IN SSHFP 1 1 a (\n b ) ; x\n",
        b"a. 1 IN A \\# 4 01 02 0304\n", b"a. 1 IN A \\# 3 01020304\n", b"a. 1 IN TXT \\# 0\n", b"a. 1 IN TXT \\#\n", b"a. 1 IN TXT \\#x\n",
        b"a. 1 IN MX \\# 65536 00\n", b"a. 1 IN MX \\#\nb. 1 IN A 1.2.3.4\n", b"a. 1 IN MX \"\\#\" 1 00\n", b"a. 1 IN MX \\#( 1 00 )\n",
        b"a. 1 IN NSEC b. A NS SOA TXT NSEC\n", b"a. 1 IN NSEC b.\n", b"a. 1 IN NSEC b. A A TYPE65535 TYPE256 TYPE0\n", b"a. 1 IN NSEC b. A BOGUS\n", b"a. 1 IN NSEC b. (A\n NS ) ; c\n", b"a. 1 IN NSEC b. A",
        b"a. 1 IN NSEC3 1 0 10 aabb 2t7b4g4vsa5smi47k61mv5bv1a22bojr A NS\n", b"a. 1 IN NSEC3 1 0 10 - 2t7b4g4v\n", b"a. 1 IN NSEC3 1 0 10 - 2t7 A\n", b"a. 1 IN NSEC3 1 0 10 - 2w A\n", b"a. 1 IN NSEC3 1 0 10 - \"2t7b\" A\n", b"a. 1 IN NSEC3 1 0 10 -\n",
        b"a. 1 IN NSEC3PARAM 1 0 10 aabb\n", b"a. 1 IN NSEC3PARAM 1 0 10 -\n", b"a. 1 IN NSEC3PARAM 1 0 10 -a\n", b"a. 1 IN NSEC3PARAM 1 0 10 abc\n", b"a. 1 IN NSEC3PARAM 1 0 10 \"aa\"bb\n",
        b"a. 1 IN NSEC3PARAM 1 0 10 a\\098\n", b"a. 1 IN NSEC3PARAM 1 0 10 \\-\n", b"a. 1 IN NSEC3PARAM 256 0 10 aa\n", b"a. 1 IN NSEC3PARAM 1 0 10 aa", b"a. 1 IN NSEC3PARAM 1 0 10\n",
        b"a. 1 IN OPENPGPKEY AQID\n", b"a. 1 IN OPENPGPKEY AQ== x\n", b"a. 1 IN OPENPGPKEY AQI\n", b"a. 1 IN OPENPGPKEY A=ID\n", b"a. 1 IN OPENPGPKEY AQ (\n ID ) \n",
        b"a. 1 IN OPENPGPKEY\n", b"a. 1 IN OPENPGPKEY A\\081ID BA\\=\\=\n", b"a. 1 IN OPENPGPKEY A\xC3\xA9ID\n",
        b"a. 1 IN SSHFP 1 1\n", b"a. 1 IN SSHFP 256 1 ab\n", b"a. 1 IN SSHFP +1 01 \"ab\" \\097b\n", b"a. 1 IN TLSA 1 1 1 abg\n", b"a. 1 IN TLSA 1 1 1 ab",
        b"$ORIGIN x.\na 1 IN RP @ b\n 1 IN MINFO a. @\n 1 IN DNAME a\n 1 IN MR .\n", b"a. 1 IN MX 65535 b.\n", b"a. 1 IN MX 65536 b.\n", b"a. 1 IN MX 655350 b.\n",
        b"a. +1 IN A 1.2.3.4\n", b"a. 1 CLASS1 TYPE1 1.2.3.4\n", b"a. 1 IN A 01.2.3.4\n", b"a. 1 IN A 1.2.3\n",
        b"$ORIGIN x.\n@ 1 IN NS @\n@ 1 IN NS x.\n",
        b"$ORIGIN x.\na 1 IN NS \\@\n",
        b"$TTL 5\na. IN A 1.2.3.4\n 7 A 1.2.3.5\n A 1.2.3.6\n",
        b"a. 7 IN A 1.2.3.4\n A 1.2.3.5\nb. CH A 1.2.3.4\n",
    ];
    let el = Elig::new();
    let mut po = ParsedOracle::new();
    for c in &corpus { totality(&mut out, &el, &mut po, "corpus", c); }

    // ---- Symbol::from_slice_index and the conversions: every single octet, every
    //      `\\c`, every `\\DDD`, truncations, UTF-8 of every length (valid, over-long,
    //      surrogates, beyond U+10FFFF, broken continuation)
    for b in 0..=255u8 { sym_case(&mut out, &[b], "sym_octet"); sym_case(&mut out, &[b'\\', b], "sym_escape"); sym_case(&mut out, &[b'\\', b, b'x'], "sym_escape"); }
    for v in 0..1000u32 { let t = format!("\\{:03}", v); sym_case(&mut out, t.as_bytes(), "sym_decimal"); }
    for v in 0..100u32 { let t = format!("\\{:02}", v); sym_case(&mut out, t.as_bytes(), "sym_decimal"); let t = format!("\\{:02}x", v); sym_case(&mut out, t.as_bytes(), "sym_decimal"); }
    for cp in [0x7Fu32, 0x80, 0x7FF, 0x800, 0xFFFF, 0x10000, 0x10FFFF, 0xD7FF, 0xE000, 0x20AC, 0xE9] {
        if let Some(ch) = char::from_u32(cp) { let mut b = [0u8; 4]; let e = ch.encode_utf8(&mut b).len(); sym_case(&mut out, &b[..e], "sym_utf8"); for k in 1..e { sym_case(&mut out, &b[..k], "sym_utf8"); } }
    }
    for _ in 0..1500 * scale {
        let lead = *r.pick(&[0xC0u8, 0xC1, 0xC2, 0xDF, 0xE0, 0xE1, 0xED, 0xEF, 0xF0, 0xF1, 0xF4, 0xF5, 0xF8, 0xFF, 0x80, 0xBF]);
        let mut d = vec![lead];
        for _ in 0..r.below(4) { d.push(match r.below(5) { 0 => r.u8(), 1 => 0x80, 2 => 0xBF, 3 => 0x80 + r.below(64) as u8, _ => 0x9F + r.below(3) as u8 }); }
        sym_case(&mut out, &d, "sym_utf8");
    }

    // ---- (a) totality fuzz
    let mnem = all_mnemonics();
    for i in 0..3000 * scale {
        let data: Vec<u8> = match i % 6 {
            0 => { let n = r.below(40) as usize; r.bytes(n) }
            1 | 2 => { let n = r.below(80) as usize; (0..n).map(|_| alpha_byte(&mut r)).collect() }
            3 => {
                // a record of every known type with a weighted-alphabet tail
                let m = r.pick(&mnem).clone();
                let mut d = format!("a. 1 IN {} ", m).into_bytes();
                let n = r.below(40) as usize;
                for _ in 0..n { d.push(alpha_byte(&mut r)); }
                if r.chance(1, 2) { d.push(b'\n'); }
                d
            }
            _ => {
                let z = gen_zone(&mut r);
                let l = layout_of(r.below(17) as usize);
                let mut d = render(&z, &l, &mut r);
                mutate(&mut r, &mut d);
                d
            }
        };
        totality(&mut out, &el, &mut po, match i % 6 { 0 => "random", 1 | 2 => "alphabet", 3 => "type_tail", _ => "mutated_zone" }, &data);
    }

    // ---- (c) T2 stream: zones over the record types the model covers, any
    //      layout, zero to two byte mutations
    for i in 0..1500 * scale {
        let z = gen_zone_of(&mut r, true);
        let l = layout_of(r.below(17) as usize);
        let mut d = render(&z, &l, &mut r);
        match i % 4 { 0 => {} 1 | 2 => { let p = r.below(d.len() as u64 + 1) as usize; if p < d.len() { d[p] = alpha_byte(&mut r); } } _ => mutate(&mut r, &mut d) }
        totality(&mut out, &el, &mut po, "model_zone", &d);
    }

    // ---- RFC 3597 generic record data for the modelled types
    for _ in 0..150 * scale {
        let t = *r.pick(&SUPPORTED);
        let n = r.below(7) as usize;
        let claimed = if r.chance(1, 6) { n + 1 } else { n };
        let mut d = format!("a. 1 IN {} \\#", t).into_bytes();
        sep(&mut d, &layout_of(3), &mut r, false);
        d.extend_from_slice(claimed.to_string().as_bytes());
        let digits: Vec<u8> = (0..2 * n).map(|_| *r.pick(b"0123456789abcdefABCDEF")).collect();
        let mut i = 0;
        while i < digits.len() {
            let k = 1 + r.below(4) as usize;
            sep(&mut d, &layout_of(3), &mut r, false);
            d.extend_from_slice(&digits[i..(i + k).min(digits.len())]);
            i += k;
        }
        if r.chance(1, 8) { mutate(&mut r, &mut d); }
        d.push(b'\n');
        totality(&mut out, &el, &mut po, "generic_rdata", &d);
    }

    // ---- the 63-octet label limit must not depend on the spelling: labels of 61..66
    //      octets, plain and with escapes (first / last / middle octet, all octets), alone,
    //      after a plain or an escaped label (write position behind the read position),
    //      before further labels, quoted; as owner, in record data, as $ORIGIN argument,
    //      relative to $ORIGIN. Every file also goes through totality (and so into T2).
    for n in 61..=66usize {
        for ctx in 0..5usize {
            for pos in 0..4usize {
                let lab: Vec<u8> = (0..n).map(|_| *r.pick(b"abcxyzABZ-_")).collect();
                let file = |sp_first: usize, sp: usize| -> Vec<u8> {
                    let mut nm = Vec::new();
                    if ctx == 4 { nm.push(b'"'); }
                    if ctx == 1 || ctx == 2 { spell_label(&mut nm, b"b", sp_first); nm.push(b'.'); }
                    spell_label(&mut nm, &lab, sp);
                    if ctx == 3 { nm.extend_from_slice(b".c.d"); }
                    if pos != 3 { nm.push(b'.'); }
                    if ctx == 4 { nm.push(b'"'); }
                    let mut d = Vec::new();
                    match pos {
                        0 => { d.extend_from_slice(&nm); d.extend_from_slice(b" 1 IN A 1.2.3.4\n"); }
                        1 => { d.extend_from_slice(b"a. 1 IN NS "); d.extend_from_slice(&nm); d.extend_from_slice(b"\na. 1 IN A 1.2.3.4\n"); }
                        2 => { d.extend_from_slice(b"$ORIGIN "); d.extend_from_slice(&nm); d.extend_from_slice(b"\n@ 1 IN NS x\n"); }
                        _ => { d.extend_from_slice(b"$ORIGIN o.\n"); d.extend_from_slice(&nm); d.extend_from_slice(b" 1 IN MX 1 "); d.extend_from_slice(&nm); d.push(b'\n'); }
                    }
                    d
                };
                let canon = file(0, 0);
                let (v0, e0) = totality(&mut out, &el, &mut po, "label_limit", &canon);
                if matches!(e0, End::Panic(_) | End::Hang | End::Cap) { continue; }
                if n <= 63 { out.check(e0 == End::Eof && !v0.is_empty(), "wellformed_rejected", &format!("read {}", hex(&canon)), &obs(&v0, &e0)); }
                for sp in 0..5usize {
                    // ctx 2: the label itself is plain, only the label before it is escaped
                    let (sf, sl) = if ctx == 2 { (1 + sp % 2 * 3, 0) } else { (0, sp) };
                    let alt = file(sf, sl);
                    if alt == canon { continue; }
                    let (v1, e1) = totality(&mut out, &el, &mut po, "label_limit", &alt);
                    if matches!(e1, End::Panic(_) | End::Hang | End::Cap) { continue; }
                    let c = format!("read {} vs {}", hex(&alt), hex(&canon));
                    out.check(v1 == v0 && e1 == e0, "layout_dependent_escaped_label_limit", &c, &format!("{} <> {}", obs(&v1, &e1), obs(&v0, &e0)));
                }
            }
        }
    }

    // ---- lenient mode (`allow_invalid`, with and without `set_default_class`): a zone
    //      whose records state different classes. Every record must come back with the
    //      class written on its line, and leaving out the class where it is inherited /
    //      swapping class and TTL must not change the records. Without a preset class the
    //      same file also goes through totality (strict mode: T2 against the model).
    for i in 0..120 * scale {
        let mut z = gen_zone(&mut r);
        let palette: &[u16] = if i % 3 == 0 { &[1, 3] } else { &[1, 1, 3, 4, 2, 254, 65535] };
        let run = r.chance(1, 2);
        let mut cur = *r.pick(palette);
        for it in z.iter_mut() { if let Item::Rec(rec) = it { if !run || r.chance(1, 3) { cur = *r.pick(palette); } rec.class = cur; } }
        let preset = if r.chance(1, 3) { Some(*r.pick(palette)) } else { None };
        let l0 = Layout { preset_class: preset, ..Layout::default() };
        let canon = render(&z, &l0, &mut r);
        let tag = match preset { Some(c) => format!(" lenient default_class {}", c), None => " lenient".to_string() };
        let cc = format!("read {}{}", hex(&canon), tag);
        out.begin(&cc);
        let (v0, e0) = read_opts(&canon, true, preset);
        out.oracle_case(&cc, true, "lenient_class");
        if let End::Panic(m) = &e0 { out.check(false, panic_class(m, &canon), &cc, m); continue; }
        let want: Vec<u16> = z.iter().filter_map(|i| if let Item::Rec(rec) = i { Some(rec.class) } else { None }).collect();
        let got: Vec<u16> = v0.iter().filter_map(|s| shown_class(s)).collect();
        out.check(e0 == End::Eof && got == want, "explicit_class_not_kept", &cc, &format!("classes read {:?}, classes written {:?}, {}", got, want, obs(&v0, &e0)));
        if e0 != End::Eof { continue; }
        for k in [11usize, 12, 9, 15] {
            let l = Layout { preset_class: preset, ..layout_of(k) };
            let alt = render(&z, &l, &mut r);
            if alt == canon { continue; }
            let c = format!("read {} vs {}{}", hex(&alt), hex(&canon), tag);
            out.begin(&c);
            let (v1, e1) = read_opts(&alt, true, preset);
            out.oracle_case(&c, true, "lenient_rewrite");
            if let End::Panic(m) = &e1 { out.check(false, panic_class(m, &alt), &c, m); continue; }
            let class = format!("layout_dependent_lenient_{}", if k < 15 { REWRITES[k] } else { "mixed" });
            out.check(v1 == v0 && e1 == e0, &class, &c, &format!("{} <> {}", obs(&v1, &e1), obs(&v0, &e0)));
        }
        if preset.is_none() { totality(&mut out, &el, &mut po, "multi_class", &canon); }
    }

    // ---- (b) metamorphic
    for _ in 0..400 * scale {
        let z = gen_zone(&mut r);
        let canon = render(&z, &Layout::default(), &mut r);
        let cc = format!("read {}", hex(&canon));
        out.begin(&cc);
        let (v0, e0, _) = read_all(&canon);
        let nrec = z.iter().filter(|i| matches!(i, Item::Rec(_) | Item::Include(..))).count();
        out.oracle_case(&cc, true, "canonical");
        if let End::Panic(m) = &e0 { out.check(false, panic_class(m, &canon), &cc, m); continue; }
        out.check(e0 == End::Eof && v0.len() == nrec, "wellformed_rejected", &cc, &obs(&v0, &e0));
        if e0 != End::Eof { continue; }
        for k in 0..16 {
            let l = layout_of(k);
            let alt = render(&z, &l, &mut r);
            if alt == canon { continue; }
            let c = format!("read {} vs {}", hex(&alt), hex(&canon));
            out.begin(&c);
            let (v1, e1, _) = read_all(&alt);
            out.oracle_case(&c, true, if k < 15 { REWRITES[k] } else { "mixed" });
            if let End::Panic(m) = &e1 { out.check(false, panic_class(m, &alt), &c, m); continue; }
            let class = format!("layout_dependent_{}", if k < 15 { REWRITES[k] } else { "mixed" });
            out.check(v1 == v0 && e1 == e0, &class, &c, &format!("{} <> {}", obs(&v1, &e1), obs(&v0, &e0)));
        }
    }
    let skipped = po.skipped;
    if let Some(c) = po.child.take() { c.kill(); }
    out.finish(&[("parsed_skipped", format!("{}", skipped))]);
}
