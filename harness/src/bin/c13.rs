//! C13 -- generated NSEC / NSEC3 chains: correspondence cases for the Coq model
//! and the property oracle on the implementation.
//!
//! T2 case syntax (names are the hex of the uncompressed absolute wire form):
//!   bm <t,t,..|-> <p,p,..|-> <builder|new|new_vec|with_builder|scan>   the constructor the builder came from
//!   bm <t,t,..|-> <p,p,..|->                     => <bitmap hex> <1|0|P per probe> <types yielded by iter()>
//!   nsec <apex> <dnskey> <name>/<rtype>/<class>/<ttl>/<soa minimum> ..
//!                                                => Ok <owner>/<next>/<bitmap>/<ttl>/<class> .. | Err n | Panic
//!   nsec3 <apex> <dnskey> <alg> <flags> <iters> <salt> <excl> <s|m|f<ttl>> <name>/<rtype>/<class>/<ttl>/<min> ..
//!                                                => Ok <alg>/<flags>/<iters>/<salt> <param owner>/<class>/<ttl>/<alg>/<flags>/<iters>/<salt> <class> <hash>/<next>/<bitmap>/<ttl> .. | Err n | Panic
//!      (the first word: the parameters carried by the NSEC3 records, MIXED if they differ among them)
//!   hash <name> <iters> <salt> [flat|ref|chain<k>|parsed]  => <hash hex>   (the ToName representation handed to nsec3_hash)
//!   dedup <name>/<rtype>/<u|k>/<rdata> ..        => <name>/<rtype> ..   (SortedRecords' dedup)
//!   label <hash> <apex>                          => Ok <owner name> <decoded first label>
//!   sro (V|E|I <name>/<rtype>/<u|k>/<rdata> ..) ..  => <name>/<rtype>/<rdata> ..   (From<Vec> / extend / insert, in sequence, on one SortedRecords)
//!   parse <octets>                               => Ok | Err 10 | Err 11   (RtypeBitmap::from_octets)
//!   srt <class>/<name>/<rtype>/<u|k>/<rdata> ..  => <class>/<name>/<rtype>/<rdata> ..   (SortedRecords::from_iter on unsorted input)
//! The record list of a case is the content of the SortedRecords vector, in its
//! order.  The oracle works from the unsorted record set with its own
//! canonical ordering, authoritative-name computation, bitmap parser, Base32hex
//! decoder and SHA-1.
use bytes::Bytes;
use domain::base::iana::{Class, Nsec3HashAlgorithm};
use domain::base::rdata::UnknownRecordData;
use domain::base::cmp::CanonicalOrd;
use domain::base::{Name, Record, Rtype, Serial, Ttl};
use domain::dnssec::common::{nsec3_hash, Nsec3HashError};
use domain::dnssec::sign::denial::nsec::{generate_nsecs, GenerateNsecConfig};
use domain::dnssec::sign::denial::nsec3::{generate_nsec3s, mk_hashed_nsec3_owner_name, GenerateNsec3Config, Nsec3ParamTtlMode};
use domain::utils::base32;
use domain::dnssec::sign::error::SigningError;
use domain::dnssec::sign::records::{DefaultSorter, SortedRecords};
use domain::rdata::dnssec::RtypeBitmap;
use domain::rdata::nsec3::{Nsec3Salt, OwnerHash};
use domain::rdata::{Ns, Nsec3param, Soa, ZoneRecordData};
use dv_harness::*;
use std::cmp::Ordering;
use std::collections::{BTreeMap, BTreeSet};

type N = Name<Bytes>;
type D = ZoneRecordData<Bytes, N>;
type Labels = Vec<Vec<u8>>;

const NS: u16 = 2;
const SOA: u16 = 6;
const DS: u16 = 43;
const RRSIG: u16 = 46;
const NSEC: u16 = 47;
const DNSKEY: u16 = 48;
const NSEC3PARAM: u16 = 51;

// ------------------------------------------------------------ independent helpers

fn wire(n: &Labels) -> Vec<u8> {
    let mut v = vec![];
    for l in n { v.push(l.len() as u8); v.extend_from_slice(l); }
    v.push(0);
    v
}
fn lower(n: &Labels) -> Labels { n.iter().map(|l| l.to_ascii_lowercase()).collect() }
fn labels_of_wire(w: &[u8]) -> Labels {
    let mut out = vec![];
    let mut i = 0;
    while i < w.len() && w[i] != 0 { let k = w[i] as usize; out.push(w[i + 1..i + 1 + k].to_vec()); i += 1 + k; }
    out
}
/// RFC 4034 6.1: compare label by label from the right, lower-cased octets,
/// a name that runs out of labels first sorts first.
fn canon_cmp(a: &Labels, b: &Labels) -> Ordering {
    let (a, b) = (lower(a), lower(b));
    let mut ia = a.iter().rev();
    let mut ib = b.iter().rev();
    loop {
        match (ia.next(), ib.next()) {
            (None, None) => return Ordering::Equal,
            (None, Some(_)) => return Ordering::Less,
            (Some(_), None) => return Ordering::Greater,
            (Some(x), Some(y)) => match x.as_slice().cmp(y.as_slice()) { Ordering::Equal => {}, o => return o },
        }
    }
}
/// `n` is at or below `base` (both lower-cased).
fn at_or_below(n: &Labels, base: &Labels) -> bool {
    n.len() >= base.len() && n[n.len() - base.len()..] == base[..]
}

fn sha1(msg: &[u8]) -> [u8; 20] {
    let mut h: [u32; 5] = [0x67452301, 0xEFCDAB89, 0x98BADCFE, 0x10325476, 0xC3D2E1F0];
    let mut m = msg.to_vec();
    let bitlen = (msg.len() as u64) * 8;
    m.push(0x80);
    while m.len() % 64 != 56 { m.push(0); }
    m.extend_from_slice(&bitlen.to_be_bytes());
    for chunk in m.chunks(64) {
        let mut w = [0u32; 80];
        for i in 0..16 { w[i] = u32::from_be_bytes([chunk[4 * i], chunk[4 * i + 1], chunk[4 * i + 2], chunk[4 * i + 3]]); }
        for i in 16..80 { w[i] = (w[i - 3] ^ w[i - 8] ^ w[i - 14] ^ w[i - 16]).rotate_left(1); }
        let (mut a, mut b, mut c, mut d, mut e) = (h[0], h[1], h[2], h[3], h[4]);
        for i in 0..80 {
            let (f, k) = match i {
                0..=19 => ((b & c) | (!b & d), 0x5A827999u32),
                20..=39 => (b ^ c ^ d, 0x6ED9EBA1),
                40..=59 => ((b & c) | (b & d) | (c & d), 0x8F1BBCDC),
                _ => (b ^ c ^ d, 0xCA62C1D6),
            };
            let t = a.rotate_left(5).wrapping_add(f).wrapping_add(e).wrapping_add(k).wrapping_add(w[i]);
            e = d; d = c; c = b.rotate_left(30); b = a; a = t;
        }
        h[0] = h[0].wrapping_add(a); h[1] = h[1].wrapping_add(b); h[2] = h[2].wrapping_add(c);
        h[3] = h[3].wrapping_add(d); h[4] = h[4].wrapping_add(e);
    }
    let mut out = [0u8; 20];
    for i in 0..5 { out[4 * i..4 * i + 4].copy_from_slice(&h[i].to_be_bytes()); }
    out
}
/// RFC 5155 section 5.
fn ih(name: &Labels, iterations: u16, salt: &[u8]) -> Vec<u8> {
    let mut x = wire(&lower(name));
    x.extend_from_slice(salt);
    let mut h = sha1(&x).to_vec();
    for _ in 0..iterations { let mut y = h.clone(); y.extend_from_slice(salt); h = sha1(&y).to_vec(); }
    h
}
fn b32hex_decode(s: &[u8]) -> Option<Vec<u8>> {
    let mut acc: u64 = 0; let mut bits = 0; let mut out = vec![];
    for &c in s {
        let v = match c { b'0'..=b'9' => c - b'0', b'a'..=b'v' => c - b'a' + 10, b'A'..=b'V' => c - b'A' + 10, _ => return None };
        acc = (acc << 5) | v as u64; bits += 5;
        if bits >= 8 { bits -= 8; out.push((acc >> bits) as u8); acc &= (1 << bits) - 1; }
    }
    if acc != 0 { return None; }
    Some(out)
}
/// Parse the wire bitmap (RFC 4034 4.1.2); Err names the layout rule violated.
fn parse_bitmap(b: &[u8]) -> Result<BTreeSet<u16>, &'static str> {
    let mut out = BTreeSet::new();
    let mut i = 0; let mut prev: i32 = -1;
    while i < b.len() {
        if i + 2 > b.len() { return Err("truncated"); }
        let (w, l) = (b[i] as i32, b[i + 1] as usize);
        if w <= prev { return Err("window_order"); }
        if l == 0 || l > 32 { return Err("window_length"); }
        if i + 2 + l > b.len() { return Err("truncated"); }
        if b[i + 2 + l - 1] == 0 { return Err("trailing_zero"); }
        for k in 0..l { for bit in 0..8 { if b[i + 2 + k] & (0x80 >> bit) != 0 { out.insert(((w as u16) << 8) | ((k as u16) << 3) | bit as u16); } } }
        prev = w; i += 2 + l;
    }
    Ok(out)
}

// ------------------------------------------------------------ zones

#[derive(Clone)]
struct Rec { owner: Labels, rtype: u16, rdata: Vec<u8>, minimum: u32, raw: bool, ttl: u32 }

fn mk_name(n: &Labels) -> N { Name::from_octets(Bytes::from(wire(n))).unwrap() }

fn mk_record(r: &Rec, class: Class) -> Record<N, D> {
    let data: D = if r.rtype == SOA {
        ZoneRecordData::Soa(Soa::new(mk_name(&vec![b"m".to_vec()]), mk_name(&vec![b"r".to_vec()]),
            Serial(r.rdata.first().copied().unwrap_or(1) as u32), Ttl::from_secs(1), Ttl::from_secs(2), Ttl::from_secs(3), Ttl::from_secs(r.minimum)))
    } else if r.rtype == NS {
        ZoneRecordData::Ns(Ns::new(mk_name(&vec![r.rdata.clone(), b"ns".to_vec()])))
    } else {
        // the rdata starts with the type so that records of different unknown
        // types never compare equal (UnknownRecordData::eq ignores the type)
        let mut d = if r.raw { vec![] } else { r.rtype.to_be_bytes().to_vec() };
        d.extend_from_slice(&r.rdata);
        ZoneRecordData::Unknown(UnknownRecordData::from_octets(Rtype::from_int(r.rtype), Bytes::from(d)).unwrap())
    };
    Record::new(mk_name(&r.owner), class, Ttl::from_secs(r.ttl), data)
}

struct Zone { apex: Labels, recs: Vec<Rec>, kind: &'static str, class: u16 }

fn recase(r: &mut Rng, n: &Labels) -> Labels {
    n.iter().map(|l| l.iter().map(|&c| if c.is_ascii_alphabetic() && r.chance(1, 2) { c ^ 0x20 } else { c }).collect()).collect()
}

const ALPHA: &[&[u8]] = &[b"a", b"A", b"b", b"B", b"c", b"*", b"ab", b"z", b"Z", b"-", b"0", b"~", b"_tcp", b"aa"];
const TYPES: &[u16] = &[1, 1, 1, 5, 15, 16, 16, 28, 28, 43, 46, 47, 48, 51, 99, 255, 257, 1234, 32769, 65280, 65535];

fn l(s: &[&str]) -> Labels { s.iter().map(|x| x.as_bytes().to_vec()).collect() }
fn rec(owner: &[&str], apex: &Labels, rtype: u16, k: u8) -> Rec {
    let mut o = l(owner); o.extend(apex.iter().cloned());
    Rec { owner: o, rtype, rdata: vec![k], minimum: 300, raw: false, ttl: 3600 }
}

fn corpus() -> Vec<Zone> {
    let ex = l(&["example"]);
    let mut z = vec![];
    let soa = |a: &Labels| rec(&[], a, SOA, 1);
    // apex-only zone
    z.push(Zone { apex: ex.clone(), recs: vec![soa(&ex)], kind: "apex_only", class: 1 });
    z.push(Zone { apex: ex.clone(), recs: vec![soa(&ex), rec(&[], &ex, NS, 1), rec(&[], &ex, DS, 1), rec(&[], &ex, DNSKEY, 1)], kind: "apex_only", class: 1 });
    // glue below a cut at the very end of the zone
    z.push(Zone { apex: ex.clone(), recs: vec![soa(&ex), rec(&["a"], &ex, 1, 1), rec(&["z"], &ex, NS, 1), rec(&["ns", "z"], &ex, 1, 1), rec(&["zz", "ns", "z"], &ex, 28, 1)], kind: "glue_at_end", class: 1 });
    // ENT shared by two branches, deep ENTs
    z.push(Zone { apex: ex.clone(), recs: vec![soa(&ex), rec(&["a", "ent"], &ex, 1, 1), rec(&["b", "ent"], &ex, 16, 1), rec(&["x", "y", "z", "w"], &ex, 1, 1), rec(&["q", "z", "w"], &ex, 1, 1)], kind: "shared_ent", class: 1 });
    // ENT whose spelling differs between the branches
    z.push(Zone { apex: ex.clone(), recs: vec![soa(&ex), rec(&["a", "ENT"], &ex, 1, 1), rec(&["b", "ent"], &ex, 16, 1), rec(&["c", "Ent"], &ex, 16, 1)], kind: "shared_ent", class: 1 });
    // names differing in case only
    z.push(Zone { apex: ex.clone(), recs: vec![soa(&ex), rec(&["a"], &ex, 16, 1), rec(&["A"], &ex, 1, 1), rec(&["A"], &l(&["EXAMPLE"]), 28, 1), rec(&["b"], &l(&["eXample"]), 1, 1)], kind: "case", class: 1 });
    // wildcards
    z.push(Zone { apex: ex.clone(), recs: vec![soa(&ex), rec(&["*"], &ex, 1, 1), rec(&["*", "a"], &ex, 16, 1), rec(&["b", "*", "a"], &ex, 16, 1)], kind: "wildcard", class: 1 });
    // secure / insecure delegations, nested cut, occluded data, types at the cut
    z.push(Zone { apex: ex.clone(), recs: vec![soa(&ex), rec(&[], &ex, NS, 1),
        rec(&["sec"], &ex, NS, 1), rec(&["sec"], &ex, DS, 1), rec(&["sec"], &ex, 1, 1),
        rec(&["ins"], &ex, NS, 1), rec(&["ins"], &ex, 16, 1), rec(&["g", "ins"], &ex, 1, 1), rec(&["g", "ins"], &ex, NS, 1), rec(&["h", "g", "ins"], &ex, 1, 1),
        rec(&["a", "deep", "ins2"], &ex, NS, 1), rec(&["b", "deep", "ins2"], &ex, 1, 1),
        rec(&["dsonly"], &ex, DS, 1), rec(&["t"], &ex, 1, 1)], kind: "delegations", class: 1 });
    // a cut directly followed by a sibling that shares a prefix of the label
    z.push(Zone { apex: ex.clone(), recs: vec![soa(&ex), rec(&["b"], &ex, NS, 1), rec(&["a", "b"], &ex, 1, 1), rec(&["ba"], &ex, 1, 1), rec(&["b0"], &ex, 1, 1), rec(&["c"], &ex, 1, 1)], kind: "delegations", class: 1 });
    // SOA problems
    z.push(Zone { apex: ex.clone(), recs: vec![rec(&["a"], &ex, 1, 1)], kind: "soa_missing", class: 1 });
    z.push(Zone { apex: ex.clone(), recs: vec![rec(&[], &ex, NS, 1), rec(&["a"], &ex, SOA, 1)], kind: "soa_missing", class: 1 });
    z.push(Zone { apex: ex.clone(), recs: vec![soa(&ex), rec(&[], &ex, SOA, 2)], kind: "soa_double", class: 1 });
    z.push(Zone { apex: ex.clone(), recs: vec![], kind: "empty", class: 1 });
    // records outside the zone, before and after
    z.push(Zone { apex: ex.clone(), recs: vec![soa(&ex), rec(&["a"], &ex, 1, 1), rec(&[], &l(&["aaa"]), 1, 1), rec(&[], &l(&["zzz"]), 1, 1), rec(&["a"], &l(&["examplf"]), 1, 1), rec(&[], &l(&["xexample"]), 1, 1), rec(&[], &vec![], NS, 1)], kind: "out_of_zone", class: 1 });
    // many windows
    z.push(Zone { apex: ex.clone(), recs: vec![soa(&ex), rec(&["a"], &ex, 65535, 1), rec(&["a"], &ex, 256, 1), rec(&["a"], &ex, 255, 1), rec(&["a"], &ex, 32768, 1), rec(&["a"], &ex, 1, 1), rec(&["a"], &ex, 1, 2)], kind: "windows", class: 1 });
    // TTLs: SOA TTL below / above MINIMUM, RRSIGs with different TTLs, a second SOA deeper in the zone
    { let mut so = soa(&ex); so.ttl = 60; so.minimum = 300; let mut a = rec(&["a"], &ex, 46, 1); a.ttl = 5; let mut b = rec(&["a"], &ex, 46, 2); b.ttl = 9;
      z.push(Zone { apex: ex.clone(), recs: vec![so, a, b, rec(&["b"], &ex, 1, 1)], kind: "ttl", class: 1 }); }
    { let mut so = soa(&ex); so.ttl = 7200; so.minimum = 10; let mut s2 = rec(&["m"], &ex, SOA, 1); s2.ttl = 77; s2.minimum = 99;
      z.push(Zone { apex: ex.clone(), recs: vec![so, rec(&["a"], &ex, 1, 1), s2, rec(&["z"], &ex, 1, 1)], kind: "ttl", class: 3 }); }
    // an RRset with two TTLs: at the apex, at a delegation, below a delegation (never looked at)
    { let mut a = rec(&[], &ex, 1, 1); a.ttl = 300; let mut b = rec(&[], &ex, 1, 2); b.ttl = 600;
      z.push(Zone { apex: ex.clone(), recs: vec![soa(&ex), a, b], kind: "mixed_ttl", class: 1 }); }
    { let mut a = rec(&["g", "d"], &ex, 1, 1); a.ttl = 300; let mut b = rec(&["g", "d"], &ex, 1, 2); b.ttl = 600;
      z.push(Zone { apex: ex.clone(), recs: vec![soa(&ex), rec(&["d"], &ex, NS, 1), a, b], kind: "mixed_ttl", class: 1 }); }
    { let mut a = rec(&["d"], &ex, 16, 1); a.ttl = 300; let mut b = rec(&["d"], &ex, 16, 2); b.ttl = 600;
      z.push(Zone { apex: ex.clone(), recs: vec![soa(&ex), rec(&["d"], &ex, NS, 1), a, b, rec(&["e"], &ex, 1, 1)], kind: "mixed_ttl", class: 1 }); }
    // root zone
    z.push(Zone { apex: vec![], recs: vec![rec(&[], &vec![], SOA, 1), rec(&[], &vec![], NS, 1), rec(&["com"], &vec![], NS, 1), rec(&["a", "com"], &vec![], 1, 1), rec(&["b", "c", "org"], &vec![], 1, 1)], kind: "root", class: 1 });
    // two-label apex
    let sub = l(&["Sub", "Example"]);
    z.push(Zone { apex: sub.clone(), recs: vec![soa(&sub), rec(&["a", "b", "c"], &l(&["sub", "example"]), 1, 1), rec(&[], &l(&["example"]), NS, 1), rec(&["other"], &l(&["example"]), 1, 1)], kind: "apex2", class: 1 });
    z
}

fn gen_zone(r: &mut Rng) -> Zone {
    let apex: Labels = match r.below(20) { 0 => vec![], 1..=3 => l(&["Sub", "Example"]), 4..=5 => l(&["a"]), _ => l(&["example"]) };
    let nalpha = r.range(2, 6) as usize;
    let alpha: Vec<&[u8]> = (0..nalpha).map(|_| *r.pick(ALPHA)).collect();
    let mut names: Vec<Labels> = vec![];
    let n_names = r.below(9);
    for _ in 0..n_names {
        let rel: Labels = if !names.is_empty() && r.chance(2, 5) {
            // child or sibling of an existing name
            let base = r.pick(&names).clone();
            let mut b = base;
            if r.chance(1, 2) && !b.is_empty() { b.remove(0); }
            if b.len() < 4 { b.insert(0, r.pick(&alpha).to_vec()); }
            b
        } else {
            let depth = 1 + [0u64, 0, 1, 1, 2, 3][r.below(6) as usize];
            (0..depth).map(|_| r.pick(&alpha).to_vec()).collect()
        };
        names.push(rel);
    }
    let mut recs = vec![];
    let mut kind = "random";
    let class: u16 = if r.chance(1, 12) { 3 } else { 1 };
    match r.below(25) { 0 => { kind = "soa_missing"; } 1 => { kind = "soa_double"; recs.push(rec(&[], &apex, SOA, 1)); recs.push(rec(&[], &apex, SOA, 2)); }
        _ => { let mut s = rec(&[], &apex, SOA, 1); s.minimum = *r.pick(&[0u32, 300, 7200]); s.ttl = *r.pick(&[3600u32, 60, 300, 86400]); recs.push(s); } }
    if r.chance(3, 4) { recs.push(rec(&[], &apex, NS, 1)); }
    if r.chance(1, 5) { recs.push(rec(&[], &apex, *r.pick(TYPES), 1)); }
    for rel in &names {
        let mut owner = rel.clone(); owner.extend(apex.iter().cloned());
        let mut types: Vec<u16> = vec![];
        if r.chance(1, 4) {
            types.push(NS);
            if r.chance(1, 2) { types.push(DS); }
            if r.chance(1, 3) { types.push(*r.pick(TYPES)); }
        } else {
            for _ in 0..r.range(1, 3) { types.push(*r.pick(TYPES)); }
            if r.chance(1, 12) { types.push(DS); }
            if r.chance(1, 40) { types.push(SOA); }
        }
        types.sort(); types.dedup();
        for t in types {
            let k = if t == SOA { 1 } else { r.range(1, 2) };
            let base_ttl = *r.pick(&[3600u32, 3600, 300, 5]);
            for i in 0..k {
                let o = if r.chance(1, 4) { recase(r, &owner) } else { owner.clone() };
                // RRSIG RRsets may differ in TTL; any other RRset only in the mixed_ttl zones
                let ttl = if i > 0 && (t == RRSIG || r.chance(1, 40)) { base_ttl + 7 } else { base_ttl };
                recs.push(Rec { owner: o, rtype: t, rdata: vec![i as u8 + 1], minimum: *r.pick(&[300u32, 5]), raw: false, ttl });
            }
        }
    }
    if r.chance(1, 3) {
        for _ in 0..r.range(1, 3) {
            let o: Labels = match r.below(5) {
                0 => l(&["aaa"]), 1 => l(&["zzz"]),
                2 => { let mut a = apex.clone(); if !a.is_empty() { a.remove(0); } a }
                3 => { let mut a = apex.clone(); if !a.is_empty() { a[0].insert(0, b'x'); } else { a = l(&["q"]); } a }
                _ => { let mut a = apex.clone(); if !a.is_empty() { a[0].push(b'0'); a.insert(0, b"a".to_vec()); } else { a = l(&["q"]); } a }
            };
            recs.push(Rec { owner: o, rtype: *r.pick(&[1u16, 2, 16]), rdata: vec![1], minimum: 300, raw: false, ttl: 3600 });
        }
    }
    // shuffle
    for i in (1..recs.len()).rev() { let j = r.below(i as u64 + 1) as usize; recs.swap(i, j); }
    Zone { apex, recs, kind, class }
}

// ------------------------------------------------------------ the specification, computed independently

struct Spec {
    /// lower-cased owner -> types present
    names: BTreeMap<Vec<u8>, (Labels, BTreeSet<u16>)>,
    apex: Labels,
    wf: bool,
    /// SOA records exist at the apex only
    soa_only_apex: bool,
    /// (TTL, MINIMUM) of the apex SOA
    soa: Option<(u32, u32)>,
    /// lower-cased owners holding a non-RRSIG RRset with several TTLs
    mixed_names: BTreeSet<Vec<u8>>,
}
impl Spec {
    fn new(z: &Zone) -> Spec {
        let apex = lower(&z.apex);
        let mut names: BTreeMap<Vec<u8>, (Labels, BTreeSet<u16>)> = BTreeMap::new();
        let mut soa_count: BTreeMap<Vec<u8>, usize> = BTreeMap::new();
        for r in &z.recs {
            let n = lower(&r.owner);
            names.entry(wire(&n)).or_insert((n.clone(), BTreeSet::new())).1.insert(r.rtype);
            if r.rtype == SOA { *soa_count.entry(wire(&n)).or_insert(0) += 1; }
        }
        let wf = soa_count.get(&wire(&apex)) == Some(&1) && soa_count.values().all(|&c| c <= 1);
        let mut ttls: BTreeMap<(Vec<u8>, u16), BTreeSet<u32>> = BTreeMap::new();
        for r in &z.recs { if r.rtype != RRSIG { ttls.entry((wire(&lower(&r.owner)), r.rtype)).or_default().insert(r.ttl); } }
        let mixed_names: BTreeSet<Vec<u8>> = ttls.iter().filter(|(_, t)| t.len() > 1).map(|(k, _)| k.0.clone()).collect();
        let soa_only_apex = soa_count.keys().all(|k| *k == wire(&apex));
        let soa = z.recs.iter().find(|r| r.rtype == SOA && lower(&r.owner) == apex).map(|r| (r.ttl, r.minimum));
        Spec { names, apex, wf, soa_only_apex, soa, mixed_names }
    }
    fn in_zone(&self, n: &Labels) -> bool { at_or_below(n, &self.apex) }
    fn is_deleg(&self, n: &Labels) -> bool {
        self.in_zone(n) && *n != self.apex && self.names.get(&wire(n)).map_or(false, |e| e.1.contains(&NS))
    }
    /// strictly below a delegation point
    fn occluded(&self, n: &Labels) -> bool {
        (1..n.len()).any(|k| { let anc: Labels = n[k..].to_vec(); self.is_deleg(&anc) })
    }
    fn auth_names(&self) -> Vec<Labels> {
        let mut v: Vec<Labels> = self.names.values().map(|e| e.0.clone()).filter(|n| self.in_zone(n) && !self.occluded(n)).collect();
        v.sort_by(canon_cmp);
        v
    }
    /// The root cause of `rrset_mixed_ttl_panic`: an owner the generator visits
    /// (authoritative, and with `excl` not an insecure delegation) holds an RRset
    /// whose records differ in TTL, so Rrset::new's expect() fires.
    fn mixed_ttl_visited(&self, excl: bool) -> bool {
        self.auth_names().iter().any(|n| self.mixed_names.contains(&wire(n))
            && !(excl && self.is_deleg(n) && !self.types(n).contains(&DS)))
    }
    fn types(&self, n: &Labels) -> BTreeSet<u16> { self.names.get(&wire(n)).map(|e| e.1.clone()).unwrap_or_default() }
    /// types of `n` visible from the parent side
    fn visible_types(&self, n: &Labels) -> BTreeSet<u16> {
        let t = self.types(n);
        if self.is_deleg(n) { t.into_iter().filter(|&x| x == NS || x == DS).collect() } else { t }
    }
}

fn probes(r: &mut Rng, z: &Zone, sp: &Spec) -> Vec<(Labels, u16)> {
    let apex = &sp.apex;
    let mut names: Vec<Labels> = vec![];
    let zone_names: Vec<Labels> = sp.names.values().map(|e| e.0.clone()).filter(|n| sp.in_zone(n)).collect();
    for n in &zone_names {
        names.push(n.clone());
        for k in 1..n.len().saturating_sub(apex.len()) { names.push(n[k..].to_vec()); }      // ancestors (ENTs)
        for lab in [&b"a"[..], b"zz", b"*", b"\x00", b"~~"] { let mut c = n.clone(); c.insert(0, lab.to_vec()); if wire(&c).len() <= 255 { names.push(c); } }
        if n.len() > apex.len() {
            let mut s = n.clone(); s[0].push(b'0'); if s[0].len() <= 63 { names.push(s); }
            let mut s = n.clone(); let last = s[0].len() - 1; if s[0][last] > 0 { s[0][last] -= 1; names.push(s); }
        }
    }
    for lab in [&b"!"[..], b"a", b"m", b"~~~", b"\xff"] { let mut c = apex.clone(); c.insert(0, lab.to_vec()); names.push(c); }
    let _ = z;
    let mut out = vec![];
    for n in names {
        let n = lower(&n);
        for _ in 0..2 {
            let t = *r.pick(&[1u16, 2, 6, 16, 28, 43, 257, 65535, 1234]);
            if !sp.types(&n).contains(&t) { out.push((n.clone(), t)); }
        }
    }
    out
}

// ------------------------------------------------------------ running the implementation

fn sorted(z: &Zone) -> SortedRecords<N, D> { let c = Class::from_int(z.class); SortedRecords::<N, D>::from_iter(z.recs.iter().map(|r| mk_record(r, c))) }

fn case_recs_t(s: &SortedRecords<N, D>) -> String {
    let v: Vec<String> = s.iter().map(|r| {
        let min = if let ZoneRecordData::Soa(soa) = r.data() { soa.minimum().as_secs() } else { 0 };
        format!("{}/{}/{}/{}/{}", hex(r.owner().as_slice()), r.rtype().to_int(), r.class().to_int(), r.ttl().as_secs(), min)
    }).collect();
    v.join(" ")
}

fn err_word(e: &SigningError) -> &'static str {
    match e {
        SigningError::SoaRecordCouldNotBeDetermined => "Err 1",
        SigningError::Nsec3HashingError(Nsec3HashError::CollisionDetected) => "Err 2",
        SigningError::Nsec3HashingError(Nsec3HashError::UnsupportedAlgorithm) => "Err 3",
        _ => "Err 9",
    }
}

struct NsecOut { owner: Labels, next: Labels, types: Vec<u8>, ttl: u32, class: u16 }

fn run_nsec(out: &mut Out, z: &Zone, sp: &Spec, dk: bool, r: &mut Rng) {
    let s = sorted(z);
    let apex = mk_name(&z.apex);
    let case = format!("nsec {} {} {}", hex(&wire(&z.apex)), dk as u8, case_recs_t(&s));
    out.begin(&case);
    let cfg = if dk { GenerateNsecConfig::new() } else { GenerateNsecConfig::new().without_assuming_dnskeys_will_be_added() };
    let res = catch_mut(|| generate_nsecs(&apex, s.owner_rrs(), &cfg));
    let (obs, recs): (String, Option<Vec<NsecOut>>) = match &res {
        Err(_) => ("Panic".into(), None),
        Ok(Err(e)) => (err_word(e).into(), None),
        Ok(Ok(v)) => {
            let recs: Vec<NsecOut> = v.iter().map(|x| NsecOut { owner: labels_of_wire(x.owner().as_slice()),
                next: labels_of_wire(x.data().next_name().as_slice()), types: x.data().types().as_slice().to_vec(),
                ttl: x.ttl().as_secs(), class: x.class().to_int() }).collect();
            let items: Vec<String> = recs.iter().map(|x| format!("{}/{}/{}/{}/{}", hex(&wire(&x.owner)), hex(&wire(&x.next)), hex(&x.types), x.ttl, x.class)).collect();
            (format!("Ok {}", if items.is_empty() { "-".to_string() } else { items.join(" ") }), Some(recs))
        }
    };
    out.case(&case, &obs, s.len() > 1, &format!("nsec_{}", z.kind));
    // an RRset with several TTLs makes Rrset::new panic (its documented expect); the model
    // has the same panic site (T2), the property says nothing about such zones
    if sp.mixed_ttl_visited(false) {
        // RFC 2181 5.2: a zone may carry such an RRset; the generator must not panic on it
        // only the expect() of Rrset::new belongs to this class; any other panic is panic_nsec
        let ttl_panic = res.as_ref().err().map_or(false, |m| m.contains("TTLs should be the same"));
        out.check(!ttl_panic, "rrset_mixed_ttl_panic", &case, res.as_ref().err().map(|s| s.as_str()).unwrap_or(""));
        if ttl_panic { return; }
    }
    out.check(res.is_ok(), "panic_nsec", &case, res.as_ref().err().map(|s| s.as_str()).unwrap_or(""));
    if !sp.wf { return; }
    let Some(recs) = recs else {
        out.check(false, "nsec_missing_owner", &case, &format!("well-formed zone but result {}", obs));
        return;
    };
    // RFC 9077: TTL = min(SOA MINIMUM, SOA TTL); class of the zone
    if let (true, Some((t, m))) = (sp.soa_only_apex, sp.soa) {
        for x in &recs {
            out.check(x.ttl == t.min(m), "nsec_ttl", &case, &format!("{} has TTL {} want {}", hex(&wire(&x.owner)), x.ttl, t.min(m)));
            out.check(x.class == z.class, "nsec_class", &case, &format!("class {}", x.class));
        }
    }
    // exactly one NSEC per authoritative name
    let auth = sp.auth_names();
    let got: Vec<Labels> = recs.iter().map(|x| lower(&x.owner)).collect();
    for a in &auth { out.check(got.iter().any(|g| g == a), "nsec_missing_owner", &case, &format!("no NSEC for {}", hex(&wire(a)))); }
    for (i, g) in got.iter().enumerate() {
        out.check(auth.iter().any(|a| a == g), "nsec_extra_owner", &case, &format!("NSEC at non-authoritative {}", hex(&wire(g))));
        out.check(!got[..i].contains(g), "nsec_extra_owner", &case, &format!("second NSEC at {}", hex(&wire(g))));
    }
    // canonical order
    out.check(got.windows(2).all(|w| canon_cmp(&w[0], &w[1]) == Ordering::Less), "nsec_order", &case, "owners not strictly ascending");
    // closure
    for (i, x) in recs.iter().enumerate() {
        let want = if i + 1 < recs.len() { got[i + 1].clone() } else { sp.apex.clone() };
        out.check(lower(&x.next) == want, "nsec_not_closed", &case, &format!("next of #{} is {} want {}", i, hex(&wire(&x.next)), hex(&wire(&want))));
    }
    // bitmaps
    let mut parsed: Vec<BTreeSet<u16>> = vec![];
    for x in &recs {
        match parse_bitmap(&x.types) {
            Err(rule) => { out.check(false, &format!("nsec_bitmap_{}", rule), &case, &hex(&x.types)); parsed.push(BTreeSet::new()); }
            Ok(set) => {
                let o = lower(&x.owner);
                let mut want = sp.visible_types(&o);
                want.insert(NSEC); want.insert(RRSIG);
                if dk && o == sp.apex { want.insert(DNSKEY); }
                for t in want.difference(&set) { out.check(false, "nsec_bitmap_missing_type", &case, &format!("{} lacks type {}", hex(&wire(&o)), t)); }
                for t in set.difference(&want) { out.check(false, "nsec_bitmap_extra_type", &case, &format!("{} has type {}", hex(&wire(&o)), t)); }
                out.check(want == set, "nsec_bitmap_exact", &case, "");
                // the implementation's own lookup agrees with the octets
                if let Ok(bm) = RtypeBitmap::from_octets(x.types.clone()) {
                    let t = *r.pick(&[1u16, 2, 46, 47, 48, 257, 65535]);
                    out.check(bm.contains(Rtype::from_int(t)) == set.contains(&t), "nsec_bitmap_contains", &case, &format!("type {}", t));
                } else { out.check(false, "nsec_bitmap_unparseable", &case, &hex(&x.types)); }
                parsed.push(set);
            }
        }
    }
    // denial of every absent (name, type)
    for (n, t) in probes(r, z, sp) {
        if t == NSEC || t == RRSIG || (dk && n == sp.apex && t == DNSKEY) { continue; }
        let ok = recs.iter().zip(parsed.iter()).any(|(x, set)| {
            let o = lower(&x.owner); let nx = lower(&x.next);
            if o == n { return !set.contains(&t); }
            canon_cmp(&o, &n) == Ordering::Less && (canon_cmp(&n, &nx) == Ordering::Less || canon_cmp(&nx, &o) != Ordering::Greater)
        });
        out.check(ok, "nsec_no_denial", &case, &format!("nothing denies {} type {}", hex(&wire(&n)), t));
    }
}

#[derive(Clone)]
struct Cfg3 { dk: bool, alg: u8, flags: u8, iters: u16, salt: Vec<u8>, excl: bool, pmode: u8 }

fn run_nsec3(out: &mut Out, z: &Zone, sp: &Spec, c: &Cfg3, r: &mut Rng) {
    let s = sorted(z);
    let apex = mk_name(&z.apex);
    let pm = match c.pmode { 1 => "m".to_string(), 2 => "f1234".to_string(), _ => "s".to_string() };
    let case = format!("nsec3 {} {} {} {} {} {} {} {} {}", hex(&wire(&z.apex)), c.dk as u8, c.alg, c.flags, c.iters, hex(&c.salt), c.excl as u8, pm, case_recs_t(&s));
    out.begin(&case);
    let params = Nsec3param::new(Nsec3HashAlgorithm::from_int(c.alg), c.flags, c.iters, Nsec3Salt::from_octets(Bytes::from(c.salt.clone())).unwrap());
    let mut cfg = GenerateNsec3Config::<Bytes, DefaultSorter>::new(params);
    if !c.dk { cfg = cfg.without_assuming_dnskeys_will_be_added(); }
    if !c.excl { cfg = cfg.without_opt_out_excluding_owner_names_of_unsigned_delegations(); }
    cfg = cfg.with_ttl_mode(match c.pmode { 1 => Nsec3ParamTtlMode::SoaMinimum, 2 => Nsec3ParamTtlMode::Fixed(Ttl::from_secs(1234)), _ => Nsec3ParamTtlMode::Soa });
    let res = catch_mut(|| generate_nsec3s(&apex, s.owner_rrs(), &cfg));
    struct O3 { hash: Option<Vec<u8>>, next: Vec<u8>, types: Vec<u8>, flags: u8, iters: u16, salt: Vec<u8>, alg: u8, suffix_ok: bool, ttl: u32, class: u16 }
    let (obs, recs): (String, Option<Vec<O3>>) = match &res {
        Err(_) => ("Panic".into(), None),
        Ok(Err(e)) => (err_word(e).into(), None),
        Ok(Ok(v)) => {
            let recs: Vec<O3> = v.nsec3s.iter().map(|x| {
                let o = labels_of_wire(x.owner().as_slice());
                let hash = o.first().and_then(|l| b32hex_decode(l));
                let suffix_ok = !o.is_empty() && lower(&o[1..].to_vec()) == sp.apex;
                O3 { hash, next: x.data().next_owner().as_slice().to_vec(), types: x.data().types().as_slice().to_vec(),
                     flags: x.data().flags(), iters: x.data().iterations(), salt: x.data().salt().as_slice().to_vec(),
                     alg: x.data().hash_algorithm().to_int(), suffix_ok, ttl: x.ttl().as_secs(), class: x.class().to_int() }
            }).collect();
            let items: Vec<String> = recs.iter().map(|x| format!("{}/{}/{}/{}", x.hash.as_ref().map(|h| hex(h)).unwrap_or("BADOWNER".into()), hex(&x.next), hex(&x.types), x.ttl)).collect();
            let p = &v.nsec3param;
            let pclass = p.class().to_int();
            let pok = lower(&labels_of_wire(p.owner().as_slice())) == sp.apex && p.data().flags() == c.flags && p.data().iterations() == c.iters
                && p.data().salt().as_slice() == &c.salt[..] && p.data().hash_algorithm().to_int() == c.alg;
            out.check(pok, "nsec3_param_record", &case, "NSEC3PARAM differs from the configuration");
            if let (true, true, Some((t, m))) = (sp.wf, sp.soa_only_apex, sp.soa) {
                let want = match c.pmode { 1 => m, 2 => 1234, _ => t };
                out.check(p.ttl().as_secs() == want, "nsec3param_ttl", &case, &format!("TTL {} want {}", p.ttl().as_secs(), want));
                for x in &recs { out.check(x.ttl == t.min(m), "nsec3_ttl", &case, &format!("TTL {} want {}", x.ttl, t.min(m))); }
                // the chain belongs to the zone: its records carry the zone's class (generate_nsecs takes it from the SOA)
                out.check(pclass == z.class && recs.iter().all(|x| x.class == z.class), "nsec3_class_not_zone_class", &case,
                    &format!("zone class {} but NSEC3PARAM class {} and NSEC3 classes {:?}", z.class, pclass, recs.iter().map(|x| x.class).collect::<BTreeSet<_>>()));
            }
            let pw = |a: u8, f: u8, i: u16, sl: &[u8]| format!("{}/{}/{}/{}", a, f, i, hex(sl));
            let rec_params = match recs.first() {
                Some(x0) if recs.iter().all(|x| (x.alg, x.flags, x.iters, &x.salt) == (x0.alg, x0.flags, x0.iters, &x0.salt)) => pw(x0.alg, x0.flags, x0.iters, &x0.salt),
                _ => "MIXED".to_string(),
            };
            let class_word = match recs.first() { Some(x0) if recs.iter().all(|x| x.class == x0.class) => x0.class.to_string(), _ => "MIXED".to_string() };
            let param = format!("{}/{}/{}/{}", hex(p.owner().as_slice()), pclass, p.ttl().as_secs(),
                pw(p.data().hash_algorithm().to_int(), p.data().flags(), p.data().iterations(), p.data().salt().as_slice()));
            (format!("Ok {} {} {} {}", rec_params, param, class_word, if items.is_empty() { "-".to_string() } else { items.join(" ") }), Some(recs))
        }
    };
    out.case(&case, &obs, s.len() > 1, &format!("nsec3_{}", z.kind));
    if sp.mixed_ttl_visited(c.flags & 1 != 0 && c.excl) {
        let ttl_panic = res.as_ref().err().map_or(false, |m| m.contains("TTLs should be the same"));
        out.check(!ttl_panic, "rrset_mixed_ttl_panic", &case, res.as_ref().err().map(|s| s.as_str()).unwrap_or(""));
        if ttl_panic { return; }
    }
    out.check(res.is_ok(), "panic_nsec3", &case, res.as_ref().err().map(|s| s.as_str()).unwrap_or(""));
    if c.alg != 1 {
        out.check(obs == "Err 3" || !sp.wf, "nsec3_unsupported_alg", &case, &obs);
        return;
    }
    if !sp.wf { return; }
    let Some(recs) = recs else {
        out.check(false, "nsec3_missing_owner", &case, &format!("well-formed zone but result {}", obs));
        return;
    };
    let optout = c.flags & 1 != 0;
    let excl = optout && c.excl;
    let included: Vec<Labels> = sp.auth_names().into_iter()
        .filter(|n| !(excl && sp.is_deleg(n) && !sp.types(n).contains(&DS))).collect();
    let mut ents: Vec<Labels> = vec![];
    for n in &included {
        for k in 1..n.len().saturating_sub(sp.apex.len()) {
            let anc: Labels = n[k..].to_vec();
            if !sp.names.contains_key(&wire(&anc)) && !ents.contains(&anc) { ents.push(anc); }
        }
    }
    // expected (hash -> expected type set)
    let mut want: BTreeMap<Vec<u8>, (Labels, BTreeSet<u16>)> = BTreeMap::new();
    for n in &included {
        let mut t = sp.visible_types(n);
        if !sp.is_deleg(n) || sp.types(n).contains(&DS) { t.insert(RRSIG); }
        if *n == sp.apex { t.insert(NSEC3PARAM); if c.dk { t.insert(DNSKEY); } }
        want.insert(ih(n, c.iters, &c.salt), (n.clone(), t));
    }
    for n in &ents { want.insert(ih(n, c.iters, &c.salt), (n.clone(), BTreeSet::new())); }
    for x in &recs {
        out.check(x.hash.is_some() && x.suffix_ok, "nsec3_owner_form", &case, "owner is not <base32hex>.<apex>");
        out.check(x.flags == c.flags && x.iters == c.iters && x.salt == c.salt && x.alg == c.alg, "nsec3_params", &case, "flags/iterations/salt/algorithm differ from the configuration");
        out.check((x.flags & 1 != 0) == optout, "nsec3_optout_flag", &case, "");
    }
    let got: Vec<Vec<u8>> = recs.iter().map(|x| x.hash.clone().unwrap_or_default()).collect();
    for (h, (n, _)) in &want { out.check(got.contains(h), "nsec3_missing_owner", &case, &format!("no NSEC3 for {} (hash {})", hex(&wire(n)), hex(h))); }
    for (i, g) in got.iter().enumerate() {
        out.check(want.contains_key(g), "nsec3_extra_owner", &case, &format!("NSEC3 {} matches no authoritative name or ENT (or its hash is not the RFC 5155 hash)", hex(g)));
        out.check(!got[..i].contains(g), "nsec3_extra_owner", &case, &format!("second NSEC3 {}", hex(g)));
    }
    out.check(got.windows(2).all(|w| w[0] < w[1]), "nsec3_order", &case, "hashes not strictly ascending");
    for (i, x) in recs.iter().enumerate() {
        let wantn = &got[(i + 1) % got.len()];
        out.check(&x.next == wantn, "nsec3_not_closed", &case, &format!("next of #{} is {} want {}", i, hex(&x.next), hex(wantn)));
    }
    let mut parsed: Vec<BTreeSet<u16>> = vec![];
    for (x, g) in recs.iter().zip(got.iter()) {
        match parse_bitmap(&x.types) {
            Err(rule) => { out.check(false, &format!("nsec3_bitmap_{}", rule), &case, &hex(&x.types)); parsed.push(BTreeSet::new()); }
            Ok(set) => {
                if let Some((n, w)) = want.get(g) {
                    for t in w.difference(&set) { out.check(false, "nsec3_bitmap_missing_type", &case, &format!("{} lacks type {}", hex(&wire(n)), t)); }
                    for t in set.difference(w) { out.check(false, "nsec3_bitmap_extra_type", &case, &format!("{} has type {}", hex(&wire(n)), t)); }
                    out.check(*w == set, "nsec3_bitmap_exact", &case, "");
                    // an empty non-terminal's NSEC3 has no window at all
                    if ents.contains(n) { out.check(x.types.is_empty(), "nsec3_ent_bitmap_not_empty", &case, &hex(&x.types)); }
                }
                out.check(RtypeBitmap::from_octets(x.types.clone()).is_ok(), "nsec3_bitmap_unparseable", &case, &hex(&x.types));
                parsed.push(set);
            }
        }
    }
    // denial: a name with an NSEC3 must lack the type, any other name's hash must be covered
    for (n, t) in probes(r, z, sp) {
        if t == RRSIG || (n == sp.apex && (t == NSEC3PARAM || (c.dk && t == DNSKEY))) { continue; }
        let h = ih(&n, c.iters, &c.salt);
        let ok = recs.iter().zip(got.iter()).zip(parsed.iter()).any(|((x, g), set)| {
            if *g == h { return !set.contains(&t); }
            if *g < x.next { *g < h && h < x.next } else { h > *g || h < x.next }
        });
        out.check(ok, "nsec3_no_denial", &case, &format!("nothing denies {} type {} (hash {})", hex(&wire(&n)), t, hex(&h)));
    }
}

fn run_hash(out: &mut Out, n: &Labels, iters: u16, salt: &[u8]) {
    let s = Nsec3Salt::from_octets(Bytes::from(salt.to_vec())).unwrap();
    let want = hex(&ih(n, iters, salt));
    // the same name in every representation nsec3_hash accepts (N: ToName): all must hash the
    // lower-cased wire form
    let mut reprs: Vec<String> = vec!["flat".into(), "ref".into(), "parsed".into()];
    for k in 0..n.len() { reprs.push(format!("chain{}", k)); }
    for repr in reprs {
        let case = format!("hash {} {} {} {}", hex(&wire(n)), iters, hex(salt), repr);
        out.begin(&case);
        let res: Result<Result<Vec<u8>, ()>, String> = catch_mut(|| {
            let h = |r: Result<OwnerHash<Vec<u8>>, Nsec3HashError>| r.map(|h| h.as_slice().to_vec()).map_err(|_| ());
            match repr.as_str() {
                "flat" => h(nsec3_hash::<_, _, Vec<u8>>(mk_name(n), Nsec3HashAlgorithm::SHA1, iters, &s)),
                "ref" => { let v: Name<Vec<u8>> = Name::from_octets(wire(n)).unwrap(); h(nsec3_hash::<_, _, Vec<u8>>(&v, Nsec3HashAlgorithm::SHA1, iters, &s)) }
                "parsed" => {
                    // a message: header, the last label(s) at offset 12, then the first labels and a pointer to 12
                    let split = n.len() / 2;
                    let mut msg = vec![0u8; 12];
                    msg.extend_from_slice(&wire(&n[split..].to_vec()));
                    let start = msg.len();
                    for lab in &n[..split] { msg.push(lab.len() as u8); msg.extend_from_slice(lab); }
                    msg.extend_from_slice(&[0xC0, 12]);
                    let mut parser = domain::dep::octseq::Parser::from_ref(&msg[..]);
                    parser.advance(start).map_err(|_| ())?;
                    let pn = domain::base::name::ParsedName::parse(&mut parser).map_err(|_| ())?;
                    h(nsec3_hash::<_, _, Vec<u8>>(pn, Nsec3HashAlgorithm::SHA1, iters, &s))
                }
                _ => {
                    let k: usize = repr[5..].parse().unwrap();
                    let mut relw = vec![]; for lab in &n[..k] { relw.push(lab.len() as u8); relw.extend_from_slice(lab); }
                    let rel = domain::base::name::RelativeName::from_octets(relw).map_err(|_| ())?;
                    let abs: Name<Vec<u8>> = Name::from_octets(wire(&n[k..].to_vec())).map_err(|_| ())?;
                    let ch = rel.chain(abs).map_err(|_| ())?;
                    h(nsec3_hash::<_, _, Vec<u8>>(ch, Nsec3HashAlgorithm::SHA1, iters, &s))
                }
            }
        });
        let obs = match &res { Ok(Ok(h)) => hex(h), Ok(Err(_)) => "Err".into(), Err(_) => "Panic".into() };
        out.case(&case, &obs, iters > 0 || !salt.is_empty(), &format!("hash_{}", if repr.starts_with("chain") { "chain" } else { repr.as_str() }));
        out.check(obs == want, "nsec3_hash", &case, &obs);
        // a re-cased spelling hashes alike
    }
}

fn b32hex_encode_lower(b: &[u8]) -> Vec<u8> {
    const A: &[u8] = b"0123456789abcdefghijklmnopqrstuv";
    let mut out = vec![]; let mut acc: u32 = 0; let mut bits = 0;
    for &x in b { acc = (acc << 8) | x as u32; bits += 8; while bits >= 5 { bits -= 5; out.push(A[((acc >> bits) & 31) as usize]); } acc &= (1 << bits) - 1; }
    if bits > 0 { out.push(A[((acc << (5 - bits)) & 31) as usize]); }
    out
}

/// The owner name of the NSEC3 for `n`: <lower-case base32hex(hash)>.<apex>, and the
/// way the linking loop gets the hash back from it.
fn run_label(out: &mut Out, n: &Labels, apex: &Labels, iters: u16, salt: &[u8]) {
    let h = ih(n, iters, salt);
    let case = format!("label {} {}", hex(&h), hex(&wire(apex)));
    out.begin(&case);
    let (nm, ap) = (mk_name(n), mk_name(apex));
    let s = Nsec3Salt::from_octets(Bytes::from(salt.to_vec())).unwrap();
    let res = catch_mut(|| {
        let o: N = mk_hashed_nsec3_owner_name::<N, Bytes, Bytes>(&nm, Nsec3HashAlgorithm::SHA1, iters, &s, &ap).map_err(|_| ())?;
        let labels = labels_of_wire(o.as_slice());
        let first = String::from_utf8(labels.first().cloned().unwrap_or_default()).map_err(|_| ())?;
        let d: Vec<u8> = base32::decode_hex(&first).map_err(|_| ())?;
        Ok::<_, ()>((labels, d))
    });
    match res {
        Err(e) => { out.case(&case, "Panic", true, "label"); out.check(false, "panic_nsec3_label", &case, &e); }
        Ok(Err(())) => { out.case(&case, "Err", true, "label"); out.check(false, "nsec3_label", &case, "owner name or decoding failed"); }
        Ok(Ok((labels, d))) => {
            out.case(&case, &format!("Ok {} {}", hex(&wire(&labels)), hex(&d)), true, "label");
            let mut want = vec![b32hex_encode_lower(&h)]; want.extend(apex.iter().cloned());
            out.check(labels == want, "nsec3_label", &case, &hex(&wire(&labels)));
            out.check(d == h, "nsec3_label_roundtrip", &case, &hex(&d));
        }
    }
}

fn run_parse(out: &mut Out, d: &[u8]) {
    let case = format!("parse {}", hex(d));
    out.begin(&case);
    let v = d.to_vec();
    let res = catch_mut(move || RtypeBitmap::from_octets(v).map(|_| ()).map_err(|e| domain::base::wire::ParseError::from(e)));
    let obs = match &res { Err(_) => "Panic".to_string(), Ok(Ok(())) => "Ok".into(),
        Ok(Err(domain::base::wire::ParseError::ShortInput)) => "Err 10".into(), Ok(Err(_)) => "Err 11".into() };
    out.case(&case, &obs, d.len() > 2, "parse");
    out.check(res.is_ok(), "panic_bitmap", &case, "");
    // accepted iff a sequence of complete windows with 1..32 bitmap octets
    let mut i = 0; let mut ok = true;
    while i < d.len() { if i + 2 > d.len() { ok = false; break; } let l = d[i + 1] as usize; if l == 0 || l > 32 || i + 2 + l > d.len() { ok = false; break; } i += 2 + l; }
    out.check((obs == "Ok") == ok, "bitmap_from_octets", &case, &obs);
}

fn run_bitmap(out: &mut Out, ts: &[u16], ps: &[u16], ctor: &'static str) {
    use domain::rdata::dnssec::RtypeBitmapBuilder;
    let j = |v: &[u16]| if v.is_empty() { "-".to_string() } else { v.iter().map(|x| x.to_string()).collect::<Vec<_>>().join(",") };
    // the scan constructor needs every type to have a text form that scans back; where the
    // harness cannot build the case that way it is skipped and counted, not failed
    let ctor = if ctor == "scan" && !ts.iter().all(|t| {
        let tok = format!("{}", Rtype::from_int(*t));
        catch_mut(|| { let mut sc = domain::base::scan::IterScanner::<_, Vec<u8>>::new(vec![tok.clone()]); Rtype::scan(&mut sc).map(|r| r.to_int()).ok() }).ok().flatten() == Some(*t)
    }) { out.count("scan_not_constructible"); "builder" } else { ctor };
    let case = format!("bm {} {} {}", j(ts), j(ps), ctor);
    out.begin(&case);
    let ts2 = ts.to_vec(); let ps2 = ps.to_vec();
    let res = catch_mut(move || {
        let bm: RtypeBitmap<Vec<u8>> = if ctor == "scan" {
            // RtypeBitmap::scan over the mnemonics / TYPEnnn tokens
            let toks: Vec<String> = ts2.iter().map(|t| format!("{}", Rtype::from_int(*t))).collect();
            let mut sc = domain::base::scan::IterScanner::<_, Vec<u8>>::new(toks);
            RtypeBitmap::scan(&mut sc).expect("scan")
        } else {
            let mut b: RtypeBitmapBuilder<Vec<u8>> = match ctor {
                "new" => RtypeBitmapBuilder::<Vec<u8>>::new(),
                "new_vec" => RtypeBitmapBuilder::new_vec(),
                "with_builder" => RtypeBitmapBuilder::with_builder(Vec::new()),
                _ => RtypeBitmap::<Vec<u8>>::builder(),
            };
            for t in &ts2 { b.add(Rtype::from_int(*t)).unwrap(); }
            b.finalize()
        };
        let probes: Vec<bool> = ps2.iter().map(|p| bm.contains(Rtype::from_int(*p))).collect();
        let listed: Vec<u16> = bm.iter().map(|t| t.to_int()).collect();
        (bm.as_slice().to_vec(), probes, listed)
    });
    match res {
        Err(e) => { out.case(&case, "Panic", true, "bm"); out.check(false, "panic_bitmap", &case, &e); }
        Ok((w, probes, listed)) => {
            let obs = format!("{} {} {}", hex(&w), if probes.is_empty() { "-".to_string() } else { probes.iter().map(|&b| if b { '1' } else { '0' }).collect() }, j(&listed));
            out.case(&case, &obs, ts.len() > 1, "bm");
            let want: BTreeSet<u16> = ts.iter().copied().collect();
            match parse_bitmap(&w) {
                Err(rule) => out.check(false, &format!("bitmap_{}", rule), &case, &hex(&w)),
                Ok(set) => {
                    out.check(set == want, "bitmap_roundtrip", &case, &hex(&w));
                    for (p, b) in ps.iter().zip(probes.iter()) { out.check(*b == want.contains(p), "bitmap_contains", &case, &format!("type {}", p)); }
                    out.check(listed == want.iter().copied().collect::<Vec<_>>(), "bitmap_iter", &case, "");
                    out.check(RtypeBitmap::from_octets(w.clone()).is_ok(), "bitmap_reparse", &case, "");
                }
            }
        }
    }
}

/// SortedRecords::from_iter on records that may compare equal: no (owner, type)
/// pair of the input may disappear.
fn run_dedup(out: &mut Out, recs: &[(Labels, u16, bool, Vec<u8>)]) {
    let mk = |x: &(Labels, u16, bool, Vec<u8>)| -> Record<N, D> {
        let data: D = if x.2 {
            ZoneRecordData::Ns(Ns::new(mk_name(&vec![x.3.clone()])))
        } else {
            ZoneRecordData::Unknown(UnknownRecordData::from_octets(Rtype::from_int(x.1), Bytes::from(x.3.clone())).unwrap())
        };
        Record::new(mk_name(&x.0), Class::IN, Ttl::from_secs(3600), data)
    };
    let mut v: Vec<(Record<N, D>, usize)> = recs.iter().enumerate().map(|(i, x)| (mk(x), i)).collect();
    v.sort_by(|a, b| a.0.canonical_cmp(&b.0));
    let items: Vec<String> = v.iter().map(|(_, i)| {
        let x = &recs[*i];
        let rd = if x.2 { wire(&vec![x.3.clone()]) } else { x.3.clone() };
        format!("{}/{}/{}/{}", hex(&wire(&x.0)), x.1, if x.2 { "k" } else { "u" }, hex(&rd))
    }).collect();
    let case = format!("dedup {}", items.join(" "));
    out.begin(&case);
    let res = catch_mut(|| {
        let s = SortedRecords::<N, D>::from_iter(recs.iter().map(mk));
        s.iter().map(|r| (labels_of_wire(r.owner().as_slice()), r.rtype().to_int())).collect::<Vec<_>>()
    });
    match res {
        Err(e) => { out.case(&case, "Panic", true, "dedup"); out.check(false, "panic_sorted_records", &case, &e); }
        Ok(got) => {
            let obs: Vec<String> = got.iter().map(|(n, t)| format!("{}/{}", hex(&wire(n)), t)).collect();
            out.case(&case, &if obs.is_empty() { "-".to_string() } else { obs.join(" ") }, recs.len() > 1, "dedup");
            let want: BTreeSet<(Vec<u8>, u16)> = recs.iter().map(|x| (wire(&lower(&x.0)), x.1)).collect();
            let have: BTreeSet<(Vec<u8>, u16)> = got.iter().map(|(n, t)| (wire(&lower(n)), *t)).collect();
            out.check(want == have, "sorted_records_drops_type", &case, &format!("{} (owner, type) pairs in, {} out", want.len(), have.len()));
        }
    }
}

/// SortedRecords::from_iter on records in arbitrary order: the result is in
/// canonical owner order (types ascending within an owner) and holds every
/// (owner, type) of the input.
fn run_sort(out: &mut Out, recs: &[(u16, Labels, u16, bool, Vec<u8>)]) {
    let mk = |x: &(u16, Labels, u16, bool, Vec<u8>)| -> Record<N, D> {
        let data: D = if x.3 { ZoneRecordData::Ns(Ns::new(mk_name(&vec![x.4.clone()]))) }
            else { ZoneRecordData::Unknown(UnknownRecordData::from_octets(Rtype::from_int(x.2), Bytes::from(x.4.clone())).unwrap()) };
        Record::new(mk_name(&x.1), Class::from_int(x.0), Ttl::from_secs(3600), data)
    };
    let rd = |x: &(u16, Labels, u16, bool, Vec<u8>)| if x.3 { wire(&vec![x.4.clone()]) } else { x.4.clone() };
    let items: Vec<String> = recs.iter().map(|x| format!("{}/{}/{}/{}/{}", x.0, hex(&wire(&x.1)), x.2, if x.3 { "k" } else { "u" }, hex(&rd(x)))).collect();
    let case = format!("srt {}", items.join(" "));
    out.begin(&case);
    let res = catch_mut(|| {
        let s = SortedRecords::<N, D>::from_iter(recs.iter().map(mk));
        s.iter().map(|r| {
            let d = match r.data() { ZoneRecordData::Ns(ns) => ns.nsdname().as_slice().to_vec(), ZoneRecordData::Unknown(u) => u.data().to_vec(), _ => vec![] };
            (r.class().to_int(), labels_of_wire(r.owner().as_slice()), r.rtype().to_int(), d)
        }).collect::<Vec<_>>()
    });
    match res {
        Err(e) => { out.case(&case, "Panic", true, "srt"); out.check(false, "panic_sorted_records", &case, &e); }
        Ok(got) => {
            let obs: Vec<String> = got.iter().map(|(c, n, t, d)| format!("{}/{}/{}/{}", c, hex(&wire(n)), t, hex(d))).collect();
            out.case(&case, &if obs.is_empty() { "-".to_string() } else { obs.join(" ") }, recs.len() > 1, "srt");
            out.check(got.windows(2).all(|w| w[0].0 < w[1].0 || (w[0].0 == w[1].0 && match canon_cmp(&w[0].1, &w[1].1) { Ordering::Less => true, Ordering::Equal => w[0].2 <= w[1].2, Ordering::Greater => false })),
                "sorted_records_order", &case, "not in class / canonical owner / type order");
            let want: BTreeSet<(u16, Vec<u8>, u16)> = recs.iter().map(|x| (x.0, wire(&lower(&x.1)), x.2)).collect();
            let have: BTreeSet<(u16, Vec<u8>, u16)> = got.iter().map(|(c, n, t, _)| (*c, wire(&lower(n)), *t)).collect();
            out.check(want == have, "sorted_records_drops_type", &case, "");
        }
    }
}

/// A sequence of SortedRecords entry points on one collection: V = From<Vec> (a
/// fresh collection), E = extend, I = insert of each record.  Whatever the
/// sequence, the vector must stay in canonical order without duplicates and
/// hold every (owner, type) put in since it was created.
fn run_ops(out: &mut Out, ops: &[(char, Vec<(Labels, u16, bool, Vec<u8>)>)]) {
    type R4 = (Labels, u16, bool, Vec<u8>);
    let mk = |x: &R4| -> Record<N, D> {
        let data: D = if x.2 { ZoneRecordData::Ns(Ns::new(mk_name(&vec![x.3.clone()]))) }
            else { ZoneRecordData::Unknown(UnknownRecordData::from_octets(Rtype::from_int(x.1), Bytes::from(x.3.clone())).unwrap()) };
        Record::new(mk_name(&x.0), Class::IN, Ttl::from_secs(3600), data)
    };
    let rd = |x: &R4| if x.2 { wire(&vec![x.3.clone()]) } else { x.3.clone() };
    let mut words = vec![];
    for (tag, recs) in ops {
        words.push(tag.to_string());
        for x in recs { words.push(format!("{}/{}/{}/{}", hex(&wire(&x.0)), x.1, if x.2 { "k" } else { "u" }, hex(&rd(x)))); }
    }
    let case = format!("sro {}", words.join(" "));
    out.begin(&case);
    let res = catch_mut(|| {
        let mut s = SortedRecords::<N, D>::new();
        for (tag, recs) in ops {
            match tag {
                'V' => { s = SortedRecords::<N, D>::from(recs.iter().map(mk).collect::<Vec<_>>()); }
                'E' => { s.extend(recs.iter().map(mk)); }
                _ => { for x in recs { let _ = s.insert(mk(x)); } }
            }
        }
        s.iter().map(|r| {
            let d = match r.data() { ZoneRecordData::Ns(ns) => ns.nsdname().as_slice().to_vec(), ZoneRecordData::Unknown(u) => u.data().to_vec(), _ => vec![] };
            (labels_of_wire(r.owner().as_slice()), r.rtype().to_int(), d)
        }).collect::<Vec<_>>()
    });
    match res {
        Err(e) => { out.case(&case, "Panic", true, "sro"); out.check(false, "panic_sorted_records", &case, &e); }
        Ok(got) => {
            let obs: Vec<String> = got.iter().map(|(n, t, d)| format!("{}/{}/{}", hex(&wire(n)), t, hex(d))).collect();
            out.case(&case, &if obs.is_empty() { "-".to_string() } else { obs.join(" ") }, ops.len() > 1, "sro");
            out.check(got.windows(2).all(|w| match canon_cmp(&w[0].0, &w[1].0) { Ordering::Less => true, Ordering::Equal => w[0].1 <= w[1].1, Ordering::Greater => false }),
                "sorted_records_order", &case, "not in canonical owner / type order after the sequence");
            out.check(got.windows(2).all(|w| !(lower(&w[0].0) == lower(&w[1].0) && w[0].1 == w[1].1 && w[0].2 == w[1].2)),
                "sorted_records_duplicate", &case, "two equal records next to each other");
            let mut want: BTreeSet<(Vec<u8>, u16)> = BTreeSet::new();
            for (tag, recs) in ops { if *tag == 'V' { want.clear(); } for x in recs { want.insert((wire(&lower(&x.0)), x.1)); } }
            let have: BTreeSet<(Vec<u8>, u16)> = got.iter().map(|(n, t, _)| (wire(&lower(n)), *t)).collect();
            out.check(want == have, "sorted_records_drops_type", &case, "");
        }
    }
}

fn main() {
    let a = args();
    let mut out = Out::new(&a, "C13", 60);
    let mut r = Rng::new(a.seed);
    let n_zones = if a.thorough { 6000 } else { 300 } * a.scale;
    let mut idx = 0u64;
    let cz = corpus();
    let n_corpus = cz.len() as u64;
    let mut cz = cz.into_iter();
    for i in 0..n_zones + n_corpus {
        let z = if i < n_corpus { cz.next().unwrap() } else { gen_zone(&mut r) };
        let mut rr = r.fork();
        idx += 1;
        if !out.wants(idx) { continue; }
        let sp = Spec::new(&z);
        let both = i < n_corpus;
        let dk = rr.chance(1, 2);
        run_nsec(&mut out, &z, &sp, dk, &mut rr);
        if both { run_nsec(&mut out, &z, &sp, !dk, &mut rr); }
        let mut cfgs = vec![];
        let salt = match rr.below(4) { 0 => vec![], 1 => vec![0xAA, 0xBB, 0xCC, 0xDD], _ => { let k = rr.range(1, 8) as usize; rr.bytes(k) } };
        let iters = *rr.pick(&[0u16, 0, 1, 2, 5, 10]);
        let flags = *rr.pick(&[0u8, 0, 1, 1, 1, 2, 3, 0x81]);
        cfgs.push(Cfg3 { dk: rr.chance(1, 2), alg: if rr.chance(1, 30) { 2 } else { 1 }, flags, iters, salt: salt.clone(), excl: rr.chance(4, 5), pmode: rr.below(3) as u8 });
        if both {
            cfgs.push(Cfg3 { dk: true, alg: 1, flags: 0, iters: 0, salt: vec![], excl: true, pmode: 0 });
            cfgs.push(Cfg3 { dk: false, alg: 1, flags: 1, iters: 3, salt: vec![1, 2], excl: true, pmode: 1 });
            cfgs.push(Cfg3 { dk: false, alg: 1, flags: 1, iters: 1, salt: vec![], excl: false, pmode: 2 });
        }
        for c in &cfgs { run_nsec3(&mut out, &z, &sp, c, &mut rr); }
    }
    // hash cases
    let n_hash = if a.thorough { 2000 } else { 150 } * a.scale;
    let fixed: Vec<(Labels, u16, Vec<u8>)> = vec![
        (l(&["example"]), 12, vec![0xAA, 0xBB, 0xCC, 0xDD]), (l(&["a", "example"]), 12, vec![0xAA, 0xBB, 0xCC, 0xDD]),
        (vec![], 0, vec![]), (l(&["EXAMPLE"]), 0, vec![]), (l(&["*", "w", "Example"]), 1, vec![0]),
    ];
    for i in 0..n_hash + fixed.len() as u64 {
        let (n, it, salt) = if (i as usize) < fixed.len() { fixed[i as usize].clone() } else {
            let depth = r.below(5);
            let mut n: Labels = (0..depth).map(|_| { if r.chance(1, 8) { let k = r.range(1, 63) as usize; r.bytes(k) } else { r.pick(ALPHA).to_vec() } }).collect();
            // keep the name (also under the longest apex of the label cases) within 255 octets
            while wire(&n).len() > 240 { n.pop(); }
            let k = r.below(12) as usize;
            (n, *r.pick(&[0u16, 1, 2, 3, 10, 25, 50]), r.bytes(k))
        };
        idx += 1;
        if !out.wants(idx) { continue; }
        run_hash(&mut out, &n, it, &salt);
        if i % 3 == 0 { let apex = match i % 4 { 0 => vec![], 1 => l(&["Example"]), _ => l(&["sub", "ex"]) }; run_label(&mut out, &n, &apex, it, &salt); }
    }
    // bitmap cases
    let n_bm = if a.thorough { 5000 } else { 400 } * a.scale;
    let fixed_bm: Vec<Vec<u16>> = vec![vec![], vec![0], vec![7], vec![8], vec![255], vec![256], vec![65535], vec![46, 47], vec![47, 46, 1, 1],
        vec![65535, 0], vec![256, 255, 257, 511, 512], vec![1234, 1, 32768, 300, 2], (0..64).collect(), vec![248, 255, 0]];
    for i in 0..n_bm + fixed_bm.len() as u64 {
        let ts: Vec<u16> = if (i as usize) < fixed_bm.len() { fixed_bm[i as usize].clone() } else {
            let k = r.below(9);
            (0..k).map(|_| match r.below(5) { 0 => *r.pick(TYPES), 1 => r.below(256) as u16, 2 => (r.below(4) as u16) << 8 | r.below(256) as u16, 3 => r.u16(), _ => (r.u16() & 0xFF00) | r.below(16) as u16 }).collect()
        };
        let mut ps: Vec<u16> = ts.iter().map(|t| match r.below(4) { 0 => *t, 1 => t ^ 1, 2 => t.wrapping_add(8), _ => t ^ 0x100 }).collect();
        ps.push(r.u16()); ps.push(0); ps.push(65535);
        idx += 1;
        if !out.wants(idx) { continue; }
        run_bitmap(&mut out, &ts, &ps, ["builder", "new", "new_vec", "with_builder", "scan"][(i % 5) as usize]);
    }
    // from_octets cases
    let n_parse = if a.thorough { 3000 } else { 250 } * a.scale;
    for i in 0..n_parse {
        let mut d: Vec<u8> = vec![];
        for _ in 0..r.below(4) {
            let l = match r.below(6) { 0 => 0, 1 => 32, 2 => 33, _ => r.range(1, 4) } as usize;
            d.push(r.below(4) as u8); d.push(l as u8);
            let have = if r.chance(1, 6) { l.saturating_sub(1) } else { l };
            d.extend(r.bytes(have));
        }
        if i % 7 == 0 { d.push(r.u8()); }
        idx += 1;
        if !out.wants(idx) { continue; }
        run_parse(&mut out, &d);
    }
    // SortedRecords dedup cases
    let n_dd = if a.thorough { 3000 } else { 200 } * a.scale;
    let fixed_dd: Vec<Vec<(Labels, u16, bool, Vec<u8>)>> = vec![
        vec![(l(&["a"]), 65280, false, vec![1]), (l(&["a"]), 65281, false, vec![1])],
        vec![(l(&["a"]), 43, false, vec![1]), (l(&["a"]), 99, false, vec![1]), (l(&["A"]), 99, false, vec![1])],
        vec![(l(&["a"]), 2, true, b"n".to_vec()), (l(&["A"]), 2, true, b"n".to_vec()), (l(&["a"]), 2, false, vec![1, b'n', 0])],
        vec![],
    ];
    for i in 0..n_dd + fixed_dd.len() as u64 {
        let recs = if (i as usize) < fixed_dd.len() { fixed_dd[i as usize].clone() } else {
            let k = r.range(1, 6);
            (0..k).map(|_| {
                let owner = match r.below(4) { 0 => l(&["a"]), 1 => l(&["A"]), 2 => l(&["b", "a"]), _ => l(&["a"]) };
                if r.chance(1, 5) { (owner, 2u16, true, r.pick(&[&b"n"[..], b"m"]).to_vec()) }
                else { (owner, *r.pick(&[1u16, 2, 16, 17, 65280, 65281]), false, r.pick(&[&[1u8][..], &[2], &[1, b'n', 0], &[]]).to_vec()) }
            }).collect()
        };
        idx += 1;
        if !out.wants(idx) { continue; }
        run_dedup(&mut out, &recs);
    }
    // sort cases (one variant per type: NS records are real Ns, everything else unknown)
    let n_srt = if a.thorough { 3000 } else { 200 } * a.scale;
    for i in 0..n_srt + 1 {
        let k = if i == 0 { 0 } else { r.range(1, 8) };
        let two_classes = r.chance(1, 3);
        let recs: Vec<(u16, Labels, u16, bool, Vec<u8>)> = (0..k).map(|_| {
            let cl: u16 = if two_classes { *r.pick(&[1u16, 3, 1, 254]) } else { 1 };
            let owner = match r.below(7) { 0 => l(&["a"]), 1 => l(&["A"]), 2 => l(&["b", "a"]), 3 => l(&["B", "A"]), 4 => l(&["z"]), 5 => l(&["*", "a"]), _ => vec![] };
            let t = *r.pick(&[1u16, 2, 2, 16, 17, 65280, 65281]);
            if t == 2 { (cl, owner, t, true, r.pick(&[&b"n"[..], b"m", b"nn"]).to_vec()) }
            else { (cl, owner, t, false, r.pick(&[&[1u8][..], &[2], &[1, 0], &[], &[0xff]]).to_vec()) }
        }).collect();
        idx += 1;
        if !out.wants(idx) { continue; }
        run_sort(&mut out, &recs);
    }
    // sequences of SortedRecords entry points
    let n_ops = if a.thorough { 3000 } else { 250 } * a.scale;
    let fixed_ops: Vec<Vec<(char, Vec<(Labels, u16, bool, Vec<u8>)>)>> = vec![
        // a zone collected in two steps; the second batch is in order in itself and sorts before the tail
        vec![('E', vec![(l(&["example"]), 6, false, vec![1]), (l(&["ns1", "example"]), 1, false, vec![1]), (l(&["www", "example"]), 1, false, vec![1])]),
             ('E', vec![(l(&["alpha", "example"]), 1, false, vec![1]), (l(&["mail", "example"]), 1, false, vec![1])])],
        // a record for an owner already present, added later
        vec![('E', vec![(l(&["example"]), 6, false, vec![1]), (l(&["www", "example"]), 1, false, vec![1])]), ('E', vec![(l(&["example"]), 15, false, vec![1])])],
        vec![('V', vec![(l(&["b"]), 1, false, vec![1]), (l(&["a"]), 1, false, vec![1])]), ('I', vec![(l(&["A"]), 1, false, vec![1]), (l(&["0"]), 1, false, vec![2])]), ('E', vec![])],
        vec![],
    ];
    for i in 0..n_ops + fixed_ops.len() as u64 {
        let ops = if (i as usize) < fixed_ops.len() { fixed_ops[i as usize].clone() } else {
            (0..r.range(1, 5)).map(|_| {
                let tag = *r.pick(&['E', 'E', 'E', 'I', 'V']);
                let k = r.below(4);
                let mut recs: Vec<(Labels, u16, bool, Vec<u8>)> = (0..k).map(|_| {
                    let owner = match r.below(7) { 0 => l(&["a"]), 1 => l(&["A"]), 2 => l(&["b", "a"]), 3 => l(&["m"]), 4 => l(&["z"]), 5 => l(&["*", "a"]), _ => vec![] };
                    let t = *r.pick(&[1u16, 2, 2, 16, 65280]);
                    if t == 2 { (owner, t, true, r.pick(&[&b"n"[..], b"m"]).to_vec()) } else { (owner, t, false, r.pick(&[&[1u8][..], &[2], &[]]).to_vec()) }
                }).collect();
                // half of the batches arrive in canonical order themselves
                if r.chance(1, 2) { recs.sort_by(|x, y| canon_cmp(&x.0, &y.0).then(x.1.cmp(&y.1)).then(x.3.cmp(&y.3))); }
                (tag, recs)
            }).collect()
        };
        idx += 1;
        if !out.wants(idx) { continue; }
        run_ops(&mut out, &ops);
    }
    out.finish(&[]);
}
