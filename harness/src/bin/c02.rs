//! C02 -- "Built messages parse back to exactly what was pushed, under every
//! compressor": builder scripts (T2 cases for the Coq model of
//! base/message_builder.rs) and the re-parse oracle on the implementation.
//!
//! A script is a list of symbolic operations.  Numbers that depend on the
//! current message length (push limits at an exact boundary, padding records
//! that make the next name start at a chosen offset) are resolved per
//! (target, compressor) pair in a first pass over the implementation
//! (`concretize`); the resulting concrete script is the case line, which is then
//! run on a fresh builder (`run`) under the oracle.
use bytes::BytesMut;
use domain::base::iana::{Class, Opcode, OptRcode, OptionCode, Rcode};
use domain::base::message_builder::{
    AdditionalBuilder, AnswerBuilder, AuthorityBuilder, HashCompressor, PushError, QuestionBuilder,
    RecordSectionBuilder, StaticCompressor, StreamTarget, TreeCompressor,
};
use domain::base::name::{Name, ParsedName, ToLabelIter, ToName};
use domain::base::rdata::{ComposeRecordData, RecordData, UnknownRecordData};
use domain::base::record::{ComposeRecord, RecordHeader};
use domain::base::wire::Composer;
use domain::base::opt::cookie::{ClientCookie, ServerCookie};
use domain::base::opt::{Cookie, KeyTag, Nsid, Opt, OptRecord, Padding, TcpKeepalive};
use domain::base::rdata::ParseRecordData;
use domain::base::{Message, MessageBuilder, Question, Record, Rtype, Serial, Ttl};
use domain::rdata::AllRecordData;
use domain::rdata::{Aaaa, Cname, Mx, Ns, Ptr, Soa, Srv, A};
use domain::dep::octseq::array::Array;
use domain::dep::octseq::Parser;
use dv_harness::*;
use std::collections::HashSet;
use std::fmt::Write as _;

// ------------------------------------------------------------------ script

/// A domain name in uncompressed wire format, root octet included.
type Wire = Vec<u8>;

#[derive(Clone, Debug)]
enum It {
    B(Vec<u8>),
    Z(usize, u8),
    N(Wire),
    U(Wire),
}

#[derive(Clone, Debug)]
enum Op {
    Q { name: Wire, qt: u16, qc: u16 },
    R { owner: Wire, rt: u16, cl: u16, ttl: u32, pfx: u8, items: Vec<It> },
    O { udp: u16, rc: Option<u16>, ver: u8, dok: bool, opts: Vec<(u16, Vec<u8>)> },
    /// OptBuilder::clone_from(&OptRecord { udp, ext rcode octet, version, 16 flag bits, options })
    C { udp: u16, ext: u8, ver: u8, flags: u16, opts: Vec<(u16, Vec<u8>)> },
    /// header_mut() setters so that the four header octets become these
    H([u8; 4]),
    /// .builder() then start_answer (kind 0) / start_error (1) of a query with this id,
    /// opcode, rd and these questions, or request_axfr(first question's name) + set_id (2)
    S { kind: u8, id: u16, opcode: u8, rd: bool, rcode: u8, qs: Vec<(Wire, u16, u16)> },
    G(u8),
    B,
    W,
    L(usize),
    NL,
}

/// Symbolic operation: resolved against the running builder.
#[derive(Clone, Debug)]
enum Sym {
    C(Op),
    /// set_push_limit(current length + d)
    LimCur(i64),
    /// set_push_limit(length after the next push, run without limit, + d)
    LimNext(i64),
    /// a record whose `slot`-th item (a `Z(_, fill)`) is sized so that the
    /// message is `to` octets long after the push
    Pad { owner: Wire, rt: u16, cl: u16, ttl: u32, pfx: u8, items: Vec<It>, slot: usize, to: usize },
}

fn hexraw(b: &[u8]) -> String {
    let mut s = String::with_capacity(b.len() * 2);
    for x in b {
        let _ = write!(s, "{:02x}", x);
    }
    s
}

fn item_ulen(it: &It) -> usize {
    match it {
        It::B(b) => b.len(),
        It::Z(n, _) => *n,
        It::N(w) | It::U(w) => w.len(),
    }
}

fn op_str(op: &Op) -> String {
    match op {
        Op::Q { name, qt, qc } => format!("q:{}:{}:{}", hexraw(name), qt, qc),
        Op::R { owner, rt, cl, ttl, pfx, items } => {
            let mut s = format!("r:{}:{}:{}:{}:{}:", hexraw(owner), rt, cl, ttl, *pfx);
            if items.is_empty() {
                s.push('-');
            }
            for (i, it) in items.iter().enumerate() {
                if i > 0 {
                    s.push(',');
                }
                match it {
                    It::B(b) => { s.push('b'); s.push_str(&hexraw(b)); }
                    It::Z(n, v) => { let _ = write!(s, "z{}.{:02x}", n, v); }
                    It::N(w) => { s.push('n'); s.push_str(&hexraw(w)); }
                    It::U(w) => { s.push('u'); s.push_str(&hexraw(w)); }
                }
            }
            s
        }
        Op::H(h) => format!("h{}", hexraw(h)),
        Op::S { kind, id, opcode, rd, rcode, qs } => {
            let mut s = format!("S:{}:{}:{}:{}:{}:", kind, id, opcode, if *rd { 1 } else { 0 }, rcode);
            if qs.is_empty() {
                s.push('-');
            }
            for (i, (n, t, c)) in qs.iter().enumerate() {
                if i > 0 {
                    s.push(',');
                }
                let _ = write!(s, "{}.{}.{}", hexraw(n), t, c);
            }
            s
        }
        Op::C { udp, ext, ver, flags, opts } => {
            let mut s = format!("c:{}:{}:{}:{}:", udp, ext, ver, flags);
            if opts.is_empty() {
                s.push('-');
            }
            for (i, (code, data)) in opts.iter().enumerate() {
                if i > 0 {
                    s.push(',');
                }
                let _ = write!(s, "{}.{}", code, if data.is_empty() { "-".to_string() } else { hexraw(data) });
            }
            s
        }
        Op::O { udp, rc, ver, dok, opts } => {
            let mut s = if rc.is_none() && *ver == 0 && !*dok {
                format!("o:{}:", udp)
            } else {
                format!("o:{}:{}:{}:{}:", udp, rc.map_or("-".to_string(), |v| v.to_string()), ver, if *dok { 1 } else { 0 })
            };
            if opts.is_empty() {
                s.push('-');
            }
            for (i, (code, data)) in opts.iter().enumerate() {
                if i > 0 {
                    s.push(',');
                }
                let _ = write!(s, "{}.{}", code, if data.is_empty() { "-".to_string() } else { hexraw(data) });
            }
            s
        }
        Op::G(k) => format!("g{}", k),
        Op::B => "B".into(),
        Op::W => "w".into(),
        Op::L(n) => format!("l{}", n),
        Op::NL => "L".into(),
    }
}

fn is_push(op: &Op) -> bool {
    matches!(op, Op::Q { .. } | Op::R { .. } | Op::O { .. } | Op::C { .. } | Op::S { .. })
}

// -------------------------------------------------------- compiled script

enum CIt {
    B(Vec<u8>),
    N(Name<Vec<u8>>),
    U(Name<Vec<u8>>),
}

/// The record data type driven through the builder.
struct Raw {
    rt: u16,
    pfx: u8,
    items: Vec<CIt>,
    ulen: usize,
    has_n: bool,
}

impl RecordData for Raw {
    fn rtype(&self) -> Rtype {
        Rtype::from_int(self.rt)
    }
}

impl ComposeRecordData for Raw {
    fn rdlen(&self, compress: bool) -> Option<u16> {
        if self.pfx == 1 || (compress && self.has_n) {
            None
        } else {
            Some(u16::try_from(self.ulen).expect("long rdata"))
        }
    }
    fn compose_rdata<Target: Composer + ?Sized>(&self, target: &mut Target) -> Result<(), Target::AppendError> {
        for it in &self.items {
            match it {
                CIt::B(b) => target.append_slice(b)?,
                CIt::N(n) => target.append_compressed_name(n)?,
                CIt::U(n) => n.compose(target)?,
            }
        }
        Ok(())
    }
    fn compose_canonical_rdata<Target: Composer + ?Sized>(&self, target: &mut Target) -> Result<(), Target::AppendError> {
        for it in &self.items {
            match it {
                CIt::B(b) => target.append_slice(b)?,
                CIt::N(n) | CIt::U(n) => n.compose(target)?,
            }
        }
        Ok(())
    }
}

enum COp {
    Q { name: Name<Vec<u8>>, qt: u16, qc: u16 },
    R { owner: Name<Vec<u8>>, cl: u16, ttl: u32, raw: Raw },
    O { udp: u16, rc: Option<u16>, ver: u8, dok: bool, opts: Vec<(u16, Vec<u8>)> },
    T { owner: Name<Vec<u8>>, cl: u16, ttl: u32, typed: Typed },
    /// any record data the library can parse from these octets (AllRecordData)
    TA { owner: Name<Vec<u8>>, cl: u16, ttl: u32, rt: u16, bytes: Vec<u8> },
    C { udp: u16, ttl: u32, data: Vec<u8> },
    H([u8; 4]),
    S { kind: u8, id: u16, opcode: u8, rd: bool, rcode: u8, qs: Vec<(Wire, u16, u16)> },
    G(u8),
    B,
    W,
    L(usize),
    NL,
}

/// The library's own record data types (pfx = 2 in the case line).
enum Typed {
    A(A),
    Aaaa(Aaaa),
    Ns(Ns<Name<Vec<u8>>>),
    Cname(Cname<Name<Vec<u8>>>),
    Ptr(Ptr<Name<Vec<u8>>>),
    Mx(Mx<Name<Vec<u8>>>),
    Soa(Soa<Name<Vec<u8>>>),
    Srv(Srv<Name<Vec<u8>>>),
}

/// The typed value for (rtype, items) if the items have the type's shape.
fn typed_of(rt: u16, items: &[It]) -> Option<Typed> {
    let be16 = |b: &[u8]| u16::from_be_bytes([b[0], b[1]]);
    let be32 = |b: &[u8]| u32::from_be_bytes([b[0], b[1], b[2], b[3]]);
    match (rt, items) {
        (1, [It::B(b)]) if b.len() == 4 => Some(Typed::A(A::from_octets(b[0], b[1], b[2], b[3]))),
        (28, [It::B(b)]) if b.len() == 16 => {
            let mut a = [0u8; 16];
            a.copy_from_slice(b);
            Some(Typed::Aaaa(Aaaa::new(a.into())))
        }
        (2, [It::N(w)]) => Some(Typed::Ns(Ns::new(to_name(w)))),
        (5, [It::N(w)]) => Some(Typed::Cname(Cname::new(to_name(w)))),
        (12, [It::N(w)]) => Some(Typed::Ptr(Ptr::new(to_name(w)))),
        (15, [It::B(b), It::N(w)]) if b.len() == 2 => Some(Typed::Mx(Mx::new(be16(b), to_name(w)))),
        (6, [It::N(m), It::N(r), It::B(b)]) if b.len() == 20 => Some(Typed::Soa(Soa::new(
            to_name(m), to_name(r), Serial(be32(&b[0..4])), Ttl::from_secs(be32(&b[4..8])), Ttl::from_secs(be32(&b[8..12])),
            Ttl::from_secs(be32(&b[12..16])), Ttl::from_secs(be32(&b[16..20]))))),
        (33, [It::B(b), It::U(w)]) if b.len() == 6 => Some(Typed::Srv(Srv::new(be16(&b[0..2]), be16(&b[2..4]), be16(&b[4..6]), to_name(w)))),
        _ => None,
    }
}

/// The uncompressed octets of the items if the library parses them completely
/// as record data of type `rt` (then the typed value is pushed).
fn all_parses(rt: u16, items: &[It]) -> Option<Vec<u8>> {
    let mut bytes = Vec::new();
    for it in items {
        match it {
            It::B(b) => bytes.extend_from_slice(b),
            It::Z(n, v) => bytes.extend(std::iter::repeat(*v).take(*n)),
            It::N(w) | It::U(w) => bytes.extend_from_slice(w),
        }
    }
    if bytes.len() > 65535 {
        return None;
    }
    let ok = {
        let mut p = Parser::from_ref(&bytes[..]);
        matches!(AllRecordData::<&[u8], ParsedName<&[u8]>>::parse_rdata(Rtype::from_int(rt), &mut p), Ok(Some(_))) && p.remaining() == 0
    };
    if ok { Some(bytes) } else { None }
}

/// Generated names are valid by construction (labels <= 63, total <= 255).
fn to_name(w: &Wire) -> Name<Vec<u8>> {
    match Name::from_octets(w.clone()) {
        Ok(n) => n,
        Err(_) => {
            eprintln!("c02: generator produced an invalid name {}", hexraw(w));
            Name::root_vec()
        }
    }
}

fn compile(op: &Op) -> COp {
    match op {
        Op::Q { name, qt, qc } => COp::Q { name: to_name(name), qt: *qt, qc: *qc },
        Op::R { owner, rt, cl, ttl, pfx: 2, items } if typed_of(*rt, items).is_some() => {
            COp::T { owner: to_name(owner), cl: *cl, ttl: *ttl, typed: typed_of(*rt, items).unwrap_or(Typed::A(A::from_octets(0, 0, 0, 0))) }
        }
        Op::R { owner, rt, cl, ttl, pfx: 2, items } if all_parses(*rt, items).is_some() => {
            COp::TA { owner: to_name(owner), cl: *cl, ttl: *ttl, rt: *rt, bytes: all_parses(*rt, items).unwrap_or_default() }
        }
        Op::R { owner, rt, cl, ttl, pfx, items } => {
            let mut ci = Vec::with_capacity(items.len());
            let mut ulen = 0usize;
            let mut has_n = false;
            for it in items {
                ulen += item_ulen(it);
                ci.push(match it {
                    It::B(b) => CIt::B(b.clone()),
                    It::Z(n, v) => CIt::B(vec![*v; *n]),
                    It::N(w) => { has_n = true; CIt::N(to_name(w)) }
                    It::U(w) => CIt::U(to_name(w)),
                });
            }
            COp::R { owner: to_name(owner), cl: *cl, ttl: *ttl, raw: Raw { rt: *rt, pfx: *pfx, items: ci, ulen, has_n } }
        }
        Op::O { udp, rc, ver, dok, opts } => COp::O { udp: *udp, rc: *rc, ver: *ver, dok: *dok, opts: opts.clone() },
        Op::H(h) => COp::H(*h),
        Op::S { kind, id, opcode, rd, rcode, qs } => COp::S { kind: *kind, id: *id, opcode: *opcode, rd: *rd, rcode: *rcode, qs: qs.clone() },
        Op::C { udp, ext, ver, flags, opts } => {
            let mut data = Vec::new();
            for (code, d) in opts {
                data.extend_from_slice(&code.to_be_bytes());
                data.extend_from_slice(&(d.len() as u16).to_be_bytes());
                data.extend_from_slice(d);
            }
            COp::C { udp: *udp, ttl: ((*ext as u32) << 24) | ((*ver as u32) << 16) | *flags as u32, data }
        }
        Op::G(k) => COp::G(*k),
        Op::B => COp::B,
        Op::W => COp::W,
        Op::L(n) => COp::L(*n),
        Op::NL => COp::NL,
    }
}

// ---------------------------------------------------------------- targets

trait Tgt: Composer + Clone {
    /// as_stream_slice() of the StreamTarget at the bottom, if there is one.
    fn stream(&self) -> Option<&[u8]> {
        None
    }
}
impl Tgt for Vec<u8> {}
impl Tgt for BytesMut {}
impl<const N: usize> Tgt for Array<N> {}
impl<const N: usize> Tgt for heapless::Vec<u8, N> {}
impl Tgt for smallvec::SmallVec<[u8; 24]> {}
impl Tgt for StreamTarget<Vec<u8>> {
    fn stream(&self) -> Option<&[u8]> {
        Some(self.as_stream_slice())
    }
}
impl<T: Tgt> Tgt for StaticCompressor<T> {
    fn stream(&self) -> Option<&[u8]> {
        self.as_target().stream()
    }
}
impl<T: Tgt> Tgt for TreeCompressor<T> {
    fn stream(&self) -> Option<&[u8]> {
        self.as_target().stream()
    }
}
impl<T: Tgt> Tgt for HashCompressor<T> {
    fn stream(&self) -> Option<&[u8]> {
        self.as_target().stream()
    }
}

#[derive(Clone)]
enum Bld<T> {
    Q(QuestionBuilder<T>),
    An(AnswerBuilder<T>),
    Ns(AuthorityBuilder<T>),
    Ar(AdditionalBuilder<T>),
}

macro_rules! each {
    ($s:expr, $b:ident => $e:expr) => {
        match $s {
            Bld::Q($b) => $e,
            Bld::An($b) => $e,
            Bld::Ns($b) => $e,
            Bld::Ar($b) => $e,
        }
    };
}

impl<T: Tgt> Bld<T> {
    fn sec(&self) -> usize {
        match self {
            Bld::Q(_) => 0,
            Bld::An(_) => 1,
            Bld::Ns(_) => 2,
            Bld::Ar(_) => 3,
        }
    }
    fn mb(&self) -> &MessageBuilder<T> {
        each!(self, b => b.as_builder())
    }
    fn mb_mut(&mut self) -> &mut MessageBuilder<T> {
        each!(self, b => b.as_builder_mut())
    }
    fn len(&self) -> usize {
        self.mb().as_slice().len()
    }
    fn counts(&self) -> [u16; 4] {
        let c = self.mb().counts();
        [c.qdcount(), c.ancount(), c.nscount(), c.arcount()]
    }
    fn goto(self, k: u8) -> Self {
        match k {
            0 => Bld::Q(each!(self, b => b.question())),
            1 => Bld::An(each!(self, b => b.answer())),
            2 => Bld::Ns(each!(self, b => b.authority())),
            _ => Bld::Ar(each!(self, b => b.additional())),
        }
    }
    fn restart(self) -> Self {
        Bld::Q(each!(self, b => b.builder().question()))
    }
    fn rewind(&mut self) {
        each!(self, b => b.rewind())
    }
}

enum Res {
    /// the op is not available in the current section
    Skip,
    /// a non-push op
    None,
    Push(Result<(), PushError>),
    /// start_answer / request_axfr failed: the builder was consumed
    Lost(PushError),
}

/// Runs one op; `Err` is a panic (the builder is gone or unusable then).
/// Section-generic push: the `RecordSectionBuilder` trait, as code that does not
/// know which record section it writes to uses it.
fn tpush<T: Composer, S: RecordSectionBuilder<T>>(s: &mut S, r: impl ComposeRecord) -> Result<(), PushError> {
    s.push(r)
}
/// Whether a record goes in through the trait or through the inherent `push`:
/// decided by the case line alone (owner length + TTL odd), so a case replays identically.
fn via_trait(owner: &Name<Vec<u8>>, ttl: u32) -> bool {
    (owner.as_slice().len() as u32).wrapping_add(ttl) & 1 == 1
}

fn apply<T: Tgt>(slot: &mut Option<Bld<T>>, op: &COp) -> Result<Res, String> {
    match op {
        COp::Q { name, qt, qc } => match slot.as_mut() {
            Some(Bld::Q(b)) => catch_mut(|| Res::Push(b.push((name, Rtype::from_int(*qt), Class::from_int(*qc))))),
            Some(_) => Ok(Res::Skip),
            None => Err("no builder".into()),
        },
        COp::R { owner, cl, ttl, raw } => {
            let cl = Class::from_int(*cl);
            let tr = via_trait(owner, *ttl);
            match slot.as_mut() {
                Some(Bld::An(b)) => catch_mut(|| Res::Push(if tr { tpush::<T, _>(b, (owner, cl, *ttl, raw)) } else { b.push((owner, cl, *ttl, raw)) })),
                Some(Bld::Ns(b)) => catch_mut(|| Res::Push(if tr { tpush::<T, _>(b, (owner, cl, *ttl, raw)) } else { b.push((owner, cl, *ttl, raw)) })),
                Some(Bld::Ar(b)) => catch_mut(|| Res::Push(if tr { tpush::<T, _>(b, (owner, cl, *ttl, raw)) } else { b.push((owner, cl, *ttl, raw)) })),
                Some(Bld::Q(_)) => Ok(Res::Skip),
                None => Err("no builder".into()),
            }
        }
        COp::T { owner, cl, ttl, typed } => {
            let cl = Class::from_int(*cl);
            let tr = via_trait(owner, *ttl);
            macro_rules! push_typed {
                ($b:expr) => {
                    match typed {
                        Typed::A(d) => if tr { tpush::<T, _>($b, (owner, cl, *ttl, d)) } else { $b.push((owner, cl, *ttl, d)) },
                        Typed::Aaaa(d) => if tr { tpush::<T, _>($b, (owner, cl, *ttl, d)) } else { $b.push((owner, cl, *ttl, d)) },
                        Typed::Ns(d) => if tr { tpush::<T, _>($b, (owner, cl, *ttl, d)) } else { $b.push((owner, cl, *ttl, d)) },
                        Typed::Cname(d) => if tr { tpush::<T, _>($b, (owner, cl, *ttl, d)) } else { $b.push((owner, cl, *ttl, d)) },
                        Typed::Ptr(d) => if tr { tpush::<T, _>($b, (owner, cl, *ttl, d)) } else { $b.push((owner, cl, *ttl, d)) },
                        Typed::Mx(d) => if tr { tpush::<T, _>($b, (owner, cl, *ttl, d)) } else { $b.push((owner, cl, *ttl, d)) },
                        Typed::Soa(d) => if tr { tpush::<T, _>($b, (owner, cl, *ttl, d)) } else { $b.push((owner, cl, *ttl, d)) },
                        Typed::Srv(d) => if tr { tpush::<T, _>($b, (owner, cl, *ttl, d)) } else { $b.push((owner, cl, *ttl, d)) },
                    }
                };
            }
            match slot.as_mut() {
                Some(Bld::An(b)) => catch_mut(|| Res::Push(push_typed!(b))),
                Some(Bld::Ns(b)) => catch_mut(|| Res::Push(push_typed!(b))),
                Some(Bld::Ar(b)) => catch_mut(|| Res::Push(push_typed!(b))),
                Some(Bld::Q(_)) => Ok(Res::Skip),
                None => Err("no builder".into()),
            }
        }
        COp::TA { owner, cl, ttl, rt, bytes } => {
            let cl = Class::from_int(*cl);
            let mut p = Parser::from_ref(&bytes[..]);
            let data = match AllRecordData::<&[u8], ParsedName<&[u8]>>::parse_rdata(Rtype::from_int(*rt), &mut p) {
                Ok(Some(d)) => d,
                _ => return Err("harness: typed record data no longer parses".into()),
            };
            let tr = via_trait(owner, *ttl);
            match slot.as_mut() {
                Some(Bld::An(b)) => catch_mut(|| Res::Push(if tr { tpush::<T, _>(b, (owner, cl, *ttl, &data)) } else { b.push((owner, cl, *ttl, &data)) })),
                Some(Bld::Ns(b)) => catch_mut(|| Res::Push(if tr { tpush::<T, _>(b, (owner, cl, *ttl, &data)) } else { b.push((owner, cl, *ttl, &data)) })),
                Some(Bld::Ar(b)) => catch_mut(|| Res::Push(if tr { tpush::<T, _>(b, (owner, cl, *ttl, &data)) } else { b.push((owner, cl, *ttl, &data)) })),
                Some(Bld::Q(_)) => Ok(Res::Skip),
                None => Err("no builder".into()),
            }
        }
        COp::C { udp, ttl, data } => match slot.as_mut() {
            Some(Bld::Ar(b)) => {
                let opt = match Opt::from_octets(&data[..]) {
                    Ok(o) => o,
                    Err(_) => return Err("harness: option octets do not frame".into()),
                };
                let rec = OptRecord::from_record(Record::new(Name::root_vec(), Class::from_int(*udp), Ttl::from_secs(*ttl), opt));
                catch_mut(|| Res::Push(b.opt(|o| o.clone_from(&rec))))
            }
            Some(_) => Ok(Res::Skip),
            None => Err("no builder".into()),
        },
        COp::S { kind, id, opcode, rd, rcode, qs } => {
            let cur = slot.take().ok_or_else(|| "no builder".to_string())?;
            // the query
            let src = {
                // no compressor: a case-insensitive compressor would hand the questions back in another case
                let mut mb = match MessageBuilder::from_target(Vec::<u8>::new()) { Ok(m) => m, Err(_) => return Err("harness: query".into()) };
                let hd = mb.header_mut();
                hd.set_id(*id);
                hd.set_opcode(Opcode::from_int(*opcode & 0x0F));
                hd.set_rd(*rd);
                hd.set_aa(true);
                hd.set_ad(true);
                let mut qb = mb.question();
                if *kind != 2 {
                    for (n, t, c) in qs {
                        let _ = qb.push((to_name(n), Rtype::from_int(*t), Class::from_int(*c)));
                    }
                }
                match Message::from_octets(qb.finish()) { Ok(m) => m, Err(_) => return Err("harness: query".into()) }
            };
            let rc = Rcode::masked_from_int(*rcode);
            let apex = qs.first().map_or(vec![0u8], |q| q.0.clone());
            let (kind, id) = (*kind, *id);
            let r = catch_mut(move || {
                let mb = each!(cur, b => b.builder());
                match kind {
                    0 => mb.start_answer(&src, rc).map(Bld::An),
                    1 => Ok(Bld::An(mb.start_error(&src, rc))),
                    _ => mb.request_axfr(to_name(&apex)).map(|mut ab| { ab.header_mut().set_id(id); Bld::An(ab) }),
                }
            })?;
            match r {
                Ok(b) => { *slot = Some(b); Ok(if kind == 1 { Res::None } else { Res::Push(Ok(())) }) }
                Err(e) => Ok(Res::Lost(e)),
            }
        }
        COp::H(h) => match slot.as_mut() {
            Some(b) => catch_mut(|| {
                let hd = b.mb_mut().header_mut();
                hd.set_id(u16::from_be_bytes([h[0], h[1]]));
                hd.set_qr(h[2] & 0x80 != 0);
                hd.set_opcode(Opcode::from_int((h[2] >> 3) & 0x0F));
                hd.set_aa(h[2] & 0x04 != 0);
                hd.set_tc(h[2] & 0x02 != 0);
                hd.set_rd(h[2] & 0x01 != 0);
                hd.set_ra(h[3] & 0x80 != 0);
                hd.set_z(h[3] & 0x40 != 0);
                hd.set_ad(h[3] & 0x20 != 0);
                hd.set_cd(h[3] & 0x10 != 0);
                hd.set_rcode(Rcode::masked_from_int(h[3] & 0x0F));
                Res::None
            }),
            None => Err("no builder".into()),
        },
        COp::O { udp, rc, ver, dok, opts } => match slot.as_mut() {
            Some(Bld::Ar(b)) => catch_mut(|| {
                Res::Push(b.opt(|o| {
                    o.set_udp_payload_size(*udp);
                    if let Some(v) = rc {
                        o.set_rcode(OptRcode::masked_from_int(*v));
                    }
                    o.set_version(*ver);
                    o.set_dnssec_ok(*dok);
                    for (code, data) in opts {
                        // the library's typed options where the octets are one (decided by the
                        // octets alone, so that a case line replays identically), raw otherwise
                        let typed = data.first().map_or(true, |b| b & 1 == 0);
                        let mut done = false;
                        match (*code, data.len()) {
                            (3, _) if typed => if let Ok(x) = Nsid::from_octets(&data[..]) { o.push(&x)?; done = true; },
                            (12, _) if typed => if let Ok(x) = Padding::from_octets(&data[..]) { o.push(&x)?; done = true; },
                            (11, 0) => { o.push(&TcpKeepalive::new(None))?; done = true; }
                            (11, 2) if typed => { o.push(&TcpKeepalive::new(Some(u16::from_be_bytes([data[0], data[1]]).into())))?; done = true; }
                            (10, 8) if typed => { let mut c = [0u8; 8]; c.copy_from_slice(data); o.push(&Cookie::new(ClientCookie::from_octets(c), None))?; done = true; }
                            (10, n) if typed && (16..=40).contains(&n) => {
                                let mut c = [0u8; 8];
                                c.copy_from_slice(&data[..8]);
                                o.push(&Cookie::new(ClientCookie::from_octets(c), Some(ServerCookie::from_octets(&data[8..]))))?;
                                done = true;
                            }
                            (14, n) if typed && n % 2 == 0 => if let Ok(x) = KeyTag::from_octets(&data[..]) { o.push(&x)?; done = true; },
                            _ => {}
                        }
                        if !done {
                            o.push_raw_option(OptionCode::from_int(*code), data.len() as u16, |t| t.append_slice(data))?;
                        }
                    }
                    Ok(())
                }))
            }),
            Some(_) => Ok(Res::Skip),
            None => Err("no builder".into()),
        },
        COp::G(k) => {
            let cur = slot.take().ok_or_else(|| "no builder".to_string())?;
            let k = (*k).min(3);
            let n = catch_mut(move || cur.goto(k))?;
            *slot = Some(n);
            Ok(Res::None)
        }
        COp::B => {
            let cur = slot.take().ok_or_else(|| "no builder".to_string())?;
            let n = catch_mut(move || cur.restart())?;
            *slot = Some(n);
            Ok(Res::None)
        }
        COp::W => match slot.as_mut() {
            Some(b) => catch_mut(|| { b.rewind(); Res::None }),
            None => Err("no builder".into()),
        },
        COp::L(n) => match slot.as_mut() {
            Some(b) => { b.mb_mut().set_push_limit(*n); Ok(Res::None) }
            None => Err("no builder".into()),
        },
        COp::NL => match slot.as_mut() {
            Some(b) => { b.mb_mut().clear_push_limit(); Ok(Res::None) }
            None => Err("no builder".into()),
        },
    }
}

// ------------------------------------------------------ symbolic -> concrete

fn off(base: usize, d: i64) -> usize {
    let v = base as i64 + d;
    if v < 0 { 0 } else { v as usize }
}

fn pad_record(owner: &Wire, rt: u16, cl: u16, ttl: u32, pfx: u8, items: &[It], slot: usize, count: usize) -> Op {
    let mut its = items.to_vec();
    if let Some(It::Z(n, _)) = its.get_mut(slot) {
        *n = count;
    }
    Op::R { owner: owner.clone(), rt, cl, ttl, pfx, items: its }
}

fn resolve<T: Tgt>(b: &Bld<T>, script: &[Sym], i: usize) -> Op {
    match &script[i] {
        Sym::C(op) => op.clone(),
        Sym::LimCur(d) => Op::L(off(b.len(), *d)),
        Sym::Pad { owner, rt, cl, ttl, pfx, items, slot, to } => {
            let mut c = Some(b.clone());
            if let Some(cb) = c.as_mut() {
                cb.mb_mut().clear_push_limit();
            }
            let base = pad_record(owner, *rt, *cl, *ttl, *pfx, items, *slot, 0);
            let mut count = match apply(&mut c, &compile(&base)) {
                Ok(Res::Push(Ok(()))) => to.saturating_sub(c.as_ref().map_or(0, |x| x.len())),
                _ => 0,
            };
            // never produce the over-long record data panic by accident
            let other: usize = items.iter().enumerate().filter(|(k, _)| k != slot).map(|(_, it)| item_ulen(it)).sum();
            count = count.min(65535usize.saturating_sub(other));
            pad_record(owner, *rt, *cl, *ttl, *pfx, items, *slot, count)
        }
        Sym::LimNext(d) => {
            let mut est = b.len() + 30;
            if i + 1 < script.len() && !matches!(script[i + 1], Sym::LimNext(_) | Sym::LimCur(_)) {
                let mut c = Some(b.clone());
                if let Some(cb) = c.as_mut() {
                    cb.mb_mut().clear_push_limit();
                }
                let nop = match c.as_ref() { Some(cb) => resolve(cb, script, i + 1), None => Op::NL };
                if is_push(&nop) {
                    if let Ok(Res::Push(Ok(()))) = apply(&mut c, &compile(&nop)) {
                        est = c.as_ref().map_or(est, |x| x.len());
                    }
                }
            }
            Op::L(off(est, *d))
        }
    }
}

fn fallback(s: &Sym) -> Op {
    match s {
        Sym::C(op) => op.clone(),
        Sym::LimCur(d) | Sym::LimNext(d) => Op::L(off(12, *d)),
        Sym::Pad { owner, rt, cl, ttl, pfx, items, slot, .. } => pad_record(owner, *rt, *cl, *ttl, *pfx, items, *slot, 0),
    }
}

fn concretize<T: Tgt>(target: T, script: &[Sym]) -> Vec<Op> {
    let mut slot = match MessageBuilder::from_target(target) {
        Ok(mb) => Some(Bld::Q(mb.question())),
        Err(_) => None,
    };
    let mut ops = Vec::with_capacity(script.len());
    for i in 0..script.len() {
        let op = match slot.as_ref() {
            Some(b) => resolve(b, script, i),
            None => fallback(&script[i]),
        };
        if slot.is_some() {
            if apply(&mut slot, &compile(&op)).is_err() {
                slot = None;
            }
        }
        ops.push(op);
    }
    ops
}

// ---------------------------------------------------------- accepted items

#[derive(Clone)]
enum EI {
    B(Vec<u8>),
    N(Wire),
}
#[derive(Clone)]
struct EQ {
    name: Wire,
    qt: u16,
    qc: u16,
}
#[derive(Clone)]
struct ER {
    owner: Wire,
    rt: u16,
    cl: u16,
    ttl: u32,
    items: Vec<EI>,
}
#[derive(Clone, Default)]
struct Acc {
    q: Vec<EQ>,
    rr: [Vec<ER>; 3],
}

fn expected_record(op: &Op) -> Option<ER> {
    match op {
        Op::R { owner, rt, cl, ttl, items, .. } => Some(ER {
            owner: owner.clone(),
            rt: *rt,
            cl: *cl,
            ttl: *ttl,
            items: items.iter().map(|it| match it {
                It::B(b) => EI::B(b.clone()),
                It::Z(n, v) => EI::B(vec![*v; *n]),
                It::N(w) | It::U(w) => EI::N(w.clone()),
            }).collect(),
        }),
        Op::C { udp, ext, ver, flags, opts } => {
            let mut d = Vec::new();
            for (code, data) in opts {
                d.extend_from_slice(&code.to_be_bytes());
                d.extend_from_slice(&(data.len() as u16).to_be_bytes());
                d.extend_from_slice(data);
            }
            Some(ER { owner: vec![0], rt: 41, cl: *udp, ttl: ((*ext as u32) << 24) | ((*ver as u32) << 16) | *flags as u32, items: vec![EI::B(d)] })
        }
        Op::O { udp, rc, ver, dok, opts } => {
            let ttl = ((rc.unwrap_or(0) as u32 >> 4) << 24) | ((*ver as u32) << 16) | if *dok { 0x8000 } else { 0 };
            let mut d = Vec::new();
            for (code, data) in opts {
                d.extend_from_slice(&code.to_be_bytes());
                d.extend_from_slice(&(data.len() as u16).to_be_bytes());
                d.extend_from_slice(data);
            }
            Some(ER { owner: vec![0], rt: 41, cl: *udp, ttl, items: vec![EI::B(d)] })
        }
        _ => None,
    }
}

// ------------------------------------------------------------- the re-parse

fn wire_labels(w: &[u8]) -> Vec<&[u8]> {
    let mut v = Vec::new();
    let mut i = 0;
    while i < w.len() {
        let l = w[i] as usize;
        if l == 0 || i + 1 + l > w.len() {
            break;
        }
        v.push(&w[i + 1..i + 1 + l]);
        i += 1 + l;
    }
    v
}

type Mismatch = (&'static str, String);

/// DNS name equality of a parsed name with the pushed one, computed here on
/// the labels; counts names that came back in a different case.
fn cmp_name(got: &ParsedName<&[u8]>, want: &Wire, what: &str, changed: &mut u32) -> Result<(), Mismatch> {
    let g: Vec<Vec<u8>> = got.iter_labels().map(|l| l.as_slice().to_vec()).filter(|l| !l.is_empty()).collect();
    let w = wire_labels(want);
    let same = g.len() == w.len() && g.iter().zip(w.iter()).all(|(a, b)| a.len() == b.len() && a.eq_ignore_ascii_case(b));
    if !same {
        let mut gs = String::new();
        for l in &g {
            let _ = write!(gs, "{}.", hexraw(l));
        }
        return Err(("reparse_mismatch", format!("{}: name read back as labels {} but pushed {}", what, gs, hexraw(want))));
    }
    if !g.iter().zip(w.iter()).all(|(a, b)| a.as_slice() == *b) {
        *changed += 1;
    }
    Ok(())
}

fn reparse(m: &[u8], acc: &Acc) -> Result<u32, Mismatch> {
    let mm = |s: String| -> Mismatch { ("reparse_mismatch", s) };
    let msg = Message::from_octets(m).map_err(|_| mm("Message::from_octets failed".into()))?;
    let hc = msg.header_counts();
    let got = [hc.qdcount() as usize, hc.ancount() as usize, hc.nscount() as usize, hc.arcount() as usize];
    let want = [acc.q.len(), acc.rr[0].len(), acc.rr[1].len(), acc.rr[2].len()];
    if got != want {
        return Err(mm(format!("header counts {:?}, accepted pushes {:?}", got, want)));
    }
    let mut changed = 0u32;
    let mut p = Parser::from_ref(&m);
    p.advance(12).map_err(|_| mm("no header".into()))?;
    for (i, q) in acc.q.iter().enumerate() {
        let save = p;
        match Question::<ParsedName<&[u8]>>::parse(&mut p) {
            Ok(pq) => {
                cmp_name(pq.qname(), &q.name, &format!("question {}", i), &mut changed)?;
                if pq.qtype().to_int() != q.qt || pq.qclass().to_int() != q.qc {
                    return Err(mm(format!("question {}: type/class {}/{} pushed {}/{}", i, pq.qtype().to_int(), pq.qclass().to_int(), q.qt, q.qc)));
                }
            }
            Err(e) => {
                let mut s = save;
                return Err(if ParsedName::<&[u8]>::parse(&mut s).is_err() {
                    ("pointer_unresolvable", format!("question {} at {}: name does not parse: {}", i, save.pos(), e))
                } else {
                    mm(format!("question {} at {}: {}", i, save.pos(), e))
                });
            }
        }
    }
    for (si, sec) in acc.rr.iter().enumerate() {
        for (i, r) in sec.iter().enumerate() {
            let what = format!("section {} record {}", si + 1, i);
            let save = p;
            let h = match RecordHeader::<ParsedName<&[u8]>>::parse(&mut p) {
                Ok(h) => h,
                Err(e) => {
                    let mut s = save;
                    return Err(if ParsedName::<&[u8]>::parse(&mut s).is_err() {
                        ("pointer_unresolvable", format!("{} at {}: owner does not parse: {}", what, save.pos(), e))
                    } else {
                        mm(format!("{} at {}: {}", what, save.pos(), e))
                    });
                }
            };
            cmp_name(h.owner(), &r.owner, &what, &mut changed)?;
            if h.rtype().to_int() != r.rt || h.class().to_int() != r.cl || h.ttl().as_secs() != r.ttl {
                return Err(mm(format!("{}: type/class/ttl {}/{}/{} pushed {}/{}/{}", what,
                    h.rtype().to_int(), h.class().to_int(), h.ttl().as_secs(), r.rt, r.cl, r.ttl)));
            }
            let rdlen = h.rdlen() as usize;
            let mut sub = p.parse_parser(rdlen).map_err(|_| mm(format!("{}: rdlen {} beyond the message", what, rdlen)))?;
            for (k, it) in r.items.iter().enumerate() {
                match it {
                    EI::B(b) => {
                        let got = sub.parse_octets(b.len()).map_err(|_| mm(format!("{}: item {} short (rdlen {})", what, k, rdlen)))?;
                        if got != &b[..] {
                            return Err(mm(format!("{}: item {} octets differ", what, k)));
                        }
                    }
                    EI::N(w) => {
                        let at = sub.pos();
                        let n = ParsedName::<&[u8]>::parse(&mut sub)
                            .map_err(|e| ("pointer_unresolvable", format!("{}: item {} name at {} does not parse: {}", what, k, at, e)))?;
                        cmp_name(&n, w, &format!("{} item {}", what, k), &mut changed)?;
                    }
                }
            }
            if sub.remaining() != 0 {
                return Err(mm(format!("{}: {} octets of record data left over", what, sub.remaining())));
            }
        }
    }
    if p.remaining() != 0 {
        return Err(mm(format!("{} octets after the last item", p.remaining())));
    }
    // the high-level reader must see the same numbers of items
    let mut n = 0usize;
    for q in msg.question() {
        q.map_err(|e| mm(format!("msg.question(): {}", e)))?;
        n += 1;
    }
    if n != want[0] {
        return Err(mm(format!("msg.question() yields {} items, pushed {}", n, want[0])));
    }
    let secs = [msg.answer(), msg.authority(), msg.additional()];
    for (si, s) in secs.into_iter().enumerate() {
        let s = s.map_err(|e| mm(format!("record section {}: {}", si + 1, e)))?;
        let mut n = 0usize;
        for r in s {
            let r = r.map_err(|e| mm(format!("record section {} item {}: {}", si + 1, n, e)))?;
            match r.to_record::<UnknownRecordData<_>>() {
                Ok(Some(_)) => n += 1,
                Ok(None) => return Err(mm(format!("record section {} item {}: not readable as unknown data", si + 1, n))),
                Err(e) => return Err(mm(format!("record section {} item {}: {}", si + 1, n, e))),
            }
        }
        if n != want[si + 1] {
            return Err(mm(format!("record section {} yields {} items, pushed {}", si + 1, n, want[si + 1])));
        }
    }
    Ok(changed)
}

// ------------------------------------------------------------------ running

fn show_m(m: &[u8]) -> String {
    if m.len() <= 600 {
        return hexraw(m);
    }
    let (mut h1, mut h2) = (7u64, 11u64);
    for &b in m {
        h1 = (h1 * 257 + b as u64 + 1) % 2147483629;
        h2 = (h2 * 263 + b as u64 + 1) % 2147483587;
    }
    format!("#{}.{}", h1, h2)
}

struct Snap {
    msg: Vec<u8>,
    stream: Option<Vec<u8>>,
    counts: [u16; 4],
}
fn snap<T: Tgt>(b: &Bld<T>) -> Snap {
    Snap { msg: b.mb().as_slice().to_vec(), stream: b.mb().as_target().stream().map(|s| s.to_vec()), counts: b.counts() }
}

fn lower(w: &Wire) -> Wire {
    w.to_ascii_lowercase()
}

fn op_names(op: &Op) -> Vec<&Wire> {
    match op {
        Op::Q { name, .. } => vec![name],
        Op::R { owner, items, .. } => {
            let mut v = vec![owner];
            for it in items {
                if let It::N(w) | It::U(w) = it {
                    v.push(w);
                }
            }
            v
        }
        _ => vec![],
    }
}

/// Runs the concrete script under the oracle; returns the observation line
/// and whether the case is non-trivial.
fn run<T: Tgt>(out: &mut Out, target: T, case: &str, ops: &[Op]) -> (String, bool) {
    let mut slot = match MessageBuilder::from_target(target) {
        Ok(mb) => Some(Bld::Q(mb.question())),
        Err(_) => return ("INIT-ERR".into(), false),
    };
    let mut acc = Acc::default();
    let mut words: Vec<&'static str> = Vec::with_capacity(ops.len());
    let mut limit: Option<usize> = None;
    let (mut any_ok, mut any_fail, mut dup) = (false, false, false);
    let mut seen: HashSet<Wire> = HashSet::new();
    let mut dead = false;
    let mut lost = false;
    for (i, op) in ops.iter().enumerate() {
        let cop = compile(op);
        if let COp::TA { .. } = cop { out.count("info_typed_alldata"); }
        if let (Op::R { pfx: 2, .. }, COp::R { .. }) = (op, &cop) { out.count("info_typed_fallback_raw"); }
        let (sec, before) = match slot.as_ref() {
            Some(b) => (b.sec(), if is_push(op) { Some(snap(b)) } else { None }),
            None => { dead = true; break; }
        };
        // start_answer / start_error / request_axfr: what must come out
        let s_expect = match (op, slot.as_ref()) {
            (Op::S { kind, qs, .. }, Some(b)) => {
                let prev = [b.mb().as_slice()[2], b.mb().as_slice()[3]];
                let want: Vec<(Wire, u16, u16)> = if *kind == 2 { vec![(qs.first().map_or(vec![0u8], |q| q.0.clone()), 252, 1)] } else { qs.clone() };
                let mut fit = 0usize;
                let cl = b.clone();
                let r = catch_mut(|| {
                    let mut qb = each!(cl, x => x.builder()).question();
                    let mut k = 0usize;
                    for (n, t, c) in &want {
                        if qb.push((to_name(n), Rtype::from_int(*t), Class::from_int(*c))).is_err() { break; }
                        k += 1;
                    }
                    k
                });
                if let Ok(k) = r { fit = k; }
                Some((prev, want, fit))
            }
            _ => None,
        };
        let res = apply(&mut slot, &cop);
        if let (Ok(Res::Lost(e)), Some((_, want, fit)), Op::S { kind, .. }) = (&res, s_expect.as_ref(), op) {
            let w = match e { PushError::ShortBuf => "short", PushError::LimitExceeded => "limit", PushError::CountOverflow => "count" };
            words.push(w);
            out.check(*kind != 1 && *fit < want.len(), if *kind == 0 { "start_answer_wrong" } else { "request_axfr_wrong" }, case,
                &format!("op {}: Err although {} of {} questions fit", i, fit, want.len()));
            lost = true;
            break;
        }
        let res = match res {
            Err(p) => {
                words.push("panic");
                // the documented panic: record data longer than 65535 octets
                let ulen = match op { Op::R { items, .. } => items.iter().map(item_ulen).sum::<usize>(), _ => 0 };
                let documented = ulen > 65535 && p.contains("long");
                if documented {
                    out.count("info_panic_long_rdata");
                }
                out.check(documented, "builder_panic", case, &format!("op {} ({}) panicked: {}", i, &op_str(op).chars().take(60).collect::<String>(), p));
                dead = true;
                break;
            }
            Ok(r) => r,
        };
        let b = match slot.as_ref() {
            Some(b) => b,
            None => { dead = true; break; }
        };
        if let (Op::S { kind, id, opcode, rd, rcode, .. }, Some((prev, want, fit))) = (op, s_expect.as_ref()) {
            let class = match kind { 0 => "start_answer_wrong", 1 => "start_error_wrong", _ => "request_axfr_wrong" };
            let all = *fit == want.len();
            out.check(all || *kind == 1, class, case, &format!("op {}: Ok although only {} of {} questions fit", i, fit, want.len()));
            acc = Acc::default();
            for (n, t, c) in want.iter().take(*fit) {
                acc.q.push(EQ { name: n.clone(), qt: *t, qc: *c });
            }
            let m = b.mb().as_slice();
            let wanth = if *kind == 2 {
                [(id >> 8) as u8, *id as u8, prev[0], prev[1]]
            } else {
                let rc = if *kind == 1 && !all { 2 } else { *rcode & 0x0F };
                [(id >> 8) as u8, *id as u8, 0x80 | ((*opcode & 0x0F) << 3) | (prev[0] & 0x06) | (*rd as u8), (prev[1] & 0xF0) | rc]
            };
            out.check(m[..4] == wanth, class, case, &format!("op {}: header {} wanted {}", i, hexraw(&m[..4]), hexraw(&wanth)));
            out.check(b.sec() == 1, class, case, &format!("op {}: not an answer builder", i));
        }
        match res {
            Res::Lost(_) => { dead = true; break; }
            Res::Skip => {
                words.push("-");
                continue;
            }
            Res::None => {
                words.push("-");
                match op {
                    Op::G(k) => {
                        let k = (*k).min(3) as usize;
                        if k < sec {
                            for s in k + 1..=3 {
                                acc.rr[s - 1].clear();
                            }
                        }
                    }
                    Op::B => acc = Acc::default(),
                    Op::W => {
                        if sec == 0 { acc.q.clear() } else { acc.rr[sec - 1].clear() }
                    }
                    Op::L(n) => limit = Some(*n),
                    Op::NL => limit = None,
                    Op::H(h) => {
                        out.check(b.mb().as_slice()[..4] == h[..], "header_setters_wrong", case,
                            &format!("op {}: header octets {} after the setters, wanted {}", i, hexraw(&b.mb().as_slice()[..4]), hexraw(h)));
                    }
                    _ => {}
                }
            }
            Res::Push(Ok(())) => {
                if let (Op::C { .. }, Some(bf)) = (op, before.as_ref()) {
                    out.check(b.mb().as_slice()[..4] == bf.msg[..4], "opt_clone_from_changed_header", case,
                        &format!("op {}: header {} -> {}", i, hexraw(&bf.msg[..4]), hexraw(&b.mb().as_slice()[..4])));
                }
                if let (Op::O { rc: Some(v), .. }, Some(bf)) = (op, before.as_ref()) {
                    let o3 = b.mb().as_slice()[3];
                    out.check(o3 == (bf.msg[3] & 0xF0) | (*v as u8 & 0x0F) && b.mb().as_slice()[..3] == bf.msg[..3], "opt_set_rcode_header_wrong", case,
                        &format!("op {}: header {} -> {} with set_rcode({})", i, hexraw(&bf.msg[..4]), hexraw(&b.mb().as_slice()[..4]), v));
                }
                words.push("ok");
                out.count("info_push_ok");
                any_ok = true;
                for w in op_names(op) {
                    if !seen.insert(lower(w)) {
                        dup = true;
                    }
                }
                match op {
                    Op::Q { name, qt, qc } => acc.q.push(EQ { name: name.clone(), qt: *qt, qc: *qc }),
                    Op::S { .. } => {}
                    _ => {
                        if let Some(er) = expected_record(op) {
                            if sec >= 1 {
                                acc.rr[sec - 1].push(er);
                            }
                        }
                    }
                }
                // (start_answer with no question pushes nothing: the limit does not apply)
                if let (Some(l), false) = (limit, matches!(op, Op::S { .. })) {
                    out.check(b.len() <= l, "push_exceeded_limit", case, &format!("op {}: push accepted, length {} with limit {}", i, b.len(), l));
                }
            }
            Res::Push(Err(e)) => {
                let w = match e {
                    PushError::ShortBuf => "short",
                    PushError::LimitExceeded => "limit",
                    PushError::CountOverflow => "count",
                };
                words.push(w);
                out.count(match w { "short" => "info_push_short", "limit" => "info_push_limit", _ => "info_push_count" });
                any_fail = true;
                if let Some(bf) = before.as_ref() {
                    let now = snap(b);
                    // a failed opt() whose closure called set_rcode: only the header RCODE differs
                    let only_rcode = matches!(op, Op::O { rc: Some(_), .. }) && now.msg.len() == bf.msg.len() && now.msg.len() >= 12
                        && now.msg[..3] == bf.msg[..3] && now.msg[4..] == bf.msg[4..] && now.msg[3] != bf.msg[3]
                        && now.msg[3] & 0xF0 == bf.msg[3] & 0xF0;
                    if only_rcode {
                        out.check(false, "failed_opt_push_changed_header_rcode", case,
                            &format!("op {}: header octet 3 {:02x} -> {:02x} after a failed opt()", i, bf.msg[3], now.msg[3]));
                        continue;
                    }
                    out.check(now.msg == bf.msg, "failed_push_changed_octets", case,
                        &format!("op {}: message octets differ after a failed push (len {} -> {})", i, bf.msg.len(), now.msg.len()));
                    out.check(now.stream == bf.stream, "failed_push_changed_octets", case,
                        &format!("op {}: stream octets differ after a failed push", i));
                    out.check(now.counts == bf.counts, "failed_push_changed_counts", case,
                        &format!("op {}: counts {:?} -> {:?}", i, bf.counts, now.counts));
                }
            }
        }
        // after every op
        let want = [acc.q.len(), acc.rr[0].len(), acc.rr[1].len(), acc.rr[2].len()];
        let c = b.counts();
        out.check((0..4).all(|k| c[k] as usize == want[k]), "count_mismatch", case,
            &format!("op {}: counts {:?}, accepted pushes present {:?}", i, c, want));
        if let Some(s) = b.mb().as_target().stream() {
            let ok = s.len() >= 2 && (s.len() - 2) <= 65535;
            out.check(ok, "stream_too_long", case, &format!("op {}: stream slice {} octets", i, s.len()));
            if ok {
                let l = (s.len() - 2) as u16;
                out.check(s[..2] == l.to_be_bytes(), "stream_prefix_wrong", case,
                    &format!("op {}: prefix {:02x}{:02x}, message {} octets", i, s[0], s[1], l));
                out.check(&s[2..] == b.mb().as_slice(), "stream_prefix_wrong", case, &format!("op {}: as_slice() is not the stream slice without prefix", i));
            }
        }
        if i + 1 < ops.len() && b.len() < 20000 {
            if let Err((class, d)) = reparse(b.mb().as_slice(), &acc) {
                out.check(false, class, case, &format!("after op {}: {}", i, d));
            } else {
                out.check(true, "reparse_mismatch", case, "");
            }
        }
    }
    let mut r = String::from("R=");
    if words.is_empty() {
        r.push('-');
    } else {
        r.push_str(&words.join(","));
    }
    if lost {
        r.push_str(" LOST");
        return (r, true);
    }
    if dead {
        r.push_str(" DEAD");
        return (r, false);
    }
    let b = match slot.as_ref() {
        Some(b) => b,
        None => { r.push_str(" DEAD"); return (r, false); }
    };
    let msg = b.mb().as_slice();
    let v = reparse(msg, &acc);
    if msg.len() <= 65535 {
        match &v {
            Ok(ch) => {
                out.check(true, "reparse_mismatch", case, "");
                for _ in 0..*ch {
                    out.count("info_case_changed");
                }
            }
            Err((class, d)) => out.check(false, class, case, &format!("final message: {}", d)),
        }
    }
    let c = b.counts();
    let fin: &[u8] = match b.mb().as_target().stream() { Some(s) => s, None => msg };
    let _ = write!(r, " C={},{},{},{} N={} M={} V={}", c[0], c[1], c[2], c[3], fin.len(), show_m(fin), if v.is_ok() { "ok" } else { "bad" });
    (r, any_ok && (dup || any_fail))
}

struct Ctx<'a> {
    t: char,
    k: char,
    cap: usize,
    size: &'a str,
    script: &'a [Sym],
}

fn drive<T: Tgt>(out: &mut Out, cx: &Ctx, mk: impl Fn() -> T) {
    let head = format!("run {} {} {}", cx.t, cx.k, cx.cap);
    out.begin(&format!("{} <resolving a {} script of {} ops>", head, cx.size, cx.script.len()));
    let ops = concretize(mk(), cx.script);
    let mut case = head;
    for op in &ops {
        case.push(' ');
        case.push_str(&op_str(op));
    }
    out.begin(&case);
    let (obs, nontrivial) = run(out, mk(), &case, &ops);
    out.case(&case, &obs, nontrivial, &format!("{}.{}.{}", cx.t, cx.k, cx.size));
}

fn with_k<T: Tgt>(out: &mut Out, cx: &Ctx, mk: impl Fn() -> T) {
    match cx.k {
        's' => drive(out, cx, || StaticCompressor::new(mk())),
        't' => drive(out, cx, || TreeCompressor::new(mk())),
        'h' => drive(out, cx, || HashCompressor::new(mk())),
        _ => drive(out, cx, || mk()),
    }
}

fn dispatch(out: &mut Out, cx: &Ctx) {
    match cx.t {
        'b' => with_k(out, cx, BytesMut::new),
        's' => with_k(out, cx, StreamTarget::new_vec),
        'a' => match cx.cap {
            40 => with_k(out, cx, Array::<40>::default),
            128 => with_k(out, cx, Array::<128>::default),
            _ => with_k(out, cx, Array::<512>::default),
        },
        // heapless::Vec<u8, N>: fixed capacity like Array<N>; SmallVec: unbounded like Vec
        'p' => match cx.cap {
            40 => with_k(out, cx, heapless::Vec::<u8, 40>::new),
            128 => with_k(out, cx, heapless::Vec::<u8, 128>::new),
            _ => with_k(out, cx, heapless::Vec::<u8, 512>::new),
        },
        'm' => with_k(out, cx, smallvec::SmallVec::<[u8; 24]>::new),
        _ => with_k(out, cx, Vec::<u8>::new),
    }
}

// --------------------------------------------------------------- generators

fn nm(s: &str) -> Wire {
    let mut w = Vec::new();
    for l in s.split('.') {
        if l.is_empty() {
            continue;
        }
        w.push(l.len() as u8);
        w.extend_from_slice(l.as_bytes());
    }
    w.push(0);
    w
}

fn from_labels(ls: &[Vec<u8>]) -> Wire {
    let mut w = Vec::new();
    for l in ls {
        w.push(l.len() as u8);
        w.extend_from_slice(l);
    }
    w.push(0);
    w
}

fn prepend(l: &[u8], w: &Wire) -> Option<Wire> {
    if l.is_empty() || l.len() > 63 || w.len() + 1 + l.len() > 255 {
        return None;
    }
    let mut n = Vec::with_capacity(w.len() + 1 + l.len());
    n.push(l.len() as u8);
    n.extend_from_slice(l);
    n.extend_from_slice(w);
    Some(n)
}

fn parent(w: &Wire) -> Wire {
    if w.len() <= 1 {
        return w.clone();
    }
    w[1 + w[0] as usize..].to_vec()
}

struct Pool {
    labels: Vec<Vec<u8>>,
    suffixes: Vec<Wire>,
    maximal: Vec<Wire>,
}

fn l63() -> Vec<u8> {
    (0..63u8).map(|i| b'a' + (i % 26)).collect()
}

fn pool() -> Pool {
    let l63 = l63();
    let l63u = l63.to_ascii_uppercase();
    let mut labels: Vec<Vec<u8>> = ["a", "b", "www", "mail", "example", "EXAMPLE", "Example", "com", "COM", "net", "org", "test",
        "zone", "late", "ns1", "A", "x", "_tcp", "a-b"].iter().map(|s| s.as_bytes().to_vec()).collect();
    labels.push(l63.clone());
    labels.push(l63u.clone());
    for l in [&[0u8][..], &[0x2e], &[0xff], &[0xc0], &[0x41], &[0x61], &[0xc0, 0x0c], &[b'a', 0, b'b'], &[b'a', b'.', b'b'], &[0x5b], &[0x7b], &[0x40], &[0x60]] {
        labels.push(l.to_vec());
    }
    let suffixes: Vec<Wire> = [".", "com.", "COM.", "example.com.", "Example.COM.", "net.", "a.b.example.com.", "org.", "test.",
        "zone.test.", "example.net.", "example.org.", "b.example.com.", "example."].iter().map(|s| nm(s)).collect();
    let seg = |n: usize| -> Vec<u8> { l63[..n].to_vec() };
    let mut maximal = vec![
        from_labels(&[l63.clone(), l63.clone(), l63.clone(), seg(61)]),
        from_labels(&[l63u.clone(), l63.clone(), l63.clone(), seg(61)]),
        from_labels(&[l63.clone(), l63.clone(), l63.clone(), seg(60)]),
        from_labels(&[l63.clone(), l63u.clone(), l63.clone(), seg(59)]),
        from_labels(&[seg(61), l63.clone(), l63.clone(), l63.clone()]),
        from_labels(&[l63.clone(), l63.clone(), l63.clone(), seg(49), b"example".to_vec(), b"com".to_vec()]),
        from_labels(&[l63.clone(), l63.clone(), l63.clone(), seg(48), b"example".to_vec(), b"com".to_vec()]),
    ];
    maximal.push(from_labels(&(0..127).map(|_| b"a".to_vec()).collect::<Vec<_>>()));
    maximal.push(from_labels(&(0..127).map(|i| if i % 2 == 0 { b"a".to_vec() } else { b"B".to_vec() }).collect::<Vec<_>>()));
    maximal.push(from_labels(&(0..126).map(|i| vec![b'a' + (i % 3) as u8]).collect::<Vec<_>>()));
    Pool { labels, suffixes, maximal }
}

fn case_variant(r: &mut Rng, w: &Wire) -> Wire {
    let mut n = w.clone();
    let mut i = 0;
    while i < n.len() {
        let l = n[i] as usize;
        if l == 0 || i + 1 + l > n.len() {
            break;
        }
        for k in i + 1..i + 1 + l {
            if n[k].is_ascii_alphabetic() && r.chance(1, 2) {
                n[k] ^= 0x20;
            }
        }
        i += 1 + l;
    }
    n
}

#[derive(Clone, Copy, PartialEq)]
enum Size {
    Small,
    Medium,
}

struct Gen<'a> {
    r: &'a mut Rng,
    pool: &'a Pool,
    used: Vec<Wire>,
}

impl<'a> Gen<'a> {
    fn fresh(&mut self) -> Wire {
        if self.r.chance(1, 40) {
            return self.r.pick(&self.pool.maximal).clone();
        }
        let mut w = self.r.pick(&self.pool.suffixes).clone();
        for _ in 0..self.r.below(4) {
            let l = self.r.pick(&self.pool.labels).clone();
            if let Some(n) = prepend(&l, &w) {
                w = n;
            }
        }
        if self.r.chance(1, 8) {
            w = case_variant(self.r, &w);
        }
        w
    }
    fn name(&mut self) -> Wire {
        let w = if !self.used.is_empty() && self.r.chance(1, 2) {
            let base = self.r.pick(&self.used).clone();
            match self.r.below(8) {
                0 | 1 => case_variant(self.r, &base),
                2 => {
                    let l = self.r.pick(&self.pool.labels).clone();
                    prepend(&l, &base).unwrap_or(base)
                }
                3 => parent(&base),
                _ => base,
            }
        } else {
            self.fresh()
        };
        self.used.push(w.clone());
        w
    }
    fn blob(&mut self, sz: Size) -> It {
        let n = match sz {
            Size::Small => self.r.below(17) as usize,
            Size::Medium => match self.r.below(8) {
                0 => self.r.below(1500) as usize,
                1 | 2 => self.r.below(17) as usize,
                _ => self.r.below(300) as usize,
            },
        };
        if self.r.chance(1, 3) {
            It::Z(n, *self.r.pick(&[0u8, 0xc0, 0xff, 0x41, 0x07]))
        } else {
            It::B(self.r.bytes(n))
        }
    }
    fn charstr(&mut self, max: u64) -> Vec<u8> {
        let n = self.r.below(max + 1) as usize;
        let mut v = vec![n as u8];
        v.extend(self.r.bytes(n));
        v
    }
    fn bitmap(&mut self) -> Vec<u8> {
        let n = self.r.range(1, 6) as usize;
        let mut v = vec![0u8, n as u8];
        v.extend(self.r.bytes(n - 1));
        v.push(self.r.u8() | 1);
        v
    }
    /// Record data of further types of domain::rdata, built to be valid, pushed
    /// through the library's typed value (pfx = 2).
    fn rec_typed(&mut self) -> Op {
        let owner = self.name();
        let (rt, items): (u16, Vec<It>) = match self.r.below(18) {
            0 => { let mut b = Vec::new(); for _ in 0..self.r.range(1, 3) { b.extend(self.charstr(40)); } (16, vec![It::B(b)]) }
            1 => { let mut b = self.charstr(10); b.extend(self.charstr(10)); (13, vec![It::B(b)]) }
            2 => (39, vec![It::U(self.name())]),
            3 => (*self.r.pick(&[7u16, 8, 9, 3, 4]), vec![It::N(self.name())]),
            4 => (14, vec![It::N(self.name()), It::N(self.name())]),
            5 => (17, vec![It::N(self.name()), It::N(self.name())]),
            6 => { let mut b = vec![1, self.r.u8() & 1, 3, *self.r.pick(&[8u8, 13, 15])]; let n = self.r.range(1, 40) as usize; b.extend(self.r.bytes(n)); (*self.r.pick(&[48u16, 60]), vec![It::B(b)]) }
            7 => { let mut b = self.r.bytes(2); b.push(13); b.push(2); let n = self.r.range(1, 32) as usize; b.extend(self.r.bytes(n)); (*self.r.pick(&[43u16, 59]), vec![It::B(b)]) }
            8 => { let mut b = vec![0, 1, 13, 2]; b.extend(self.r.bytes(14)); let n = self.r.range(1, 40) as usize; (46, vec![It::B(b), It::U(self.name()), It::B(self.r.bytes(n))]) }
            9 => (47, vec![It::U(self.name()), It::B(self.bitmap())]),
            10 => {
                let mut b = vec![1, self.r.u8() & 1, 0, 10];
                let sl = self.r.below(9) as usize; b.push(sl as u8); b.extend(self.r.bytes(sl));
                let hl = self.r.range(1, 20) as usize; b.push(hl as u8); b.extend(self.r.bytes(hl));
                b.extend(self.bitmap());
                (50, vec![It::B(b)])
            }
            11 => { let mut b = vec![3, 1, 1]; let n = self.r.range(1, 32) as usize; b.extend(self.r.bytes(n)); (52, vec![It::B(b)]) }
            12 => { let mut b = vec![self.r.u8() & 0x80, 5]; b.extend_from_slice(b"issue"); let n = self.r.below(20) as usize; b.extend(self.r.bytes(n)); (257, vec![It::B(b)]) }
            13 => {
                let mut params = Vec::new();
                if self.r.chance(1, 2) { params.extend_from_slice(&[0, 3, 0, 2]); params.extend(self.r.bytes(2)); }
                if self.r.chance(1, 2) { let n = self.r.below(12) as usize; params.extend_from_slice(&[0xff, 0x00]); params.extend_from_slice(&(n as u16).to_be_bytes()); params.extend(self.r.bytes(n)); }
                let mut v = vec![It::B(self.r.bytes(2)), It::U(self.name())];
                if !params.is_empty() { v.push(It::B(params)); }
                (*self.r.pick(&[64u16, 65]), v)
            }
            14 => { let mut b = self.r.bytes(4); b.extend(self.charstr(3)); b.extend(self.charstr(8)); b.extend(self.charstr(12)); (35, vec![It::B(b), It::U(self.name())]) }
            15 => { let mut b = vec![*self.r.pick(&[1u8, 4]), 2]; let n = self.r.range(1, 32) as usize; b.extend(self.r.bytes(n)); (44, vec![It::B(b)]) }
            16 => { let mut b = self.r.bytes(4); b.push(1); b.push(1); b.extend(self.r.bytes(48)); (63, vec![It::B(b)]) }
            _ => { let n = self.r.range(1, 60) as usize; (61, vec![It::B(self.r.bytes(n))]) }
        };
        let ttl = if self.r.chance(1, 5) { self.r.u32() } else { 300 };
        Op::R { owner, rt, cl: 1, ttl, pfx: 2, items }
    }
    fn rec(&mut self, sz: Size) -> Op {
        if self.r.chance(1, 5) {
            return self.rec_typed();
        }
        let owner = self.name();
        let kind = if sz == Size::Medium && self.r.chance(2, 5) { self.r.range(9, 13) } else { self.r.below(14) };
        let (rt, items): (u16, Vec<It>) = match kind {
            0 | 1 => (1, vec![It::B(self.r.bytes(4))]),
            2 => (28, vec![It::B(self.r.bytes(16))]),
            3 => (2, vec![It::N(self.name())]),
            4 => (5, vec![It::N(self.name())]),
            5 => (12, vec![It::N(self.name())]),
            6 => (15, vec![It::B(self.r.bytes(2)), It::N(self.name())]),
            7 => (6, vec![It::N(self.name()), It::N(self.name()), It::B(self.r.bytes(20))]),
            8 => (33, vec![It::B(self.r.bytes(6)), It::U(self.name())]),
            9 => (16, vec![self.blob(sz)]),
            10 => (10, vec![self.blob(sz)]),
            11 => (self.r.u16(), if self.r.chance(1, 4) { vec![] } else { vec![self.blob(sz)] }),
            _ => {
                let mut v = Vec::new();
                for _ in 0..self.r.range(1, 4) {
                    v.push(match self.r.below(4) {
                        0 => It::N(self.name()),
                        1 => It::U(self.name()),
                        _ => self.blob(sz),
                    });
                }
                (*self.r.pick(&[65280u16, 47, 24, 250, 41, 0]), v)
            }
        };
        let cl = if self.r.chance(1, 6) { *self.r.pick(&[0u16, 3, 254, 255, 65535, 4096]) } else { 1 };
        let ttl = match self.r.below(8) {
            0 => 0,
            1 => 0x7fff_ffff,
            2 => 0x8000_0000,
            3 => 0xffff_ffff,
            4 => self.r.u32(),
            5 => 86400,
            _ => 3600,
        };
        // the eight kinds with a typed counterpart in domain::rdata go through
        // the library's own ComposeRecordData impl half of the time
        let pfx = if kind <= 8 && self.r.chance(1, 2) { 2 } else { self.r.chance(1, 6) as u8 };
        Op::R { owner, rt, cl, ttl, pfx, items }
    }
    fn question(&mut self) -> Op {
        let name = self.name();
        let qt = if self.r.chance(1, 5) { self.r.u16() } else { *self.r.pick(&[1u16, 2, 5, 6, 15, 16, 28, 255, 252, 33]) };
        let qc = if self.r.chance(1, 6) { *self.r.pick(&[0u16, 3, 254, 255, 65535]) } else { 1 };
        Op::Q { name, qt, qc }
    }
    fn opt(&mut self) -> Op {
        let udp = if self.r.chance(1, 4) { self.r.u16() } else { *self.r.pick(&[512u16, 1232, 4096, 0, 65535]) };
        let mut opts = Vec::new();
        for _ in 0..self.r.below(4) {
            let code = if self.r.chance(1, 3) { self.r.u16() } else { *self.r.pick(&[3u16, 8, 10, 11, 12, 14, 15, 65001]) };
            let n = match code {
                10 => *self.r.pick(&[8usize, 16, 24, 40, 7, 9]),
                11 => *self.r.pick(&[0usize, 2, 2, 3]),
                14 => 2 * self.r.below(6) as usize,
                _ => if self.r.chance(1, 4) { 0 } else { self.r.below(24) as usize },
            };
            let mut d = self.r.bytes(n);
            if n > 0 && self.r.chance(2, 3) { d[0] &= 0xFE; }
            opts.push((code, d));
        }
        // header fields of the OPT record: extended rcode (with and without
        // touching the message header), version, DO; values with the top bit set
        let rc = match self.r.below(6) {
            0 | 1 => None,
            2 => Some(*self.r.pick(&[0x0FF0u16, 0x0800, 0x0FFF, 0x0010, 0x0ABC, 16, 23])),
            _ => Some(self.r.u16() & 0x0FFF),
        };
        let ver = match self.r.below(4) { 0 => *self.r.pick(&[0x80u8, 0xFF, 1, 0x7F]), 1 => self.r.u8(), _ => 0 };
        let dok = self.r.chance(1, 3);
        if self.r.chance(1, 4) {
            // OptBuilder::clone_from of an OPT record with these header fields and options
            return Op::C { udp, ext: rc.map_or(0, |v| (v >> 4) as u8), ver, flags: if self.r.chance(1, 2) { self.r.u16() } else if dok { 0x8000 } else { 0 }, opts };
        }
        Op::O { udp, rc, ver, dok, opts }
    }
    fn header(&mut self) -> Op {
        let h = match self.r.below(6) {
            0 => [0xFF; 4],
            1 => [0; 4],
            2 => { let b = 1u32 << self.r.below(32); b.to_be_bytes() }
            _ => self.r.u32().to_be_bytes(),
        };
        Op::H(h)
    }
    fn push(&mut self, sec: u8, sz: Size) -> Op {
        if sec == 0 {
            self.question()
        } else if sec == 3 && self.r.chance(1, 5) {
            self.opt()
        } else {
            self.rec(sz)
        }
    }

    /// A random script of about `n` ops, valid for the section it is in.
    fn script(&mut self, n: usize, sz: Size) -> Vec<Sym> {
        let mut s = Vec::new();
        let mut sec = 0u8;
        self.walk(&mut s, &mut sec, n, sz);
        s
    }

    fn walk(&mut self, s: &mut Vec<Sym>, sec: &mut u8, n: usize, sz: Size) {
        let end = s.len() + n;
        while s.len() < end {
            let mut c = self.r.below(100);
            if *sec == 0 && self.r.chance(1, 4) {
                c = 70; // do not linger in the question section
            }
            if c < 60 {
                let p = self.push(*sec, sz);
                s.push(Sym::C(p));
            } else if c < 66 {
                // a push that fails at an exact limit, then the same push and
                // one more reusing its names with the limit lifted
                let p = self.push(*sec, sz);
                s.push(Sym::LimNext(*self.r.pick(&[0i64, 0, -1, -3, 1])));
                s.push(Sym::C(p.clone()));
                s.push(match self.r.below(3) { 0 => Sym::C(Op::NL), 1 => Sym::LimNext(1), _ => Sym::LimCur(300) });
                s.push(Sym::C(p));
                let p2 = self.push(*sec, sz);
                s.push(Sym::C(p2));
                if self.r.chance(1, 2) {
                    s.push(Sym::C(Op::NL));
                }
            } else if c < 76 {
                let k = if *sec < 3 && !self.r.chance(1, 6) { self.r.range(*sec as u64 + 1, 3) as u8 } else { *sec };
                *sec = k;
                s.push(Sym::C(Op::G(k)));
            } else if c < 79 {
                let k = if self.r.chance(1, 3) { self.r.range(0, *sec as u64) as u8 } else { sec.saturating_sub(1) };
                *sec = k;
                s.push(Sym::C(Op::G(k)));
            } else if c < 82 {
                s.push(Sym::C(Op::W));
            } else if c < 83 {
                *sec = 0;
                s.push(Sym::C(Op::B));
            } else if c < 91 {
                // a limit around the length the next push reaches, a push or
                // two, and (mostly) the limit lifted or widened again
                let d = if self.r.chance(1, 2) { self.r.range(0, 3) as i64 - 1 } else { self.r.range(0, 41) as i64 - 1 };
                s.push(if self.r.chance(2, 3) { Sym::LimNext(d) } else { Sym::LimCur(d) });
                let p = self.push(*sec, sz);
                s.push(Sym::C(p));
                if self.r.chance(1, 2) {
                    let p = self.push(*sec, sz);
                    s.push(Sym::C(p));
                }
                match self.r.below(4) {
                    0 => {}
                    1 => s.push(Sym::LimCur(self.r.range(50, 3000) as i64)),
                    _ => s.push(Sym::C(Op::NL)),
                }
            } else if c < 92 {
                s.push(Sym::C(Op::NL));
            } else if c < 93 {
                // start_answer / start_error / request_axfr from whatever builder we hold
                let kind = self.r.below(3) as u8;
                let mut qs = Vec::new();
                for _ in 0..(if kind == 2 { 1 } else { self.r.below(4) }) {
                    if let Op::Q { name, qt, qc } = self.question() { qs.push((name, qt, qc)); }
                }
                s.push(Sym::C(Op::S { kind, id: self.r.u16(), opcode: self.r.below(16) as u8, rd: self.r.chance(1, 2), rcode: self.r.below(16) as u8, qs }));
                *sec = 1;
            } else if c < 95 {
                let h = self.header();
                s.push(Sym::C(h));
            } else if c < 97 {
                s.push(Sym::C(Op::L(*self.r.pick(&[0usize, 11, 12, 13, 40, 100, 512, 600, 16384, 65535, 65536, 70000]))));
            } else {
                let p = self.push(*sec, sz);
                s.push(Sym::C(p));
            }
        }
    }

    fn pad(&mut self, to: usize, tail: Vec<It>) -> Sym {
        let owner = self.name();
        let mut items = vec![It::Z(0, *self.r.pick(&[0u8, 0xc0, 0x3f, 0xff]))];
        items.extend(tail);
        Sym::Pad { owner, rt: 16, cl: 1, ttl: 60, pfx: self.r.chance(1, 4) as u8, items, slot: 0, to }
    }

    /// Names that start around offset 0x4000, then the same names again.
    fn big(&mut self) -> Vec<Sym> {
        let mut s = Vec::new();
        let mut sec = 0u8;
        let n0 = self.r.below(4) as usize;
        self.walk(&mut s, &mut sec, n0, Size::Small);
        if sec == 0 || (sec == 3 && self.r.chance(1, 2)) {
            sec = self.r.range(1, 2) as u8;
            s.push(Sym::C(Op::G(sec)));
        }
        s.push(Sym::C(Op::NL));
        let to = (0x3FFF + self.r.range(0, 7) as usize) - 3;
        let tail = if self.r.chance(1, 3) { vec![It::N(self.name())] } else { vec![] };
        let p = self.pad(to, tail);
        s.push(p);
        let pad_sec = sec;
        // mostly go on in a later section so that a rewind keeps the padding
        if sec < 3 && self.r.chance(2, 3) {
            sec = self.r.range(sec as u64 + 1, 3) as u8;
            s.push(Sym::C(Op::G(sec)));
        }
        let n1 = self.r.range(3, 10) as usize;
        for _ in 0..n1 {
            let p = self.push(sec, Size::Small);
            s.push(Sym::C(p));
            if self.r.chance(1, 8) {
                s.push(Sym::LimNext(self.r.range(0, 2) as i64 - 1));
                let p = self.push(sec, Size::Small);
                s.push(Sym::C(p));
                s.push(Sym::C(Op::NL));
            }
        }
        // cut back (above or below the boundary) or not, and go on
        match self.r.below(8) {
            0 | 1 => s.push(Sym::C(Op::W)),
            2 | 3 => {
                sec = self.r.range(pad_sec as u64, sec as u64) as u8;
                s.push(Sym::C(Op::G(sec)));
            }
            4 => {
                sec = self.r.range(0, sec as u64) as u8;
                s.push(Sym::C(Op::G(sec)));
            }
            5 => {
                if self.r.chance(1, 2) {
                    sec = 0;
                    s.push(Sym::C(Op::B));
                }
            }
            _ => {}
        }
        if sec < 3 && self.r.chance(1, 2) {
            sec = self.r.range(sec as u64, 3) as u8;
            s.push(Sym::C(Op::G(sec)));
        }
        let n2 = self.r.range(2, 8) as usize;
        for _ in 0..n2 {
            let p = self.push(sec, Size::Small);
            s.push(Sym::C(p));
        }
        s.truncate(40);
        s
    }

    /// Messages steered across 65535 octets.
    fn huge(&mut self) -> Vec<Sym> {
        let mut s = Vec::new();
        let mut sec = 0u8;
        let n0 = self.r.below(3) as usize;
        self.walk(&mut s, &mut sec, n0, Size::Small);
        if sec == 0 || (sec == 3 && self.r.chance(1, 2)) {
            sec = self.r.range(1, 2) as u8;
            s.push(Sym::C(Op::G(sec)));
        }
        s.push(Sym::C(Op::NL));
        if self.r.chance(1, 2) {
            let to = self.r.range(20000, 40000) as usize;
            let p = self.pad(to, vec![]);
            s.push(p);
        }
        let to = (65535 + self.r.range(0, 6) as usize) - 4;
        let p = self.pad(to, vec![]);
        s.push(p);
        let pad_sec = sec;
        if sec < 3 && self.r.chance(2, 3) {
            sec = self.r.range(sec as u64 + 1, 3) as u8;
            s.push(Sym::C(Op::G(sec)));
        }
        for _ in 0..self.r.range(1, 3) {
            let p = self.push(sec, Size::Small);
            s.push(Sym::C(p));
        }
        if self.r.chance(1, 2) {
            let to = 65535 + self.r.range(0, 20000) as usize;
            let p = self.pad(to, vec![]);
            s.push(p);
            if self.r.chance(1, 2) {
                let owner = self.name();
                s.push(Sym::C(Op::R { owner, rt: 10, cl: 1, ttl: 1, pfx: self.r.chance(1, 2) as u8, items: vec![It::Z(self.r.range(60000, 65535) as usize, 0xc0)] }));
            }
        }
        for _ in 0..self.r.range(1, 2) {
            let p = self.push(sec, Size::Small);
            s.push(Sym::C(p));
        }
        match self.r.below(8) {
            0 | 1 => s.push(Sym::C(Op::W)),
            2 | 3 => {
                sec = self.r.range(pad_sec as u64, sec as u64) as u8;
                s.push(Sym::C(Op::G(sec)));
            }
            4 => {
                sec = self.r.range(0, sec as u64) as u8;
                s.push(Sym::C(Op::G(sec)));
            }
            _ => {}
        }
        for _ in 0..self.r.range(1, 3) {
            let p = self.push(sec, Size::Small);
            s.push(Sym::C(p));
        }
        // rarely: record data longer than 65535 octets (the documented panic)
        if sec >= 1 && self.r.chance(1, 6) {
            let owner = self.name();
            let items = if self.r.chance(1, 2) {
                vec![It::Z(40000, 1), It::Z(30000, 2)]
            } else {
                vec![It::Z(65530, 1), It::N(self.name())]
            };
            s.push(Sym::C(Op::R { owner, rt: 10, cl: 1, ttl: 1, pfx: self.r.chance(1, 2) as u8, items }));
        }
        s
    }
}

// ------------------------------------------------------------------ corpus

fn rr(owner: &str, rt: u16, ttl: u32, items: Vec<It>) -> Sym {
    Sym::C(Op::R { owner: nm(owner), rt, cl: 1, ttl, pfx: 0, items })
}
fn rrw(owner: Wire, rt: u16, ttl: u32, items: Vec<It>) -> Sym {
    Sym::C(Op::R { owner, rt, cl: 1, ttl, pfx: 0, items })
}
fn a_rr(owner: &str, ttl: u32, ip: [u8; 4]) -> Sym {
    rr(owner, 1, ttl, vec![It::B(ip.to_vec())])
}
fn qq(name: &str, qt: u16) -> Sym {
    Sym::C(Op::Q { name: nm(name), qt, qc: 1 })
}
fn g(k: u8) -> Sym {
    Sym::C(Op::G(k))
}
fn n_it(s: &str) -> It {
    It::N(nm(s))
}
fn padto(owner: &str, to: usize) -> Sym {
    Sym::Pad { owner: nm(owner), rt: 16, cl: 1, ttl: 0, pfx: 0, items: vec![It::Z(0, 0)], slot: 0, to }
}

type Combo = (char, char, usize);

fn combos(ts: &[char], ks: &[char], cap: usize) -> Vec<Combo> {
    let mut v = Vec::new();
    for &t in ts {
        for &k in ks {
            v.push((t, k, if t == 'a' || t == 'p' { cap } else { 0 }));
        }
    }
    v
}

const ALLK: [char; 4] = ['n', 's', 't', 'h'];
const ALLT: [char; 4] = ['v', 'b', 'a', 's'];

fn corpus(pool: &Pool) -> Vec<(Vec<Sym>, Vec<Combo>)> {
    let mut c: Vec<(Vec<Sym>, Vec<Combo>)> = Vec::new();
    let all = |cap: usize| combos(&ALLT, &ALLK, cap);
    let soa20: Vec<u8> = vec![0x78, 0x68, 0x00, 0x25, 0, 0, 0x07, 0x08, 0, 0, 0x03, 0x84, 0, 0x09, 0x3a, 0x80, 0, 0x01, 0x51, 0x80];

    // empty script, only non-push ops
    c.push((vec![], all(40)));
    c.push((vec![g(3), g(0), Sym::C(Op::W), Sym::C(Op::B), Sym::C(Op::L(5)), Sym::C(Op::NL), g(2), Sym::C(Op::W)], all(40)));
    // the golden tests of message_builder.rs (header flags left zero)
    c.push((vec![qq("example.com.", 1), g(1), a_rr("example.com.", 3600, [203, 0, 113, 1])], all(128)));
    c.push((vec![qq("example.", 2), g(2),
        rr(".", 6, 86390, vec![n_it("a.root-servers.net."), n_it("nstld.verisign-grs.com."), It::B(soa20.clone())])], all(128)));
    c.push((vec![qq("example.com.", 1), g(1), a_rr("example.com.", 86400, [192, 0, 2, 1]), a_rr("example.com.", 86400, [192, 0, 2, 2]),
        g(2), rr("example.com.", 2, 0, vec![n_it("example.com.")]), g(3), a_rr("example.com.", 86400, [192, 0, 2, 1])], all(128)));
    c.push((vec![g(3), Sym::C(Op::O { udp: 4096, rc: None, ver: 0, dok: false, opts: vec![(3, b"example".to_vec())] })], all(40)));
    // historic defect witness: a name first written beyond offset 0x3FFF, pushed twice
    c.push((vec![g(1), padto(".", 16500), a_rr("late.zone.test.", 60, [10, 0, 0, 1]), a_rr("late.zone.test.", 60, [10, 0, 0, 2])],
        { let mut v = combos(&['v', 's'], &['s', 't', 'h'], 0); v.push(('b', 'h', 0)); v.push(('v', 'n', 0)); v }));
    // names starting exactly around 0x4000
    for (ti, to) in [0x3FFEusize, 0x3FFF, 0x4000, 0x4001, 0x4000 - 5, 0x4000 - 10, 0x3FFF - 5].into_iter().enumerate() {
        c.push((vec![qq("test.", 6), g(1), padto(".", to),
            a_rr("late.zone.test.", 60, [10, 0, 0, 1]), a_rr("late.zone.test.", 60, [10, 0, 0, 2]),
            rr("zone.test.", 2, 60, vec![n_it("late.zone.test.")]),
            rr("www.late.zone.test.", 5, 60, vec![n_it("LATE.zone.test.")]),
            rr("other.test.", 15, 60, vec![It::B(vec![0, 10]), n_it("www.late.zone.test.")])],
            if ti < 5 {
                let mut v = combos(&['v'], &ALLK, 0);
                v.extend(combos(&['s'], &['s', 't', 'h'], 0));
                v.push(('b', 'h', 0));
                v
            } else {
                combos(&['v'], &['s', 't', 'h'], 0)
            }));
    }
    // ... and a name in record data that starts there, then a rewind below the boundary
    for to in [0x4000usize + 13, 0x4000 + 14, 0x4000 + 15] {
        c.push((vec![g(1), a_rr("zone.test.", 1, [1, 1, 1, 1]), g(2),
            Sym::Pad { owner: nm("."), rt: 2, cl: 1, ttl: 0, pfx: 1, items: vec![It::Z(0, 0xc0), n_it("late.zone.test.")], slot: 0, to },
            rr("late.zone.test.", 2, 60, vec![n_it("a.late.zone.test.")]),
            Sym::C(Op::W),
            rr("late.zone.test.", 2, 60, vec![n_it("a.late.zone.test.")]),
            rr("a.late.zone.test.", 5, 60, vec![n_it("late.zone.test.")])],
            { let mut v = combos(&['v'], &['s', 't', 'h'], 0); v.push(('s', 'h', 0)); v }));
    }
    // static compressor capacity: 30 distinct names, then all of them again
    {
        let mut s = vec![g(1)];
        for round in 0..2 {
            for i in 0..30 {
                s.push(a_rr(&format!("n{}.example.com.", i), 300, [round, 0, 0, i as u8]));
            }
        }
        c.push((s.iter().take(40).cloned().collect(), all(512)));
        let mut s2 = vec![g(1)];
        for _round in 0..2 {
            for i in 0..19 {
                s2.push(rr(&format!("x{}.", i), 2, 300, vec![n_it(&format!("y{}.x{}.", i, (i + 1) % 19))]));
            }
        }
        c.push((s2.into_iter().take(40).collect(), all(512)));
        let mut s3 = vec![g(1)];
        for i in 0..13 {
            s3.push(rr(&format!("h{}.g{}.example.org.", i, i), 5, 1, vec![n_it(&format!("g{}.example.org.", i))]));
        }
        for i in 0..13 {
            s3.push(rr(&format!("g{}.example.org.", i), 5, 1, vec![n_it(&format!("h{}.g{}.example.org.", i, i))]));
        }
        c.push((s3, all(512)));
    }
    // stream boundary: a message of exactly 65535 octets fits, 65536 does not
    c.push((vec![g(1), padto(".", 65535), a_rr(".", 0, [1, 2, 3, 4]), Sym::C(Op::W), padto(".", 65536), a_rr("example.com.", 0, [1, 2, 3, 4]),
        Sym::C(Op::W), padto("example.com.", 65534), rr(".", 10, 0, vec![]), Sym::C(Op::W), a_rr("example.com.", 0, [1, 2, 3, 4]),
        padto("example.com.", 65535), padto("example.com.", 65536)],
        { let mut v = combos(&['s'], &ALLK, 0); v.extend(combos(&['v', 'b'], &['n', 'h'], 0)); v }));
    c.push((vec![qq("example.com.", 1), g(2), padto("www.example.com.", 65530), rr("example.com.", 2, 0, vec![n_it("www.example.com.")]),
        rr(".", 2, 0, vec![]), Sym::LimCur(1), rr(".", 2, 0, vec![]), Sym::C(Op::NL), g(3), Sym::C(Op::O { udp: 1232, rc: None, ver: 0, dok: false, opts: vec![] })],
        { let mut v = combos(&['s'], &ALLK, 0); v.extend(combos(&['v'], &['s', 't'], 0)); v }));
    // Array: exact fit and one over
    for cap in [40usize, 128, 512] {
        c.push((vec![g(1), padto(".", cap), a_rr(".", 0, [1, 2, 3, 4]), Sym::C(Op::W), padto(".", cap + 1), a_rr(".", 0, [1, 2, 3, 4]),
            padto(".", cap - 1), padto(".", cap), rr(".", 10, 0, vec![])], combos(&['a'], &ALLK, cap)));
        c.push((vec![qq("example.com.", 1), g(1), padto("example.com.", cap), Sym::C(Op::W), padto("www.example.com.", cap + 1),
            padto("www.example.com.", cap)], combos(&['a'], &ALLK, cap)));
    }
    // limit boundaries: new length == limit fails, limit == new length + 1 succeeds
    for d in [-1i64, 0, 1, 2] {
        c.push((vec![qq("example.com.", 1), g(1), Sym::LimNext(d), a_rr("www.example.com.", 5, [1, 1, 1, 1]), Sym::C(Op::NL),
            a_rr("www.example.com.", 5, [1, 1, 1, 1]), rr("mail.example.com.", 15, 5, vec![It::B(vec![0, 5]), n_it("www.example.com.")])], all(128)));
        c.push((vec![Sym::LimCur(d), qq(".", 1), Sym::LimCur(d), g(3), Sym::C(Op::O { udp: 512, rc: None, ver: 0, dok: false, opts: vec![] }), Sym::LimNext(d), qq("a.", 1),
            Sym::LimNext(d), Sym::C(Op::O { udp: 512, rc: None, ver: 0, dok: false, opts: vec![(10, vec![1, 2, 3, 4, 5, 6, 7, 8])] }), g(0), Sym::LimNext(d), qq("a.", 1)], all(128)));
    }
    // failed push, then the same names again: the compressor must have forgotten them
    for d in [0i64, -5, -20] {
        c.push((vec![qq("com.", 6), g(1), Sym::LimNext(d),
            rr("a.b.example.com.", 6, 5, vec![n_it("x.a.b.example.com."), n_it("y.example.com."), It::B(soa20.clone())]),
            Sym::C(Op::NL), a_rr("y.example.com.", 5, [1, 1, 1, 1]), rr("a.b.example.com.", 2, 5, vec![n_it("x.a.b.example.com.")]),
            rr("a.b.example.com.", 6, 5, vec![n_it("x.a.b.example.com."), n_it("y.example.com."), It::B(soa20.clone())])], all(128)));
    }
    c.push((vec![g(2), rr("a.b.example.com.", 6, 5, vec![n_it("x.a.b.example.com."), n_it("y.example.com."), It::B(soa20.clone())]),
        rr("q.example.com.", 16, 5, vec![It::Z(100, 0x41)]),
        a_rr("y.example.com.", 5, [1, 1, 1, 1]), rr("a.b.example.com.", 2, 5, vec![n_it("x.a.b.example.com.")])], combos(&['a'], &ALLK, 128)));
    // rewind / section changes / restart, then the same names again
    c.push((vec![qq("example.com.", 1), g(1), rr("www.example.com.", 5, 1, vec![n_it("mail.example.com.")]), a_rr("mail.example.com.", 1, [1, 1, 1, 1]),
        Sym::C(Op::W), a_rr("mail.example.com.", 1, [1, 1, 1, 1]), rr("www.example.com.", 5, 1, vec![n_it("mail.example.com.")]),
        g(3), a_rr("ns1.mail.example.com.", 1, [2, 2, 2, 2]), g(0), qq("mail.example.com.", 28), g(2),
        rr("example.com.", 2, 1, vec![n_it("ns1.mail.example.com.")]), Sym::C(Op::B), qq("www.example.com.", 1), g(3),
        rr("ns1.mail.example.com.", 5, 1, vec![n_it("www.example.com.")]), Sym::C(Op::W), Sym::C(Op::W),
        rr("ns1.mail.example.com.", 5, 1, vec![n_it("www.example.com.")])], all(512)));
    c.push((vec![qq("a.b.", 1), qq("b.", 1), Sym::C(Op::W), qq("b.", 1), qq("a.b.", 1), g(1), g(0), Sym::C(Op::W), qq("c.a.b.", 1)], all(128)));
    // OPT
    c.push((vec![g(3), a_rr("example.com.", 1, [1, 1, 1, 1]),
        Sym::C(Op::O { udp: 1232, rc: None, ver: 0, dok: false, opts: vec![(10, vec![1, 2, 3, 4, 5, 6, 7, 8]), (8, vec![0, 1, 24, 0, 192, 0, 2]), (65001, vec![])] }),
        Sym::C(Op::O { udp: 0, rc: None, ver: 0, dok: false, opts: vec![] }), a_rr("example.com.", 1, [1, 1, 1, 1]), Sym::C(Op::W), Sym::C(Op::O { udp: 65535, rc: None, ver: 0, dok: false, opts: vec![(0, vec![0xff; 40])] })], all(128)));
    c.push((vec![qq("example.com.", 1), g(3), Sym::C(Op::O { udp: 4096, rc: None, ver: 0, dok: false, opts: vec![(3, b"example".to_vec())] }),
        Sym::C(Op::O { udp: 4096, rc: None, ver: 0, dok: false, opts: vec![] }), Sym::C(Op::W), Sym::C(Op::O { udp: 4096, rc: None, ver: 0, dok: false, opts: vec![] })], combos(&['a'], &ALLK, 40)));
    c.push((vec![g(3), Sym::C(Op::O { udp: 4096, rc: None, ver: 0, dok: false, opts: vec![(3, vec![7; 13]), (4, vec![])] }), Sym::C(Op::O { udp: 4096, rc: None, ver: 0, dok: false, opts: vec![(3, vec![7; 13])] }),
        Sym::C(Op::O { udp: 1, rc: None, ver: 0, dok: false, opts: vec![(3, vec![7; 12])] }), Sym::C(Op::W), Sym::C(Op::O { udp: 1, rc: None, ver: 0, dok: false, opts: vec![(3, vec![7; 9]), (5, vec![])] })], combos(&['a'], &ALLK, 40)));
    // OPT whose options exceed 65535 octets in total
    c.push((vec![qq("example.com.", 1), g(3), Sym::C(Op::O { udp: 1232, rc: None, ver: 0, dok: false, opts: vec![(1, vec![0x55; 32766]), (2, vec![0xaa; 32766])] }),
        Sym::C(Op::O { udp: 1232, rc: None, ver: 0, dok: false, opts: vec![(1, vec![0x55; 32766]), (2, vec![0xaa; 32761])] }), a_rr("example.com.", 1, [1, 1, 1, 1])],
        vec![('v', 'n', 0), ('v', 'h', 0), ('s', 't', 0), ('b', 's', 0)]));
    // ops that the current section does not have (observed as `-`), a record in each section
    c.push((vec![qq("example.com.", 1), a_rr("example.com.", 1, [1, 1, 1, 1]), Sym::C(Op::O { udp: 1, rc: None, ver: 0, dok: false, opts: vec![] }), g(1), a_rr("example.com.", 1, [1, 1, 1, 1]),
        qq("example.com.", 1), Sym::C(Op::O { udp: 1, rc: None, ver: 0, dok: false, opts: vec![] }), g(2), rr("example.com.", 2, 1, vec![n_it("a.example.com.")]), g(3),
        a_rr("a.example.com.", 1, [1, 1, 1, 1]), Sym::C(Op::O { udp: 1, rc: None, ver: 0, dok: false, opts: vec![] }), qq("example.com.", 1)], all(512)));
    // maximal names
    for (i, m) in pool.maximal.iter().enumerate() {
        let cv = m.to_ascii_uppercase();
        c.push((vec![Sym::C(Op::Q { name: m.clone(), qt: 1, qc: 1 }), g(1), rrw(m.clone(), 5, 1, vec![It::N(cv.clone())]),
            rrw(parent(m), 2, 1, vec![It::N(m.clone()), It::U(cv.clone())]), rrw(cv, 1, 1, vec![It::B(vec![1, 2, 3, 4])])],
            if i < 2 {
                all(512)
            } else if i < 7 {
                combos(&['v', 'a', 's'], &ALLK, 512)
            } else {
                let mut v = combos(&['v'], &ALLK, 0);
                v.push(('s', 'h', 0));
                v.push(('a', 's', 512));
                v
            }));
    }
    // case and odd octets
    c.push((vec![qq("example.com.", 1), g(1), a_rr("EXAMPLE.COM.", 1, [1, 1, 1, 1]), rr("Example.Com.", 2, 1, vec![n_it("WWW.example.COM.")]),
        a_rr("www.EXAMPLE.com.", 1, [1, 1, 1, 1]), rr("eXAMPLE.cOM.", 33, 1, vec![It::B(vec![0, 1, 0, 2, 0, 53]), It::U(nm("www.example.com."))]),
        rr("www.example.com.", 5, 1, vec![n_it("example.com.")])], all(512)));
    {
        let odd = |l: &[u8], suffix: &str| -> Wire { prepend(l, &nm(suffix)).unwrap_or_else(|| nm(suffix)) };
        c.push((vec![Sym::C(Op::Q { name: odd(&[0xc0, 0x0c], "com."), qt: 1, qc: 1 }), g(1),
            rrw(odd(&[0x41], "com."), 1, 1, vec![It::B(vec![1, 1, 1, 1])]), rrw(odd(&[0x61], "com."), 1, 1, vec![It::B(vec![1, 1, 1, 2])]),
            rrw(odd(&[0x5b], "com."), 2, 1, vec![It::N(odd(&[0x7b], "com."))]), rrw(odd(&[0x40], "com."), 2, 1, vec![It::N(odd(&[0x60], "com."))]),
            rrw(odd(&[0], "com."), 2, 1, vec![It::N(odd(&[0x2e], "com."))]), rrw(odd(&[0xff], &"com."), 2, 1, vec![It::N(odd(&[0xc0, 0x0c], "com."))]),
            rrw(odd(&[0], "com."), 2, 1, vec![It::N(odd(&[0, 0], "com."))])], all(512)));
    }
    // uncompressed names are not offered for compression but may be compressed against
    c.push((vec![g(1), rr("srv.example.net.", 33, 1, vec![It::B(vec![0; 6]), It::U(nm("target.example.net."))]),
        rr("target.example.net.", 2, 1, vec![n_it("target.example.net.")]), rr("example.net.", 33, 1, vec![It::B(vec![0; 6]), It::U(nm("example.net."))])], all(128)));
    // record data longer than 65535 octets
    c.push((vec![g(1), Sym::C(Op::R { owner: nm("."), rt: 10, cl: 1, ttl: 0, pfx: 1, items: vec![It::Z(40000, 1), It::Z(30000, 2)] })],
        vec![('v', 'n', 0), ('b', 't', 0), ('s', 's', 0)]));
    c.push((vec![g(1), Sym::C(Op::R { owner: nm("."), rt: 10, cl: 1, ttl: 0, pfx: 0, items: vec![It::Z(65536, 1)] })],
        vec![('v', 's', 0), ('s', 'n', 0), ('a', 'h', 128)]));
    c.push((vec![g(1), Sym::C(Op::R { owner: nm("."), rt: 10, cl: 1, ttl: 0, pfx: 0, items: vec![It::Z(65535, 1)] }),
        Sym::C(Op::R { owner: nm("."), rt: 10, cl: 1, ttl: 0, pfx: 1, items: vec![It::Z(65535, 1)] })],
        vec![('v', 'h', 0), ('s', 'n', 0), ('b', 'n', 0)]));
    c.push((vec![qq("example.com.", 1), g(1), Sym::C(Op::R { owner: nm("."), rt: 10, cl: 1, ttl: 0, pfx: 0, items: vec![It::Z(65530, 1), n_it("example.com.")] })],
        vec![('v', 'n', 0), ('v', 's', 0), ('v', 't', 0), ('v', 'h', 0), ('s', 'n', 0), ('s', 'h', 0)]));
    // ---- widening round -------------------------------------------------
    let typed = |owner: &str, rt: u16, ttl: u32, items: Vec<It>| Sym::C(Op::R { owner: nm(owner), rt, cl: 1, ttl, pfx: 2, items });
    let soa_typed = typed(".", 6, 86390, vec![n_it("a.root-servers.net."), n_it("nstld.verisign-grs.com."), It::B(soa20.clone())]);
    // the golden SOA test through the library's Soa type
    c.push((vec![qq("example.", 2), g(2), soa_typed.clone()], all(128)));
    // all eight typed record data kinds, with names repeating earlier ones
    let eight = vec![qq("example.com.", 255), g(1),
        typed("example.com.", 1, 0x8000_0000, vec![It::B(vec![192, 0, 2, 1])]),
        typed("example.com.", 28, 0xFFFF_FFFF, vec![It::B(vec![0x20, 1, 0xd, 0xb8, 0, 0, 0, 0, 0, 0, 0, 0, 0, 0, 0, 1])]),
        typed("example.com.", 2, 3600, vec![n_it("ns.example.com.")]),
        typed("www.example.com.", 5, 3600, vec![n_it("EXAMPLE.com.")]),
        g(2),
        typed("1.2.0.192.in-addr.arpa.", 12, 0x7FFF_FFFF, vec![n_it("www.example.com.")]),
        typed("example.com.", 15, 3600, vec![It::B(vec![0, 10]), n_it("mail.example.com.")]),
        typed("example.com.", 6, 0x8000_0001, vec![n_it("ns.example.com."), n_it("hostmaster.example.com."), It::B(soa20.clone())]),
        g(3),
        typed("_sip._tcp.example.com.", 33, 60, vec![It::B(vec![0, 1, 0, 2, 0x13, 0xc4]), It::U(nm("sip.example.com."))]),
        typed("sip.example.com.", 1, 60, vec![It::B(vec![192, 0, 2, 9])])];
    c.push((eight.clone(), { let mut v = combos(&['v', 's', 'b'], &ALLK, 0); v.extend(combos(&['a'], &ALLK, 128)); v.extend(combos(&['a'], &ALLK, 512)); v }));
    // record TTLs with the top bit set in every record section, typed and raw
    c.push((vec![g(1), a_rr("a.", 0x8000_0000, [1, 1, 1, 1]), rr("a.", 2, 0xFFFF_FFFF, vec![n_it("b.a.")]), g(2),
        a_rr("a.", 0xFFFF_FFFF, [1, 1, 1, 2]), typed("a.", 15, 0x8000_0000, vec![It::B(vec![0, 1]), n_it("b.a.")]), g(3),
        a_rr("b.a.", 0x8000_0001, [1, 1, 1, 3]), typed("b.a.", 1, 0xFFFF_FFFE, vec![It::B(vec![1, 1, 1, 4])])], all(128)));
    // OPT header fields with high bits: ext rcode 0xFF, version 255, DO, all of them; header rcode nibble
    for (rc, ver, dok) in [(Some(0x0FF0u16), 0u8, false), (None, 255, false), (None, 0, true), (Some(0x0FFF), 255, true), (Some(0x0800), 0x80, true), (Some(0x0ABC), 3, false)] {
        c.push((vec![Sym::C(Op::H([0x12, 0x34, 0x85, 0xA5])), qq("example.com.", 1), g(3),
            Sym::C(Op::O { udp: 1232, rc, ver, dok, opts: vec![(10, vec![1, 2, 3, 4, 5, 6, 7, 8])] }), a_rr("example.com.", 1, [1, 1, 1, 1])],
            { let mut v = combos(&['v', 's'], &ALLK, 0); v.push(('a', 's', 128)); v }));
    }
    // a failing opt() whose closure set the extended rcode: the header RCODE must be what it was
    c.push((vec![Sym::C(Op::H([0, 0, 0, 0x05])), g(3), Sym::C(Op::L(20)), Sym::C(Op::O { udp: 1232, rc: Some(0x0ABC), ver: 0, dok: false, opts: vec![] }),
        Sym::C(Op::NL), Sym::C(Op::O { udp: 1232, rc: Some(0x0123), ver: 1, dok: true, opts: vec![] })], combos(&['v', 's'], &['n', 'h'], 0)));
    c.push((vec![g(3), Sym::C(Op::O { udp: 1232, rc: Some(0x0FF7), ver: 0, dok: false, opts: vec![(3, vec![7; 40])] }), a_rr("a.", 1, [1, 1, 1, 1])],
        combos(&['a'], &ALLK, 40)));
    // header setters: every single bit, all ones, interleaved with pushes and rewinds
    let mut hs = vec![qq("example.com.", 1)];
    for bit in 0..32u32 {
        hs.push(Sym::C(Op::H((1u32 << bit).to_be_bytes())));
        if bit % 8 == 7 {
            hs.push(g(1 + (bit / 8 % 3) as u8));
            hs.push(a_rr("example.com.", bit, [1, 1, 1, 1]));
        }
    }
    hs.push(Sym::C(Op::H([0xFF; 4])));
    hs.push(Sym::C(Op::B));
    hs.push(qq("example.com.", 1));
    c.push((hs, { let mut v = combos(&['v', 's'], &ALLK, 0); v.push(('a', 'n', 512)); v }));
    // a name remembered exactly AT the offset the builder later truncates to must be
    // forgotten: failed push / rewind / conversion / builder(), then a different name Z of the
    // same shape at that offset, then Y again (as owner and inside record data)
    for (y, z) in [("yyy.test.", "zzz.test."), ("yyy.example.com.", "zzz.example.com."), ("yyy.", "zzz."), ("a.yyy.other.", "b.zzz.other.")] {
        let tail = vec![a_rr(z, 1, [2, 2, 2, 2]), a_rr(y, 1, [3, 3, 3, 3]), rr(y, 2, 1, vec![n_it(y)]), rr(z, 15, 1, vec![It::B(vec![0, 1]), n_it(y)])];
        let bcombos = { let mut v = combos(&['v', 's'], &ALLK, 0); v.extend(combos(&['a'], &ALLK, 128)); v };
        // (a) failed push at an exact limit
        let mut a = vec![qq("example.com.", 1), g(1), Sym::LimNext(0), a_rr(y, 1, [1, 1, 1, 1]), Sym::C(Op::NL)];
        a.extend(tail.clone());
        c.push((a, bcombos.clone()));
        // (b) rewind of the section whose first record starts with Y
        let mut b = vec![qq("example.com.", 1), g(1), a_rr(y, 1, [1, 1, 1, 1]), Sym::C(Op::W)];
        b.extend(tail.clone());
        c.push((b, bcombos.clone()));
        // (c) conversion back from a later section / builder()
        let mut cc = vec![qq("example.com.", 1), g(1), a_rr("example.com.", 1, [9, 9, 9, 9]), g(2), rr(y, 2, 1, vec![n_it(y)]), g(3), a_rr(y, 1, [1, 1, 1, 1]), g(1)];
        cc.extend(tail.clone());
        c.push((cc, bcombos.clone()));
        let mut d = vec![qq(y, 1), g(1), a_rr(y, 1, [1, 1, 1, 1]), Sym::C(Op::B), qq(z, 1), qq(y, 1), g(1)];
        d.extend(tail.clone());
        c.push((d, bcombos.clone()));
        // (d) the name sits in the record data of the failed push
        let mut e = vec![qq("example.com.", 1), g(2), Sym::LimNext(-1), rr("example.com.", 2, 1, vec![n_it(y)]), Sym::C(Op::NL), rr("example.com.", 2, 1, vec![n_it(z)])];
        e.extend(tail.clone());
        c.push((e, bcombos));
    }
    // every direct conversion (from, to) with pushes in all sections before and a push after
    for from in 0..4u8 {
        for to in 0..5u8 {
            let mut sc = vec![qq("example.com.", 1)];
            if from >= 1 { sc.push(g(1)); sc.push(a_rr("example.com.", 1, [1, 1, 1, 1])); sc.push(rr("www.example.com.", 5, 1, vec![n_it("example.com.")])); }
            if from >= 2 { sc.push(g(2)); sc.push(rr("example.com.", 2, 1, vec![n_it("ns.example.com.")])); }
            if from >= 3 { sc.push(g(3)); sc.push(a_rr("ns.example.com.", 1, [1, 1, 1, 2])); sc.push(Sym::C(Op::O { udp: 1232, rc: None, ver: 0, dok: true, opts: vec![] })); }
            let dest = if to == 4 { sc.push(Sym::C(Op::B)); 0 } else { sc.push(g(to)); to };
            if dest == 0 { sc.push(qq("ns.example.com.", 28)); } else { sc.push(rr("ns.example.com.", 2, 7, vec![n_it("www.example.com.")])); }
            sc.push(g(3));
            sc.push(a_rr("www.example.com.", 1, [1, 1, 1, 3]));
            c.push((sc, combos(&['v', 's'], &ALLK, 0)));
        }
    }

    // start_answer / start_error / request_axfr as script operations: from every section, with
    // header flags set before, questions that fit and that do not (tiny array, push limit)
    let sq = |n: &str, t: u16| (nm(n), t, 1u16);
    for kind in 0..3u8 {
        for from in 0..4u8 {
            let mut sc = vec![Sym::C(Op::H([0xAA, 0x55, 0x06, 0xF7])), qq("old.example.", 1)];
            if from >= 1 { sc.push(g(from)); sc.push(a_rr("old.example.", 1, [1, 1, 1, 1])); }
            sc.push(Sym::C(Op::S { kind, id: 0x1234, opcode: 5, rd: true, rcode: 3, qs: vec![sq("example.com.", 1), sq("www.example.com.", 28)] }));
            sc.push(a_rr("www.EXAMPLE.com.", 60, [2, 2, 2, 2]));
            sc.push(g(3));
            sc.push(Sym::C(Op::O { udp: 1232, rc: Some(0x0801), ver: 0, dok: true, opts: vec![] }));
            c.push((sc, { let mut v = combos(&['v', 's'], &ALLK, 0); v.extend(combos(&['a'], &['n', 's'], 128)); v }));
        }
        // questions that do not fit: capacity, and a push limit reached by the second question
        c.push((vec![Sym::C(Op::S { kind, id: 7, opcode: 0, rd: false, rcode: 0, qs: vec![sq("example.com.", 1), sq("a-rather-long-label.example.com.", 1), sq("example.com.", 2)] }),
            a_rr("example.com.", 1, [1, 1, 1, 1])], combos(&['a'], &ALLK, 40)));
        c.push((vec![Sym::C(Op::L(40)), Sym::C(Op::S { kind, id: 7, opcode: 2, rd: true, rcode: 5, qs: vec![sq("example.com.", 1), sq("other.test.", 1), sq("example.com.", 2)] }),
            Sym::C(Op::NL), a_rr("example.com.", 1, [1, 1, 1, 1])], combos(&['v', 's'], &ALLK, 0)));
        c.push((vec![Sym::C(Op::S { kind, id: 0xFFFF, opcode: 15, rd: true, rcode: 15, qs: vec![] }), a_rr(".", 1, [1, 1, 1, 1])], combos(&['v'], &ALLK, 0)));
    }

    // heapless and smallvec targets: golden tests, typed records, exact fit and one over, a failed
    // push followed by the same names, OPT
    let pm = { let mut v = combos(&['p'], &ALLK, 40); v.extend(combos(&['p'], &ALLK, 128)); v.extend(combos(&['m'], &ALLK, 0)); v };
    c.push((vec![qq("example.com.", 1), g(1), a_rr("example.com.", 3600, [203, 0, 113, 1])], pm.clone()));
    c.push((eight.clone(), { let mut v = combos(&['p'], &ALLK, 512); v.extend(combos(&['m'], &ALLK, 0)); v }));
    c.push((vec![qq("example.com.", 1), g(1), Sym::LimNext(0), a_rr("yyy.example.com.", 1, [1, 1, 1, 1]), Sym::C(Op::NL), a_rr("zzz.example.com.", 1, [2, 2, 2, 2]),
        a_rr("yyy.example.com.", 1, [3, 3, 3, 3]), g(3), Sym::C(Op::O { udp: 1232, rc: Some(0x0FF3), ver: 2, dok: true, opts: vec![(3, vec![6; 5])] }),
        a_rr("yyy.example.com.", 1, [4, 4, 4, 4]), a_rr("zzz.example.com.", 1, [5, 5, 5, 5]), Sym::C(Op::W), a_rr("example.com.", 1, [6, 6, 6, 6])], pm.clone()));
    for cap in [40usize, 128] {
        // fill to exactly cap and to cap + 1
        c.push((vec![g(1), Sym::Pad { owner: nm("."), rt: 16, cl: 1, ttl: 0, pfx: 0, items: vec![It::Z(0, 7)], slot: 0, to: cap }, a_rr(".", 1, [1, 1, 1, 1]), Sym::C(Op::W),
            Sym::Pad { owner: nm("."), rt: 16, cl: 1, ttl: 0, pfx: 1, items: vec![It::Z(0, 7)], slot: 0, to: cap + 1 }, a_rr(".", 1, [1, 1, 1, 1])], combos(&['p'], &ALLK, cap)));
    }

    c
}

// ------------------------------- start_answer / start_error / request_axfr

fn set_header(hd: &mut domain::base::Header, h: [u8; 4]) {
    hd.set_id(u16::from_be_bytes([h[0], h[1]]));
    hd.set_qr(h[2] & 0x80 != 0);
    hd.set_opcode(Opcode::from_int((h[2] >> 3) & 0x0F));
    hd.set_aa(h[2] & 0x04 != 0);
    hd.set_tc(h[2] & 0x02 != 0);
    hd.set_rd(h[2] & 0x01 != 0);
    hd.set_ra(h[3] & 0x80 != 0);
    hd.set_z(h[3] & 0x40 != 0);
    hd.set_ad(h[3] & 0x20 != 0);
    hd.set_cd(h[3] & 0x10 != 0);
    hd.set_rcode(Rcode::masked_from_int(h[3] & 0x0F));
}

/// Oracle-only cases (no model counterpart): the three convenience
/// constructors are header setters + question pushes + `.answer()`.
fn start_case<T: Tgt>(out: &mut Out, r: &mut Rng, pool: &Pool, mk: impl Fn() -> T, label: &str) {
    let nq = r.below(4) as usize;
    let mut qs: Vec<EQ> = Vec::new();
    for _ in 0..nq {
        let mut w = r.pick(&pool.suffixes).clone();
        if r.chance(2, 3) {
            let l = r.pick(&pool.labels).clone();
            if let Some(n) = prepend(&l, &w) { w = n; }
        }
        qs.push(EQ { name: w, qt: *r.pick(&[1u16, 28, 255, 6, 252]), qc: *r.pick(&[1u16, 1, 3, 255]) });
    }
    let sh = r.u32().to_be_bytes();
    let prev = r.u32().to_be_bytes();
    let rc = r.below(16) as u8;
    let limit = if r.chance(1, 2) { Some(r.range(12, 90) as usize) } else { None };
    let mode = r.below(3);
    let case = format!("start {} mode={} src_hdr={} prev_hdr={} rcode={} limit={:?} questions={}", label, mode, hexraw(&sh), hexraw(&prev), rc, limit,
        qs.iter().map(|q| format!("{}/{}/{}", hexraw(&q.name), q.qt, q.qc)).collect::<Vec<_>>().join(","));
    out.begin(&case);
    // the source query; uncompressed, so that every name keeps its own ASCII case
    // (a case-insensitive compressor would hand back the case of an earlier name,
    // and the expectation below is computed from the names as generated)
    let src = {
        let mut mb = match MessageBuilder::from_target(Vec::<u8>::new()) { Ok(m) => m, Err(_) => return };
        set_header(mb.header_mut(), sh);
        let mut qb = mb.question();
        for q in &qs {
            let _ = qb.push((to_name(&q.name), Rtype::from_int(q.qt), Class::from_int(q.qc)));
        }
        match Message::from_octets(qb.finish()) { Ok(m) => m, Err(_) => return }
    };
    let mut b = match MessageBuilder::from_target(mk()) { Ok(m) => m, Err(_) => return };
    set_header(b.header_mut(), prev);
    if let Some(l) = limit { b.set_push_limit(l); }
    // how many questions fit: the same pushes on a copy
    let fit = {
        let mut qb = b.clone().question();
        let mut k = 0usize;
        for q in &qs {
            if qb.push((to_name(&q.name), Rtype::from_int(q.qt), Class::from_int(q.qc))).is_err() { break; }
            k += 1;
        }
        k
    };
    let class: &'static str = match mode { 0 => "start_answer_wrong", 1 => "start_error_wrong", _ => "request_axfr_wrong" };
    let check_msg = |out: &mut Out, m: &[u8], want_q: &[EQ], want_h23: [u8; 2], want_id: Option<[u8; 2]>| {
        let mut acc = Acc::default();
        for q in want_q { acc.q.push(EQ { name: q.name.clone(), qt: q.qt, qc: q.qc }); }
        match reparse(m, &acc) {
            Ok(_) => out.check(true, class, &case, ""),
            Err((_, d)) => out.check(false, class, &case, &format!("re-parse: {}", d)),
        }
        out.check(m.len() >= 12 && m[2] == want_h23[0] && m[3] == want_h23[1], class, &case,
            &format!("header flags {} wanted {}", hexraw(&m[2..4.min(m.len())]), hexraw(&want_h23)));
        if let Some(id) = want_id {
            out.check(m[..2] == id, class, &case, &format!("id {} wanted {}", hexraw(&m[..2]), hexraw(&id)));
        }
    };
    // qr set, opcode and rd from the query, rcode as given, aa/tc/ra/z/ad/cd as before
    let flags = |rcode: u8| [0x80 | (sh[2] & 0x78) | (prev[2] & 0x06) | (sh[2] & 0x01), (prev[3] & 0xF0) | (rcode & 0x0F)];
    match mode {
        0 => match catch_mut(|| b.start_answer(&src, Rcode::masked_from_int(rc))) {
            Err(p) => out.check(false, class, &case, &format!("panic {}", p)),
            Ok(Ok(ab)) => {
                out.check(fit == nq, class, &case, &format!("Ok although only {} of {} questions fit", fit, nq));
                check_msg(out, ab.as_slice(), &qs, flags(rc), Some([sh[0], sh[1]]));
            }
            Ok(Err(_)) => out.check(fit < nq, class, &case, "Err although every question fits"),
        },
        1 => match catch_mut(|| b.start_error(&src, Rcode::masked_from_int(rc))) {
            Err(p) => out.check(false, class, &case, &format!("panic {}", p)),
            Ok(ab) => check_msg(out, ab.as_slice(), &qs[..fit], flags(if fit < nq { 2 } else { rc }), Some([sh[0], sh[1]])),
        },
        _ => {
            let apex = if nq > 0 { qs[0].name.clone() } else { vec![0u8] };
            let one = {
                let mut qb = b.clone().question();
                qb.push((to_name(&apex), Rtype::from_int(252), Class::from_int(1))).is_ok()
            };
            match catch_mut(|| b.request_axfr(to_name(&apex))) {
                Err(p) => out.check(false, class, &case, &format!("panic {}", p)),
                Ok(Ok(ab)) => {
                    out.check(one, class, &case, "Ok although the question does not fit");
                    check_msg(out, ab.as_slice(), &[EQ { name: apex.clone(), qt: 252, qc: 1 }], [prev[2], prev[3]], None);
                }
                Ok(Err(_)) => out.check(!one, class, &case, "Err although the question fits"),
            }
        }
    }
    out.oracle_case(&case, true, "start_helpers");
}

fn start_cases(out: &mut Out, r: &mut Rng, pool: &Pool, n: u64) {
    for i in 0..n {
        match i % 8 {
            0 => start_case(out, r, pool, || Vec::<u8>::new(), "v.n"),
            1 => start_case(out, r, pool, || StaticCompressor::new(Vec::<u8>::new()), "v.s"),
            2 => start_case(out, r, pool, || TreeCompressor::new(BytesMut::new()), "b.t"),
            3 => start_case(out, r, pool, || HashCompressor::new(StreamTarget::new_vec()), "s.h"),
            4 => start_case(out, r, pool, || Array::<40>::default(), "a40.n"),
            5 => start_case(out, r, pool, || StaticCompressor::new(Array::<40>::default()), "a40.s"),
            6 => start_case(out, r, pool, || HashCompressor::new(Array::<128>::default()), "a128.h"),
            _ => start_case(out, r, pool, || StreamTarget::new_vec(), "s.n"),
        }
    }
}

// ------------------------------------------------------ count overflow case

fn count_overflow(out: &mut Out) {
    let case = "oracle: 65536 root questions into a Vec without compressor";
    out.begin(case);
    let mut b = MessageBuilder::new_vec().question();
    let root = Name::root_vec();
    let mut bad = None;
    for i in 0..65535u32 {
        if b.push((&root, Rtype::from_int(1), Class::from_int(1))).is_err() {
            bad = Some(i);
            break;
        }
    }
    out.check(bad.is_none(), "count_overflow_wrong", case, &format!("push number {:?} failed", bad.map(|i| i + 1)));
    if bad.is_none() {
        let before = b.as_slice().to_vec();
        let r = b.push((&root, Rtype::from_int(1), Class::from_int(1)));
        out.check(matches!(r, Err(PushError::CountOverflow)), "count_overflow_wrong", case, &format!("push number 65536 returned {:?}", r));
        out.check(b.as_slice() == &before[..], "count_overflow_wrong", case, "octets changed by the failed push");
        out.check(b.counts().qdcount() == 65535, "count_overflow_wrong", case, &format!("qdcount {}", b.counts().qdcount()));
        out.check(b.as_slice().len() == 12 + 5 * 65535, "count_overflow_wrong", case, &format!("length {}", b.as_slice().len()));
    }
    out.oracle_case(case, true, "oracle.count_overflow");
}

/// `n` distinct names (one fresh label each under two or three shared suffixes),
/// with re-pushes of earlier names in another ASCII case, as questions; then a
/// few records whose owners and compressible record data are earlier names.
fn many_names(r: &mut Rng, n: usize) -> Vec<Sym> {
    let sufs = ["grow.test.", "Grow.Test.", "other.example."];
    let mut names: Vec<String> = Vec::with_capacity(n);
    let mut v: Vec<Sym> = Vec::with_capacity(n + n / 5 + 16);
    for i in 0..n {
        let l = match r.below(3) { 0 => format!("x{}", i), 1 => format!("host-{:x}", i), _ => format!("N{}y", i) };
        let name = format!("{}.{}", l, sufs[r.below(3) as usize]);
        v.push(qq(&name, 1));
        names.push(name);
        if i % 6 == 5 {
            let old = &names[r.below(names.len() as u64) as usize];
            let again = if r.chance(1, 2) { old.to_ascii_uppercase() } else { old.to_ascii_lowercase() };
            v.push(qq(&again, 28));
        }
    }
    v.push(g(1));
    for _ in 0..6 {
        let o = names[r.below(names.len() as u64) as usize].to_ascii_uppercase();
        let tgt = names[r.below(names.len() as u64) as usize].clone();
        v.push(rr(&o, 5, 60, vec![n_it(&tgt)]));
    }
    v.push(g(3));
    let o = names[r.below(names.len() as u64) as usize].clone();
    v.push(a_rr(&o, 1, [192, 0, 2, 7]));
    v
}

/// T2 case `cnt <n>`: n root questions into a Vec without compressor; observed:
/// qdcount, message length, result of push number n.
fn count_case(out: &mut Out, n: u32) {
    let case = format!("cnt {}", n);
    out.begin(&case);
    let mut b = MessageBuilder::new_vec().question();
    let root = Name::root_vec();
    let mut last = "ok";
    for _ in 0..n {
        last = match b.push((&root, Rtype::from_int(1), Class::from_int(1))) {
            Ok(()) => "ok",
            Err(PushError::CountOverflow) => "count",
            Err(PushError::ShortBuf) => "short",
            Err(PushError::LimitExceeded) => "limit",
        };
    }
    let obs = format!("CNT C={} N={} R={}", b.counts().qdcount(), b.as_slice().len(), last);
    out.case(&case, &obs, true, "v.n.count");
}

// -------------------------------------------------------------------- main

fn main() {
    let a = args();
    let mut out = Out::new(&a, "C02", 120);
    let mut r = Rng::new(a.seed);
    let pool = pool();
    let mul = a.scale * if a.thorough { 20 } else { 1 };
    // the extracted model (lists, unary positions) needs about 0.5 s (big) and
    // 1 s (huge) per case: 8/3 scripts x 4 compressors in the quick tier, x8 in thorough
    let mul_big = a.scale * if a.thorough { 8 } else { 1 };
    let mut idx = 0u64;

    for (script, combos) in corpus(&pool) {
        for (t, k, cap) in combos {
            idx += 1;
            if !out.wants(idx) {
                continue;
            }
            dispatch(&mut out, &Ctx { t, k, cap, size: "corpus", script: &script });
        }
    }

    // (number of scripts, size label); every script runs under the four compressors
    let plan: [(u64, &str); 4] = [(600 * mul, "small"), (60 * mul, "medium"), (8 * mul_big, "big"), (3 * mul_big, "huge")];
    for (n, size) in plan {
        for j in 0..n {
            let mut gr = r.fork();
            let mut gen = Gen { r: &mut gr, pool: &pool, used: Vec::new() };
            let (script, t, cap) = match size {
                "small" => {
                    let m = gen.r.below(40) + 1;
                    let n = 1 + gen.r.below(m) as usize;
                    let t = ['v', 'b', 'a', 's', 'p', 'm'][(j % 6) as usize];
                    let cap = if t == 'a' || t == 'p' { *gen.r.pick(&[40usize, 128, 128, 512]) } else { 0 };
                    (gen.script(n, Size::Small), t, cap)
                }
                "medium" => {
                    let n = 4 + gen.r.below(37) as usize;
                    let t = ALLT[(j % 4) as usize];
                    (gen.script(n, Size::Medium), t, if t == 'a' { 512 } else { 0 })
                }
                "big" => (gen.big(), ['v', 's', 'b'][(j % 3) as usize], 0),
                _ => (gen.huge(), ['s', 'v', 'b'][(j % 3) as usize], 0),
            };
            let script: Vec<Sym> = script.into_iter().take(40).collect();
            for k in ALLK {
                idx += 1;
                if !out.wants(idx) {
                    continue;
                }
                dispatch(&mut out, &Ctx { t, k, cap, size, script: &script });
            }
        }
    }

    // hashbrown growth: many distinct names under the hash compressor make the
    // table grow and rehash several times (capacity 3, 7, 14, 28, 56, 112, 224,
    // 448, 896, 1792 ...); earlier names are pushed again in between, in another
    // ASCII case, so lookups after a rehash must still find them
    let grow: &[(usize, char)] = if a.thorough { &[(160, 'v'), (160, 's'), (1100, 'v')] } else { &[(300, 'v'), (160, 's')] };
    for &(n, t) in grow {
        let mut gr = r.fork();
        let script = many_names(&mut gr, n);
        idx += 1;
        if !out.wants(idx) {
            continue;
        }
        dispatch(&mut out, &Ctx { t, k: 'h', cap: 0, size: "grow", script: &script });
    }

    if a.only.is_none() {
        let mut sr = r.fork();
        start_cases(&mut out, &mut sr, &pool, 160 * mul);
    }
    if a.thorough {
        idx += 1;
        if out.wants(idx) {
            count_overflow(&mut out);
        }
        // the same ceiling as T2 cases: the model side is count arithmetic
        for n in [65535u32, 65536, 65600] {
            idx += 1;
            if out.wants(idx) {
                count_case(&mut out, n);
            }
        }
    }
    out.finish(&[("scripts_times_compressors", format!("{}", idx))]);
}
