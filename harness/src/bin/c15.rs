//! C15 -- client transports deliver each answer to its own request, exactly once.
//!
//! Part 1: the outstanding-query table (`Queries` through `QueriesHook`):
//!   correspondence cases for the Coq model and an independent shadow-map oracle.
//! Part 2: `RequestMessage::is_answer` on hand-built messages (T2 + oracle).
//! Part 3: real transports against scripted peers (dgram under a paused tokio
//!   clock with T2 against the receive-loop model; stream::Connection over
//!   in-memory duplex pipes; dgram_stream TC fallback; redundant/load balancer).
use domain::base::iana::Rtype;
use domain::base::{Message, MessageBuilder, Name};
use domain::net::client::protocol::{AsyncConnect, AsyncDgramRecv, AsyncDgramSend};
use domain::net::client::request::{
    ComposeRequest, Error, RequestMessage, RequestMessageMulti, SendRequest, SendRequestMulti,
};
use domain::net::client::stream::verif_hooks::QueriesHook;
use domain::net::client::{dgram, dgram_stream, load_balancer, multi_stream, redundant, stream};
use dv_harness::*;
use std::collections::HashMap;
use std::future::Future;
use std::pin::Pin;
use std::sync::{Arc, Mutex};
use std::task::{Context, Poll};
use std::time::Duration;
use tokio::io::{AsyncReadExt, AsyncWriteExt, ReadBuf};

// ===================================================================== part 1

#[derive(Clone, Debug)]
enum Op { Ins(u32), InsAt(u16, u32), Rem(u16), Drain }

fn tok(o: &Op) -> String {
    match o {
        Op::Ins(v) => format!("i{}", v),
        Op::InsAt(i, v) => format!("a{}:{}", i, v),
        Op::Rem(i) => format!("r{}", i),
        Op::Drain => "d".into(),
    }
}

fn bits(s: &[bool]) -> String {
    if s.is_empty() { "-".into() } else { s.iter().map(|b| if *b { '1' } else { '0' }).collect() }
}

/// Shadow of the table used by the oracle: ID -> request.
struct Shadow { live: HashMap<u16, u32>, legal: bool }

/// Apply one operation to the real table; returns the observation token
/// (None = the operation panicked) and runs the oracle.
fn apply(q: &mut QueriesHook<u32>, sh: &mut Shadow, o: &Op, out: &mut Out, case: &str, oracle: bool, deep: bool) -> Option<String> {
    let r = catch_mut(|| match o {
        Op::Ins(v) => match q.insert(*v) { Ok(i) => format!("I{}", i), Err(_) => "IF".to_string() },
        Op::InsAt(i, v) => { q.insert_at(*i, *v); "A".to_string() }
        Op::Rem(i) => match q.try_remove(*i) { Some(v) => format!("R{}", v), None => "R-".to_string() },
        Op::Drain => {
            let l = q.drain();
            if l.is_empty() { "D-".to_string() } else { format!("D{}", l.iter().map(|v| v.to_string()).collect::<Vec<_>>().join(",")) }
        }
    });
    let obs = match r {
        Ok(s) => s,
        Err(e) => {
            // insert_at outside its documented precondition may panic (index out of range)
            if oracle && sh.legal && !matches!(o, Op::InsAt(i, _) if !slot_exists_empty(q, *i)) {
                out.check(false, "panic_queries", case, &format!("{} panicked: {}", tok(o), e));
            }
            return None;
        }
    };
    if !oracle { return Some(obs); }
    match o {
        Op::Ins(v) => {
            if let Some(idx) = obs.strip_prefix('I').and_then(|s| s.parse::<u16>().ok()) {
                if sh.legal {
                    out.check(!sh.live.contains_key(&idx), "id_reused_while_live", case,
                        &format!("insert({}) returned index {} which is still held by request {:?}", v, idx, sh.live.get(&idx)));
                    out.check(sh.live.len() < 32768, "insert_beyond_capacity", case, "insert succeeded with 32768 live requests");
                }
                sh.live.insert(idx, *v);
            } else if sh.legal {
                out.check(sh.live.len() >= 32768, "insert_failed_below_capacity", case,
                    &format!("insert failed with {} live requests", sh.live.len()));
            }
        }
        Op::InsAt(i, v) => {
            // precondition: the slot exists and is empty (checked before the call by the caller of apply)
            sh.live.insert(*i, *v);
        }
        Op::Rem(i) => {
            let want = sh.live.remove(i);
            if sh.legal {
                let got = obs[1..].parse::<u32>().ok();
                out.check(got == want, "remove_wrong_request", case, &format!("try_remove({}) gave {:?}, inserted was {:?}", i, got, want));
            }
        }
        Op::Drain => {
            if sh.legal {
                let mut got: Vec<u32> = if obs == "D-" { vec![] } else { obs[1..].split(',').map(|s| s.parse().unwrap()).collect() };
                let mut want: Vec<u32> = sh.live.values().cloned().collect();
                got.sort(); want.sort();
                out.check(got == want, "drain_mismatch", case, &format!("drain gave {:?}, live were {:?}", got, want));
            }
            sh.live.clear();
        }
    }
    if sh.legal { out.check(q.count() == sh.live.len(), "count_mismatch", case, &format!("count {} but {} live", q.count(), sh.live.len())); }
    if sh.legal && deep {
        let slots = q.slots();
        out.check(q.count() == sh.live.len(), "count_mismatch", case, &format!("count {} but {} live", q.count(), sh.live.len()));
        let occ_ok = slots.iter().enumerate().all(|(i, s)| *s == sh.live.contains_key(&(i as u16)))
            && sh.live.keys().all(|k| (*k as usize) < slots.len());
        out.check(occ_ok, "slot_mismatch", case, "slot occupancy differs from the live IDs");
        out.check(q.curr() <= slots.len() && slots[..q.curr().min(slots.len())].iter().all(|s| *s), "curr_invariant", case,
            &format!("an empty slot below curr={}", q.curr()));
        out.check(slots.len() <= 65534, "vec_too_long", case, &format!("vec length {}", slots.len()));
        out.check(q.is_empty() == sh.live.is_empty(), "is_empty_mismatch", case, "");
    }
    Some(obs)
}

fn slot_exists_empty(q: &QueriesHook<u32>, i: u16) -> bool {
    let s = q.slots();
    (i as usize) < s.len() && !s[i as usize]
}

/// Detailed run: observation/count/curr/occupancy per operation.
fn run_detailed(out: &mut Out, ops: &[Op], kind: &str) {
    let case = format!("q {}", ops.iter().map(tok).collect::<Vec<_>>().join(" "));
    out.begin(&case);
    let mut q = QueriesHook::<u32>::new();
    let mut sh = Shadow { live: HashMap::new(), legal: true };
    let mut obs = Vec::new();
    for o in ops {
        if let Op::InsAt(i, _) = o { if !slot_exists_empty(&q, *i) { sh.legal = false; } }
        match apply(&mut q, &mut sh, o, out, &case, true, true) {
            Some(s) => obs.push(format!("{}/{}/{}/{}", s, q.count(), q.curr(), bits(&q.slots()))),
            None => { obs.push("Panic".into()); break; }
        }
    }
    let line = if obs.is_empty() { "-".to_string() } else { obs.join(" ") };
    out.case(&case, &line, ops.len() >= 2, kind);
}

/// Long run: `prefill` inserts of 0.. first (case `qp`), or from empty (`ql`).
fn run_long(out: &mut Out, prefill: Option<usize>, toks: &[String], ops: &[Op], kind: &str) {
    let case = match prefill {
        Some(n) => format!("qp {} {}", n, toks.join(" ")),
        None => format!("ql {}", toks.join(" ")),
    };
    let short = if case.len() > 200 { format!("{}...", &case[..200]) } else { case.clone() };
    out.begin(&short);
    let mut q = QueriesHook::<u32>::new();
    let mut sh = Shadow { live: HashMap::new(), legal: true };
    if let Some(n) = prefill {
        for k in 0..n { apply(&mut q, &mut sh, &Op::Ins(k as u32), out, &short, true, k + 1 == n || k % 4096 == 0); }
    }
    let mut obs = Vec::new();
    let mut panicked = false;
    for (n, o) in ops.iter().enumerate() {
        if let Op::InsAt(i, _) = o { if !slot_exists_empty(&q, *i) { sh.legal = false; } }
        let deep = ops.len() < 64 || n + 1 == ops.len() || n % 1024 == 0;
        match apply(&mut q, &mut sh, o, out, &short, true, deep) {
            Some(s) => obs.push(s),
            None => { panicked = true; break; }
        }
    }
    let line = if panicked { "Panic".to_string() } else { format!("{} | {} {} {}", obs.join(" "), q.count(), q.curr(), q.slots().len()) };
    out.case(&case, &line, true, kind);
}

fn expand(toks: &[String]) -> Vec<Op> {
    let mut v = Vec::new();
    for t in toks {
        let body = &t[1..];
        match t.as_bytes()[0] {
            b'i' => v.push(Op::Ins(body.parse().unwrap())),
            b'r' => v.push(Op::Rem(body.parse().unwrap())),
            b'd' => v.push(Op::Drain),
            b'a' => { let p: Vec<&str> = body.split(':').collect(); v.push(Op::InsAt(p[0].parse().unwrap(), p[1].parse().unwrap())); }
            b'F' => { let p: Vec<u32> = body.split(':').map(|x| x.parse().unwrap()).collect(); for k in 0..p[0] { v.push(Op::Ins(p[1] + k)); } }
            b'X' => { let p: Vec<u32> = body.split(':').map(|x| x.parse().unwrap()).collect(); for k in 0..p[1] { v.push(Op::Rem((p[0] + k * p[2]) as u16)); } }
            _ => panic!("bad token"),
        }
    }
    v
}

/// All sequences of exactly `len` letters over the alphabet
/// {insert, try_remove 0..3, drain} (+ "re-insert i" = try_remove i followed by
/// insert_at i when it returned a request, as demux_reply does, if `reins`),
/// pruned to at most 4 live requests.  Shorter sequences are prefixes.
fn exhaustive(out: &mut Out, len: usize, reins: bool) {
    let alpha: usize = if reins { 10 } else { 6 };
    let total = (alpha as u64).pow(len as u32);
    let mut next_val = 0u32;
    'seq: for code in 0..total {
        let mut c = code;
        let mut ops: Vec<Op> = Vec::with_capacity(len + 4);
        // simulate occupancy with a tiny reference to prune and to decide re-inserts
        let mut q = QueriesHook::<u32>::new();
        for _ in 0..len {
            let l = (c % alpha as u64) as usize; c /= alpha as u64;
            match l {
                0 => { if q.count() >= 4 { continue 'seq; } next_val += 1; let v = 100 + next_val % 900; let _ = q.insert(v); ops.push(Op::Ins(v)); }
                1..=4 => { let i = (l - 1) as u16; q.try_remove(i); ops.push(Op::Rem(i)); }
                5 => { q.drain(); ops.push(Op::Drain); }
                _ => {
                    let i = (l - 6) as u16;
                    ops.push(Op::Rem(i));
                    if let Some(v) = q.try_remove(i) { q.insert_at(i, v); ops.push(Op::InsAt(i, v)); }
                }
            }
        }
        run_detailed(out, &ops, if reins { "q_exhaustive_reinsert" } else { "q_exhaustive" });
    }
}

fn random_seq(r: &mut Rng, maxlen: u64) -> Vec<Op> {
    let n = r.range(1, maxlen);
    let mut ops = Vec::new();
    // a light shadow of the vector length to aim removals at plausible indices
    let mut q = QueriesHook::<u32>::new();
    let ins_w = r.range(30, 70);
    for k in 0..n {
        let x = r.below(100);
        let len = q.slots().len() as u64;
        if x < ins_w { let v = 1000 + k as u32; let _ = q.insert(v); ops.push(Op::Ins(v)); }
        else if x < ins_w + 8 {
            let i = r.below(len + 1) as u16;
            ops.push(Op::Rem(i));
            if let Some(v) = q.try_remove(i) { q.insert_at(i, v); ops.push(Op::InsAt(i, v)); }
        }
        else if x < 96 { let i = r.below(len + 2) as u16; q.try_remove(i); ops.push(Op::Rem(i)); }
        else if x < 98 { q.drain(); ops.push(Op::Drain); }
        else {
            // insert_at at an arbitrary index: may violate the precondition (the
            // model follows, the oracle stops judging the sequence)
            let i = r.below(len + 2) as u16;
            ops.push(Op::InsAt(i, 7));
            if catch_mut(|| q.insert_at(i, 7)).is_err() { break; }
        }
    }
    ops
}

fn part_queries(out: &mut Out, r: &mut Rng, a: &Args) {
    // corpus
    let corpus: Vec<Vec<Op>> = vec![
        vec![],
        vec![Op::Ins(10), Op::Ins(11), Op::Ins(12), Op::Rem(1), Op::Ins(13), Op::Rem(0), Op::Rem(0), Op::InsAt(0, 14), Op::Ins(15), Op::Drain, Op::Ins(16)],
        vec![Op::InsAt(0, 2)],
        vec![Op::Ins(1), Op::InsAt(0, 2), Op::Rem(0), Op::Rem(0)],
        vec![Op::Rem(0), Op::Drain, Op::Rem(65535), Op::Ins(1), Op::Rem(65535), Op::Rem(1), Op::Rem(0), Op::Ins(2)],
        vec![Op::Ins(1), Op::Ins(2), Op::Ins(3), Op::Ins(4), Op::Rem(3), Op::Rem(2), Op::Rem(1), Op::Ins(5), Op::Ins(6), Op::Ins(7), Op::Ins(8)],
        vec![Op::Ins(1), Op::Ins(2), Op::Ins(3), Op::Ins(4), Op::Rem(0), Op::Rem(1), Op::Rem(2), Op::Rem(3), Op::Ins(5), Op::Ins(6), Op::Ins(7), Op::Ins(8), Op::Ins(9)],
    ];
    for c in &corpus { run_detailed(out, c, "q_corpus"); }
    // the unit test of the source, as a long case
    let t: Vec<String> = vec!["F12:0".into(), "r1".into(), "r2".into(), "r3".into(), "r4".into(), "r7".into(), "r9".into(), "F8:12".into(), "X0:20:1".into()];
    run_long(out, None, &t, &expand(&t), "q_long");
    if a.thorough { exhaustive(out, 8, false); exhaustive(out, 6, true); }
    else { exhaustive(out, 6, false); exhaustive(out, 4, true); }
    let n = if a.thorough { 60_000 } else { 6_000 } * a.scale;
    for _ in 0..n { let ops = random_seq(r, 40); run_detailed(out, &ops, "q_random"); }
    // long sequences from the empty table (the list model is quadratic: modest sizes)
    let longs = if a.thorough { 30 } else { 6 } * a.scale;
    for _ in 0..longs {
        let fill = r.range(200, 1200) as u32;
        let mut t: Vec<String> = vec![format!("F{}:0", fill)];
        for _ in 0..r.range(2, 8) {
            match r.below(4) {
                0 => t.push(format!("X{}:{}:{}", r.below(fill as u64), r.range(1, fill as u64 / 2), r.range(1, 3))),
                1 => t.push(format!("F{}:{}", r.range(1, 300), 100000 + r.below(1000))),
                2 => t.push(format!("r{}", r.below(fill as u64 + 5))),
                _ => { if r.chance(1, 5) { t.push("d".into()); } else { t.push(format!("i{}", 5)); } }
            }
        }
        run_long(out, None, &t, &expand(&t), "q_long");
    }
    // capacity: 32768 live requests, then insert must fail; removals make room again
    let mut caps: Vec<(usize, Vec<String>)> = vec![
        (32768, vec!["i1".into(), "r5".into(), "i2".into(), "i3".into(), "r32768".into(), "r7".into(), "r8".into(), "i4".into(), "i5".into(), "i6".into()]),
        (32767, vec!["i1".into(), "i2".into(), "r0".into(), "i3".into(), "i4".into()]),
        (32760, vec!["F12:90000".into(), "X32700:30:1".into(), "F40:91000".into()]),
    ];
    if a.thorough {
        // half of the slots freed again: the scan branch at full length (slow in the list model)
        caps.push((32768, vec!["X0:16384:2".into(), "F10:70000".into(), "i1".into()]));
        caps.push((32768, vec!["X0:16385:2".into(), "F10:70000".into(), "d".into(), "i1".into()]));
    }
    for (n, t) in &caps { run_long(out, Some(*n), t, &expand(t), "q_capacity"); }
    for _ in 0..(if a.thorough { 20 } else { 3 }) {
        let n = 32768 - r.below(3) as usize;
        let mut t: Vec<String> = Vec::new();
        for _ in 0..r.range(3, 10) {
            match r.below(3) {
                0 => t.push(format!("i{}", 80000 + r.below(100))),
                1 => t.push(format!("r{}", r.below(32800))),
                _ => t.push(format!("X{}:{}:{}", r.below(32768), r.range(1, 6), r.range(1, 3))),
            }
        }
        run_long(out, Some(n), &t, &expand(&t), "q_capacity");
    }
    if a.thorough {
        // the real thing in the model too (minutes): fill from the empty table
        let t: Vec<String> = vec!["F32769:0".into(), "r5".into(), "i2".into(), "i3".into()];
        run_long(out, None, &t, &expand(&t), "q_fill_full");
    }
}

// ============================================================ wire helpers
// Hand-written, independent of the library: used to build peer messages and by
// the oracle to read what the transports hand to callers.

#[derive(Clone, Debug, PartialEq, Eq)]
struct Q { name: Vec<u8>, qtype: u16, qclass: u16 }

fn name_wire(s: &str) -> Vec<u8> {
    let mut v = Vec::new();
    for l in s.split('.').filter(|l| !l.is_empty()) { v.push(l.len() as u8); v.extend_from_slice(l.as_bytes()); }
    v.push(0);
    v
}

fn q_wire(q: &Q) -> Vec<u8> {
    let mut v = q.name.clone();
    v.extend_from_slice(&q.qtype.to_be_bytes());
    v.extend_from_slice(&q.qclass.to_be_bytes());
    v
}

#[derive(Clone, Debug)]
struct Hdr { id: u16, qr: bool, tc: bool, aa: bool, rcode: u8, qd: u16, an: u16, ns: u16, ar: u16 }

fn parse_hdr(m: &[u8]) -> Option<Hdr> {
    if m.len() < 12 { return None; }
    let w = |i: usize| u16::from_be_bytes([m[i], m[i + 1]]);
    Some(Hdr { id: w(0), qr: m[2] & 0x80 != 0, aa: m[2] & 0x04 != 0, tc: m[2] & 0x02 != 0, rcode: m[3] & 0x0f, qd: w(4), an: w(6), ns: w(8), ar: w(10) })
}

/// Parse one question at `pos` (names lowercased, compression pointers followed).
fn parse_q(m: &[u8], mut pos: usize) -> Option<(Q, usize)> {
    let mut name = Vec::new();
    let mut end = None;
    let mut hops = 0;
    loop {
        let l = *m.get(pos)? as usize;
        if l & 0xc0 == 0xc0 {
            let p = ((l & 0x3f) << 8) | *m.get(pos + 1)? as usize;
            if end.is_none() { end = Some(pos + 2); }
            hops += 1; if hops > 64 || p < 12 { return None; }
            pos = p;
        } else if l & 0xc0 != 0 { return None; }
        else if l == 0 { name.push(0); pos += 1; break; }
        else {
            let lab = m.get(pos + 1..pos + 1 + l)?;
            name.push(l as u8); name.extend(lab.iter().map(|b| b.to_ascii_lowercase()));
            pos += 1 + l;
        }
        if name.len() > 255 { return None; }
    }
    let p = end.unwrap_or(pos);
    let t = m.get(p..p + 4)?;
    Some((Q { name, qtype: u16::from_be_bytes([t[0], t[1]]), qclass: u16::from_be_bytes([t[2], t[3]]) }, p + 4))
}

fn parse_qs(m: &[u8]) -> Option<Vec<Q>> {
    let h = parse_hdr(m)?;
    let mut pos = 12;
    let mut v = Vec::new();
    for _ in 0..h.qd { let (q, p) = parse_q(m, pos)?; v.push(q); pos = p; }
    Some(v)
}

fn mk_msg(id: u16, qr: bool, tc: bool, aa: bool, rcode: u8, counts: [u16; 4], body: &[u8]) -> Vec<u8> {
    let mut v = Vec::with_capacity(12 + body.len());
    v.extend_from_slice(&id.to_be_bytes());
    v.push((if qr { 0x80 } else { 0 }) | (if aa { 0x04 } else { 0 }) | (if tc { 0x02 } else { 0 }) | 0x01);
    v.push(0x80 | (rcode & 0x0f));
    for c in counts { v.extend_from_slice(&c.to_be_bytes()); }
    v.extend_from_slice(body);
    v
}

/// The independent statement of "resp answers the request (id, question)".
fn answers(resp: &[u8], id: u16, q: &Q) -> bool {
    let h = match parse_hdr(resp) { Some(h) => h, None => return false };
    if !h.qr || h.id != id { return false; }
    if h.rcode != 0 && h.qd == 0 && h.an == 0 && h.ns == 0 && h.ar == 0 { return true; }
    match parse_qs(resp) { Some(qs) => qs.len() == 1 && qs[0] == *q, None => false }
}

fn question(k: usize) -> Q { Q { name: name_wire(&format!("q{}.c15.test", k)), qtype: 1, qclass: 1 } }

fn request_for(q: &Q) -> RequestMessage<Vec<u8>> {
    let mut mb = MessageBuilder::new_vec();
    mb.header_mut().set_rd(true);
    let mut qb = mb.question();
    let name = Name::<Vec<u8>>::from_octets(q.name.clone()).unwrap();
    qb.push((name, Rtype::from_int(q.qtype))).unwrap();
    RequestMessage::new(qb.into_message()).unwrap()
}

/// Reply variants a scripted peer can produce for a request (id, q).
/// G good, T good+TC, K good+TC with an answer record, U good with upper-case name, X good + one answer record,
/// E error rcode with the question, H header-only error  -- these answer;
/// I other ID, Q QR clear, N other name, Y other type, Z header-only NOERROR,
/// W two questions, B unparsable question, S shorter than a header -- these do not.
const VARIANTS: &[u8] = b"GTKUXEHIQNYZWBS";
fn variant_answers(v: u8) -> bool { b"GTKUXEH".contains(&v) }

fn reply(v: u8, id: u16, q: &Q, aa: bool) -> Vec<u8> {
    let qw = q_wire(q);
    match v {
        b'G' => mk_msg(id, true, false, aa, 0, [1, 0, 0, 0], &qw),
        b'T' => mk_msg(id, true, true, aa, 0, [1, 0, 0, 0], &qw),
        b'U' => { let mut u = q.clone(); u.name = u.name.iter().map(|b| b.to_ascii_uppercase()).collect(); mk_msg(id, true, false, aa, 0, [1, 0, 0, 0], &q_wire(&u)) }
        b'K' => { let mut b = qw.clone(); b.extend_from_slice(&[0xc0, 12, 0, 1, 0, 1, 0, 0, 0, 60, 0, 4, 192, 0, 2, 1]); mk_msg(id, true, true, aa, 0, [1, 1, 0, 0], &b) }
        b'X' => { let mut b = qw.clone(); b.extend_from_slice(&[0xc0, 12, 0, 1, 0, 1, 0, 0, 0, 60, 0, 4, 192, 0, 2, 1]); mk_msg(id, true, false, aa, 0, [1, 1, 0, 0], &b) }
        b'E' => mk_msg(id, true, false, aa, 3, [1, 0, 0, 0], &qw),
        b'H' => mk_msg(id, true, false, aa, 2, [0, 0, 0, 0], &[]),
        b'I' => mk_msg(id.wrapping_add(1), true, false, aa, 0, [1, 0, 0, 0], &qw),
        b'Q' => mk_msg(id, false, false, aa, 0, [1, 0, 0, 0], &qw),
        b'N' => { let mut o = q.clone(); o.name = name_wire("other.c15.test"); mk_msg(id, true, false, aa, 0, [1, 0, 0, 0], &q_wire(&o)) }
        b'Y' => { let mut o = q.clone(); o.qtype = 28; mk_msg(id, true, false, aa, 0, [1, 0, 0, 0], &q_wire(&o)) }
        b'Z' => mk_msg(id, true, false, aa, 0, [0, 0, 0, 0], &[]),
        b'W' => { let mut b = qw.clone(); b.extend_from_slice(&q_wire(&Q { name: name_wire("other.c15.test"), qtype: 1, qclass: 1 })); mk_msg(id, true, false, aa, 0, [2, 0, 0, 0], &b) }
        b'B' => mk_msg(id, true, false, aa, 0, [1, 0, 0, 0], &qw[..qw.len() - 3]),
        _ => vec![id as u8, 1, 2, 3, 4],
    }
}

// ===================================================================== part 2
// RequestMessage::is_answer against the model on hand-built messages.
// Questions are drawn from a small table; the case line names them by index.

fn qtab(i: usize) -> Q {
    match i {
        0 => Q { name: name_wire("a.c15.test"), qtype: 1, qclass: 1 },
        1 => Q { name: name_wire("b.c15.test"), qtype: 1, qclass: 1 },
        2 => Q { name: name_wire("a.c15.test"), qtype: 28, qclass: 1 },
        3 => Q { name: name_wire("a.c15.test"), qtype: 1, qclass: 3 },
        _ => Q { name: name_wire("test"), qtype: 6, qclass: 1 },
    }
}

fn list_tok(l: &[usize]) -> String { if l.is_empty() { "-".into() } else { l.iter().map(|x| x.to_string()).collect::<Vec<_>>().join(",") } }

fn part_is_answer(out: &mut Out, r: &mut Rng, a: &Args) {
    let n = if a.thorough { 40_000 } else { 4_000 } * a.scale;
    for k in 0..n {
        let rid = if r.chance(1, 4) { *r.pick(&[0u16, 1, 65535, 256]) } else { r.u16() };
        let nrq = if r.chance(1, 6) { 2 } else { 1 };
        let rq: Vec<usize> = (0..nrq).map(|_| r.below(5) as usize).collect();
        let aid = if r.chance(3, 4) { rid } else if r.chance(1, 2) { rid.wrapping_add(1) } else { r.u16() };
        let qr = !r.chance(1, 6);
        let rcode = if r.chance(1, 2) { 0 } else { *r.pick(&[1u8, 2, 3, 5, 15]) };
        // answer question list: same / permuted / different / empty / bad
        let mode = if k < 12 { k } else { r.below(12) };
        let (aq, bad): (Vec<usize>, bool) = match mode {
            0..=4 => (rq.clone(), false),
            5 => (vec![], false),
            6 => (rq.iter().rev().cloned().collect(), false),
            7 => ((0..rq.len()).map(|_| r.below(5) as usize).collect(), false),
            8 => (vec![rq[0], r.below(5) as usize], false),
            9 => (vec![rq[0]], false),
            10 => (rq.clone(), true),
            _ => (vec![r.below(5) as usize], false),
        };
        let qd = aq.len() as u16;
        let cnt = |r: &mut Rng| if r.chance(3, 4) { 0u16 } else { 1 };
        let (an, ns, ar) = (cnt(r), cnt(r), cnt(r));
        let upper = r.chance(1, 5);
        // request
        let mut mb = MessageBuilder::new_vec();
        mb.header_mut().set_rd(true);
        let mut qb = mb.question();
        for i in &rq {
            let q = qtab(*i);
            qb.push((Name::<Vec<u8>>::from_octets(q.name.clone()).unwrap(), Rtype::from_int(q.qtype), domain::base::iana::Class::from_int(q.qclass))).unwrap();
        }
        let mut req = RequestMessage::new(qb.into_message()).unwrap();
        req.header_mut().set_id(rid);
        // answer bytes
        let mut body = Vec::new();
        for i in &aq {
            let mut q = qtab(*i);
            if upper { q.name = q.name.iter().map(|b| b.to_ascii_uppercase()).collect(); }
            body.extend_from_slice(&q_wire(&q));
        }
        if bad && !body.is_empty() { let l = body.len(); body.truncate(l - 1 - r.below(3) as usize); }
        let bad = bad && !aq.is_empty();
        let bytes = mk_msg(aid, qr, r.chance(1, 8), false, rcode, [qd, an, ns, ar], &body);
        let case = format!("ia {} {} {} {} {} {} {} {} {} {}", rid, list_tok(&rq), aid, qr as u8, rcode, qd, an, ns, ar,
            if bad { "bad".to_string() } else { list_tok(&aq) });
        out.begin(&case);
        let msg = Message::from_octets(bytes.clone()).unwrap();
        let got = catch_mut(|| req.is_answer(msg.for_slice()));
        let obs = match &got { Ok(b) => format!("{}", b), Err(_) => "Panic".to_string() };
        out.case(&case, &obs, true, "is_answer");
        // oracle: the property's own reading of "answers"
        let want = qr && aid == rid && ((rcode != 0 && qd == 0 && an == 0 && ns == 0 && ar == 0) || (!bad && aq.iter().map(|i| qtab(*i)).collect::<Vec<_>>() == rq.iter().map(|i| qtab(*i)).collect::<Vec<_>>()));
        match got {
            Ok(b) => {
                out.check(!(b && !want), "is_answer_accepts_non_answer", &case, &hex(&bytes));
                out.check(!(!b && want), "is_answer_rejects_answer", &case, &hex(&bytes));
            }
            Err(e) => out.check(false, "panic_transport", &case, &e),
        }
    }
}

// ===================================================================== part 3a
// dgram::Connection against a scripted mock socket, paused tokio clock.

#[derive(Clone, Debug)]
struct Pkt { off: u64, v: u8 }            // v: a VARIANTS letter, 'P' good reply carrying the previous attempt's ID, 'R' receive error
#[derive(Clone, Debug)]
struct Attempt { fault: u8, pkts: Vec<Pkt> }   // fault: b'-' none, b'c' connect error, b's' send error, b'h' short send

struct DgShared {
    attempts: Vec<Attempt>,
    next: usize,
    sent: Vec<(u64, Vec<u8>)>,           // (ms since start, datagram)
    start: tokio::time::Instant,
    q: Q,
    aa: bool,
}
#[derive(Clone)]
struct DgConnect(Arc<Mutex<DgShared>>);
impl std::fmt::Debug for DgConnect { fn fmt(&self, f: &mut std::fmt::Formatter<'_>) -> std::fmt::Result { f.write_str("DgConnect") } }

struct SockState {
    queue: std::collections::VecDeque<(tokio::time::Instant, Result<Vec<u8>, ()>)>,
    sleep: Option<Pin<Box<tokio::time::Sleep>>>,
}
struct DgSock { sh: Arc<Mutex<DgShared>>, att: Attempt, st: Mutex<SockState> }

impl AsyncConnect for DgConnect {
    type Connection = DgSock;
    type Fut = std::future::Ready<Result<DgSock, std::io::Error>>;
    fn connect(&self) -> Self::Fut {
        let mut sh = self.0.lock().unwrap();
        let att = sh.attempts.get(sh.next).cloned().unwrap_or(Attempt { fault: b'-', pkts: vec![] });
        sh.next += 1;
        if att.fault == b'c' { return std::future::ready(Err(std::io::Error::other("scripted connect error"))); }
        std::future::ready(Ok(DgSock { sh: self.0.clone(), att, st: Mutex::new(SockState { queue: Default::default(), sleep: None }) }))
    }
}

impl AsyncDgramSend for DgSock {
    fn poll_send(&self, _: &mut Context<'_>, buf: &[u8]) -> Poll<Result<usize, std::io::Error>> {
        if self.att.fault == b's' { return Poll::Ready(Err(std::io::Error::other("scripted send error"))); }
        let now = tokio::time::Instant::now();
        let mut sh = self.sh.lock().unwrap();
        let prev_id = sh.sent.last().and_then(|(_, m)| parse_hdr(m)).map(|h| h.id);
        let t = now.duration_since(sh.start).as_millis() as u64;
        sh.sent.push((t, buf.to_vec()));
        if self.att.fault == b'h' { return Poll::Ready(Ok(buf.len() - 1)); }
        let id = parse_hdr(buf).map(|h| h.id).unwrap_or(0);
        let mut st = self.st.lock().unwrap();
        for p in &self.att.pkts {
            let at = now + Duration::from_millis(p.off);
            let item = match p.v {
                b'R' => Err(()),
                b'P' => { let pid = match prev_id { Some(x) if x != id => x, _ => id.wrapping_add(1) }; Ok(reply(b'G', pid, &sh.q, sh.aa)) }
                v => Ok(reply(v, id, &sh.q, sh.aa)),
            };
            st.queue.push_back((at, item));
        }
        Poll::Ready(Ok(buf.len()))
    }
}

impl AsyncDgramRecv for DgSock {
    fn poll_recv(&self, cx: &mut Context<'_>, buf: &mut ReadBuf<'_>) -> Poll<Result<(), std::io::Error>> {
        let mut st = self.st.lock().unwrap();
        loop {
            let at = match st.queue.front() { None => return Poll::Pending, Some((at, _)) => *at };
            if at <= tokio::time::Instant::now() {
                st.sleep = None;
                let (_, item) = st.queue.pop_front().unwrap();
                return match item {
                    Ok(b) => { let n = b.len().min(buf.remaining()); buf.put_slice(&b[..n]); Poll::Ready(Ok(())) }
                    Err(()) => Poll::Ready(Err(std::io::Error::other("scripted receive error"))),
                };
            }
            if st.sleep.is_none() { st.sleep = Some(Box::pin(tokio::time::sleep_until(at))); }
            match st.sleep.as_mut().unwrap().as_mut().poll(cx) {
                Poll::Ready(()) => { st.sleep = None; continue; }
                Poll::Pending => return Poll::Pending,
            }
        }
    }
}

fn err_class(e: &Error) -> String {
    match e {
        Error::Dgram(q) => match q.kind() {
            dgram::QueryErrorKind::Connect => "connect".into(),
            dgram::QueryErrorKind::Send => "send".into(),
            dgram::QueryErrorKind::Timeout => "timeout".into(),
            dgram::QueryErrorKind::Receive => "receive".into(),
        },
        Error::ConnectionClosed => "closed".into(),
        Error::StreamReadTimeout => "read_timeout".into(),
        Error::StreamReadError(_) => "read_error".into(),
        Error::StreamWriteError(_) => "write_error".into(),
        Error::StreamUnexpectedEndOfData => "eof".into(),
        Error::StreamReceiveError => "receive_error".into(),
        Error::StreamIdleTimeout => "idle_timeout".into(),
        Error::ShortMessage => "short_message".into(),
        Error::WrongReplyForQuery => "wrong_reply".into(),
        Error::StreamTooManyOutstandingQueries => "too_many".into(),
        Error::NoTransportAvailable => "no_transport".into(),
        _ => "other".into(),
    }
}

fn paused_rt() -> tokio::runtime::Runtime {
    tokio::runtime::Builder::new_current_thread().enable_time().start_paused(true).build().unwrap()
}

fn gen_attempt(r: &mut Rng, timeout: u64) -> Attempt {
    let fault = match r.below(40) { 0 => b'c', 1 => b's', 2 => b'h', _ => b'-' };
    let n = match r.below(6) { 0 => 0, 1 | 2 => 1, 3 => 2, _ => r.range(2, 5) };
    let mut pkts: Vec<Pkt> = (0..n).map(|_| {
        let off = match r.below(8) { 0 => timeout, 1 => timeout - 1, 2 => timeout + 1, 3 => 0, 4 => timeout + r.below(timeout), _ => r.below(timeout) };
        let v = match r.below(12) { 0 | 1 => b'G', 2 => b'P', 3 => if r.chance(1, 4) { b'R' } else { *r.pick(b"TK") }, _ => *r.pick(VARIANTS) };
        Pkt { off, v }
    }).collect();
    pkts.sort_by_key(|p| p.off);
    Attempt { fault, pkts }
}

fn attempt_tok(a: &Attempt) -> String {
    let p = if a.pkts.is_empty() { "-".to_string() } else { a.pkts.iter().map(|p| format!("{}:{}", p.off, p.v as char)).collect::<Vec<_>>().join(",") };
    format!("{}{}", a.fault as char, p)
}

struct DgResult { res: Result<Vec<u8>, String>, elapsed: u64, sent: Vec<(u64, Vec<u8>)>, panicked: Option<String> }

fn run_dgram(retries: u8, timeout: u64, attempts: Vec<Attempt>, q: Q) -> DgResult {
    let rt = paused_rt();
    rt.block_on(async move {
        let start = tokio::time::Instant::now();
        let sh = Arc::new(Mutex::new(DgShared { attempts, next: 0, sent: vec![], start, q: q.clone(), aa: false }));
        let mut cfg = dgram::Config::new();
        cfg.set_max_retries(retries);
        cfg.set_read_timeout(Duration::from_millis(timeout));
        let conn = dgram::Connection::with_config(DgConnect(sh.clone()), cfg);
        let req = request_for(&q);
        let h = tokio::spawn(async move {
            let mut g = SendRequest::send_request(&conn, req);
            let r = g.get_response().await;
            (r, tokio::time::Instant::now())
        });
        // guard: a request that does not complete is cut off far beyond the budget
        let guard = Duration::from_millis((retries as u64 + 2) * timeout * 4 + 1000);
        let joined = tokio::time::timeout(guard, h).await;
        let sent = sh.lock().unwrap().sent.clone();
        match joined {
            Err(_) => DgResult { res: Err("never".into()), elapsed: guard.as_millis() as u64, sent, panicked: None },
            Ok(Err(e)) => DgResult { res: Err("panic".into()), elapsed: 0, sent, panicked: Some(format!("{}", e)) },
            Ok(Ok((r, at))) => DgResult {
                res: r.map(|m| m.as_slice().to_vec()).map_err(|e| err_class(&e)),
                elapsed: at.duration_since(start).as_millis() as u64, sent, panicked: None },
        }
    })
}

fn part_dgram(out: &mut Out, r: &mut Rng, a: &Args) {
    let n = if a.thorough { 6000 } else { 700 } * a.scale;
    let mut corpus: Vec<(u8, u64, Vec<Attempt>)> = vec![
        (0, 50, vec![Attempt { fault: b'-', pkts: vec![] }]),
        (2, 50, vec![Attempt { fault: b'-', pkts: vec![Pkt { off: 10, v: b'I' }, Pkt { off: 20, v: b'N' }, Pkt { off: 30, v: b'G' }] }]),
        (2, 50, vec![Attempt { fault: b'-', pkts: vec![Pkt { off: 60, v: b'G' }] }, Attempt { fault: b'-', pkts: vec![Pkt { off: 5, v: b'P' }, Pkt { off: 6, v: b'S' }, Pkt { off: 7, v: b'H' }] }]),
        (1, 50, vec![Attempt { fault: b'-', pkts: vec![Pkt { off: 50, v: b'G' }] }]),
        (1, 50, vec![Attempt { fault: b'-', pkts: vec![Pkt { off: 50, v: b'Q' }, Pkt { off: 50, v: b'G' }] }, Attempt { fault: b'-', pkts: vec![Pkt { off: 51, v: b'G' }] }]),
        (3, 20, vec![Attempt { fault: b'-', pkts: vec![Pkt { off: 3, v: b'B' }] }, Attempt { fault: b'c', pkts: vec![] }]),
        (3, 20, vec![Attempt { fault: b'-', pkts: vec![Pkt { off: 3, v: b'R' }] }]),
        (100, 1, vec![]),
        (255, 1, vec![]),
        (255, 1, vec![Attempt { fault: b'-', pkts: vec![Pkt { off: 0, v: b'G' }] }]),
        (254, 1, vec![Attempt { fault: b'-', pkts: vec![] }, Attempt { fault: b'-', pkts: vec![Pkt { off: 0, v: b'G' }] }]),
        (101, 1, vec![]),
    ];
    for k in 0..n + corpus.len() as u64 {
        let (requested, timeout, attempts) = if (k as usize) < corpus.len() { std::mem::take(&mut corpus[k as usize]).into() } else if r.chance(1, 25) {
            // retry budgets at and beyond the configuration cap (the setter trims; 1 + max_retries is u8 arithmetic)
            let retries = *r.pick(&[99u8, 100, 101, 200, 254, 255]);
            let attempts: Vec<Attempt> = match r.below(3) {
                0 => vec![],
                1 => vec![Attempt { fault: b'-', pkts: vec![Pkt { off: 0, v: b'G' }] }],
                _ => (0..r.range(1, 4)).map(|_| gen_attempt(r, 2)).collect(),
            };
            (retries, 2, attempts)
        } else {
            let retries = r.below(4) as u8;
            let timeout = *r.pick(&[20u64, 50, 100, 1000]);
            let attempts: Vec<Attempt> = (0..retries as u64 + 1 + r.below(2)).map(|_| gen_attempt(r, timeout)).collect();
            (retries, timeout, attempts)
        };
        // what the configuration says after the setter trimmed the value
        let retries = { let mut c = dgram::Config::new(); c.set_max_retries(requested); c.max_retries() };
        let case = format!("dg {} {} {}", retries, timeout, if attempts.is_empty() { "-".to_string() } else { attempts.iter().map(attempt_tok).collect::<Vec<_>>().join("|") });
        out.begin(&case);
        let q = question(1);
        let res = run_dgram(retries, timeout, attempts.clone(), q.clone());
        let budget = (retries as u64 + 1) * timeout;
        let sends = res.sent.len();
        if let Some(p) = &res.panicked { out.check(false, "panic_transport", &case, &format!("set_max_retries({}) -> max_retries() = {}: the request panicked: {}", requested, retries, p)); }
        let obs = match &res.res {
            Ok(m) => { let h = parse_hdr(m).unwrap(); format!("Ok t={} sends={} rcode={} tc={} an={}", res.elapsed, sends, h.rcode, h.tc as u8, h.an) }
            Err(c) => format!("Err {} t={} sends={}", c, res.elapsed, sends),
        };
        out.case(&case, &obs, attempts.iter().any(|a| !a.pkts.is_empty()), "dgram");
        // oracle
        match &res.res {
            Ok(m) => {
                let id = res.sent.last().and_then(|(_, d)| parse_hdr(d)).map(|h| h.id);
                let sent_q = res.sent.last().and_then(|(_, d)| parse_qs(d));
                out.check(sent_q.as_deref() == Some(std::slice::from_ref(&q)), "request_altered", &case, "the datagram sent does not carry the caller's question");
                out.check(id.map_or(false, |id| answers(m, id, &q)), "wrong_reply_delivered", &case, &format!("delivered {} for request id {:?}", hex(m), id));
            }
            Err(c) => {
                out.check(c != "never", "never_completes", &case, "request did not complete");
                if c == "timeout" { out.check(sends as u64 == retries as u64 + 1, "retry_budget_not_used", &case, &format!("{} sends", sends)); }
            }
        }
        out.check(res.elapsed <= budget, "never_completes", &case, &format!("completed after {} ms, budget {} ms", res.elapsed, budget));
        out.check(sends as u64 <= retries as u64 + 1, "retry_budget_exceeded", &case, &format!("{} sends", sends));
    }
}

// ===================================================================== part 3b
// stream::Connection over an in-memory duplex pipe, scripted peer, real clock
// with short timeouts (stream.rs keeps its timers on std::time::Instant, so a
// paused tokio clock does not drive them).  Scripts run concurrently.

#[derive(Clone, Debug)]
enum Step {
    Submit(usize),
    Settle,
    Reply(usize, u8),        // answer caller k's request (as seen on the wire) with a variant
    Cross(usize, usize),     // ID of caller a's request with the question of caller b
    Junk,                    // well-formed reply with an ID nobody uses
    Sleep(u64),
    Close,
    ShortFrame,              // a frame shorter than a DNS header
    PartialFrame,            // length prefix promises more than is sent, then close
    AnswerAll,
    Silence,
    SubmitK(usize, u8),      // demux T2: caller k, kind b's' single / b'x' AXFR / b'y' IXFR
    ReplyX(usize, XRep),     // demux T2: reply with an answer section to caller k's request
    Tick,                    // demux T2: let a short non-zero idle timeout expire (real time)
}

#[derive(Clone, Debug)]
enum Rec { Soa(u32), Other, Bad }
/// qmode: b's' the request's question, b'e' empty question section, b'n' other name, b'b' unparsable question
#[derive(Clone, Debug)]
struct XRep { qmode: u8, rcode: u8, recs: Vec<Rec>, ka: Option<Option<u16>> }   // ka: edns-tcp-keepalive option (None = no OPT record)

fn step_tok(s: &Step) -> String {
    match s {
        Step::Submit(k) => format!("sub{}", k), Step::Settle => "settle".into(),
        Step::Reply(k, v) => format!("rep{}{}", k, *v as char), Step::Cross(a, b) => format!("cross{}-{}", a, b),
        Step::Junk => "junk".into(), Step::Sleep(ms) => format!("sleep{}", ms), Step::Close => "close".into(),
        Step::ShortFrame => "short".into(), Step::PartialFrame => "partial".into(), Step::AnswerAll => "answerall".into(),
        Step::Silence => "silence".into(),
        Step::SubmitK(k, kind) => format!("sub{}{}", *kind as char, k), Step::ReplyX(k, x) => format!("repx{}{:?}", k, x),
        Step::Tick => "tick".into(),
    }
}

const STREAM_TIMEOUT_MS: u64 = 60;

struct StreamReport { case: String, fails: Vec<(&'static str, String)>, checks: u64, ok_deliveries: u64, err_deliveries: u64 }

type Seen = Arc<Mutex<Vec<(u16, Option<Vec<Q>>)>>>;
type Results = Arc<Mutex<Vec<Option<Result<Vec<u8>, String>>>>>;

async fn frame(w: &mut (impl AsyncWriteExt + Unpin), m: &[u8]) -> bool {
    let mut v = (m.len() as u16).to_be_bytes().to_vec();
    v.extend_from_slice(m);
    w.write_all(&v).await.is_ok()
}

async fn peer_reader(mut rd: tokio::io::ReadHalf<tokio::io::DuplexStream>, seen: Seen) {
    loop {
        let len = match rd.read_u16().await { Ok(l) => l as usize, Err(_) => return };
        let mut buf = vec![0u8; len];
        if rd.read_exact(&mut buf).await.is_err() { return; }
        let id = parse_hdr(&buf).map(|h| h.id).unwrap_or(0);
        seen.lock().unwrap().push((id, parse_qs(&buf)));
    }
}

fn wire_id(seen: &Seen, k: usize) -> Option<u16> { wire_id_q(seen, &question(k)) }
fn wire_id_q(seen: &Seen, q: &Q) -> Option<u16> {
    let q = q.clone();
    seen.lock().unwrap().iter().find(|(_, qs)| qs.as_deref() == Some(std::slice::from_ref(&q))).map(|(id, _)| *id)
}

async fn run_stream_script(ncallers: usize, idle_ms: u64, steps: Vec<Step>) -> StreamReport {
    let case = format!("stream n={} idle={} {}", ncallers, idle_ms, steps.iter().map(step_tok).collect::<Vec<_>>().join(" "));
    let mut rep = StreamReport { case: case.clone(), fails: vec![], checks: 0, ok_deliveries: 0, err_deliveries: 0 };
    let (client, server) = tokio::io::duplex(1 << 16);
    let mut cfg = stream::Config::new();
    cfg.set_response_timeout(Duration::from_millis(STREAM_TIMEOUT_MS));
    cfg.set_idle_timeout(Duration::from_millis(idle_ms));
    let (conn, transport) = stream::Connection::<RequestMessage<Vec<u8>>, RequestMessageMulti<Vec<u8>>>::with_config(client, cfg);
    let th = tokio::spawn(transport.run());
    let (rd, mut wr) = tokio::io::split(server);
    let seen: Seen = Arc::new(Mutex::new(vec![]));
    let ph = tokio::spawn(peer_reader(rd, seen.clone()));
    let results: Results = Arc::new(Mutex::new(vec![None; ncallers]));
    let completions = Arc::new(Mutex::new(vec![0u32; ncallers]));
    let mut callers = Vec::new();
    let mut wr_open = true;
    let mut nsub = 0usize;
    let mut conn = Some(conn);
    for s in &steps {
        match s {
            Step::Submit(k) => {
                let k = *k;
                nsub += 1;
                if let Some(c) = &conn {
                    let mut g = SendRequest::send_request(c, request_for(&question(k)));
                    let (results, completions) = (results.clone(), completions.clone());
                    callers.push(tokio::spawn(async move {
                        let r = g.get_response().await;
                        completions.lock().unwrap()[k] += 1;
                        results.lock().unwrap()[k] = Some(r.map(|m| m.as_slice().to_vec()).map_err(|e| err_class(&e)));
                    }));
                }
            }
            Step::Settle => {
                // let everything run; on a loaded machine give the requests more time to reach the peer
                tokio::time::sleep(Duration::from_millis(3)).await;
                let mut extra = 0;
                while wr_open && seen.lock().unwrap().len() < nsub && extra < 40 { tokio::time::sleep(Duration::from_millis(5)).await; extra += 1; }
            }
            Step::Sleep(ms) => tokio::time::sleep(Duration::from_millis(*ms)).await,
            Step::Reply(k, v) => if wr_open { if let Some(id) = wire_id(&seen, *k) { wr_open = frame(&mut wr, &reply(*v, id, &question(*k), false)).await; } },
            Step::Cross(a, b) => if wr_open { if let Some(id) = wire_id(&seen, *a) { wr_open = frame(&mut wr, &reply(b'G', id, &question(*b), false)).await; } },
            Step::Junk => if wr_open { wr_open = frame(&mut wr, &reply(b'G', 0x7777, &question(99), false)).await; },
            Step::ShortFrame => if wr_open { wr_open = frame(&mut wr, &[1, 2, 3]).await; },
            Step::PartialFrame => if wr_open { let _ = wr.write_all(&[0, 100, 1, 2, 3, 4]).await; let _ = wr.shutdown().await; wr_open = false; },
            Step::Close => if wr_open { let _ = wr.shutdown().await; wr_open = false; },
            Step::AnswerAll => if wr_open {
                for k in 0..ncallers { if results.lock().unwrap()[k].is_none() { if let Some(id) = wire_id(&seen, k) { wr_open = frame(&mut wr, &reply(b'G', id, &question(k), false)).await; if !wr_open { break; } } } }
            },
            Step::Silence | Step::SubmitK(..) | Step::ReplyX(..) | Step::Tick => {}
        }
    }
    // everything must complete once the peer has fallen silent: one response
    // timeout plus generous slack for a loaded machine
    let deadline = std::time::Instant::now() + Duration::from_millis(STREAM_TIMEOUT_MS + 10_000);
    loop {
        let done = results.lock().unwrap().iter().enumerate().all(|(k, r)| r.is_some() || !steps.iter().any(|s| matches!(s, Step::Submit(j) if *j == k)));
        if done || std::time::Instant::now() > deadline { break; }
        tokio::time::sleep(Duration::from_millis(4)).await;
    }
    let res = results.lock().unwrap().clone();
    for k in 0..ncallers {
        if !steps.iter().any(|s| matches!(s, Step::Submit(j) if *j == k)) { continue; }
        rep.checks += 2;
        match &res[k] {
            None => rep.fails.push(("never_completes", format!("caller {} still waiting {} ms after the peer fell silent", k, STREAM_TIMEOUT_MS + 10_000))),
            Some(Ok(m)) => {
                rep.ok_deliveries += 1;
                let q = question(k);
                let ok = wire_id(&seen, k).map_or(false, |id| answers(m, id, &q));
                if !ok {
                    let other = (0..ncallers).any(|j| j != k && wire_id(&seen, j).map_or(false, |id| answers(m, id, &question(j))));
                    rep.fails.push((if other { "cross_delivery" } else { "wrong_reply_delivered" },
                        format!("caller {} (wire id {:?}) was handed {}", k, wire_id(&seen, k), hex(m))));
                }
            }
            Some(Err(_)) => rep.err_deliveries += 1,
        }
        if completions.lock().unwrap()[k] > 1 { rep.fails.push(("completed_twice", format!("caller {}", k))); }
    }
    conn.take();
    for c in callers { c.abort(); let _ = c.await; }
    ph.abort();
    // the transport must not have panicked
    if !th.is_finished() { th.abort(); }
    rep.checks += 1;
    if let Err(e) = th.await { if e.is_panic() { rep.fails.push(("panic_transport", "stream::Transport::run panicked".into())); } }
    rep
}

fn gen_stream_script(r: &mut Rng) -> (usize, u64, Vec<Step>) {
    let n = r.range(1, 5) as usize;
    let idle = *r.pick(&[0u64, 30, 10_000, 10_000]);
    let mut steps = Vec::new();
    let mut submitted = 0usize;
    let first = r.range(1, n as u64) as usize;
    for k in 0..first { steps.push(Step::Submit(k)); }
    submitted += first;
    steps.push(Step::Settle);
    for _ in 0..r.range(1, 9) {
        let k = r.below(submitted as u64) as usize;
        match r.below(12) {
            0..=2 => steps.push(Step::Reply(k, b'G')),
            3 | 4 => steps.push(Step::Reply(k, *r.pick(VARIANTS))),
            5 => { if submitted > 1 { let b = (k + 1 + r.below(submitted as u64 - 1) as usize) % submitted; steps.push(Step::Cross(k, b)); } else { steps.push(Step::Junk); } }
            6 => steps.push(Step::Junk),
            7 => steps.push(Step::Sleep(r.range(2, 25))),
            8 | 9 => { if submitted < n { steps.push(Step::Submit(submitted)); submitted += 1; steps.push(Step::Settle); } else { steps.push(Step::Reply(k, b'G')); } }
            10 => steps.push(Step::Settle),
            _ => { steps.push(Step::Reply(k, b'G')); steps.push(Step::Reply(k, b'G')); }
        }
    }
    match r.below(8) {
        0 => steps.push(Step::Close),
        1 => steps.push(Step::Silence),
        2 => steps.push(Step::ShortFrame),
        3 => steps.push(Step::PartialFrame),
        _ => { steps.push(Step::Settle); steps.push(Step::AnswerAll); }
    }
    (n, idle, steps)
}

/// A peer that never answers but keeps sending well-formed replies nobody asked
/// for: does the request still end within the response timeout?  Measured in
/// junk messages, not in wall-clock time: returns the number of junk replies
/// sent before the caller completed (None = not even after the peer stopped).
async fn run_unrelated_traffic(total: u64, gap_ms: u64) -> (Option<u64>, Option<String>) {
    let (client, server) = tokio::io::duplex(1 << 16);
    let mut cfg = stream::Config::new();
    cfg.set_response_timeout(Duration::from_millis(STREAM_TIMEOUT_MS));
    let (conn, transport) = stream::Connection::<RequestMessage<Vec<u8>>, RequestMessageMulti<Vec<u8>>>::with_config(client, cfg);
    let th = tokio::spawn(transport.run());
    let (rd, mut wr) = tokio::io::split(server);
    let seen: Seen = Arc::new(Mutex::new(vec![]));
    let ph = tokio::spawn(peer_reader(rd, seen.clone()));
    let done: Arc<Mutex<Option<String>>> = Arc::new(Mutex::new(None));
    let d2 = done.clone();
    let mut g = SendRequest::send_request(&conn, request_for(&question(0)));
    let ch = tokio::spawn(async move {
        let r = g.get_response().await;
        *d2.lock().unwrap() = Some(match r { Ok(_) => "ok".to_string(), Err(e) => err_class(&e) });
    });
    tokio::time::sleep(Duration::from_millis(3)).await;
    let mut at = None;
    for k in 0..total {
        if done.lock().unwrap().is_some() { at = Some(k); break; }
        if !frame(&mut wr, &reply(b'G', 0x7777, &question(99), false)).await { break; }
        tokio::time::sleep(Duration::from_millis(gap_ms)).await;
    }
    if at.is_none() && done.lock().unwrap().is_some() { at = Some(total); }
    let r = done.lock().unwrap().clone();
    ch.abort(); ph.abort(); th.abort();
    drop(conn);
    (at, r)
}

/// One request, a peer that reads it and stays silent, response timeout
/// configured to STREAM_TIMEOUT_MS: how does the request end within `wait_ms`?
async fn run_timeout_probe(wait_ms: u64) -> Option<String> {
    let (client, server) = tokio::io::duplex(1 << 16);
    let mut cfg = stream::Config::new();
    cfg.set_response_timeout(Duration::from_millis(STREAM_TIMEOUT_MS));
    let (conn, transport) = stream::Connection::<RequestMessage<Vec<u8>>, RequestMessageMulti<Vec<u8>>>::with_config(client, cfg);
    let th = tokio::spawn(transport.run());
    let (rd, _wr) = tokio::io::split(server);
    let ph = tokio::spawn(peer_reader(rd, Arc::new(Mutex::new(vec![]))));
    let mut g = SendRequest::send_request(&conn, request_for(&question(0)));
    let r = tokio::time::timeout(Duration::from_millis(wait_ms), g.get_response()).await;
    ph.abort(); th.abort();
    match r { Ok(Ok(_)) => Some("ok".into()), Ok(Err(e)) => Some(err_class(&e)), Err(_) => None }
}

/// A silent peer, one request outstanding, and further requests arriving on the
/// same connection every `gap_ms` (more often than once per response timeout):
/// the FIRST request must still end with its timeout.  Counted in requests, not
/// in wall-clock time: returns how many further requests had been submitted when
/// the first one completed (None = not even after `total` of them).
async fn run_new_requests_traffic(timeout_ms: u64, total: u64, gap_ms: u64) -> (Option<u64>, Option<String>) {
    let (client, server) = tokio::io::duplex(1 << 16);
    let mut cfg = stream::Config::new();
    cfg.set_response_timeout(Duration::from_millis(timeout_ms));
    let (conn, transport) = stream::Connection::<RequestMessage<Vec<u8>>, RequestMessageMulti<Vec<u8>>>::with_config(client, cfg);
    let th = tokio::spawn(transport.run());
    let (rd, _wr) = tokio::io::split(server);
    let ph = tokio::spawn(peer_reader(rd, Arc::new(Mutex::new(vec![]))));
    let done: Arc<Mutex<Option<String>>> = Arc::new(Mutex::new(None));
    let d2 = done.clone();
    let mut g = SendRequest::send_request(&conn, request_for(&question(0)));
    let first = tokio::spawn(async move {
        let r = g.get_response().await;
        *d2.lock().unwrap() = Some(match r { Ok(_) => "ok".to_string(), Err(e) => err_class(&e) });
    });
    let mut others = Vec::new();
    let mut at = None;
    for k in 0..total {
        tokio::time::sleep(Duration::from_millis(gap_ms)).await;
        if done.lock().unwrap().is_some() { at = Some(k); break; }
        let mut g = SendRequest::send_request(&conn, request_for(&question(1 + k as usize)));
        others.push(tokio::spawn(async move { let _ = g.get_response().await; }));
    }
    if at.is_none() && done.lock().unwrap().is_some() { at = Some(total); }
    let r = done.lock().unwrap().clone();
    first.abort(); for o in others { o.abort(); } ph.abort(); th.abort();
    drop(conn);
    (at, r)
}

async fn run_timeout_probe_multi(wait_ms: u64) -> Option<String> {
    let (client, server) = tokio::io::duplex(1 << 16);
    let mut cfg = stream::Config::new();
    cfg.set_response_timeout(Duration::from_millis(STREAM_TIMEOUT_MS));
    let (conn, transport) = stream::Connection::<RequestMessage<Vec<u8>>, RequestMessageMulti<Vec<u8>>>::with_config(client, cfg);
    let th = tokio::spawn(transport.run());
    let (rd, _wr) = tokio::io::split(server);
    let ph = tokio::spawn(peer_reader(rd, Arc::new(Mutex::new(vec![]))));
    let q = kind_q(0, b'x');
    let mut qb = MessageBuilder::new_vec().question();
    qb.push((Name::<Vec<u8>>::from_octets(q.name.clone()).unwrap(), Rtype::from_int(q.qtype))).unwrap();
    let mut g = SendRequestMulti::send_request(&conn, RequestMessageMulti::new(qb.into_message()).unwrap());
    let r = tokio::time::timeout(Duration::from_millis(wait_ms), g.get_response()).await;
    ph.abort(); th.abort();
    match r { Ok(Ok(_)) => Some("ok".into()), Ok(Err(e)) => Some(err_class(&e)), Err(_) => None }
}

/// A request whose stream frame would be `wire_len` octets: header, the
/// question of caller k and one additional record of an unassigned type padded
/// to size (owner root, no compression on this path); `extra` = octets the
/// transport will add (its edns-tcp-keepalive OPT on the first request).
fn sized_request(k: usize, wire_len: usize, extra: usize) -> Option<RequestMessage<Vec<u8>>> {
    let q = question(k);
    let fixed = 12 + q.name.len() + 4 + 11 + extra;
    if wire_len < fixed || wire_len - fixed > 65535 { return None; }
    let rdlen = wire_len - fixed;
    let mut m = vec![0u8, 0, 0x01, 0x00, 0, 1, 0, 0, 0, 0, 0, 1];
    m.extend_from_slice(&q_wire(&q));
    m.extend_from_slice(&[0, 0xff, 0x00, 0, 1, 0, 0, 0, 0]);
    m.extend_from_slice(&(rdlen as u16).to_be_bytes());
    m.extend(std::iter::repeat(0x5a).take(rdlen));
    RequestMessage::new(Message::from_octets(m).ok()?).ok()
}

/// Requests at the edge of what the two octet length prefix can carry: 65535
/// octets must go out as one well-formed frame, anything longer must fail at
/// once without a single octet written, and the connection must stay usable.
/// No timers: the response timeout is 600 s, progress is made by yields.
/// Returns (failures, skipped-because-the-size-calibration-did-not-hold).
async fn run_oversize_script(sizes: Vec<usize>) -> (Vec<(&'static str, String)>, bool) {
    let mut fails = Vec::new();
    let (client, server) = tokio::io::duplex(1 << 18);
    let mut cfg = stream::Config::new();
    cfg.set_response_timeout(Duration::from_secs(600));
    cfg.set_idle_timeout(Duration::from_secs(3600));
    let (conn, transport) = stream::Connection::<RequestMessage<Vec<u8>>, RequestMessageMulti<Vec<u8>>>::with_config(client, cfg);
    let th = tokio::spawn(transport.run());
    let (mut rd, mut wr) = tokio::io::split(server);
    // frames as the peer sees them: (declared length, octets)
    let frames: Arc<Mutex<Vec<Vec<u8>>>> = Arc::new(Mutex::new(vec![]));
    let f2 = frames.clone();
    let ph = tokio::spawn(async move {
        loop {
            let len = match rd.read_u16().await { Ok(l) => l as usize, Err(_) => return };
            let mut buf = vec![0u8; len];
            if rd.read_exact(&mut buf).await.is_err() { return; }
            f2.lock().unwrap().push(buf);
        }
    });
    let settle = || async { for _ in 0..4096 { tokio::task::yield_now().await; } };
    let submit = |k: usize, req: RequestMessage<Vec<u8>>| {
        let done: Arc<Mutex<Option<Result<Vec<u8>, String>>>> = Arc::new(Mutex::new(None));
        let d2 = done.clone();
        let mut g = SendRequest::send_request(&conn, req);
        let h = tokio::spawn(async move { let r = g.get_response().await; *d2.lock().unwrap() = Some(r.map(|m| m.as_slice().to_vec()).map_err(|e| err_class(&e))); });
        let _ = k;
        (done, h)
    };
    // 1: an ordinary first request takes the keepalive option with it
    let (d0, h0) = submit(0, request_for(&question(0)));
    settle().await;
    let ok0 = { let f = frames.lock().unwrap(); f.len() == 1 && parse_qs(&f[0]).as_deref() == Some(std::slice::from_ref(&question(0))) };
    if !ok0 { h0.abort(); ph.abort(); th.abort(); return (fails, true); }
    let id0 = parse_hdr(&frames.lock().unwrap()[0]).unwrap().id;
    let _ = frame(&mut wr, &reply(b'G', id0, &question(0), false)).await;
    settle().await;
    if !matches!(&*d0.lock().unwrap(), Some(Ok(_))) { h0.abort(); ph.abort(); th.abort(); return (fails, true); }
    // 2: calibration: a request built for 65535 octets must arrive as exactly that
    let (d1, h1) = match sized_request(1, 65535, 0) { Some(rq) => submit(1, rq), None => { ph.abort(); th.abort(); return (fails, true); } };
    settle().await;
    let cal = { let f = frames.lock().unwrap(); f.len() == 2 && f[1].len() == 65535 && parse_qs(&f[1]).as_deref() == Some(std::slice::from_ref(&question(1))) };
    if !cal { h1.abort(); ph.abort(); th.abort(); return (fails, true); }
    let id1 = parse_hdr(&frames.lock().unwrap()[1]).unwrap().id;
    let _ = frame(&mut wr, &reply(b'G', id1, &question(1), false)).await;
    settle().await;
    if !matches!(&*d1.lock().unwrap(), Some(Ok(m)) if answers(m, id1, &question(1))) {
        fails.push(("wrong_reply_delivered", "the 65535 octet request was not answered with its own reply".to_string()));
    }
    // 3: longer requests
    let mut hs = vec![h0, h1];
    for (i, sz) in sizes.iter().enumerate() {
        let k = 2 + i;
        let before = frames.lock().unwrap().len();
        let rq = match sized_request(k, *sz, 0) { Some(rq) => rq, None => continue };
        let (d, h) = submit(k, rq);
        settle().await;
        hs.push(h);
        let after: Vec<usize> = frames.lock().unwrap()[before..].iter().map(|f| f.len()).collect();
        if !after.is_empty() {
            fails.push(("stream_framing_broken", format!("a request of {} octets cannot be framed, yet the peer received frame(s) of {:?} octets", sz, after)));
        }
        let st = d.lock().unwrap().clone();
        match st {
            Some(Err(_)) => {}
            Some(Ok(_)) => fails.push(("wrong_reply_delivered", format!("a request of {} octets that cannot be framed got a response", sz))),
            None => fails.push(("oversize_request_not_refused", format!("a request of {} octets does not fit the two octet length prefix but did not fail at once (still pending)", sz))),
        }
    }
    // 4: the connection is still in step
    let k = 2 + sizes.len();
    let before = frames.lock().unwrap().len();
    let (d, h) = submit(k, request_for(&question(k)));
    settle().await;
    hs.push(h);
    let seen_ok = { let f = frames.lock().unwrap(); f.len() == before + 1 && parse_qs(&f[before]).as_deref() == Some(std::slice::from_ref(&question(k))) };
    if !seen_ok {
        fails.push(("stream_framing_broken", format!("after requests of {:?} octets an ordinary request no longer arrives as one well-formed frame", sizes)));
    } else {
        let id = parse_hdr(&frames.lock().unwrap()[before]).unwrap().id;
        let _ = frame(&mut wr, &reply(b'G', id, &question(k), false)).await;
        settle().await;
        if !matches!(&*d.lock().unwrap(), Some(Ok(m)) if answers(m, id, &question(k))) {
            fails.push(("never_completes", format!("after requests of {:?} octets an ordinary request on the same connection is not answered", sizes)));
        }
    }
    for h in hs { h.abort(); }
    ph.abort(); th.abort();
    (fails, false)
}

fn part_stream(out: &mut Out, r: &mut Rng, a: &Args) -> (u64, u64) {
    let rt = tokio::runtime::Builder::new_current_thread().enable_all().build().unwrap();
    // Does the configured response timeout take effect at all?  If it does not,
    // requests to a silent peer only end after the built-in default (19 s); the
    // scripts below then end with a close instead of silence so that the other
    // checks stay meaningful and fast.
    let case = format!("stream timeout-probe set_response_timeout({}ms) silent peer", STREAM_TIMEOUT_MS);
    out.begin(&case);
    let probe = rt.block_on(run_timeout_probe(8000));
    out.oracle_case(&case, true, "stream_timeout_probe");
    out.check(probe.is_some(), "response_timeout_config_ignored", &case,
        &format!("stream::Config::set_response_timeout({} ms) has no effect on a single-response request: still waiting after {} ms", STREAM_TIMEOUT_MS, 8000));
    let timeouts_work = probe.is_some();
    // the same for a multi-response (AXFR) request: set_response_timeout also governs those unless
    // set_streaming_response_timeout is called afterwards
    let case = format!("stream timeout-probe-multi set_response_timeout({}ms) silent peer", STREAM_TIMEOUT_MS);
    out.begin(&case);
    let probe_m = rt.block_on(run_timeout_probe_multi(8000));
    out.oracle_case(&case, true, "stream_timeout_probe");
    out.check(probe_m.is_some(), "response_timeout_config_ignored", &case,
        &format!("stream::Config::set_response_timeout({} ms) has no effect on a multi-response request: still waiting after 8000 ms", STREAM_TIMEOUT_MS));
    let n = if a.thorough { 2400 } else { 240 } * a.scale;
    let mut scripts: Vec<(usize, u64, Vec<Step>)> = vec![
        // recycled ID: caller 1 inherits ID 0, then a duplicate of caller 0's answer arrives
        (2, 10_000, vec![Step::Submit(0), Step::Settle, Step::Reply(0, b'G'), Step::Settle, Step::Submit(1), Step::Settle, Step::Reply(0, b'G'), Step::Settle, Step::AnswerAll]),
        (3, 10_000, vec![Step::Submit(0), Step::Submit(1), Step::Submit(2), Step::Settle, Step::Cross(0, 1), Step::Cross(1, 2), Step::Reply(2, b'G'), Step::Settle, Step::AnswerAll]),
        (2, 10_000, vec![Step::Submit(0), Step::Submit(1), Step::Settle, Step::Reply(1, b'G'), Step::Reply(0, b'G')]),
        (2, 10_000, vec![Step::Submit(0), Step::Submit(1), Step::Settle, Step::Reply(0, b'H'), Step::Reply(1, b'Z'), Step::Silence]),
        (1, 10_000, vec![Step::Submit(0), Step::Settle, Step::Silence]),
        (2, 10_000, vec![Step::Submit(0), Step::Settle, Step::Close, Step::Settle, Step::Submit(1)]),
        (2, 0, vec![Step::Submit(0), Step::Settle, Step::Reply(0, b'G'), Step::Settle, Step::Submit(1), Step::Settle, Step::AnswerAll]),
        (1, 10_000, vec![Step::Submit(0), Step::Settle, Step::ShortFrame]),
        (1, 10_000, vec![Step::Submit(0), Step::Settle, Step::PartialFrame]),
    ];
    for _ in 0..n { scripts.push(gen_stream_script(r)); }
    if !timeouts_work {
        // without a working response timeout a request that is still pending at the
        // end of a script would only end after 19 s: close the connection instead
        for sc in scripts.iter_mut() {
            for st in sc.2.iter_mut() { if matches!(st, Step::Silence) { *st = Step::Close; } }
            sc.2.push(Step::Settle); sc.2.push(Step::Close);
        }
    }
    let (mut okd, mut errd) = (0u64, 0u64);
    for chunk in scripts.chunks(60) {
        out.begin(&format!("stream batch of {}", chunk.len()));
        let reps: Vec<StreamReport> = rt.block_on(async {
            let hs: Vec<_> = chunk.iter().cloned().map(|(n, idle, steps)| tokio::spawn(run_stream_script(n, idle, steps))).collect();
            let mut v = Vec::new();
            for h in hs { if let Ok(r) = h.await { v.push(r); } }
            v
        });
        out.check(reps.len() == chunk.len(), "panic_transport", "stream batch", "a script task panicked");
        for rep in reps {
            out.oracle_case(&rep.case, true, "stream_script");
            okd += rep.ok_deliveries; errd += rep.err_deliveries;
            for _ in 0..rep.checks.saturating_sub(rep.fails.len() as u64) { out.check(true, "", "", ""); }
            for (c, d) in &rep.fails { out.check(false, c, &rep.case, d); }
        }
    }
    // unrelated traffic must not keep a request waiting beyond its timeout:
    // 40 junk replies, one every timeout/3; the request has to end long before
    // the peer stops (after about 3 of them; 20 leaves a wide margin)
    if !timeouts_work { return (okd, errd); }
    let case = format!("stream unrelated-traffic total=40 gap={}ms timeout={}ms", STREAM_TIMEOUT_MS / 3, STREAM_TIMEOUT_MS);
    out.begin(&case);
    let (at, res) = rt.block_on(run_unrelated_traffic(40, STREAM_TIMEOUT_MS / 3));
    out.oracle_case(&case, true, "stream_unrelated_traffic");
    out.check(at.map_or(false, |k| k <= 20), "timeout_extended_by_unknown_id_replies", &case,
        &format!("request completed after {:?} unsolicited replies ({:?}); response timeout is {} ms, replies every {} ms", at, res, STREAM_TIMEOUT_MS, STREAM_TIMEOUT_MS / 3));
    // the edge of the two octet length prefix
    for sizes in [vec![65536usize], vec![65537, 65536, 65540], vec![65536 + r.below(4) as usize, 70000]] {
        let case = format!("stream oversize requests of {:?} octets after one of 65535", sizes);
        out.begin(&case);
        let (fails, skipped) = rt.block_on(run_oversize_script(sizes.clone()));
        out.oracle_case(&case, true, "stream_oversize");
        if skipped { out.count("stream_oversize_calibration_skipped"); }
        out.check(fails.is_empty() || skipped, fails.first().map_or("", |f| f.0), &case, &fails.iter().map(|f| f.1.clone()).collect::<Vec<_>>().join("; "));
    }
    // new requests must not keep an older request waiting beyond its timeout:
    // timeout 200 ms, a new request every 60 ms, up to 20 of them (6 x the
    // timeout); the first request has to time out after about 3 of them (8
    // leaves a wide margin, about 2.4 x the timeout)
    let case = "stream new-requests-traffic timeout=200ms gap=60ms total=20".to_string();
    out.begin(&case);
    let (at, res) = rt.block_on(run_new_requests_traffic(200, 20, 60));
    out.oracle_case(&case, true, "stream_new_requests_traffic");
    out.check(at.map_or(false, |k| k <= 8), "timeout_extended_by_new_requests", &case,
        &format!("the first request completed after {:?} further requests ({:?}); response timeout 200 ms, a new request every 60 ms, silent peer", at, res));
    (okd, errd)
}

// ===================================================================== part 3b'
// T2 for the demultiplexer: deterministic scripts against the real
// stream::Connection, compared with the event machine of the model.  Every
// step is followed by a run of yields (no timers involved: the response timeout
// is 10 s), so each event is fully processed before the next one is issued.

async fn quiesce() { for _ in 0..256 { tokio::task::yield_now().await; } }

/// Write a frame in pieces of `chunk` octets with the reader running in between
/// (short reads on the client side).
async fn frame_chunked(w: &mut (impl AsyncWriteExt + Unpin), m: &[u8], chunk: usize) -> bool {
    let mut v = (m.len() as u16).to_be_bytes().to_vec();
    v.extend_from_slice(m);
    for c in v.chunks(chunk.max(1)) {
        if w.write_all(c).await.is_err() { return false; }
        for _ in 0..4 { tokio::task::yield_now().await; }
    }
    true
}

/// (id, qr, rcode, qd, an, tc, question tokens) of reply variant v to the request
/// (id, question of caller k); None = not a DNS message (reader fails).
fn variant_fields(v: u8, id: u16, k: usize) -> Option<(u16, u8, u8, u8, u8, u8, String)> {
    let kq = format!("{}", k);
    Some(match v {
        b'G' | b'U' => (id, 1, 0, 1, 0, 0, kq), b'T' => (id, 1, 0, 1, 0, 1, kq), b'K' => (id, 1, 0, 1, 1, 1, kq),
        b'X' => (id, 1, 0, 1, 1, 0, kq), b'E' => (id, 1, 3, 1, 0, 0, kq), b'H' => (id, 1, 2, 0, 0, 0, "-".into()),
        b'I' => (id.wrapping_add(1), 1, 0, 1, 0, 0, kq), b'Q' => (id, 0, 0, 1, 0, 0, kq),
        b'N' => (id, 1, 0, 1, 0, 0, "900".into()), b'Y' => (id, 1, 0, 1, 0, 0, format!("{}", 1000 + k)),
        b'Z' => (id, 1, 0, 0, 0, 0, "-".into()), b'W' => (id, 1, 0, 2, 0, 0, format!("{},900", k)),
        b'B' => (id, 1, 0, 1, 0, 0, "bad".into()),
        _ => return None,
    })
}

fn kind_q(k: usize, kind: u8) -> Q {
    let mut q = question(k);
    q.qtype = match kind { b'x' => 252, b'y' => 251, _ => 1 };
    q
}

fn xrep_bytes(x: &XRep, id: u16, q: &Q) -> Vec<u8> {
    let mut body = Vec::new();
    let qd: u16 = match x.qmode {
        b's' => { body.extend_from_slice(&q_wire(q)); 1 }
        b'n' => { let mut o = q.clone(); o.name = name_wire("other.c15.test"); body.extend_from_slice(&q_wire(&o)); 1 }
        b'b' => { let w = q_wire(q); body.extend_from_slice(&w[..w.len() - 3]); 1 }
        _ => 0,
    };
    if x.qmode != b'b' {
        for r in &x.recs {
            body.extend_from_slice(&q.name);
            match r {
                Rec::Soa(serial) => {
                    body.extend_from_slice(&[0, 6, 0, 1, 0, 0, 0, 60, 0, 22, 0, 0]);
                    body.extend_from_slice(&serial.to_be_bytes());
                    body.extend_from_slice(&[0, 0, 0, 1, 0, 0, 0, 1, 0, 0, 0, 1, 0, 0, 0, 1]);
                }
                Rec::Other => body.extend_from_slice(&[0, 1, 0, 1, 0, 0, 0, 60, 0, 4, 192, 0, 2, 1]),
                Rec::Bad => body.extend_from_slice(&[0, 1, 0, 1, 0, 0, 0, 60, 0, 10, 1, 2]),
            }
        }
    }
    let mut ar = 0;
    if let Some(ka) = x.ka {
        // OPT record: root owner, type 41, class = payload size, ttl 0, one option (code 11)
        body.extend_from_slice(&[0, 0, 41, 0x04, 0xd0, 0, 0, 0, 0]);
        match ka {
            None => body.extend_from_slice(&[0, 4, 0, 11, 0, 0]),
            Some(v) => { body.extend_from_slice(&[0, 6, 0, 11, 0, 2]); body.extend_from_slice(&v.to_be_bytes()); }
        }
        ar = 1;
    }
    mk_msg(id, true, false, false, x.rcode, [qd, x.recs.len() as u16, 0, ar], &body)
}

fn xrep_event(x: &XRep, id: u16, k: usize) -> String {
    let qs = match x.qmode { b's' => format!("{}", k), b'n' => "900".to_string(), b'b' => "bad".to_string(), _ => "-".to_string() };
    let ans = if x.qmode == b'b' { "bad".to_string() } else if x.recs.is_empty() { "-".to_string() } else {
        x.recs.iter().map(|r| match r { Rec::Soa(s) => format!("s{}", s), Rec::Other => "o".to_string(), Rec::Bad => "e".to_string() }).collect::<Vec<_>>().join(",") };
    let ka = match x.ka { None => "-".to_string(), Some(None) => "n".to_string(), Some(Some(v)) => v.to_string() };
    format!("p{}:1:{}:{}:{}:0:{}:{}:{}", id, x.rcode, if x.qmode == b'e' { 0 } else { 1 }, x.recs.len(), qs, ans, ka)
}

async fn run_demux_script(ncallers: usize, idle_zero: bool, steps: Vec<Step>, pipe: usize, chunk: usize, tick_idle: bool) -> (String, String) {
    // a small pipe makes the transport's writes partial, a small chunk its reads short
    let (client, server) = tokio::io::duplex(pipe);
    let mut cfg = stream::Config::new();
    cfg.set_response_timeout(Duration::from_secs(600));
    cfg.set_streaming_response_timeout(Duration::from_secs(600));
    // tick scripts: a 10 ms idle timeout that Step::Tick lets expire (60 ms of real time, on the same runtime:
    // the transport's timer is due first); every other script keeps the idle timer out of the way
    cfg.set_idle_timeout(if idle_zero { Duration::ZERO } else if tick_idle { Duration::from_millis(10) } else { Duration::from_secs(3600) });
    let (conn, transport) = stream::Connection::<RequestMessage<Vec<u8>>, RequestMessageMulti<Vec<u8>>>::with_config(client, cfg);
    let th = tokio::spawn(transport.run());
    let (rd, mut wr) = tokio::io::split(server);
    let seen: Seen = Arc::new(Mutex::new(vec![]));
    let ph = tokio::spawn(peer_reader(rd, seen.clone()));
    let results: Arc<Mutex<Vec<Option<String>>>> = Arc::new(Mutex::new(vec![None; ncallers]));
    let order: Arc<Mutex<Vec<usize>>> = Arc::new(Mutex::new(vec![]));
    let mut callers = Vec::new();
    let mut submitted: Vec<usize> = Vec::new();
    let mut kinds: Vec<u8> = vec![b's'; ncallers];
    let mut evs: Vec<String> = Vec::new();
    let mut wr_open = true;
    for s in &steps {
        match s {
            Step::Submit(_) | Step::SubmitK(..) => {
                let (k, kind) = match s { Step::SubmitK(k, kind) => (*k, *kind), Step::Submit(k) => (*k, b's'), _ => unreachable!() };
                kinds[k] = kind;
                let (results, order) = (results.clone(), order.clone());
                if kind == b's' {
                    let mut g = SendRequest::send_request(&conn, request_for(&question(k)));
                    callers.push(tokio::spawn(async move {
                        let r = g.get_response().await;
                        order.lock().unwrap().push(k);
                        results.lock().unwrap()[k] = Some(match r {
                            Ok(m) => { let h = parse_hdr(m.as_slice()).unwrap(); format!("A{}.{}.{}", h.rcode, h.an, h.tc as u8) }
                            Err(e) => if err_class(&e) == "wrong_reply" { "W".to_string() } else { "E".to_string() },
                        });
                    }));
                } else {
                    let q = kind_q(k, kind);
                    let mut qb = MessageBuilder::new_vec().question();
                    qb.push((Name::<Vec<u8>>::from_octets(q.name.clone()).unwrap(), Rtype::from_int(q.qtype))).unwrap();
                    let req = RequestMessageMulti::new(qb.into_message()).unwrap();
                    let mut g = SendRequestMulti::send_request(&conn, req);
                    callers.push(tokio::spawn(async move {
                        let mut items = String::new();
                        loop {
                            match g.get_response().await {
                                Ok(Some(_)) => items.push('A'),
                                Ok(None) => { items.push('F'); break; }
                                Err(e) => if err_class(&e) == "wrong_reply" { items.push('W'); } else { items.push('E'); break; },
                            }
                        }
                        order.lock().unwrap().push(k);
                        results.lock().unwrap()[k] = Some(items);
                    }));
                }
                submitted.push(k);
                evs.push(format!("{}{}", kind as char, k));
            }
            Step::Reply(k, v) => if wr_open { if let Some(id) = wire_id_q(&seen, &kind_q(*k, kinds[*k])) {
                wr_open = frame_chunked(&mut wr, &reply(*v, id, &kind_q(*k, kinds[*k]), false), chunk).await;
                match variant_fields(*v, id, *k) {
                    Some((i, qr, rc, qd, an, tc, qs)) => evs.push(format!("p{}:{}:{}:{}:{}:{}:{}:{}:-", i, qr, rc, qd, an, tc, qs, if qs == "bad" { "bad" } else if an == 1 { "o" } else { "-" })),
                    None => evs.push("f".into()),
                }
            } },
            Step::ReplyX(k, x) => if wr_open { if let Some(id) = wire_id_q(&seen, &kind_q(*k, kinds[*k])) {
                wr_open = frame_chunked(&mut wr, &xrep_bytes(x, id, &kind_q(*k, kinds[*k])), chunk).await;
                evs.push(xrep_event(x, id, *k));
            } },
            Step::Cross(a, b) => if wr_open { if let Some(id) = wire_id_q(&seen, &kind_q(*a, kinds[*a])) {
                wr_open = frame_chunked(&mut wr, &reply(b'G', id, &kind_q(*b, kinds[*b]), false), chunk).await;
                evs.push(format!("p{}:1:0:1:0:0:{}:-:-", id, b));
            } },
            Step::Junk => if wr_open { wr_open = frame_chunked(&mut wr, &reply(b'G', 0x7777, &question(99), false), chunk).await; evs.push(format!("p{}:1:0:1:0:0:99:-:-", 0x7777)); },
            Step::ShortFrame => if wr_open { wr_open = frame(&mut wr, &[1, 2, 3]).await; evs.push("f".into()); },
            Step::PartialFrame => if wr_open { let _ = wr.write_all(&[0, 100, 1, 2, 3, 4]).await; let _ = wr.shutdown().await; wr_open = false; evs.push("f".into()); },
            Step::Close => if wr_open { let _ = wr.shutdown().await; wr_open = false; evs.push("f".into()); },
            Step::Tick => { quiesce().await; tokio::time::sleep(Duration::from_millis(60)).await; evs.push("t".into()); },
            _ => {}
        }
        quiesce().await;
    }
    if wr_open { let _ = wr.shutdown().await; evs.push("f".into()); quiesce().await; }
    let res = results.lock().unwrap().clone();
    let ord = order.lock().unwrap().clone();
    let cls: Vec<String> = submitted.iter().map(|k| {
        let wire = wire_id_q(&seen, &kind_q(*k, kinds[*k])).map_or("-".to_string(), |i| i.to_string());
        format!("{}={}@{}", k, res[*k].clone().unwrap_or_else(|| "P".to_string()), wire)
    }).collect();
    drop(conn);
    for c in callers { c.abort(); }
    ph.abort(); th.abort();
    let case = format!("sm {} {}", idle_zero as u8, evs.join(" "));
    let obs = format!("{} | {}", if ord.is_empty() { "-".to_string() } else { ord.iter().map(|k| k.to_string()).collect::<Vec<_>>().join(",") }, cls.join(" "));
    (case, obs)
}

fn gen_xrep(r: &mut Rng) -> XRep {
    let qmode = match r.below(20) { 0..=13 => b's', 14..=16 => b'e', 17 | 18 => b'n', _ => b'b' };
    let rcode = if r.chance(1, 8) { *r.pick(&[3u8, 5]) } else { 0 };
    let n = r.below(5);
    let mut recs: Vec<Rec> = (0..n).map(|_| match r.below(10) { 0..=3 => Rec::Soa(1), 4 => Rec::Soa(2), _ => Rec::Other }).collect();
    if r.chance(1, 12) { recs.push(Rec::Bad); }
    // the OPT record is only reachable when everything before it parses; timeouts other than 0 are long
    // enough (60 s, 6553.5 s) never to expire while a script runs
    let ka = if qmode != b'b' && !recs.iter().any(|x| matches!(x, Rec::Bad)) && r.chance(1, 4) {
        Some(match r.below(5) { 0 => None, 1 | 2 => Some(0), 3 => Some(600), _ => Some(65535) }) } else { None };
    XRep { qmode, rcode, recs, ka }
}

fn gen_demux_script(r: &mut Rng) -> (usize, bool, Vec<Step>) {
    let n = r.range(1, 6) as usize;
    let idle_zero = r.chance(1, 4);
    let mut steps = Vec::new();
    let mut submitted = 0usize;
    let multi = r.chance(1, 2);
    let mut kinds: Vec<u8> = Vec::new();
    for _ in 0..r.range(2, if multi { 22 } else { 14 }) {
        let x = r.below(14);
        if submitted == 0 || (x < 4 && submitted < n) {
            let kind = if multi { *r.pick(b"ssxxy") } else { b's' };
            kinds.push(kind);
            steps.push(Step::SubmitK(submitted, kind)); submitted += 1; continue;
        }
        let k = r.below(submitted as u64) as usize;
        if kinds[k] != b's' && r.chance(3, 4) || r.chance(1, 6) { steps.push(Step::ReplyX(k, gen_xrep(r))); continue; }
        match x {
            0..=6 => steps.push(Step::Reply(k, b'G')),
            7 | 8 => steps.push(Step::Reply(k, *r.pick(VARIANTS))),
            9 | 10 => { if submitted > 1 { let b = (k + 1 + r.below(submitted as u64 - 1) as usize) % submitted; steps.push(Step::Cross(k, b)); } else { steps.push(Step::Junk); } }
            11 => steps.push(Step::Junk),
            12 => steps.push(r.pick(&[Step::Close, Step::ShortFrame, Step::PartialFrame]).clone()),
            _ => { steps.push(Step::Reply(k, b'G')); steps.push(Step::Reply(k, b'G')); }
        }
    }
    (n, idle_zero, steps)
}

fn part_demux(out: &mut Out, r: &mut Rng, a: &Args) {
    let rt = tokio::runtime::Builder::new_current_thread().enable_all().build().unwrap();
    let n = if a.thorough { 20_000 } else { 2_000 } * a.scale;
    let mut scripts: Vec<(usize, bool, Vec<Step>)> = vec![
        (2, false, vec![Step::Submit(0), Step::Reply(0, b'G'), Step::Submit(1), Step::Reply(0, b'G'), Step::Reply(1, b'G')]),
        (3, false, vec![Step::Submit(0), Step::Submit(1), Step::Submit(2), Step::Cross(0, 1), Step::Cross(1, 2), Step::Reply(2, b'G')]),
        (3, false, vec![Step::Submit(0), Step::Submit(1), Step::Submit(2), Step::Reply(1, b'G'), Step::Reply(0, b'G'), Step::Close]),
        (2, true, vec![Step::Submit(0), Step::Reply(0, b'G'), Step::Submit(1)]),
        (2, true, vec![Step::Submit(0), Step::Submit(1), Step::Reply(0, b'H'), Step::Reply(1, b'Z'), Step::Junk, Step::Reply(1, b'E'), Step::Submit(0)]),
        (3, false, vec![Step::Submit(0), Step::Submit(1), Step::Reply(0, b'S'), Step::Submit(2)]),
        (4, false, vec![Step::Submit(0), Step::Submit(1), Step::Submit(2), Step::Reply(1, b'G'), Step::Submit(3), Step::Reply(1, b'G'), Step::Reply(3, b'I'), Step::PartialFrame]),
    ];
    let soa = |s: u32| Rec::Soa(s);
    let xr = |qmode: u8, rcode: u8, recs: Vec<Rec>| XRep { qmode, rcode, recs, ka: None };
    let xk = |ka: Option<u16>| XRep { qmode: b's', rcode: 0, recs: vec![], ka: Some(ka) };
    scripts.push((2, false, vec![Step::SubmitK(0, b'x'), Step::ReplyX(0, xr(b's', 0, vec![soa(1), Rec::Other])), Step::ReplyX(0, xr(b'e', 0, vec![Rec::Other, Rec::Other])),
        Step::SubmitK(1, b's'), Step::ReplyX(0, xr(b'e', 0, vec![Rec::Other, soa(1)])), Step::ReplyX(0, xr(b's', 0, vec![Rec::Other])), Step::Reply(1, b'G')]));
    scripts.push((2, false, vec![Step::SubmitK(0, b'y'), Step::ReplyX(0, xr(b's', 0, vec![soa(3), soa(1), Rec::Other, soa(3), Rec::Other])), Step::ReplyX(0, xr(b's', 0, vec![soa(3)]))]));
    scripts.push((2, false, vec![Step::SubmitK(0, b'y'), Step::ReplyX(0, xr(b's', 0, vec![soa(3)]))]));
    scripts.push((2, false, vec![Step::SubmitK(0, b'y'), Step::ReplyX(0, xr(b's', 0, vec![soa(3), Rec::Other])), Step::ReplyX(0, xr(b's', 0, vec![Rec::Other, soa(3)]))]));
    scripts.push((2, true, vec![Step::SubmitK(0, b'x'), Step::ReplyX(0, xr(b's', 3, vec![])), Step::SubmitK(1, b's')]));
    scripts.push((2, false, vec![Step::SubmitK(0, b'x'), Step::ReplyX(0, xr(b'n', 0, vec![soa(1)])), Step::ReplyX(0, xr(b's', 0, vec![soa(1), soa(1)])), Step::Close]));
    scripts.push((2, false, vec![Step::SubmitK(0, b'x'), Step::ReplyX(0, xr(b's', 0, vec![soa(1)])), Step::ReplyX(0, xr(b'b', 0, vec![soa(1)])), Step::ReplyX(0, xr(b's', 0, vec![soa(1)]))]));
    scripts.push((2, false, vec![Step::SubmitK(0, b'x'), Step::ReplyX(0, xr(b's', 0, vec![soa(1), Rec::Bad])), Step::ReplyX(0, xr(b's', 0, vec![soa(1), soa(1), Rec::Other]))]));
    scripts.push((2, false, vec![Step::SubmitK(0, b'x'), Step::ReplyX(0, xr(b's', 0, vec![soa(1), soa(2)])), Step::ReplyX(0, xr(b's', 0, vec![soa(1)])), Step::ReplyX(0, xr(b'e', 5, vec![]))]));
    scripts.push((2, false, vec![Step::SubmitK(0, b'x'), Step::ReplyX(0, xr(b's', 0, vec![])), Step::ReplyX(0, xr(b's', 0, vec![Rec::Other]))]));
    // keepalive: a timeout of zero closes the connection as soon as it is idle, a non-zero one keeps it open
    scripts.push((3, false, vec![Step::SubmitK(0, b's'), Step::ReplyX(0, xk(Some(0))), Step::SubmitK(1, b's')]));
    scripts.push((3, true, vec![Step::SubmitK(0, b's'), Step::ReplyX(0, xk(Some(600))), Step::SubmitK(1, b's'), Step::Reply(1, b'G'), Step::SubmitK(2, b's')]));
    scripts.push((3, false, vec![Step::SubmitK(0, b's'), Step::SubmitK(1, b's'), Step::ReplyX(0, xk(Some(0))), Step::Reply(1, b'G'), Step::SubmitK(2, b's')]));
    scripts.push((3, true, vec![Step::SubmitK(0, b's'), Step::ReplyX(0, xk(None)), Step::SubmitK(1, b's')]));
    for _ in 0..n { scripts.push(gen_demux_script(r)); }
    // a non-zero idle timeout expiring by time: after every reply the script waits for longer than the
    // idle timeout, so the connection is closed exactly when that reply left it idle
    let nticks = if a.thorough { 60 } else { 10 };
    let mut tick_scripts: Vec<(usize, bool, Vec<Step>)> = vec![
        (3, false, vec![Step::SubmitK(0, b's'), Step::Reply(0, b'G'), Step::Tick, Step::SubmitK(1, b's')]),
        (3, false, vec![Step::Tick, Step::SubmitK(0, b's'), Step::SubmitK(1, b's'), Step::Reply(0, b'G'), Step::Tick, Step::Reply(1, b'G'), Step::Tick, Step::SubmitK(2, b's')]),
        (3, false, vec![Step::SubmitK(0, b'x'), Step::ReplyX(0, xr(b's', 0, vec![soa(1)])), Step::Tick, Step::ReplyX(0, xr(b's', 0, vec![soa(1)])), Step::Tick, Step::SubmitK(1, b's')]),
    ];
    for _ in 0..nticks {
        let (nc, _, steps) = gen_demux_script(r);
        let mut st2 = Vec::new();
        for s in steps {
            let is_reply = matches!(s, Step::Reply(..) | Step::ReplyX(..) | Step::Cross(..) | Step::Junk);
            let s = match s { Step::ReplyX(k, mut x) => { x.ka = None; Step::ReplyX(k, x) } o => o };
            st2.push(s);
            if is_reply { st2.push(Step::Tick); }
        }
        tick_scripts.push((nc, false, st2));
    }
    let ntick = tick_scripts.len();
    scripts.extend(tick_scripts);
    let first_tick = scripts.len() - ntick;
    for (si, (nc, iz, steps)) in scripts.into_iter().enumerate() {
        let tick_idle = si >= first_tick;
        out.begin("demux script");
        // caller numbers must be unique per script: the corpus re-submits on purpose only in the model-free part
        let mut seen_k = std::collections::HashSet::new();
        let steps: Vec<Step> = steps.into_iter().filter(|s| match s { Step::Submit(k) | Step::SubmitK(k, _) => seen_k.insert(*k), _ => true }).collect();
        let pipe = *r.pick(&[1usize << 16, 1 << 16, 64, 23, 8]);
        let chunk = *r.pick(&[1usize << 16, 1 << 16, 7, 3, 1]);
        let (case, obs) = rt.block_on(async { match tokio::spawn(run_demux_script(nc.max(6), iz, steps, pipe, chunk, tick_idle)).await {
            Ok(x) => x,
            Err(e) => ("sm 0".to_string(), format!("Panic {}", match e.try_into_panic() { Ok(p) => p.downcast_ref::<String>().cloned().or_else(|| p.downcast_ref::<&str>().map(|s| s.to_string())).unwrap_or_default(), Err(_) => String::new() })),
        } });
        out.check(!obs.starts_with("Panic"), "panic_transport", &case, &obs);
        out.check(!obs.contains("P@"), "never_completes", &case, "a caller was still pending after the connection was closed");
        out.case(&case, &obs, case.matches(" p").count() >= 1, "demux");
    }
}

// ===================================================================== part 3c
// dgram_stream (UDP first, stream on truncation), redundant and load_balancer
// over the mocks; paused clock.

struct TcpShared { modes: Vec<u8>, seen: Vec<Vec<u8>>, q: Q, connects: u32 }   // modes: one per connection made, the last one repeats   // mode: G good reply, W wrong question, C close after the request, N connect error
#[derive(Clone)]
struct TcpMock(Arc<Mutex<TcpShared>>);
impl std::fmt::Debug for TcpMock { fn fmt(&self, f: &mut std::fmt::Formatter<'_>) -> std::fmt::Result { f.write_str("TcpMock") } }

impl AsyncConnect for TcpMock {
    type Connection = tokio::io::DuplexStream;
    type Fut = std::future::Ready<Result<tokio::io::DuplexStream, std::io::Error>>;
    fn connect(&self) -> Self::Fut {
        let mode = { let mut s = self.0.lock().unwrap(); s.connects += 1; let i = (s.connects as usize - 1).min(s.modes.len() - 1); s.modes[i] };
        if mode == b'N' { return std::future::ready(Err(std::io::Error::other("scripted connect error"))); }
        let (c, s) = tokio::io::duplex(1 << 16);
        let sh = self.0.clone();
        tokio::spawn(async move {
            let (mut rd, mut wr) = tokio::io::split(s);
            loop {
                let len = match rd.read_u16().await { Ok(l) => l as usize, Err(_) => return };
                let mut buf = vec![0u8; len];
                if rd.read_exact(&mut buf).await.is_err() { return; }
                let id = parse_hdr(&buf).map(|h| h.id).unwrap_or(0);
                let q = { let mut s = sh.lock().unwrap(); s.seen.push(buf.clone()); s.q.clone() };
                match mode {
                    b'G' => { if !frame(&mut wr, &reply(b'G', id, &q, true)).await { return; } }
                    b'W' => { if !frame(&mut wr, &reply(b'N', id, &q, true)).await { return; } }
                    _ => return,
                }
            }
        });
        std::future::ready(Ok(c))
    }
}

struct DsResult { res: Option<Result<Vec<u8>, String>>, udp_sent: Vec<(u64, Vec<u8>)>, tcp_seen: Vec<Vec<u8>>, panicked: bool }

fn run_dgram_stream(retries: u8, timeout: u64, attempts: Vec<Attempt>, tcp_modes: Vec<u8>, q: Q) -> DsResult {
    let rt = paused_rt();
    rt.block_on(async move {
        let start = tokio::time::Instant::now();
        let sh = Arc::new(Mutex::new(DgShared { attempts, next: 0, sent: vec![], start, q: q.clone(), aa: false }));
        let tsh = Arc::new(Mutex::new(TcpShared { modes: tcp_modes, seen: vec![], q: q.clone(), connects: 0 }));
        let mut dcfg = dgram::Config::new();
        dcfg.set_max_retries(retries);
        dcfg.set_read_timeout(Duration::from_millis(timeout));
        let mut scfg = stream::Config::new();
        scfg.set_idle_timeout(Duration::ZERO);
        let mut mcfg = multi_stream::Config::from(scfg);
        mcfg.set_response_timeout(Duration::from_millis(3000));
        let cfg = dgram_stream::Config::from_parts(dcfg, mcfg);
        let (conn, transport) = dgram_stream::Connection::<_, RequestMessage<Vec<u8>>>::with_config(DgConnect(sh.clone()), TcpMock(tsh.clone()), cfg);
        let th = tokio::spawn(transport.run());
        let req = request_for(&q);
        let h = tokio::spawn(async move {
            let mut g = SendRequest::send_request(&conn, req);
            g.get_response().await
        });
        let joined = tokio::time::timeout(Duration::from_millis(60_000), h).await;
        let panicked = matches!(&joined, Ok(Err(e)) if e.is_panic()) || (th.is_finished() && th.await.map_or_else(|e| e.is_panic(), |_| false));
        let res = match joined { Ok(Ok(r)) => Some(r.map(|m| m.as_slice().to_vec()).map_err(|e| err_class(&e))), _ => None };
        let udp_sent = sh.lock().unwrap().sent.clone();
        let tcp_seen = tsh.lock().unwrap().seen.clone();
        DsResult { res, udp_sent, tcp_seen, panicked }
    })
}

fn part_dgram_stream(out: &mut Out, r: &mut Rng, a: &Args) {
    let n = if a.thorough { 1500 } else { 150 } * a.scale;
    for k in 0..n {
        let retries = r.below(2) as u8;
        let timeout = 50u64;
        // the stream peer per connection made: answers / wrong question / closes after the request / refuses;
        // sequences exercise multi_stream's reconnect (first connection fails, a later one answers)
        let tcp_modes: Vec<u8> = if k < 8 { vec![b"GWCN"[(k % 4) as usize]] } else {
            match r.below(10) { 0 => b"CG".to_vec(), 1 => b"NG".to_vec(), 2 => b"CCG".to_vec(), 3 => b"NCG".to_vec(), _ => vec![*r.pick(b"GGGGGWCN")] } };
        let tcp_mode = tcp_modes[0];
        let healthy_later = tcp_modes.len() > 1;
        let mut attempts: Vec<Attempt> = (0..retries as usize + 1).map(|_| {
            let mut pk = Vec::new();
            if r.chance(1, 3) { pk.push(Pkt { off: r.below(20), v: *r.pick(b"INQSBZ") }); }
            if r.chance(5, 6) { pk.push(Pkt { off: 20 + r.below(25), v: if r.chance(2, 3) { *r.pick(b"TK") } else { *r.pick(b"GHEX") } }); }
            Attempt { fault: b'-', pkts: pk }
        }).collect();
        // fixed: a truncated answer, without and with answer records, against each stream peer
        if k < 8 { attempts = vec![Attempt { fault: b'-', pkts: vec![Pkt { off: 5, v: if k < 4 { b'T' } else { b'K' } }] }]; }
        let case = format!("dgram_stream retries={} tcp={} {}", retries, String::from_utf8_lossy(&tcp_modes), attempts.iter().map(attempt_tok).collect::<Vec<_>>().join("|"));
        out.begin(&case);
        let q = question(2);
        let res = run_dgram_stream(retries, timeout, attempts.clone(), tcp_modes.clone(), q.clone());
        out.oracle_case(&case, true, "dgram_stream");
        out.check(!res.panicked, "panic_transport", &case, "a transport task panicked");
        // did an answering TC reply arrive inside the window of an attempt that was made?
        let udp_tc = attempts.iter().take(res.udp_sent.len()).any(|at| at.pkts.iter().any(|p| (p.v == b'T' || p.v == b'K') && p.off < timeout));
        match &res.res {
            None => out.check(false, "never_completes", &case, "no completion within 60 s of virtual time"),
            Some(Ok(m)) => {
                let h = parse_hdr(m).unwrap();
                let udp_id = res.udp_sent.last().and_then(|(_, d)| parse_hdr(d)).map(|h| h.id);
                let tcp_id = res.tcp_seen.last().and_then(|d| parse_hdr(d)).map(|h| h.id);
                let ok = if h.aa { tcp_id.map_or(false, |id| answers(m, id, &q)) } else { udp_id.map_or(false, |id| answers(m, id, &q)) };
                out.check(ok, "wrong_reply_delivered", &case, &format!("delivered {} (udp id {:?}, stream id {:?})", hex(m), udp_id, tcp_id));
                if h.aa { out.check(res.tcp_seen.last().and_then(|d| parse_qs(d)).as_deref() == Some(std::slice::from_ref(&q)), "request_altered", &case, "stream request does not carry the caller's question"); }
                if tcp_mode == b'G' { out.check(!(h.tc && !h.aa), "tc_not_retried", &case, "a truncated datagram answer was handed to the caller although a stream was available"); }
            }
            Some(Err(_)) => {
                if tcp_mode == b'G' && udp_tc && attempts.iter().take(res.udp_sent.len()).all(|at| at.pkts.iter().all(|p| p.v == b'T' || p.v == b'K' || !variant_answers(p.v) || p.off >= timeout)) {
                    // the only acceptable datagram answers were truncated and the stream peer answers: an error is not expected
                    out.check(!res.tcp_seen.is_empty(), "tc_not_retried", &case, "truncated datagram answer, stream available, but no request was sent over the stream");
                }
            }
        }
        if healthy_later {
            // whatever happened on the failed connections, at most the caller's question went out, each time
            out.check(res.tcp_seen.iter().all(|d| parse_qs(d).as_deref() == Some(std::slice::from_ref(&q))), "request_altered", &case, "a stream request does not carry the caller's question");
        }
        if tcp_mode == b'G' && matches!(&res.res, Some(Ok(m)) if parse_hdr(m).map_or(false, |h| h.aa)) {
            out.check(udp_tc, "stream_used_without_truncation", &case, "answer came over the stream although no truncated datagram answer was received");
        }
    }
}

fn part_selection(out: &mut Out, r: &mut Rng, a: &Args) {
    let n = if a.thorough { 400 } else { 40 } * a.scale;
    for k in 0..n {
        let lb = k % 2 == 1;
        let timeout = 50u64;
        let mk = |r: &mut Rng| -> Vec<Attempt> { (0..2).map(|_| {
            let mut pk = Vec::new();
            if r.chance(1, 3) { pk.push(Pkt { off: r.below(20), v: *r.pick(b"INQSBZP") }); }
            if r.chance(2, 3) { pk.push(Pkt { off: 20 + r.below(25), v: *r.pick(b"GGGHEX") }); }
            Attempt { fault: if r.chance(1, 10) { b'c' } else { b'-' }, pkts: pk }
        }).collect() };
        let (mut s1, mut s2) = (mk(r), mk(r));
        // failing upstreams: one side refuses every connect or stays silent, the other answers
        let dead = |kind: u64| -> Vec<Attempt> { (0..2).map(|_| Attempt { fault: if kind == 0 { b'c' } else { b'-' }, pkts: vec![] }).collect() };
        let good = || -> Vec<Attempt> { (0..2).map(|_| Attempt { fault: b'-', pkts: vec![Pkt { off: 5, v: b'G' }] }).collect() };
        match k / 2 { 0 => { s1 = dead(0); s2 = good(); } 1 => { s1 = good(); s2 = dead(0); } 2 => { s1 = dead(1); s2 = good(); } 3 => { s1 = dead(0); s2 = dead(1); } _ => {} }
        let case = format!("{} up1={} up2={}", if lb { "load_balancer" } else { "redundant" },
            s1.iter().map(attempt_tok).collect::<Vec<_>>().join("|"), s2.iter().map(attempt_tok).collect::<Vec<_>>().join("|"));
        out.begin(&case);
        let q = question(3);
        let rt = paused_rt();
        let (q2, s1c, s2c) = (q.clone(), s1.clone(), s2.clone());
        let (res, sent1, sent2, panicked) = rt.block_on(async move {
            let start = tokio::time::Instant::now();
            let mkc = |att: Vec<Attempt>| {
                let sh = Arc::new(Mutex::new(DgShared { attempts: att, next: 0, sent: vec![], start, q: q2.clone(), aa: false }));
                let mut cfg = dgram::Config::new();
                cfg.set_max_retries(1);
                cfg.set_read_timeout(Duration::from_millis(timeout));
                (sh.clone(), dgram::Connection::with_config(DgConnect(sh), cfg))
            };
            let (sh1, c1) = mkc(s1c);
            let (sh2, c2) = mkc(s2c);
            let req = request_for(&q2);
            let h = if lb {
                let (conn, tr) = load_balancer::Connection::<RequestMessage<Vec<u8>>>::new();
                tokio::spawn(tr.run());
                let cc = load_balancer::ConnConfig::new();
                conn.add("one", &cc, Box::new(c1)).await.unwrap();
                conn.add("two", &cc, Box::new(c2)).await.unwrap();
                tokio::spawn(async move { let mut g = SendRequest::send_request(&conn, req); g.get_response().await })
            } else {
                let (conn, tr) = redundant::Connection::<RequestMessage<Vec<u8>>>::new();
                tokio::spawn(tr.run());
                conn.add(Box::new(c1)).await.unwrap();
                conn.add(Box::new(c2)).await.unwrap();
                tokio::spawn(async move { let mut g = SendRequest::send_request(&conn, req); g.get_response().await })
            };
            let joined = tokio::time::timeout(Duration::from_millis(60_000), h).await;
            let panicked = matches!(&joined, Ok(Err(e)) if e.is_panic());
            let res = match joined { Ok(Ok(r)) => Some(r.map(|m| m.as_slice().to_vec()).map_err(|e| err_class(&e))), _ => None };
            let a = sh1.lock().unwrap().sent.clone();
            let b = sh2.lock().unwrap().sent.clone();
            (res, a, b, panicked)
        });
        out.oracle_case(&case, true, if lb { "load_balancer" } else { "redundant" });
        out.check(!panicked, "panic_transport", &case, "request task panicked");
        match &res {
            None => out.check(false, "never_completes", &case, "no completion within 60 s of virtual time"),
            Some(Ok(m)) => {
                let ids: Vec<u16> = sent1.iter().chain(sent2.iter()).filter_map(|(_, d)| parse_hdr(d)).map(|h| h.id).collect();
                out.check(ids.iter().any(|id| answers(m, *id, &q)), "wrong_reply_delivered", &case, &format!("delivered {} ; request ids sent {:?}", hex(m), ids));
            }
            Some(Err(_)) => out.check(true, "", "", ""),
        }
        let all_q_ok = sent1.iter().chain(sent2.iter()).all(|(_, d)| parse_qs(d).as_deref() == Some(std::slice::from_ref(&q)));
        out.check(all_q_ok, "request_altered", &case, "an upstream datagram does not carry the caller's question");
    }
}

// ===================================================================== part 3d
// load_balancer: the SERVFAIL it makes up itself when no upstream is usable
// (none configured, or all over their burst limit) must carry the request's ID
// and question.  T2 kind `lbl` against lb_local / lb_run of the model.

#[derive(Debug)]
struct UpMock;
#[derive(Debug)]
struct UpReq(Option<Vec<u8>>);
impl SendRequest<RequestMessage<Vec<u8>>> for UpMock {
    fn send_request(&self, r: RequestMessage<Vec<u8>>) -> Box<dyn domain::net::client::request::GetResponse + Send + Sync> {
        Box::new(UpReq(r.to_vec().ok()))
    }
}
impl domain::net::client::request::GetResponse for UpReq {
    fn get_response(&mut self) -> Pin<Box<dyn Future<Output = Result<Message<bytes::Bytes>, Error>> + Send + Sync + '_>> {
        let req = self.0.take();
        Box::pin(async move {
            let req = req.ok_or(Error::ConnectionClosed)?;
            let id = parse_hdr(&req).map(|h| h.id).unwrap_or(0);
            let q = parse_qs(&req).and_then(|v| v.into_iter().next()).unwrap_or(question(0));
            // AA marks answers that came from the upstream
            Ok(Message::from_octets(bytes::Bytes::from(reply(b'G', id, &q, true))).unwrap())
        })
    }
}

fn request_with_id(q: &Q, id: u16, opt: bool) -> RequestMessage<Vec<u8>> {
    let mut mb = MessageBuilder::new_vec();
    mb.header_mut().set_rd(true);
    mb.header_mut().set_id(id);
    let mut qb = mb.question();
    qb.push((Name::<Vec<u8>>::from_octets(q.name.clone()).unwrap(), Rtype::from_int(q.qtype))).unwrap();
    let mut r = RequestMessage::new(qb.into_message()).unwrap();
    if opt { r.set_udp_payload_size(1232); }
    r
}

fn part_lb_local(out: &mut Out, r: &mut Rng, a: &Args) {
    let n = if a.thorough { 600 } else { 60 } * a.scale;
    for k in 0..n {
        let mb: String = if k < 6 { ["x", "n", "0", "1", "2", "x"][k as usize].to_string() } else { match r.below(6) { 0 => "x".into(), 1 => "n".into(), _ => format!("{}", r.below(4)) } };
        let opt = r.chance(1, 2);
        let ids: Vec<u16> = (0..r.range(1, 7)).map(|_| match r.below(6) { 0 => 0, 1 => 65535, 2 => 0x1234, _ => r.u16() }).collect();
        let case = format!("lbl {} {} {}", mb, opt as u8, ids.iter().map(|i| i.to_string()).collect::<Vec<_>>().join(","));
        out.begin(&case);
        let q = question(0);
        let (mb2, ids2, q2) = (mb.clone(), ids.clone(), q.clone());
        let rt = paused_rt();
        let res: Vec<Option<Result<Vec<u8>, String>>> = rt.block_on(async move {
            let (lb, tr) = load_balancer::Connection::<RequestMessage<Vec<u8>>>::new();
            tokio::spawn(tr.run());
            if mb2 != "x" {
                let mut cc = load_balancer::ConnConfig::new();
                if mb2 != "n" { cc.set_max_burst(Some(mb2.parse().unwrap())); cc.set_burst_interval(Duration::from_secs(3600)); }
                lb.add("up", &cc, Box::new(UpMock)).await.unwrap();
            }
            let mut v = Vec::new();
            for id in ids2 {
                let req = request_with_id(&q2, id, opt);
                let lb2 = lb.clone();
                let h = tokio::spawn(async move { let mut g = SendRequest::send_request(&lb2, req); g.get_response().await });
                v.push(match tokio::time::timeout(Duration::from_secs(600), h).await {
                    Ok(Ok(r)) => Some(r.map(|m| m.as_slice().to_vec()).map_err(|e| err_class(&e))),
                    Ok(Err(_)) => Some(Err("panic".into())),
                    Err(_) => None,
                });
            }
            v
        });
        let mut toks = Vec::new();
        for (id, r1) in ids.iter().zip(res.iter()) {
            match r1 {
                None => { out.check(false, "never_completes", &case, "load balancer request did not complete"); toks.push("P".to_string()); }
                Some(Err(e)) => { out.check(e != "panic", "panic_transport", &case, "load balancer request panicked"); toks.push(format!("E:{}", e)); }
                Some(Ok(m)) => {
                    let h = parse_hdr(m).unwrap();
                    let same = parse_qs(m).as_deref() == Some(std::slice::from_ref(&q));
                    if h.aa {
                        out.check(answers(m, *id, &q), "wrong_reply_delivered", &case, &format!("upstream answer {} for request id {}", hex(m), id));
                        toks.push("U".into());
                    } else {
                        out.check(h.id == *id, "local_answer_wrong_id", &case, &format!("the locally generated answer has ID {} but the request had ID {}: {}", h.id, id, hex(m)));
                        out.check(same, "local_answer_wrong_question", &case, &format!("the locally generated answer does not carry the request's question: {}", hex(m)));
                        toks.push(format!("L:{}:{}:{}:{}:{}:{}:{}", h.id, h.qr as u8, h.rcode, h.qd, h.an, h.ar, if same { "same" } else { "other" }));
                    }
                }
            }
        }
        out.case(&case, &toks.join(" "), ids.iter().any(|i| *i != 0), "lb_local");
    }
}

// ===================================================================== part 3e
// multi_stream: one response-timeout budget per request, however many
// connections come up slowly, die or stay silent.  Paused clock; T2 kind `msr`
// for the scripts whose outcome does not depend on the random back-off delays.

#[derive(Clone, Debug)]
enum Fate { Reply(u64), Wrong(u64), Dies(u64), Silent }
#[derive(Clone, Debug)]
enum CAtt { Fail(u64), Up(u64, Fate) }

struct MsShared { atts: Vec<CAtt>, star: bool, next: usize, seen: Vec<Vec<u8>>, q: Q }
#[derive(Clone)]
struct MsConnect(Arc<Mutex<MsShared>>);
impl std::fmt::Debug for MsConnect { fn fmt(&self, f: &mut std::fmt::Formatter<'_>) -> std::fmt::Result { f.write_str("MsConnect") } }

impl AsyncConnect for MsConnect {
    type Connection = tokio::io::DuplexStream;
    type Fut = Pin<Box<dyn Future<Output = Result<tokio::io::DuplexStream, std::io::Error>> + Send + Sync>>;
    fn connect(&self) -> Self::Fut {
        let att = {
            let mut s = self.0.lock().unwrap();
            let i = s.next; s.next += 1;
            if i < s.atts.len() { Some(s.atts[i].clone()) } else if s.star { s.atts.last().cloned() } else { None }
        };
        let sh = self.0.clone();
        Box::pin(async move {
            match att {
                None => { std::future::pending::<()>().await; unreachable!() }
                Some(CAtt::Fail(d)) => { tokio::time::sleep(Duration::from_millis(d)).await; Err(std::io::Error::other("scripted connect error")) }
                Some(CAtt::Up(d, fate)) => {
                    tokio::time::sleep(Duration::from_millis(d)).await;
                    let (c, s) = tokio::io::duplex(1 << 16);
                    tokio::spawn(async move {
                        let (mut rd, mut wr) = tokio::io::split(s);
                        let len = match rd.read_u16().await { Ok(l) => l as usize, Err(_) => return };
                        let mut buf = vec![0u8; len];
                        if rd.read_exact(&mut buf).await.is_err() { return; }
                        let id = parse_hdr(&buf).map(|h| h.id).unwrap_or(0);
                        let q = { let mut s = sh.lock().unwrap(); s.seen.push(buf.clone()); s.q.clone() };
                        match fate {
                            Fate::Reply(e) => { tokio::time::sleep(Duration::from_millis(e)).await; let _ = frame(&mut wr, &reply(b'G', id, &q, true)).await; std::future::pending::<()>().await; }
                            Fate::Wrong(e) => { tokio::time::sleep(Duration::from_millis(e)).await; let _ = frame(&mut wr, &reply(b'N', id, &q, true)).await; std::future::pending::<()>().await; }
                            Fate::Dies(e) => { tokio::time::sleep(Duration::from_millis(e)).await; }
                            Fate::Silent => { std::future::pending::<()>().await; }
                        }
                    });
                    Ok(c)
                }
            }
        })
    }
}

fn catt_tok(a: &CAtt) -> String {
    match a {
        CAtt::Fail(d) => format!("f{}", d),
        CAtt::Up(d, Fate::Reply(e)) => format!("k{}:R{}", d, e), CAtt::Up(d, Fate::Wrong(e)) => format!("k{}:W{}", d, e),
        CAtt::Up(d, Fate::Dies(e)) => format!("k{}:X{}", d, e), CAtt::Up(d, Fate::Silent) => format!("k{}:S", d),
    }
}

fn part_ms_request(out: &mut Out, r: &mut Rng, a: &Args) {
    let n = if a.thorough { 3000 } else { 300 } * a.scale;
    let mut corpus: Vec<(u64, Vec<CAtt>, bool)> = vec![
        (30000, vec![CAtt::Up(20000, Fate::Silent)], false),                      // slow accept, then silence
        (30000, vec![CAtt::Up(0, Fate::Dies(0))], true),                          // every connection dies after reading the request
        (3000, vec![CAtt::Fail(10)], true),
        (3000, vec![CAtt::Up(100, Fate::Reply(2900))], false),
        (3000, vec![CAtt::Up(100, Fate::Reply(2901))], false),
        (3000, vec![CAtt::Up(3000, Fate::Reply(0))], false),
        (3000, vec![CAtt::Up(1000, Fate::Dies(500)), CAtt::Up(1000, Fate::Silent)], false),
        (3000, vec![CAtt::Up(10, Fate::Wrong(20))], false),
    ];
    for k in 0..n + corpus.len() as u64 {
        let (t, atts, star) = if (k as usize) < corpus.len() { std::mem::take(&mut corpus[k as usize]) } else {
            let t = *r.pick(&[300u64, 1000, 3000]);
            let dur = |r: &mut Rng| match r.below(8) { 0 => 0, 1 => t, 2 => t - 1, 3 => t + 5, 4 => t / 2, _ => r.below(t) };
            let na = r.range(1, 4);
            let atts: Vec<CAtt> = (0..na).map(|i| {
                if r.chance(1, 4) { CAtt::Fail(dur(r) / 3) } else {
                    let d = dur(r) / if i == 0 { 1 } else { 3 };
                    let f = match r.below(8) { 0 | 1 => Fate::Reply(dur(r)), 2 => Fate::Wrong(dur(r)), 3 | 4 | 5 => Fate::Dies(dur(r) / 3), _ => Fate::Silent };
                    CAtt::Up(d, f)
                } }).collect();
            (t, atts, r.chance(1, 2))
        };
        // the outcome is independent of the random back-off delays unless a later attempt can still succeed
        let deterministic = !atts.iter().skip(1).any(|x| matches!(x, CAtt::Up(_, Fate::Reply(_)) | CAtt::Up(_, Fate::Wrong(_))))
            && !(star && atts.len() == 1 && false);
        let script = format!("{}{}", atts.iter().map(catt_tok).collect::<Vec<_>>().join("|"), if star { "*" } else { "" });
        let case = format!("msr {} {}", t, script);
        out.begin(&case);
        let q = question(4);
        let sh = Arc::new(Mutex::new(MsShared { atts: atts.clone(), star, next: 0, seen: vec![], q: q.clone() }));
        let (sh2, q2) = (sh.clone(), q.clone());
        let rt = paused_rt();
        let (res, elapsed) = rt.block_on(async move {
            let mut scfg = stream::Config::new();
            scfg.set_idle_timeout(Duration::ZERO);
            let mut cfg = multi_stream::Config::from(scfg);
            cfg.set_response_timeout(Duration::from_millis(t));
            let (conn, tr) = multi_stream::Connection::<RequestMessage<Vec<u8>>>::with_config(MsConnect(sh2), cfg);
            tokio::spawn(tr.run());
            let start = tokio::time::Instant::now();
            let h = tokio::spawn(async move { let mut g = SendRequest::send_request(&conn, request_for(&q2)); let r = g.get_response().await; (r, tokio::time::Instant::now()) });
            match tokio::time::timeout(Duration::from_millis(t * 50 + 100_000), h).await {
                Ok(Ok((r, at))) => (Some(r.map(|m| m.as_slice().to_vec()).map_err(|e| err_class(&e))), at.duration_since(start).as_millis() as u64),
                Ok(Err(_)) => (Some(Err("panic".to_string())), 0),
                Err(_) => (None, t * 50 + 100_000),
            }
        });
        let obs = match &res {
            None => "Never".to_string(),
            Some(Ok(_)) => format!("Ok {}", elapsed),
            Some(Err(e)) if e == "wrong_reply" => format!("Err wrong {}", elapsed),
            Some(Err(e)) if e == "read_timeout" => format!("Err timeout {}", elapsed),
            Some(Err(e)) => format!("Err {} {}", e, elapsed),
        };
        if deterministic { out.case(&case, &obs, true, "ms_request"); } else { out.oracle_case(&case, true, "ms_request_random_backoff"); }
        match &res {
            None => out.check(false, "never_completes", &case, "multi_stream request did not complete"),
            Some(Err(e)) => out.check(e != "panic", "panic_transport", &case, "multi_stream request panicked"),
            Some(Ok(m)) => {
                let id = sh.lock().unwrap().seen.last().and_then(|d| parse_hdr(d)).map(|h| h.id);
                out.check(id.map_or(false, |id| answers(m, id, &q)), "wrong_reply_delivered", &case, &format!("delivered {} for stream request id {:?}", hex(m), id));
            }
        }
        out.check(elapsed <= t, "response_budget_exceeded", &case,
            &format!("the request ended after {} ms although multi_stream's response timeout is {} ms (the budget is per request, not per connection)", elapsed, t));
    }
}

// ===================================================================== part 3f
// T2 for the connection-management models where the schedule is deterministic:
// `msc`: requests over one multi_stream transport with the peer killing the
// current connection in between (reuse / forced reconnect; no back-off involved
// because connects succeed); `red`: redundant with upstreams that all give the
// same result (independent of the randomised probing order).

struct KillShared { connects: u32, kill: Vec<tokio::sync::oneshot::Sender<()>>, q: Q }
#[derive(Clone)]
struct KillConnect(Arc<Mutex<KillShared>>);
impl std::fmt::Debug for KillConnect { fn fmt(&self, f: &mut std::fmt::Formatter<'_>) -> std::fmt::Result { f.write_str("KillConnect") } }
impl AsyncConnect for KillConnect {
    type Connection = tokio::io::DuplexStream;
    type Fut = std::future::Ready<Result<tokio::io::DuplexStream, std::io::Error>>;
    fn connect(&self) -> Self::Fut {
        let (c, s) = tokio::io::duplex(1 << 16);
        let (tx, mut rx) = tokio::sync::oneshot::channel::<()>();
        let q = { let mut sh = self.0.lock().unwrap(); sh.connects += 1; sh.kill.push(tx); sh.q.clone() };
        tokio::spawn(async move {
            let (mut rd, mut wr) = tokio::io::split(s);
            loop {
                tokio::select! {
                    _ = &mut rx => return,          // killed: both halves are dropped
                    l = rd.read_u16() => {
                        let len = match l { Ok(l) => l as usize, Err(_) => return };
                        let mut buf = vec![0u8; len];
                        if rd.read_exact(&mut buf).await.is_err() { return; }
                        let id = parse_hdr(&buf).map(|h| h.id).unwrap_or(0);
                        if !frame(&mut wr, &reply(b'G', id, &q, true)).await { return; }
                    }
                }
            }
        });
        std::future::ready(Ok(c))
    }
}

#[derive(Debug)]
struct FixedUp(u8);     // b'e' transport error, otherwise a reply with this RCODE
#[derive(Debug)]
struct FixedReq(u8, Option<Vec<u8>>);
impl SendRequest<RequestMessage<Vec<u8>>> for FixedUp {
    fn send_request(&self, r: RequestMessage<Vec<u8>>) -> Box<dyn domain::net::client::request::GetResponse + Send + Sync> {
        Box::new(FixedReq(self.0, r.to_vec().ok()))
    }
}
impl domain::net::client::request::GetResponse for FixedReq {
    fn get_response(&mut self) -> Pin<Box<dyn Future<Output = Result<Message<bytes::Bytes>, Error>> + Send + Sync + '_>> {
        let (kind, req) = (self.0, self.1.take());
        Box::pin(async move {
            if kind == b'e' { return Err(Error::ConnectionClosed); }
            let req = req.ok_or(Error::ConnectionClosed)?;
            let id = parse_hdr(&req).map(|h| h.id).unwrap_or(0);
            let q = parse_qs(&req).and_then(|v| v.into_iter().next()).unwrap_or(question(0));
            Ok(Message::from_octets(bytes::Bytes::from(mk_msg(id, true, false, true, kind, [1, 0, 0, 0], &q_wire(&q)))).unwrap())
        })
    }
}

fn part_conn_models(out: &mut Out, r: &mut Rng, a: &Args) {
    let n = if a.thorough { 1500 } else { 150 } * a.scale;
    for k in 0..n {
        let idle_zero = r.chance(1, 3);
        let ops: String = if k == 0 { "qqkqkkqq".into() } else { (0..r.range(1, 10)).map(|_| if r.chance(2, 3) { 'q' } else { 'k' }).collect() };
        let case = format!("msc {} {}", idle_zero as u8, ops);
        out.begin(&case);
        let q = question(5);
        let sh = Arc::new(Mutex::new(KillShared { connects: 0, kill: vec![], q: q.clone() }));
        let (sh2, q2, ops2) = (sh.clone(), q.clone(), ops.clone());
        let rt = tokio::runtime::Builder::new_current_thread().enable_all().build().unwrap();
        let obs: Vec<String> = rt.block_on(async move {
            let mut scfg = stream::Config::new();
            scfg.set_idle_timeout(if idle_zero { Duration::ZERO } else { Duration::from_secs(3600) });
            scfg.set_response_timeout(Duration::from_secs(600));
            let mut cfg = multi_stream::Config::from(scfg);
            cfg.set_response_timeout(Duration::from_secs(600));
            let (conn, tr) = multi_stream::Connection::<RequestMessage<Vec<u8>>>::with_config(KillConnect(sh2.clone()), cfg);
            tokio::spawn(tr.run());
            let mut v = Vec::new();
            for op in ops2.chars() {
                if op == 'k' {
                    let ks: Vec<_> = sh2.lock().unwrap().kill.drain(..).collect();
                    for kx in ks { let _ = kx.send(()); }
                } else {
                    let c2 = conn.clone(); let q3 = q2.clone();
                    let h = tokio::spawn(async move { let mut g = SendRequest::send_request(&c2, request_for(&q3)); g.get_response().await });
                    let ok = matches!(h.await, Ok(Ok(_)));
                    v.push(format!("{}:{}", ok as u8, sh2.lock().unwrap().connects));
                }
                quiesce().await;
            }
            v
        });
        out.case(&case, &if obs.is_empty() { String::new() } else { obs.join(" ") }, ops.contains('k'), "ms_conn");
    }
    for k in 0..n {
        let nup = 1 + (k % 2) as usize;
        let (de, dr, ds) = (r.chance(1, 2), r.chance(1, 2), r.chance(1, 2));
        let res: String = match r.below(5) { 0 => "e".into(), 1 => "g0".into(), 2 => "g5".into(), 3 => "g2".into(), _ => format!("g{}", r.pick(&[0u8, 2, 3, 5])) };
        let case = format!("red {} {} {} {} {}", nup, de as u8, dr as u8, ds as u8, res);
        out.begin(&case);
        let kind: u8 = if res == "e" { b'e' } else { res[1..].parse().unwrap() };
        let q = question(6);
        let q2 = q.clone();
        let rt = paused_rt();
        let got = rt.block_on(async move {
            let mut cfg = redundant::Config::default();
            cfg.set_defer_transport_error(de); cfg.set_defer_refused(dr); cfg.set_defer_servfail(ds);
            let (conn, tr) = redundant::Connection::<RequestMessage<Vec<u8>>>::with_config(cfg);
            tokio::spawn(tr.run());
            for _ in 0..nup { conn.add(Box::new(FixedUp(kind))).await.unwrap(); }
            let h = tokio::spawn(async move { let mut g = SendRequest::send_request(&conn, request_with_id(&q2, 0x4242, false)); g.get_response().await });
            match tokio::time::timeout(Duration::from_secs(600), h).await { Ok(Ok(r)) => Some(r.map(|m| m.as_slice().to_vec()).map_err(|e| err_class(&e))), Ok(Err(_)) => Some(Err("panic".into())), Err(_) => None }
        });
        let obs = match &got {
            None => { out.check(false, "never_completes", &case, "redundant request did not complete"); "Pending".to_string() }
            Some(Err(e)) => { out.check(e != "panic", "panic_transport", &case, "redundant request panicked"); if e == "panic" { "Panic".to_string() } else { "Err".to_string() } }
            Some(Ok(m)) => {
                out.check(answers(m, 0x4242, &q), "wrong_reply_delivered", &case, &format!("delivered {}", hex(m)));
                format!("Ok {}", parse_hdr(m).unwrap().rcode)
            }
        };
        out.case(&case, &obs, true, "redundant");
    }
}

fn main() {
    let a = args();
    let mut out = Out::new(&a, "C15", 90);
    let mut r = Rng::new(a.seed);
    let only = a.extra.iter().find_map(|x| x.strip_prefix("--part=").map(|s| s.to_string()));
    let want = |p: &str| only.as_deref().map_or(true, |o| o == p);
    if want("queries") { part_queries(&mut out, &mut r, &a); }
    if want("is_answer") { part_is_answer(&mut out, &mut r, &a); }
    if want("dgram") { part_dgram(&mut out, &mut r, &a); }
    let (mut okd, mut errd) = (0, 0);
    if want("stream") { let x = part_stream(&mut out, &mut r, &a); okd = x.0; errd = x.1; }
    if want("demux") { part_demux(&mut out, &mut r, &a); }
    if want("dgram_stream") { part_dgram_stream(&mut out, &mut r, &a); }
    if want("selection") { part_selection(&mut out, &mut r, &a); }
    if want("lb_local") { part_lb_local(&mut out, &mut r, &a); }
    if want("ms_request") { part_ms_request(&mut out, &mut r, &a); }
    if want("conn_models") { part_conn_models(&mut out, &mut r, &a); }
    out.finish(&[("stream_ok_deliveries", format!("{}", okd)), ("stream_error_completions", format!("{}", errd))]);
}
