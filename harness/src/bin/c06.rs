//! C06 -- records written in presentation format read back equal.
//!
//! Oracle (implementation only): every zone record type, generated from wire
//! format record data, is written with `display_zonefile` in the three display
//! kinds, the text (plus a line feed) is handed to `zonefile::inplace::Zonefile`
//! and the single record read back must equal the written one (owner, class,
//! ttl, data).  Correspondence cases (T2) compare the Coq model's text for
//! labels / character strings / names / the three writers and the model
//! reader's result with the implementation.
use bytes::Bytes;
use domain::base::charstr::CharStr;
use domain::base::iana::Class;
use domain::base::name::{Label, Name, ParsedName, ToName};
use domain::base::rdata::{ComposeRecordData, ParseRecordData, RecordData, UnknownRecordData};
use domain::base::zonefile_fmt::{self, DisplayKind, Formatter, ZonefileFmt};
use domain::base::{Record, Rtype, Ttl};
use domain::rdata::ZoneRecordData;
use domain::zonefile::inplace::{Entry, ScannedRecord, Zonefile};
use dv_harness::*;
use octseq::Parser;
use std::collections::BTreeMap;
use std::fmt::Write as _;
use std::str::FromStr;

type Data = ZoneRecordData<Bytes, ParsedName<Bytes>>;
type Rec = Record<Name<Bytes>, Data>;

const KINDS: [(&str, char); 3] = [("simple", 's'), ("tabbed", 't'), ("multiline", 'm')];
fn kind_of(c: char) -> DisplayKind {
    match c { 's' => DisplayKind::Simple, 't' => DisplayKind::Tabbed, _ => DisplayKind::Multiline }
}

// ---------------------------------------------------------------- generators

const SPECIAL: &[u8] = b" .\\\";()@$#[]\t\r\n\x00\x7f\x80\xff*-_/+=,:'`{}|~!%&<>?^0123456789aAzZ";

fn octet(r: &mut Rng) -> u8 {
    match r.below(10) {
        0..=3 => *r.pick(SPECIAL),
        4..=6 => b'a' + r.below(26) as u8,
        7 => b'0' + r.below(10) as u8,
        _ => r.u8(),
    }
}

fn octets(r: &mut Rng, n: usize) -> Vec<u8> { (0..n).map(|_| octet(r)).collect() }

fn len_small(r: &mut Rng, max: usize) -> usize {
    let n = match r.below(12) {
        0 => 0,
        1 => max,
        2 => max.saturating_sub(1),
        3..=8 => r.below(6) as usize,
        _ => r.below(max as u64 + 1) as usize,
    };
    n.min(max)
}

fn gen_label(r: &mut Rng) -> Vec<u8> {
    const FIXED: &[&[u8]] = &[b"@", b"$", b"$ORIGIN", b"$TTL", b"#", b"\\#", b"[", b"IN", b"A", b"3600", b"*", b"TYPE1",
        b"CLASS1", b"a;b\"c(d)", b" ", b".", b"\\", b"\"", b"(", b")", b";", b"\t", b"\n", b"\r", b"\x00", b"\x7f", b"\xff", b"-"];
    match r.below(8) {
        0 => r.pick(FIXED).to_vec(),
        1 => { let mut v = r.pick(FIXED).to_vec(); v.extend(octets(r, 2)); v.truncate(63); v }
        _ => { let n = len_small(r, 63).max(1); octets(r, n) }
    }
}

/// absolute name in wire format, at most 255 octets
fn gen_name(r: &mut Rng) -> Vec<u8> {
    if r.chance(1, 25) {
        // a name of exactly 255 (or 254) octets: labels of 63, 63, 63 and 61 (60) octets
        let mut w = Vec::new();
        let last = if r.chance(1, 2) { 61 } else { 60 };
        for n in [63usize, 63, 63, last] { w.push(n as u8); for _ in 0..n { w.push(if r.chance(1, 8) { octet(r) } else { b'a' + r.below(26) as u8 }); } }
        w.push(0);
        return w;
    }
    let mut w = Vec::new();
    let nlab = match r.below(10) { 0 => 0, 1..=4 => 1, 5..=7 => 2, 8 => 3, _ => r.below(12) as usize };
    for _ in 0..nlab {
        let l = gen_label(r);
        if w.len() + 1 + l.len() + 1 > 255 { break; }
        w.push(l.len() as u8);
        w.extend(l);
    }
    w.push(0);
    w
}

fn gen_charstr(r: &mut Rng) -> Vec<u8> {
    let n = len_small(r, 255);
    let mut v = vec![n as u8];
    v.extend(octets(r, n));
    v
}

fn gen_blob(r: &mut Rng, max: usize) -> Vec<u8> {
    let n = len_small(r, max);
    if r.chance(1, 4) { octets(r, n) } else { r.bytes(n) }
}

fn ext_u8(r: &mut Rng) -> u8 { match r.below(5) { 0 => 0, 1 => 255, 2 => r.below(20) as u8, _ => r.u8() } }
fn ext_u16(r: &mut Rng) -> u16 { match r.below(6) { 0 => 0, 1 => 65535, 2 => r.below(300) as u16, 3 => 256, _ => r.u16() } }
fn ext_u32(r: &mut Rng) -> u32 { match r.below(7) { 0 => 0, 1 => u32::MAX, 2 => 0x7fff_ffff, 3 => 0x8000_0000, 4 => r.below(100000) as u32, _ => r.u32() } }

fn gen_bitmap(r: &mut Rng) -> Vec<u8> {
    let mut v = Vec::new();
    let nwin = match r.below(6) { 0 => 0, 1..=3 => 1, _ => 1 + r.below(4) as usize };
    let mut win: u16 = if r.chance(3, 4) { 0 } else { r.below(250) as u16 };
    for _ in 0..nwin {
        if win > 255 { break; }
        let len = 1 + match r.below(4) { 0 => 31, 1 => 0, _ => r.below(32) as usize };
        let mut bits = r.bytes(len);
        if bits[len - 1] == 0 { bits[len - 1] = 1 << r.below(8); }
        v.push(win as u8);
        v.push(len as u8);
        v.extend(bits);
        win += 1 + r.below(60) as u16;
    }
    v
}

fn gen_svc_params(r: &mut Rng) -> Vec<u8> {
    let n = match r.below(6) { 0 => 0, 1..=3 => 1, _ => 1 + r.below(5) as usize };
    let mut key: u32 = 1 + r.below(2) as u32;
    let mut params: Vec<(u16, Vec<u8>)> = Vec::new();
    for _ in 0..n {
        if key > 65535 { break; }
        let val: Vec<u8> = match key {
            1 => { // alpn: length-prefixed ids
                let mut m = Vec::new();
                for _ in 0..1 + r.below(3) { let n = 1 + r.below(6) as usize; m.push(n as u8); m.extend(octets(r, n)); }
                m }
            2 => vec![],                       // no-default-alpn
            3 => ext_u16(r).to_be_bytes().to_vec(), // port
            4 => { let n = 4 * (1 + r.below(3) as usize); r.bytes(n) } // ipv4hint
            5 => gen_blob(r, 40),              // ech
            6 => { let n = 16 * (1 + r.below(2) as usize); r.bytes(n) } // ipv6hint
            7 => { // dohpath: a UTF-8 string (RFC 9461), with characters special in zone files
                let n = 1 + r.below(12) as usize; let mut v = Vec::new();
                for _ in 0..n { match r.below(8) { 0 => v.extend("\u{e9}".as_bytes()), 1 => v.extend("\u{20ac}".as_bytes()), 2 | 3 => v.push(*r.pick(b" ;()\"\\,\t\n\x00\x7f{}?=/")), _ => v.push(*r.pick(b"abcdnsquery/-{}?")) } }
                v }
            8 => vec![],                       // ohttp takes no value
            9 => { let n = 2 * (1 + r.below(3) as usize); r.bytes(n) } // tls-supported-groups: u16 list
            _ => gen_blob(r, 30),
        };
        params.push((key as u16, val));
        key += 1 + match r.below(4) { 0 => r.below(70000) as u32, _ => r.below(3) as u32 };
    }
    // mandatory (key 0): a non-empty ascending subset of the keys that are present
    if !params.is_empty() && r.chance(1, 3) {
        let mut m = Vec::new();
        for (k, _) in &params { if r.chance(1, 2) { m.extend(k.to_be_bytes()); } }
        if m.is_empty() { m.extend(params[0].0.to_be_bytes()); }
        params.insert(0, (0, m));
    }
    let mut v = Vec::new();
    for (k, val) in params {
        v.extend(k.to_be_bytes());
        v.extend((val.len() as u16).to_be_bytes());
        v.extend(val);
    }
    v
}

const ZONE_TYPES: &[(u16, &str)] = &[(1, "A"), (2, "NS"), (3, "MD"), (4, "MF"), (5, "CNAME"), (6, "SOA"), (7, "MB"),
    (8, "MG"), (9, "MR"), (12, "PTR"), (13, "HINFO"), (14, "MINFO"), (15, "MX"), (16, "TXT"), (17, "RP"), (28, "AAAA"),
    (33, "SRV"), (35, "NAPTR"), (39, "DNAME"), (43, "DS"), (44, "SSHFP"), (45, "IPSECKEY"), (46, "RRSIG"), (47, "NSEC"),
    (48, "DNSKEY"), (50, "NSEC3"), (51, "NSEC3PARAM"), (52, "TLSA"), (59, "CDS"), (60, "CDNSKEY"), (61, "OPENPGPKEY"),
    (63, "ZONEMD"), (64, "SVCB"), (65, "HTTPS"), (257, "CAA"), (0, "UNKNOWN")];

fn type_name(rt: u16) -> &'static str {
    ZONE_TYPES.iter().find(|(n, _)| *n == rt && rt != 0).map(|(_, s)| *s).unwrap_or("UNKNOWN")
}

fn gen_rdata(r: &mut Rng, rt: u16) -> Vec<u8> {
    let mut v = Vec::new();
    match rt {
        1 => v.extend(r.bytes(4)),
        2 | 3 | 4 | 5 | 7 | 8 | 9 | 12 | 39 => v.extend(gen_name(r)),
        6 => { v.extend(gen_name(r)); v.extend(gen_name(r)); for _ in 0..5 { v.extend(ext_u32(r).to_be_bytes()); } }
        13 => { v.extend(gen_charstr(r)); v.extend(gen_charstr(r)); }
        14 | 17 => { v.extend(gen_name(r)); v.extend(gen_name(r)); }
        15 => { v.extend(ext_u16(r).to_be_bytes()); v.extend(gen_name(r)); }
        16 => { let n = match r.below(8) { 0 => 0, 1..=4 => 1, _ => 1 + r.below(4) as usize }; for _ in 0..n { v.extend(gen_charstr(r)); } }
        28 => v.extend(match r.below(4) { 0 => vec![0u8; 16], 1 => { let mut x = vec![0u8; 16]; x[10] = 0xff; x[11] = 0xff; x[12..].copy_from_slice(&r.bytes(4)); x } _ => r.bytes(16) }),
        33 => { for _ in 0..3 { v.extend(ext_u16(r).to_be_bytes()); } v.extend(gen_name(r)); }
        35 => { v.extend(ext_u16(r).to_be_bytes()); v.extend(ext_u16(r).to_be_bytes()); for _ in 0..3 { v.extend(gen_charstr(r)); } v.extend(gen_name(r)); }
        43 | 59 => { v.extend(ext_u16(r).to_be_bytes()); v.push(ext_u8(r)); v.push(ext_u8(r)); v.extend(gen_blob(r, 64)); }
        44 => { v.push(ext_u8(r)); v.push(ext_u8(r)); v.extend(gen_blob(r, 64)); }
        45 => {
            v.push(ext_u8(r));
            let gw = r.below(4) as u8; v.push(gw); v.push(ext_u8(r));
            match gw { 0 => {} 1 => v.extend(r.bytes(4)), 2 => v.extend(r.bytes(16)), _ => v.extend(gen_name(r)) }
            v.extend(gen_blob(r, 64));
        }
        46 => {
            v.extend(ext_u16(r).to_be_bytes()); v.push(ext_u8(r)); v.push(ext_u8(r));
            for _ in 0..3 { v.extend(ext_u32(r).to_be_bytes()); }
            v.extend(ext_u16(r).to_be_bytes()); v.extend(gen_name(r)); v.extend(gen_blob(r, 80));
        }
        47 => { v.extend(gen_name(r)); v.extend(gen_bitmap(r)); }
        48 | 60 => { v.extend(ext_u16(r).to_be_bytes()); v.push(ext_u8(r)); v.push(ext_u8(r)); v.extend(gen_blob(r, 80)); }
        50 => {
            v.push(ext_u8(r)); v.push(ext_u8(r)); v.extend(ext_u16(r).to_be_bytes());
            let s = { let m = if r.chance(1, 4) { 255 } else { 20 }; gen_blob(r, m) }; v.push(s.len() as u8); v.extend(s);
            let h = { let m = if r.chance(1, 4) { 255 } else { 32 }; gen_blob(r, m) }; v.push(h.len() as u8); v.extend(h);
            v.extend(gen_bitmap(r));
        }
        51 => { v.push(ext_u8(r)); v.push(ext_u8(r)); v.extend(ext_u16(r).to_be_bytes()); let s = { let m = if r.chance(1, 4) { 255 } else { 20 }; gen_blob(r, m) }; v.push(s.len() as u8); v.extend(s); }
        52 => { v.push(ext_u8(r)); v.push(ext_u8(r)); v.push(ext_u8(r)); v.extend(gen_blob(r, 64)); }
        61 => v.extend(gen_blob(r, 80)),
        63 => { v.extend(ext_u32(r).to_be_bytes()); v.push(ext_u8(r)); v.push(ext_u8(r)); v.extend(gen_blob(r, 64)); }
        64 | 65 => { v.extend(ext_u16(r).to_be_bytes()); v.extend(gen_name(r)); v.extend(gen_svc_params(r)); }
        257 => {
            v.push(ext_u8(r));
            let n = match r.below(6) { 0 => 0, _ => 1 + r.below(8) as usize };
            v.push(n as u8);
            for _ in 0..n { v.push(*r.pick(b"abcxyzABCXYZ0123456789")); }
            v.extend(gen_blob(r, 60));
        }
        _ => v.extend(gen_blob(r, 40)),
    }
    v
}

fn gen_unknown_rtype(r: &mut Rng) -> u16 {
    // values the library has no zone record type for (pseudo types, LOC, private use, ...)
    *r.pick(&[10u16, 11, 29, 99, 255, 256, 258, 65280, 65534, 65535, 0, 62, 100, 4242, 32768, 32769])
}

fn gen_class(r: &mut Rng) -> u16 {
    match r.below(10) { 0..=5 => 1, 6 => *r.pick(&[3u16, 4, 254, 255, 0, 2]), _ => ext_u16(r) }
}

// ---------------------------------------------------------------- implementation runs

fn make_record(owner: &[u8], class: u16, ttl: u32, rt: u16, rdata: &[u8]) -> Option<Rec> {
    let owner = Name::from_octets(Bytes::copy_from_slice(owner)).ok()?;
    let b = Bytes::copy_from_slice(rdata);
    let mut p = Parser::from_ref(&b);
    let d = Data::parse_rdata(Rtype::from_int(rt), &mut p).ok()??;
    if p.remaining() != 0 { return None; }
    Some(Record::new(owner, Class::from_int(class), Ttl::from_secs(ttl), d))
}

fn write_rec(rec: &Rec, k: char) -> Result<Result<String, ()>, String> {
    let rec = rec.clone();
    catch(move || {
        let mut s = String::new();
        match write!(s, "{}", rec.display_zonefile(kind_of(k))) { Ok(()) => Ok(s), Err(_) => Err(()) }
    })
}

/// Reads all entries of `text`; `Ok(records)` or `Err(message)`; outer Err = panic
fn read_text(text: &[u8], origin: Option<&str>) -> Result<Result<Vec<ScannedRecord>, String>, String> {
    let text = text.to_vec();
    let origin = origin.map(|s| s.to_string());
    catch(move || {
        let mut zf = Zonefile::new();
        zf.extend_from_slice(&text);
        if let Some(o) = origin { zf.set_origin(Name::<Bytes>::from_str(&o).unwrap()); }
        let mut v = Vec::new();
        let mut n = 0;
        loop {
            n += 1;
            if n > 10_000 { return Err("too many entries".to_string()); }
            match zf.next_entry() {
                Ok(Some(Entry::Record(r))) => v.push(r),
                Ok(Some(Entry::Include { .. })) => return Err("include entry".to_string()),
                Ok(None) => return Ok(v),
                Err(e) => return Err(format!("{}", e)),
            }
        }
    })
}

fn rdata_wire<D: ComposeRecordData>(d: &D) -> Vec<u8> {
    let mut v = Vec::new();
    let _ = d.compose_rdata(&mut v);
    v
}

fn printable(s: &[u8]) -> String {
    let mut o = String::new();
    for &b in s {
        match b { b'\n' => o.push_str("<LF>"), b'\t' => o.push_str("<TAB>"), 0x20..=0x7e => o.push(b as char), _ => { write!(o, "<{:02x}>", b).unwrap(); } }
    }
    o
}

#[derive(Clone, PartialEq, Debug)]
enum Verdict { Ok, Fail(String, String) } // class, detail

/// What went wrong for one record and one display kind (no classification).
enum Raw { Ok, WriterPanic(String), WriterErr, ReaderPanic(String), Differs(String) }

fn rt_raw(rec: &Rec, tname: &str, k: char, kname: &str) -> Raw {
    let text = match write_rec(rec, k) {
        Err(p) => return Raw::WriterPanic(format!("type={} kind={} panic={}", tname, kname, p)),
        Ok(Err(())) => return Raw::WriterErr,
        Ok(Ok(t)) => t,
    };
    let mut full = text.clone().into_bytes();
    full.push(b'\n');
    let mut first: Option<String> = None;
    for origin in [None, Some("origin.test.")] {
        let got = match read_text(&full, origin) {
            Err(p) => return Raw::ReaderPanic(format!("type={} kind={} text={} panic={}", tname, kname, printable(&full), p)),
            Ok(g) => g,
        };
        let why = match got {
            Err(e) => Some(format!("reader error: {}", e)),
            Ok(v) if v.len() != 1 => Some(format!("reader returned {} records", v.len())),
            Ok(v) => {
                let g = &v[0];
                if !g.owner().name_eq(rec.owner()) { Some(format!("owner differs: {}", g.owner().fmt_with_dot())) }
                else if g.class() != rec.class() { Some(format!("class differs: {}", g.class())) }
                else if g.ttl() != rec.ttl() { Some(format!("ttl differs: {}", g.ttl().as_secs())) }
                else if g.data() != rec.data() {
                    Some(format!("data differs: rtype {} rdata {}", g.data().rtype(), hex(&rdata_wire(g.data()))))
                } else { None }
            }
        };
        if let Some(w) = why {
            if first.is_none() {
                first = Some(format!("type={} kind={} origin={} text={} :: {}", tname, kname, origin.unwrap_or("none"), printable(&full), w));
            }
        }
    }
    match first { None => Raw::Ok, Some(d) => Raw::Differs(d) }
}

/// The property for one record and one display kind.
fn round_trip(rec: &Rec, tname: &str, k: char, kname: &str) -> Verdict {
    match rt_raw(rec, tname, k, kname) {
        Raw::Ok => Verdict::Ok,
        Raw::WriterPanic(d) => Verdict::Fail("panic_writer".into(), d),
        Raw::WriterErr => Verdict::Fail(format!("writer_error_{}_{}", tname, kname), "display_zonefile returned fmt::Error".into()),
        Raw::ReaderPanic(d) => {
            let c = classify(rec, tname, k, kname);
            let c = if c.starts_with("roundtrip_") { "panic_reader".to_string() } else { format!("{}_reader_panic", c) };
            Verdict::Fail(c, d)
        }
        Raw::Differs(d) => Verdict::Fail(classify(rec, tname, k, kname), d),
    }
}

fn passes(rec: &Rec, tname: &str, k: char, kname: &str) -> bool { matches!(rt_raw(rec, tname, k, kname), Raw::Ok) }

fn with_parts(rec: &Rec, owner: Option<&[u8]>, rdata: Option<&[u8]>) -> Option<Rec> {
    let rd = rdata_wire(rec.data());
    make_record(owner.unwrap_or(rec.owner().as_slice()), rec.class().to_int(), rec.ttl().as_secs(), rec.data().rtype().to_int(), rdata.unwrap_or(&rd))
}

// ---- SVCB / HTTPS parameters: root causes decided on the written record

type Params = Vec<(u16, Vec<u8>)>;
/// (octets before the parameters, parameters)
fn svcb_split(rd: &[u8]) -> Option<(Vec<u8>, Params)> {
    let mut i = 2;
    loop { let l = *rd.get(i)? as usize; i += 1; if l == 0 { break; } i += l; }
    let head = rd.get(..i)?.to_vec();
    let mut ps = Vec::new();
    while i < rd.len() {
        let k = u16::from_be_bytes([*rd.get(i)?, *rd.get(i + 1)?]);
        let l = u16::from_be_bytes([*rd.get(i + 2)?, *rd.get(i + 3)?]) as usize;
        ps.push((k, rd.get(i + 4..i + 4 + l)?.to_vec()));
        i += 4 + l;
    }
    Some((head, ps))
}
fn svcb_join(head: &[u8], ps: &Params) -> Vec<u8> {
    let mut v = head.to_vec();
    for (k, val) in ps { v.extend(k.to_be_bytes()); v.extend((val.len() as u16).to_be_bytes()); v.extend(val); }
    v
}
fn svc_safe(b: u8) -> bool { (0x21..0x7f).contains(&b) && !b"\"();\\,".contains(&b) }
fn mandatory_keys(val: &[u8]) -> Vec<u16> { val.chunks(2).filter(|c| c.len() == 2).map(|c| u16::from_be_bytes([c[0], c[1]])).collect() }
/// remove the parameters selected by `drop` (also from the mandatory list)
fn svcb_drop(ps: &Params, drop: &dyn Fn(u16, &[u8]) -> bool) -> Params {
    let gone: Vec<u16> = ps.iter().filter(|(k, v)| *k != 0 && drop(*k, v)).map(|(k, _)| *k).collect();
    let mut out = Params::new();
    for (k, v) in ps {
        if *k == 0 {
            let keep: Vec<u8> = mandatory_keys(v).into_iter().filter(|m| !gone.contains(m)).flat_map(|m| m.to_be_bytes()).collect();
            if !keep.is_empty() { out.push((0, keep)); }
        } else if !gone.contains(k) { out.push((*k, v.clone())); }
    }
    out
}
/// root causes; 0, 2, 3 are known findings, 1, 4, 5 are fixed in /repo (3600194, 72650b2) and must stay silent
const SVCB_CAUSES: [&str; 7] = ["svcb_params_nodefaultalpn", "svcb_params_generic_key", "svcb_params_value_escaping", "empty_field_SVCB",
    "svcb_params_dohpath_raw", "svcb_params_unknown_value_paren", "svcb_params_dohpath_not_utf8"];
/// order in which a cause is tested for being necessary: the fixed ones first, so that a regression is not hidden behind a known finding
const SVCB_NECESSITY_ORDER: [usize; 7] = [6, 4, 5, 1, 0, 2, 3];
/// (fixed in /repo: the reader's key charset ranges were half-open, keyNNN with a 9 was rejected)
fn key_unreadable(_k: u16) -> bool { false }
/// which cause an octet of a value belongs to, if it is not safe to write verbatim:
/// 2 alpn id (still written raw; the reader refuses escapes there), 4 dohpath, 5 value of an unknown key
fn value_unsafe(cause: usize, k: u16, v: &[u8], i: usize) -> bool {
    let b = v[i];
    match cause {
        2 => k == 1 && !svc_safe(b) && !alpn_len_pos(v, i),
        4 => k == 7 && !svc_safe(b) && std::str::from_utf8(v).is_ok(),
        5 => k > 9 && !b.is_ascii_alphanumeric(),
        _ => false,
    }
}
fn svcb_has(cause: usize, ps: &Params) -> bool {
    match cause {
        0 => ps.iter().any(|(k, _)| *k == 2),
        1 => ps.iter().any(|(k, v)| key_unreadable(*k) || (*k == 0 && mandatory_keys(v).iter().any(|m| key_unreadable(*m)))),
        2 | 4 | 5 => ps.iter().any(|(k, v)| (0..v.len()).any(|i| value_unsafe(cause, *k, v, i))),
        // the wire parser takes any octets as a dohpath, the zone-file reader insists on UTF-8 (RFC 9461: a URI template)
        6 => ps.iter().any(|(k, v)| *k == 7 && std::str::from_utf8(v).is_err()),
        _ => ps.iter().any(|(k, v)| v.is_empty() && *k != 2 && *k != 8) || ps.iter().any(|(k, v)| *k == 1 && alpn_has_empty_id(v)),
    }
}
fn alpn_len_pos(v: &[u8], pos: usize) -> bool { let mut i = 0; while i < v.len() { if i == pos { return true; } i += 1 + v[i] as usize; } false }
fn alpn_has_empty_id(v: &[u8]) -> bool { let mut i = 0; while i < v.len() { if v[i] == 0 { return true; } i += 1 + v[i] as usize; } false }
fn svcb_repair(cause: usize, ps: &Params) -> Params {
    match cause {
        0 => svcb_drop(ps, &|k, _| k == 2),
        1 => svcb_drop(ps, &|k, _| key_unreadable(k)),
        6 => ps.iter().map(|(k, v)| (*k, if *k == 7 && std::str::from_utf8(v).is_err() { vec![b'a'; v.len()] } else { v.clone() })).collect(),
        2 | 4 | 5 => ps.iter().map(|(k, v)| (*k, (0..v.len()).map(|i| if value_unsafe(cause, *k, v, i) { b'a' } else { v[i] }).collect())).collect(),
        _ => svcb_drop(ps, &|k, v| (v.is_empty() && k != 2 && k != 8) || (k == 1 && alpn_has_empty_id(v))),
    }
}
fn svcb_classify(rec: &Rec, tname: &str, k: char, kname: &str) -> String {
    let rd = rdata_wire(rec.data());
    let (head, ps) = match svcb_split(&rd) { Some(x) => x, None => return format!("svcb_unparsed_{}", kname) };
    let present: Vec<usize> = SVCB_NECESSITY_ORDER.iter().copied().filter(|c| svcb_has(*c, &ps)).collect();
    let ok_with = |ps: &Params| with_parts(rec, None, Some(&svcb_join(&head, ps))).map_or(false, |r| passes(&r, tname, k, kname));
    // one root cause alone explains the failure
    for c in &present { if ok_with(&svcb_repair(*c, &ps)) { return SVCB_CAUSES[*c].to_string(); } }
    // several together do: name the first one that is necessary (without its repair the record still fails)
    let repair_all = |skip: Option<usize>| { let mut all = ps.clone(); for c in &present { if Some(*c) != skip { all = svcb_repair(*c, &all); } } all };
    if !present.is_empty() && ok_with(&repair_all(None)) {
        for c in &present { if !ok_with(&repair_all(Some(*c))) { return SVCB_CAUSES[*c].to_string(); } }
    }
    format!("svcb_params_unexplained_{}", tname)
}

/// An unquoted position where the writer produced an empty token (two
/// separators in a row, or a separator right before the end / a parenthesis).
fn has_empty_token(simple: &str) -> bool {
    let b = simple.as_bytes();
    let (mut i, mut q) = (0, false);
    while i < b.len() {
        match b[i] {
            b'\\' => { i += 2; continue; }
            b'"' => q = !q,
            b' ' if !q => { if i + 1 >= b.len() || b[i + 1] == b' ' { return true; } }
            _ => {}
        }
        i += 1;
    }
    false
}

/// Root-cause class of a failing record (specific word first, the per-type
/// class as the fallback).
fn classify(rec: &Rec, tname: &str, k: char, kname: &str) -> String {
    // is the owner the cause?  re-run the same record with a harmless owner
    let ow = rec.owner().as_slice().to_vec();
    let plain = with_parts(rec, Some(b"\x07example\x00"), None);
    let rec = match plain {
        Some(p) if ow != b"\x07example\x00" => {
            if passes(&p, tname, k, kname) {
                return if ow.len() > 1 && ow[1] == b'$' { "owner_leading_dollar".into() } else { format!("owner_name_{}", kname) };
            }
            p
        }
        _ => rec.clone(),
    };
    let rd = rdata_wire(rec.data());
    if tname == "TXT" && rd.is_empty() { return "txt_no_strings".into(); }
    if tname == "SVCB" || tname == "HTTPS" { return svcb_classify(&rec, tname, k, kname); }
    if let Ok(Ok(s)) = write_rec(&rec, 's') {
        if has_empty_token(&s) {
            // exact root cause for the known classes: the field that is empty, and the same
            // record with that field filled in reads back
            let repaired: Option<Vec<u8>> = match tname {
                "NSEC3" if rd.len() > 5 => {
                    let hpos = 5 + rd[4] as usize;
                    if rd.get(hpos) == Some(&0) { let mut x = rd.clone(); x[hpos] = 1; x.insert(hpos + 1, 0xab); Some(x) } else { None }
                }
                "CAA" if rd.len() > 1 && rd[1] == 0 => { let mut x = rd.clone(); x[1] = 1; x.insert(2, b'a'); Some(x) }
                _ => None,
            };
            return match tname {
                "NSEC3" | "CAA" => match repaired.and_then(|x| with_parts(&rec, None, Some(&x))) {
                    Some(r2) if passes(&r2, tname, k, kname) => format!("empty_field_{}", tname),
                    _ => format!("roundtrip_{}_{}", tname, kname),
                },
                _ => format!("empty_field_{}", tname),
            };
        }
    }
    format!("roundtrip_{}_{}", tname, kname)
}

struct Case { owner: Vec<u8>, class: u16, ttl: u32, rt: u16, rdata: Vec<u8> }

fn case_line(c: &Case, k: char) -> String {
    format!("rt {} {} {} {} {} {}", k, c.class, c.ttl, c.rt, hex(&c.owner), hex(&c.rdata))
}

/// Greedy shrinking of a failing case (same class must keep failing).
fn minimise(c: &Case, tname: &str, k: char, kname: &str, class: &str) -> (Case, String) {
    let mut cur = Case { owner: c.owner.clone(), class: c.class, ttl: c.ttl, rt: c.rt, rdata: c.rdata.clone() };
    let fails = |x: &Case| -> Option<String> {
        let rec = make_record(&x.owner, x.class, x.ttl, x.rt, &x.rdata)?;
        match round_trip(&rec, tname, k, kname) { Verdict::Fail(cl, d) if cl == class => Some(d), _ => None }
    };
    let mut detail = fails(&cur).unwrap_or_default();
    let mut budget = 1500;
    let mut try_it = |cand: Case, cur: &mut Case, detail: &mut String, budget: &mut i32| -> bool {
        if *budget <= 0 { return false; }
        *budget -= 1;
        if let Some(d) = fails(&cand) { *cur = cand; *detail = d; true } else { false }
    };
    for o in [vec![0u8], vec![1, b'a', 0]] {
        if cur.owner != o { let cand = Case { owner: o, ..clone_case(&cur) }; if try_it(cand, &mut cur, &mut detail, &mut budget) { break; } }
    }
    if cur.class != 1 { let cand = Case { class: 1, ..clone_case(&cur) }; try_it(cand, &mut cur, &mut detail, &mut budget); }
    if cur.ttl != 0 { let cand = Case { ttl: 0, ..clone_case(&cur) }; try_it(cand, &mut cur, &mut detail, &mut budget); }
    // owner: drop octets inside labels
    let mut progress = true;
    while progress && budget > 0 {
        progress = false;
        // delete a chunk / a byte of rdata, adjusting any preceding length octet by trial
        let mut i = 0;
        while i < cur.rdata.len() && budget > 0 {
            let mut done = false;
            for span in [16usize, 4, 1] {
                if i + span > cur.rdata.len() { continue; }
                let mut rd = cur.rdata.clone();
                rd.drain(i..i + span);
                // try plain deletion, and deletion with each earlier octet decremented by span
                let cand = Case { rdata: rd.clone(), ..clone_case(&cur) };
                if try_it(cand, &mut cur, &mut detail, &mut budget) { done = true; break; }
                for j in (0..i).rev().take(3) {
                    if rd[j] as usize >= span {
                        let mut rd2 = rd.clone(); rd2[j] -= span as u8;
                        let cand = Case { rdata: rd2, ..clone_case(&cur) };
                        if try_it(cand, &mut cur, &mut detail, &mut budget) { done = true; break; }
                    }
                }
                if done { break; }
            }
            if done { progress = true; } else { i += 1; }
        }
        let mut i = 0;
        while i < cur.owner.len() && budget > 0 {
            let mut ow = cur.owner.clone();
            ow.remove(i);
            let mut ok = false;
            for j in (0..i).rev().take(64) {
                if ow[j] >= 1 { let mut o2 = ow.clone(); o2[j] -= 1; if Name::from_octets(Bytes::from(o2.clone())).is_ok() {
                    let cand = Case { owner: o2, ..clone_case(&cur) };
                    if try_it(cand, &mut cur, &mut detail, &mut budget) { ok = true; break; } } }
            }
            if ok { progress = true; } else { i += 1; }
        }
    }
    // replace remaining octets by 'a' / 0 where the failure persists
    for i in 0..cur.rdata.len() {
        for v in [0u8, b'a'] {
            if cur.rdata[i] != v && budget > 0 {
                let mut rd = cur.rdata.clone(); rd[i] = v;
                let cand = Case { rdata: rd, ..clone_case(&cur) };
                if try_it(cand, &mut cur, &mut detail, &mut budget) { break; }
            }
        }
    }
    (cur, detail)
}
fn clone_case(c: &Case) -> Case { Case { owner: c.owner.clone(), class: c.class, ttl: c.ttl, rt: c.rt, rdata: c.rdata.clone() } }

// ---------------------------------------------------------------- writer driven by an op list (T2 for the three writers)

#[derive(Clone)]
enum Op { T(Vec<u8>), B, E, C(Vec<u8>) }
struct Ops(Vec<Op>);
fn run_ops(ops: &[Op], i: &mut usize, p: &mut impl Formatter) -> zonefile_fmt::Result {
    while *i < ops.len() {
        let op = ops[*i].clone();
        *i += 1;
        match op {
            Op::T(t) => p.write_token(String::from_utf8(t).unwrap())?,
            Op::C(t) => p.write_comment(String::from_utf8(t).unwrap())?,
            Op::B => p.begin_block()?,
            Op::E => p.end_block()?,
        }
    }
    Ok(())
}
impl ZonefileFmt for Ops {
    fn fmt(&self, p: &mut impl Formatter) -> zonefile_fmt::Result { let mut i = 0; run_ops(&self.0, &mut i, p) }
}
fn ops_line(k: char, ops: &[Op]) -> String {
    let mut s = format!("wr {}", k);
    for o in ops {
        match o { Op::T(t) => { s.push_str(" T"); s.push_str(&hex(t)); } Op::C(t) => { s.push_str(" C"); s.push_str(&hex(t)); } Op::B => s.push_str(" B"), Op::E => s.push_str(" E") }
    }
    s
}

fn ascii_word(r: &mut Rng) -> Vec<u8> {
    let n = 1 + r.below(6) as usize;
    (0..n).map(|_| *r.pick(b"abcXYZ0189+/=-.:\\#@$*")).filter(|c| *c != b'\\').collect::<Vec<u8>>()
}
fn quoted_tok(r: &mut Rng) -> Vec<u8> {
    let n = r.below(6) as usize;
    let cs = octets(r, n);
    format!("{}", CharStr::from_octets(cs).unwrap().display_quoted()).into_bytes()
}
fn gen_ops(r: &mut Rng) -> Vec<Op> {
    fn go(r: &mut Rng, depth: usize, out: &mut Vec<Op>) {
        let n = r.below(5) as usize;
        for _ in 0..n {
            match r.below(8) {
                0 if depth < 3 => { out.push(Op::B); go(r, depth + 1, out); out.push(Op::E); }
                1 | 2 => out.push(Op::C(match r.below(4) { 0 => vec![], 1 => b"key tag".to_vec(), 2 => b"a;b ( \" )".to_vec(), _ => ascii_word(r) })),
                3 => out.push(Op::T(quoted_tok(r))),
                _ => { let w = ascii_word(r); if !w.is_empty() { out.push(Op::T(w)); } }
            }
        }
    }
    let mut v = Vec::new();
    for _ in 0..1 + r.below(4) { v.push(Op::T(ascii_word(r))); }
    v.retain(|o| !matches!(o, Op::T(t) if t.is_empty()));
    go(r, 0, &mut v);
    v
}

// ---------------------------------------------------------------- junk lines for the reader model (balanced layout)

fn gen_layout(r: &mut Rng) -> Vec<u8> {
    fn item(r: &mut Rng, depth: usize, out: &mut Vec<u8>) {
        match r.below(10) {
            0 | 1 => { // quoted string with raw content
                out.push(b'"');
                for _ in 0..r.below(6) {
                    let c = *r.pick(b"ab ;()\t.\\\"x1@$");
                    match c { b'\\' => { match r.below(3) { 0 => out.extend(b"\\\""), 1 => out.extend(format!("\\{:03}", r.below(300)).bytes()), _ => { out.push(b'\\'); out.push(*r.pick(b"\\;( a.")); } } }
                        b'"' => out.extend(b"\\\""), c => out.push(c) }
                }
                out.push(b'"');
            }
            2 if depth < 3 => {
                out.push(b'(');
                for _ in 0..r.below(4) { sep(r, depth + 1, out); item(r, depth + 1, out); }
                sep(r, depth + 1, out);
                out.push(b')');
            }
            _ => { // unquoted word with escapes
                for _ in 0..1 + r.below(5) {
                    match r.below(8) {
                        0 => { out.push(b'\\'); out.push(*r.pick(b"\\;()\" .a#@$")); }
                        1 => out.extend(format!("\\{:03}", r.below(270)).bytes()),
                        2 => out.push(*r.pick(b"@$#.[]*")),
                        _ => out.push(*r.pick(b"abcxyzABC0123456789-_")),
                    }
                }
            }
        }
    }
    fn sep(r: &mut Rng, depth: usize, out: &mut Vec<u8>) {
        match r.below(8) {
            0 => out.push(b'\t'),
            1 => out.extend(b"  "),
            2 if depth > 0 => out.push(b'\n'),
            3 if depth > 0 => { out.extend(b" ; c ( \" ) ;\n"); }
            4 => out.extend(b"\r "),
            5 => {}
            _ => out.push(b' '),
        }
    }
    let mut v = Vec::new();
    for _ in 0..r.below(5) { sep(r, 0, &mut v); if v.is_empty() || r.chance(9, 10) { v.push(b' '); } item(r, 0, &mut v); }
    if r.chance(1, 4) { v.extend(b" ; trailing ( comment"); }
    v
}

fn show_txt(rec: &ScannedRecord) -> Option<String> {
    if let ZoneRecordData::Txt(t) = rec.data() {
        let v: Vec<String> = t.iter_charstrs().map(|c| hex(c.as_slice())).collect();
        Some(v.join(","))
    } else { None }
}


// ---------------------------------------------------------------- typed records of the regular types (T2 `rec`)

#[derive(Clone, Copy)]
enum Fs { U8, U16, U32, Name, Cstr, B16, B64, Ip4, Ip6, Rt, Cstrs, Types, Salt, B32, Tag, Quoted }
use Fs::*;
/// (rtype, fields in presentation order = wire order, only static comments in the multi-line form)
const REGULAR: &[(u16, &[Fs], bool)] = &[
    (1, &[Ip4], true), (2, &[Name], true), (3, &[Name], true), (4, &[Name], true), (5, &[Name], true), (7, &[Name], true),
    (8, &[Name], true), (9, &[Name], true), (12, &[Name], true), (39, &[Name], true),
    (6, &[Name, Name, U32, U32, U32, U32, U32], false),
    (13, &[Cstr, Cstr], true), (14, &[Name, Name], true), (15, &[U16, Name], true), (16, &[Cstrs], true), (17, &[Name, Name], true),
    (28, &[Ip6], true), (33, &[U16, U16, U16, Name], true), (35, &[U16, U16, Cstr, Cstr, Cstr, Name], true),
    (43, &[U16, U8, U8, B16], false), (59, &[U16, U8, U8, B16], false), (44, &[U8, U8, B16], true),
    (46, &[Rt, U8, U8, U32, U32, U32, U16, Name, B64], false), (48, &[U16, U8, U8, B64], false), (60, &[U16, U8, U8, B64], false),
    (52, &[U8, U8, U8, B16], false), (61, &[B64], true), (63, &[U32, U8, U8, B16], false),
    (47, &[Name, Types], true), (50, &[U8, U8, U16, Salt, B32, Types], false), (51, &[U8, U8, U16, Salt], false),
    (257, &[U8, Tag, Quoted], true),
];

/// one field: (wire octets, token of the case line)
fn gen_field(r: &mut Rng, f: Fs) -> (Vec<u8>, String) {
    match f {
        U8 => { let v = ext_u8(r); (vec![v], format!("u{}", v)) }
        U16 => { let v = ext_u16(r); (v.to_be_bytes().to_vec(), format!("u{}", v)) }
        U32 => { let v = ext_u32(r); (v.to_be_bytes().to_vec(), format!("u{}", v)) }
        Name => { let w = gen_name(r); let t = format!("n{}", hex(&w)); (w, t) }
        Cstr => { let w = gen_charstr(r); let t = format!("q{}", hex(&w[1..])); (w, t) }
        // binary fields: the octets; the model computes the Base16 / Base64 text (C18 models)
        B16 => { let b = gen_blob(r, 48); let t = format!("x{}", hex(&b)); (b, t) }
        B64 => { let b = gen_blob(r, 60); let t = format!("y{}", hex(&b)); (b, t) }
        Ip4 => { let b: Vec<u8> = (0..4).map(|_| match r.below(4) { 0 => 0, 1 => *r.pick(&[1u8, 9, 10, 99, 100, 199, 200, 255]), _ => r.u8() }).collect(); let t = format!("i{}", hex(&b)); (b, t) }
        // the model writes the IPv6 text itself (show_ip6)
        Ip6 => { let b = match r.below(4) { 0 => vec![0u8; 16], 1 => { let mut x = vec![0u8; 16]; x[10] = 0xff; x[11] = 0xff; x[12..].copy_from_slice(&r.bytes(4)); x }
                     2 => { let mut x = r.bytes(16); for g in 0..8 { if r.chance(1, 2) { x[2 * g] = 0; x[2 * g + 1] = 0; } } x } _ => r.bytes(16) };
                 let t = format!("j{}", hex(&b)); (b, t) }
        Rt => { let v = match r.below(3) { 0 => ext_u16(r), _ => ZONE_TYPES[r.below(ZONE_TYPES.len() as u64 - 1) as usize].0 };
                (v.to_be_bytes().to_vec(), format!("m{}", v)) }
        Types => {
            let n = match r.below(5) { 0 => 0, 1 => 1, _ => 1 + r.below(12) as usize };
            let mut ts: Vec<u16> = (0..n).map(|_| match r.below(4) { 0 => ext_u16(r), 1 => r.below(70) as u16, 2 => 250 + r.below(12) as u16, _ => ZONE_TYPES[r.below(ZONE_TYPES.len() as u64 - 1) as usize].0 }).collect();
            ts.sort(); ts.dedup();
            let mut w = Vec::new(); let mut i = 0;
            while i < ts.len() {
                let win = (ts[i] >> 8) as u8; let mut bits = [0u8; 32]; let mut last = 0usize;
                while i < ts.len() && (ts[i] >> 8) as u8 == win { let lo = (ts[i] & 0xff) as usize; bits[lo / 8] |= 0x80 >> (lo % 8); last = lo / 8; i += 1; }
                w.push(win); w.push(last as u8 + 1); w.extend(&bits[..=last]);
            }
            (w, format!("t{}", ts.iter().map(|x| x.to_string()).collect::<Vec<_>>().join(",")))
        }
        Salt => { let b = { let m = if r.chance(1, 4) { 255 } else { 20 }; gen_blob(r, m) }; let mut w = vec![b.len() as u8]; w.extend(&b); (w, format!("s{}", hex(&b))) }
        B32 => { let b = { let mut b = { let m = if r.chance(1, 4) { 255 } else { 32 }; gen_blob(r, m) }; if b.is_empty() && r.chance(3, 4) { b.push(r.u8()); } b }; let mut w = vec![b.len() as u8]; w.extend(&b); (w, format!("z{}", hex(&b))) }
        Tag => { let n = 1 + r.below(8) as usize; let b: Vec<u8> = (0..n).map(|_| *r.pick(b"abcxyzABCXYZ0123456789")).collect(); let mut w = vec![n as u8]; w.extend(&b); (w, format!("w{}", hex(&b))) }
        Quoted => { let b = gen_blob(r, 60); let t = format!("o{}", hex(&b)); (b, t) }
        Cstrs => {
            let n = 1 + r.below(3) as usize; let mut w = Vec::new(); let mut ts = Vec::new();
            for _ in 0..n { let c = gen_charstr(r); ts.push(hex(&c[1..])); w.extend(c); }
            (w, format!("l{}", ts.join(",")))
        }
    }
}

// ---------------------------------------------------------------- main

fn main() {
    let a = args();
    let mut out = Out::new(&a, "C06", 60);
    let mut r = Rng::new(a.seed);
    let mut idx = 0u64;
    let per_type = (if a.thorough { 1500 } else { 110 }) * a.scale;
    let mut minimised: BTreeMap<String, u32> = BTreeMap::new();

    // ---- T2: labels
    let fixed_labels: Vec<Vec<u8>> = vec![b"a;b\"c(d)".to_vec(), b"@".to_vec(), b"$ORIGIN".to_vec(), b" ".to_vec(), b".".to_vec(), b"\\".to_vec(),
        (0u8..63).collect(), (63u8..126).collect(), (126u8..189).collect(), (189u8..252).collect(), (252u8..=255).collect(), b"\\#".to_vec(), b"\x7f".to_vec()];
    let n_lab = (if a.thorough { 20000 } else { 2500 }) * a.scale as usize;
    for i in 0..n_lab + fixed_labels.len() {
        let l = if i < fixed_labels.len() { fixed_labels[i].clone() } else { gen_label(&mut r) };
        idx += 1; if !out.wants(idx) { continue; }
        let c = format!("label {}", hex(&l));
        out.begin(&c);
        let l2 = l.clone();
        let text = catch(move || format!("{}", Label::from_slice(&l2).unwrap()));
        match text {
            Ok(t) => {
                out.case(&c, &hex(t.as_bytes()), l.iter().any(|b| !b.is_ascii_alphanumeric()), "label");
                // label_display oracle: no unescaped character that ends a token
                let mut bad = None; let tb = t.as_bytes(); let mut j = 0;
                while j < tb.len() { if tb[j] == b'\\' { j += if j + 1 < tb.len() && tb[j + 1].is_ascii_digit() { 4 } else { 2 }; continue; }
                    if b" \t\r\n;()\"".contains(&tb[j]) || tb[j] == b'.' || !(0x21..0x7f).contains(&tb[j]) { bad = Some(tb[j]); } j += 1; }
                out.check(bad.is_none(), "label_display_unescaped_specials", &c, &format!("text={} unescaped octet {:?}", printable(tb), bad));
            }
            Err(p) => { out.case(&c, "Panic", true, "label"); out.check(false, "panic_writer", &c, &p); }
        }
    }

    // ---- T2: character strings (quoted, unquoted, Display)
    let n_cs = (if a.thorough { 8000 } else { 1200 }) * a.scale as usize;
    for i in 0..n_cs {
        let cs = if i == 0 { vec![] } else if i == 1 { (0u8..=254).collect() } else if i == 2 { (1u8..=255).collect() } else { let mut v = gen_charstr(&mut r); v.remove(0); v };
        for (m, w) in [('q', "cstr_quoted"), ('u', "cstr_unquoted"), ('d', "cstr_display")] {
            idx += 1; if !out.wants(idx) { continue; }
            let c = format!("cstr {} {}", m, hex(&cs));
            out.begin(&c);
            let s = CharStr::from_octets(cs.clone()).unwrap();
            let t = match m { 'q' => format!("{}", s.display_quoted()), 'u' => format!("{}", s.display_unquoted()), _ => format!("{}", s) };
            out.case(&c, &hex(t.as_bytes()), !cs.is_empty(), w);
        }
    }

    // ---- T2: names: text and read-back as record data (NS) and as owner
    let n_names = (if a.thorough { 12000 } else { 1500 }) * a.scale as usize;
    let fixed_names: Vec<Vec<u8>> = vec![vec![0], b"\x01@\x00".to_vec(), b"\x01$\x00".to_vec(), b"\x07$ORIGIN\x00".to_vec(), b"\x04$TTL\x00".to_vec(),
        b"\x02IN\x00".to_vec(), b"\x01A\x00".to_vec(), b"\x043600\x00".to_vec(), b"\x01#\x00".to_vec(), b"\x02\\#\x00".to_vec(), b"\x01[\x00".to_vec(),
        b"\x01a\x00".to_vec(), b"\x08a;b\"c(d)\x03com\x00".to_vec(), b"\x02\\a\x00".to_vec(), b"\x02(a\x00".to_vec(), b"\x02;a\x00".to_vec(),
        b"\x02 a\x00".to_vec(), b"\x02\"a\x00".to_vec(), b"\x02.a\x00".to_vec(), b"\x02)a\x00".to_vec(), b"\x02\ta\x00".to_vec(), b"\x01@\x01@\x00".to_vec(), b"\x01*\x01a\x00".to_vec()];
    for i in 0..n_names + fixed_names.len() {
        let w = if i < fixed_names.len() { fixed_names[i].clone() } else { gen_name(&mut r) };
        let name = Name::from_octets(Bytes::from(w.clone())).unwrap();
        let text = format!("{}", name.fmt_with_dot());
        for pos in ["rdname", "owner"] {
            idx += 1; if !out.wants(idx) { continue; }
            let c = format!("{} {}", pos, hex(&w));
            out.begin(&c);
            let line = if pos == "rdname" { format!(". 0 IN NS {}\n", text) } else { format!("{} 0 IN NS .\n", text) };
            let got = read_text(line.as_bytes(), None);
            let obs = match &got {
                Err(_) => "Panic".to_string(),
                Ok(Err(_)) => "Err".to_string(),
                Ok(Ok(v)) if v.len() == 1 => {
                    let g = &v[0];
                    let n: Vec<u8> = if pos == "rdname" { match g.data() { ZoneRecordData::Ns(ns) => ns.nsdname().to_name::<Vec<u8>>().as_slice().to_vec(), _ => vec![0xEE] } }
                        else { g.owner().to_name::<Vec<u8>>().as_slice().to_vec() };
                    format!("Ok {}", hex(&n))
                }
                Ok(Ok(_)) => "Err".to_string(),
            };
            out.case(&c, &format!("{} {}", hex(text.as_bytes()), obs), w.len() > 1, pos);
            if let Err(p) = &got { out.check(false, "panic_reader", &c, p); }
        }
    }

    // ---- T2: the three writers driven by arbitrary balanced op sequences; read back through TXT
    let n_ops = (if a.thorough { 6000 } else { 900 }) * a.scale as usize;
    for _ in 0..n_ops {
        let ops = gen_ops(&mut r);
        for (kname, k) in KINDS {
            idx += 1; if !out.wants(idx) { continue; }
            let c = ops_line(k, &ops);
            out.begin(&c);
            let o2 = Ops(ops.clone());
            let t = catch(move || { let mut s = String::new(); write!(s, "{}", o2.display_zonefile(kind_of(k))).map(|_| s).map_err(|_| ()) });
            match t {
                Ok(Ok(s)) => out.case(&c, &hex(s.as_bytes()), ops.len() > 2, &format!("writer_{}", kname)),
                Ok(Err(())) => out.case(&c, "Err", true, &format!("writer_{}", kname)),
                Err(p) => { out.case(&c, "Panic", true, &format!("writer_{}", kname)); out.check(false, "panic_writer", &c, &p); }
            }
        }
    }

    // ---- T2: reader model on generated layouts (". 0 IN TXT x <layout>\n")
    let n_lay = (if a.thorough { 12000 } else { 1500 }) * a.scale as usize;
    for _ in 0..n_lay {
        let lay = gen_layout(&mut r);
        idx += 1; if !out.wants(idx) { continue; }
        let c = format!("txt {}", hex(&lay));
        out.begin(&c);
        let mut line = b". 0 IN TXT x".to_vec(); line.extend(&lay); line.push(b'\n');
        let obs = match read_text(&line, None) {
            Err(_) => "Panic".to_string(),
            Ok(Err(_)) => "Err".to_string(),
            Ok(Ok(v)) if v.len() == 1 => match show_txt(&v[0]) { Some(s) => format!("Ok {}", s), None => "Err".to_string() },
            Ok(Ok(_)) => "Err".to_string(),
        };
        out.case(&c, &obs, lay.len() > 2, "reader_layout");
    }



    // ---- T2: scan_octets with its fast path on raw token text (". 0 IN HINFO <token> \"\"")
    let n_hinfo = (if a.thorough { 15000 } else { 2000 }) * a.scale as usize;
    for i in 0..n_hinfo {
        let q = r.chance(1, 2);
        let mut tok: Vec<u8> = Vec::new();
        let n = if i < 4 { 256 + i } else { 1 + r.below(8) as usize };
        for _ in 0..n {
            match r.below(12) {
                0 => tok.push(0x7f),
                1 => { tok.push(b'\\'); tok.push(*r.pick(b"\\\";( a.\x7f#")); }
                2 => tok.extend(format!("\\{:03}", r.below(270)).bytes()),
                3 => tok.push(*r.pick(b"@$#.[]*!~{}|")),
                4 if q => tok.push(*r.pick(b" ;()\t\n\r")),
                5 => tok.push(*r.pick(&[0x80u8, 0xc3, 0xa9, 0xff, 0x1f, 0x00])),
                _ => tok.push(*r.pick(b"abcxyzABC0123456789-_")),
            }
        }
        let txt = i % 3 == 2;
        idx += 1; if !out.wants(idx) { continue; }
        let c = format!("{} {} {}", if txt { "txt1" } else { "hinfo" }, if q { "q" } else { "u" }, hex(&tok));
        out.begin(&c);
        let mut line = if txt { b". 0 IN TXT ".to_vec() } else { b". 0 IN HINFO ".to_vec() };
        if q { line.push(b'"'); }
        line.extend(&tok);
        if q { line.push(b'"'); }
        line.extend(if txt { &b"\n"[..] } else { &b" \"\"\n"[..] });
        let obs = match read_text(&line, None) {
            Err(_) => "Panic".to_string(),
            Ok(Err(_)) => "Err".to_string(),
            Ok(Ok(v)) if v.len() == 1 => match v[0].data() {
                ZoneRecordData::Hinfo(h) => format!("Ok {}", hex(h.cpu().as_slice())),
                ZoneRecordData::Txt(t) => { let v: Vec<_> = t.iter_charstrs().collect(); if v.len() == 1 { format!("Ok {}", hex(v[0].as_slice())) } else { "Err".to_string() } }
                _ => "Err".to_string() },
            Ok(Ok(_)) => "Err".to_string(),
        };
        out.case(&c, &obs, tok.contains(&0x7f) || tok.contains(&b'\\'), "reader_octets");
    }


    // ---- T2: scan_name / convert_label (with its fast path) on raw name text (". 0 IN NS <text>")
    let n_ns = (if a.thorough { 15000 } else { 2000 }) * a.scale as usize;
    let fixed_ns: Vec<Vec<u8>> = vec![b"a..b.".to_vec(), b".".to_vec(), b"..".to_vec(), b".a.".to_vec(), b"@".to_vec(), b"a.@.".to_vec(), b"\\#".to_vec(),
        b"a\x7f.b.".to_vec(), b"\\000\x7f.".to_vec(), [vec![b'a'; 63], b".".to_vec()].concat(), [vec![b'a'; 64], b".".to_vec()].concat(),
        { let mut v = Vec::new(); for _ in 0..4 { v.extend(vec![b'x'; 62]); v.push(b'.'); } v.extend(b"a."); v },
        { let mut v = Vec::new(); for _ in 0..4 { v.extend(vec![b'x'; 62]); v.push(b'.'); } v.extend(b"ab."); v },
        b"1.2.3.4".to_vec(),
        { let mut v = Vec::new(); for _ in 0..4 { v.extend(vec![b'x'; 62]); v.push(b'.'); } v.extend(b"abc."); v }];
    for i in 0..n_ns + fixed_ns.len() {
        let tok = if i < fixed_ns.len() { fixed_ns[i].clone() } else {
            let mut t = Vec::new();
            for _ in 0..1 + r.below(5) {
                let n = match r.below(10) { 0 => 0, 1 => 62 + r.below(4) as usize, _ => 1 + r.below(5) as usize };
                for _ in 0..n {
                    match r.below(14) {
                        0 => t.push(0x7f),
                        1 => { t.push(b'\\'); t.push(*r.pick(b"\\.\";( a#@$")); }
                        2 => t.extend(format!("\\{:03}", r.below(270)).bytes()),
                        3 => t.push(*r.pick(b"@$#[]*!~")),
                        4 => t.push(*r.pick(&[0x80u8, 0xc3, 0xa9, 0x1f])),
                        _ => t.push(*r.pick(b"abcxyzABC0123456789-_")),
                    }
                }
                if r.chance(9, 10) { t.push(b'.'); }
            }
            if t.is_empty() { t.push(b'.'); }
            t
        };
        idx += 1; if !out.wants(idx) { continue; }
        let c = format!("nstext {}", hex(&tok));
        out.begin(&c);
        let mut line = b". 0 IN NS ".to_vec(); line.extend(&tok); line.push(b'\n');
        let obs = match read_text(&line, None) {
            Err(_) => "Panic".to_string(),
            Ok(Err(_)) => "Err".to_string(),
            Ok(Ok(v)) if v.len() == 1 => match v[0].data() { ZoneRecordData::Ns(ns) => format!("Ok {}", hex(ns.nsdname().to_name::<Vec<u8>>().as_slice())), _ => "Err".to_string() },
            Ok(Ok(_)) => "Err".to_string(),
        };
        out.case(&c, &obs, true, "reader_name");
    }


    // ---- T2: the unsigned scanners (u8 / u16 / u32 / Ttl) and Timestamp::scan on raw token text
    {
        let maxes: [u64; 4] = [255, 65535, 4294967295, 4294967295];
        let mut toks: Vec<(usize, Vec<u8>)> = Vec::new();
        for w in 0..4usize {
            let m = maxes[w];
            for v in [0u64, 1, 9, 10, m - 1, m, m + 1, m + 2, 10 * m, 10 * m + 9, (m + 1) / 2, (m + 1) / 2 - 1, 1 << 31, (1 << 31) - 1, 25, 26, 256, 6553, 6554, 429496729, 429496730, u64::MAX] {
                toks.push((w, v.to_string().into_bytes()));
            }
            for t in [&b"000"[..], b"0255", b"00000000000000000001", b"+5", b"-1", b"\"\"", b"\"7\"", b"\"2 5\"", b"25a", b"a", b"\\050", b"1\\0500", b"0x10", b"1_0", b"1.0", b"\xef\xbc\x91", b"99999999999999999999999", b"@", b"\\#"] {
                toks.push((w, t.to_vec()));
            }
        }
        let n_rand = (if a.thorough { 6000 } else { 600 }) * a.scale as usize;
        for _ in 0..n_rand {
            let w = r.below(4) as usize;
            let t = match r.below(4) {
                0 => { let v = maxes[w].wrapping_add(r.below(40)).wrapping_sub(20); v.to_string().into_bytes() }
                1 => { let n = 1 + r.below(12) as usize; (0..n).map(|_| b'0' + r.below(10) as u8).collect() }
                2 => { let n = 1 + r.below(5) as usize; (0..n).map(|_| *r.pick(b"0123456789+-a\\x")).collect() }
                _ => r.next().to_string().into_bytes(),
            };
            toks.push((w, t));
        }
        for (w, t) in toks {
            idx += 1; if !out.wants(idx) { continue; }
            let c = format!("uint {} {}", w, hex(&t));
            out.begin(&c);
            let mut line = b". 0 IN ".to_vec();
            match w { 0 => { line.extend(b"CAA "); line.extend(&t); line.extend(b" a \"\"\n"); }
                      1 => { line.extend(b"MX "); line.extend(&t); line.extend(b" .\n"); }
                      2 => { line.extend(b"SOA . . "); line.extend(&t); line.extend(b" 0 0 0 0\n"); }
                      _ => { line.extend(b"SOA . . 0 "); line.extend(&t); line.extend(b" 0 0 0\n"); } }
            let obs = match read_text(&line, None) {
                Err(_) => "Panic".to_string(),
                Ok(Err(_)) => "Err".to_string(),
                Ok(Ok(v)) if v.len() == 1 => match v[0].data() {
                    ZoneRecordData::Caa(x) if w == 0 => format!("Ok {}", x.flags().bits()),
                    ZoneRecordData::Mx(x) if w == 1 => format!("Ok {}", x.preference()),
                    ZoneRecordData::Soa(x) if w == 2 => format!("Ok {}", x.serial().into_int()),
                    ZoneRecordData::Soa(x) if w == 3 => format!("Ok {}", x.refresh().as_secs()),
                    _ => "Err".to_string() },
                Ok(Ok(_)) => "Err".to_string(),
            };
            out.case(&c, &obs, true, "reader_uint");
        }
        // signature times: decimal and YYYYMMDDHHmmSS
        let mut ts: Vec<Vec<u8>> = [&b"0"[..], b"4294967295", b"4294967296", b"+1", b"0000000001", b"00000000001", b"19700101000000", b"19700101000001",
            b"20380119031407", b"20380119031408", b"21060207062815", b"21060207062816", b"20240229235959", b"20230229000000", b"21000229000000",
            b"20000229000000", b"20241301000000", b"20240001000000", b"20240100000000", b"20240132000000", b"20240431000000", b"20240101240000",
            b"20240101006000", b"99991231235959", b"00010101000000", b"2024010100000", b"202401010000000", b"2024010100000a", b"\"20240101000000\"",
            b"19691231235959", b"99991230220000", b"99991230220001", b"99991230215959", b"00000101000000", b"123456789012", b"1234567890123"].iter().map(|x| x.to_vec()).collect();
        let n_ts = (if a.thorough { 4000 } else { 500 }) * a.scale as usize;
        for _ in 0..n_ts {
            let y = match r.below(4) { 0 => 1970 + r.below(140), 1 => 1 + r.below(9999), _ => 2000 + r.below(60) };
            let mo = 1 + r.below(12); let d = 1 + r.below(31); let h = r.below(24); let mi = r.below(60); let se = r.below(60);
            ts.push(format!("{:04}{:02}{:02}{:02}{:02}{:02}", y, mo, d, h, mi, se).into_bytes());
        }
        for t in ts {
            idx += 1; if !out.wants(idx) { continue; }
            let c = format!("ts {}", hex(&t));
            out.begin(&c);
            let mut line = b". 0 IN RRSIG A 8 0 0 ".to_vec(); line.extend(&t); line.extend(b" 0 0 . AA==\n");
            let obs = match read_text(&line, None) {
                Err(_) => "Panic".to_string(),
                Ok(Err(_)) => "Err".to_string(),
                Ok(Ok(v)) if v.len() == 1 => match v[0].data() { ZoneRecordData::Rrsig(x) => format!("Ok {}", x.expiration().into_int()), _ => "Err".to_string() },
                Ok(Ok(_)) => "Err".to_string(),
            };
            out.case(&c, &obs, t.len() == 14, "reader_timestamp");
        }
    }


    // ---- T2: IPv6 address text: Display against the model's show_ip6, and texts read back through AAAA
    {
        let n_ip6 = (if a.thorough { 8000 } else { 800 }) * a.scale as usize;
        let mut addrs: Vec<[u8; 16]> = vec![[0; 16], { let mut x = [0u8; 16]; x[15] = 1; x }, { let mut x = [0u8; 16]; x[10] = 0xff; x[11] = 0xff; x[12] = 1; x[15] = 4; x },
            { let mut x = [0u8; 16]; x[12] = 1; x[15] = 4; x }, { let mut x = [0xffu8; 16]; x[0] = 0x20; x[1] = 1; x }, { let mut x = [0u8; 16]; x[0] = 1; x }];
        for _ in 0..n_ip6 {
            let mut x = [0u8; 16];
            for g in 0..8 { let v: u16 = match r.below(5) { 0 | 1 => 0, 2 => r.below(16) as u16, 3 => 0xffff, _ => r.u16() }; x[2 * g] = (v >> 8) as u8; x[2 * g + 1] = v as u8; }
            addrs.push(x);
        }
        for x in addrs {
            let text = format!("{}", std::net::Ipv6Addr::from(x));
            idx += 1;
            if out.wants(idx) {
                let c = format!("ip6show {}", hex(&x));
                out.begin(&c);
                out.case(&c, &hex(text.as_bytes()), x != [0u8; 16], "ip6_display");
            }
            // the writer's text and variants of it (upper case, leading zeros, expanded, a broken one)
            let mut variants: Vec<Vec<u8>> = vec![text.clone().into_bytes(), text.to_uppercase().into_bytes()];
            let full: Vec<String> = (0..8).map(|g| format!("{:04x}", ((x[2 * g] as u16) << 8) | x[2 * g + 1] as u16)).collect();
            variants.push(full.join(":").into_bytes());
            variants.push({ let mut v = full.clone(); v[r.below(8) as usize] = "12345".to_string(); v.join(":").into_bytes() });
            variants.push(full[..7].join(":").into_bytes());
            if r.chance(1, 4) { variants.push(format!("{}:", text).into_bytes()); variants.push(text.replace("::", ":::").into_bytes()); }
            for v in variants {
                idx += 1; if !out.wants(idx) { continue; }
                let c = format!("ip6read {}", hex(&v));
                out.begin(&c);
                let mut line = b". 0 IN AAAA ".to_vec(); line.extend(&v); line.push(b'\n');
                let obs = match read_text(&line, None) {
                    Err(_) => "Panic".to_string(),
                    Ok(Err(_)) => "Err".to_string(),
                    Ok(Ok(rs)) if rs.len() == 1 => match rs[0].data() { ZoneRecordData::Aaaa(a6) => format!("Ok {}", hex(&a6.addr().octets())), _ => "Err".to_string() },
                    Ok(Ok(_)) => "Err".to_string(),
                };
                out.case(&c, &obs, true, "ip6_read");
            }
        }
    }


    // ---- T2: one SVCB parameter: Display against the model's show_param, and tokens read back
    //      (". 0 IN SVCB 1 . <token>") against parse_param
    {
        let n_svc = (if a.thorough { 8000 } else { 900 }) * a.scale as usize;
        let mut toks: Vec<Vec<u8>> = [&b"port=80"[..], b"port=", b"port", b"port=65536", b"port=+1", b"port=080", b"PORT=1", b"ohttp", b"ohttp=", b"ohttp=x",
            b"no-default-alpn", b"nodefaultalpn", b"no-default-alpn=x", b"key123", b"key123=", b"key123=a=b", b"key65536=a", b"key00009=a", b"Key9=1",
            b"alpn=h2", b"alpn=h2,h3", b"alpn=h2,", b"alpn=,h2", b"alpn=", b"alpn", b"alpn=a\\\\b", b"mandatory=alpn", b"mandatory=port,alpn", b"mandatory=mandatory",
            b"mandatory=alpn,alpn", b"mandatory=key7", b"mandatory=", b"ipv4hint=1.2.3.4", b"ipv4hint=1.2.3.4,5.6.7.8", b"ipv4hint=1.2.3", b"ipv4hint=01.2.3.4", b"ipv4hint=",
            b"ipv6hint=::1", b"ipv6hint=::1,2001:db8::", b"ipv6hint=1.2.3.4", b"ech=AAAA", b"ech=AA==", b"ech=A", b"ech=", b"ech=@@@@", b"dohpath=/dns-query{?dns}",
            b"dohpath=\\195\\169", b"dohpath=\\195", b"dohpath=a\\(b\\)", b"dohpath", b"tls-supported-groups=29,23", b"tls-supported-groups=29,29", b"tls-supported-groups=65536",
            b"tls-supported-groups=", b"=x", b"a_b=1", b"port=8\\0480", b"key7=/x", b"key2", b"key3=443", b"\"port=80\"", b"unknown=1"].iter().map(|x| x.to_vec()).collect();
        let mut shows: Vec<(u16, Vec<u8>)> = Vec::new();
        for _ in 0..n_svc {
            let key: u16 = match r.below(13) { k @ 0..=9 => k as u16, 10 => 10 + r.below(20) as u16, 11 => 65535 - r.below(3) as u16, _ => r.u16().max(10) };
            let val: Vec<u8> = match key {
                0 => { let mut ks: Vec<u16> = (0..1 + r.below(4)).map(|_| 1 + r.below(12) as u16).collect(); ks.sort(); ks.dedup(); ks.iter().flat_map(|k| k.to_be_bytes()).collect() }
                1 => { let mut m = Vec::new(); for _ in 0..1 + r.below(3) { let n = 1 + r.below(5) as usize; m.push(n as u8); for _ in 0..n { m.push(*r.pick(b"h23abc-./xyz")); } } m }
                2 | 8 => vec![],
                3 => ext_u16(&mut r).to_be_bytes().to_vec(),
                4 => { let n = 4 * (1 + r.below(3) as usize); r.bytes(n) }
                5 => gen_blob(&mut r, 30),
                6 => { let mut v = Vec::new(); for _ in 0..1 + r.below(2) { let mut x = r.bytes(16); for g in 0..8 { if r.chance(1, 2) { x[2 * g] = 0; x[2 * g + 1] = 0; } } v.extend(x); } v }
                7 => { let n = r.below(10) as usize; let mut v = Vec::new(); for _ in 0..n { match r.below(6) { 0 => v.extend("\u{e9}".as_bytes()), 1 => v.push(*r.pick(b" ;()\"\\,=\t\n\x7f")), _ => v.push(*r.pick(b"abc/-{}?dns")) } } v }
                9 => { let mut ks: Vec<u16> = (0..1 + r.below(4)).map(|_| ext_u16(&mut r)).collect(); ks.dedup(); let mut seen = std::collections::BTreeSet::new(); ks.retain(|k| seen.insert(*k)); ks.iter().flat_map(|k| k.to_be_bytes()).collect() }
                _ => { let n = r.below(8) as usize; octets(&mut r, n) }
            };
            shows.push((key, val));
        }
        for (key, val) in shows {
            let mut rd = vec![0u8, 1, 0]; rd.extend(key.to_be_bytes()); rd.extend((val.len() as u16).to_be_bytes()); rd.extend(&val);
            let rec = match make_record(&[0], 1, 0, 64, &rd) { Some(x) => x, None => { out.count("unbuildable_svcparam"); continue; } };
            let text = match write_rec(&rec, 's') { Ok(Ok(t)) => t, _ => continue };
            let tok = match text.strip_prefix(". 0 IN SVCB 1 . ") { Some(t) => t.as_bytes().to_vec(), None => text.strip_prefix(". 0 IN SVCB 1 .").map(|t| t.as_bytes().to_vec()).unwrap_or_default() };
            idx += 1;
            if out.wants(idx) {
                let c = format!("svcshow {} {}", key, hex(&val));
                out.begin(&c);
                out.case(&c, &hex(&tok), true, "svcparam_display");
            }
            if !tok.is_empty() { toks.push(tok); }
        }
        for tok in toks {
            idx += 1; if !out.wants(idx) { continue; }
            let c = format!("svcread {}", hex(&tok));
            out.begin(&c);
            let mut line = b". 0 IN SVCB 1 . ".to_vec(); line.extend(&tok); line.push(b'\n');
            let obs = match read_text(&line, None) {
                Err(_) => "Panic".to_string(),
                Ok(Err(_)) => "Err".to_string(),
                Ok(Ok(v)) if v.len() == 1 => { let w = rdata_wire(v[0].data());
                    if w.len() >= 7 && w[..3] == [0, 1, 0] { let k = u16::from_be_bytes([w[3], w[4]]); let l = u16::from_be_bytes([w[5], w[6]]) as usize;
                        if w.len() == 7 + l { format!("Ok {} {}", k, hex(&w[7..])) } else { "Err".to_string() } } else { "Err".to_string() } }
                Ok(Ok(_)) => "Err".to_string(),
            };
            out.case(&c, &obs, true, "svcparam_read");
        }
    }


    // ---- T2: the 255 octet limits of the NSEC3 salt and next-owner hash (texts of 0..300 octets)
    for n in [0usize, 1, 2, 127, 253, 254, 255, 256, 257, 300] {
        for which in 0..2 {
            let data: Vec<u8> = (0..n).map(|i| (i * 7 + 3) as u8).collect();
            let tok: Vec<u8> = if which == 0 { if n == 0 { b"-".to_vec() } else { data.iter().map(|x| format!("{:02X}", x)).collect::<String>().into_bytes() } }
                               else { domain::utils::base32::encode_string_hex(&data).into_bytes() };
            if tok.is_empty() { continue; }
            idx += 1; if !out.wants(idx) { continue; }
            let c = format!("n3len {} {}", which, hex(&tok));
            out.begin(&c);
            let mut line = if which == 0 { b". 0 IN NSEC3PARAM 1 0 0 ".to_vec() } else { b". 0 IN NSEC3 1 0 0 - ".to_vec() };
            line.extend(&tok); line.push(b'\n');
            let obs = match read_text(&line, None) {
                Err(_) => "Panic".to_string(),
                Ok(Err(_)) => "Err".to_string(),
                Ok(Ok(v)) if v.len() == 1 => match v[0].data() {
                    ZoneRecordData::Nsec3param(x) => format!("Ok {}", x.salt().as_slice().len()),
                    ZoneRecordData::Nsec3(x) => format!("Ok {}", x.next_owner().as_slice().len()),
                    _ => "Err".to_string() },
                Ok(Ok(_)) => "Err".to_string(),
            };
            out.case(&c, &obs, n >= 254, "reader_nsec3_limits");
        }
    }

    // ---- T2: regular record types field by field (`rec`): the model renders the record with the
    //      schema T1 read off the type's ZonefileFmt / scan impls
    let n_rec = (if a.thorough { 400 } else { 40 }) * a.scale as usize;
    // IPSECKEY: the gateway field follows the gateway type (0 none ".", 1 IPv4, 2 IPv6, 3 name)
    let ipseckey: [(u16, &[Fs], bool); 4] = [(45, &[U8, U8, U8, B64], false), (45, &[U8, U8, U8, Ip4, B64], false),
        (45, &[U8, U8, U8, Ip6, B64], false), (45, &[U8, U8, U8, Name, B64], false)];
    for (rt, fs, static_comments) in REGULAR.iter().chain(ipseckey.iter()) {
        for _ in 0..n_rec {
            let mut wire = Vec::new(); let mut toks = Vec::new();
            for f in fs.iter() { let (w, t) = gen_field(&mut r, *f); wire.extend(w); toks.push(t); }
            if *rt == 45 {
                // force the gateway type to the form generated; no gateway: the "." token
                let gw = match fs.len() { 4 => 0u8, _ => match fs[3] { Ip4 => 1, Ip6 => 2, _ => 3 } };
                wire[1] = gw; toks[1] = format!("u{}", gw);
                if gw == 0 { toks.insert(3, "d".to_string()); }
                if r.chance(1, 3) { wire[2] = 0; toks[2] = "u0".to_string(); }
            }
            let owner = if r.chance(1, 2) { b"\x07example\x00".to_vec() } else { gen_name(&mut r) };
            let class = gen_class(&mut r); let ttl = ext_u32(&mut r);
            let rec = match make_record(&owner, class, ttl, *rt, &wire) { Some(x) => x, None => { out.count(&format!("unbuildable_rec_{}", type_name(*rt))); continue; } };
            for (kname, k) in KINDS {
                if k == 'm' && !static_comments { continue; }
                idx += 1; if !out.wants(idx) { continue; }
                let c = format!("rec {} {} {} {} {} {}", k, rt, class, ttl, hex(&owner), toks.join(" "));
                out.begin(&c);
                let obs = match write_rec(&rec, k) {
                    Err(_) => "Panic".to_string(),
                    Ok(Err(())) => "Err".to_string(),
                    Ok(Ok(t)) => {
                        let mut full = t.into_bytes(); full.push(b'\n');
                        let rb = match rt_raw(&rec, type_name(*rt), k, kname) { Raw::Ok => "Ok", Raw::WriterPanic(_) | Raw::ReaderPanic(_) => "Panic", _ => "Err" };
                        format!("{} {}", hex(&full), rb)
                    }
                };
                out.case(&c, &obs, true, &format!("rec_{}", type_name(*rt)));
            }
        }
    }

    // ---- oracle: every zone record type, three kinds
    let corpus: Vec<Case> = vec![
        Case { owner: b"\x08a;b\"c(d)\x07example\x00".to_vec(), class: 1, ttl: 3600, rt: 1, rdata: vec![1, 2, 3, 4] },
        Case { owner: b"\x01@\x00".to_vec(), class: 1, ttl: 3600, rt: 1, rdata: vec![1, 2, 3, 4] },
        Case { owner: b"\x01$\x00".to_vec(), class: 1, ttl: 3600, rt: 1, rdata: vec![1, 2, 3, 4] },
        Case { owner: b"\x02IN\x00".to_vec(), class: 1, ttl: 3600, rt: 1, rdata: vec![1, 2, 3, 4] },
        Case { owner: b"\x043600\x00".to_vec(), class: 1, ttl: 3600, rt: 1, rdata: vec![1, 2, 3, 4] },
        Case { owner: vec![0], class: 1, ttl: 0, rt: 6, rdata: { let mut v = vec![0u8, 0]; v.extend([0xffu8; 20]); v } },
        Case { owner: vec![0], class: 255, ttl: u32::MAX, rt: 16, rdata: vec![0] },
        Case { owner: vec![0], class: 1, ttl: 1, rt: 16, rdata: vec![] },
        Case { owner: vec![0], class: 1, ttl: 1, rt: 13, rdata: vec![0, 0] },
        Case { owner: vec![0], class: 1, ttl: 1, rt: 43, rdata: vec![0, 1, 2, 3] },
        Case { owner: vec![0], class: 1, ttl: 1, rt: 65280, rdata: vec![] },
        Case { owner: vec![0], class: 1, ttl: 1, rt: 65280, rdata: vec![0xde, 0xad] },
        // SVCB / HTTPS: parameters with an empty value are written as nothing at all
        Case { owner: vec![0], class: 1, ttl: 0, rt: 65, rdata: vec![0, 0, 0, 0, 4, 0, 0] },
        Case { owner: vec![0], class: 1, ttl: 0, rt: 64, rdata: vec![0, 1, 0, 0, 1, 0, 0] },
        // fixed in 72650b2, must stay silent: a dohpath with a line feed, blank and non-ASCII UTF-8; an unknown key whose value is `)`
        Case { owner: vec![0], class: 1, ttl: 0, rt: 64, rdata: vec![0, 1, 0, 0, 7, 0, 5, 0x0a, 0x2d, 0x20, 0xc3, 0xa9] },
        Case { owner: vec![0], class: 1, ttl: 0, rt: 65, rdata: vec![0, 1, 0, 0x61, 0, 0, 1, 0x29] },
        // fields of maximal length: 255-octet NSEC3 salt and next-owner hash, 255-octet char-strings, a 255-octet name
        Case { owner: vec![0], class: 1, ttl: 0, rt: 51, rdata: { let mut v = vec![1, 0, 0, 12, 255]; v.extend((0..255u32).map(|i| (i * 7 + 3) as u8)); v } },
        Case { owner: vec![0], class: 1, ttl: 0, rt: 50, rdata: { let mut v = vec![1, 0, 0, 12, 255]; v.extend((0..255u32).map(|i| (i * 7 + 3) as u8)); v.push(1); v.push(9); v.extend([0, 1, 0x40]); v } },
        Case { owner: vec![0], class: 1, ttl: 0, rt: 50, rdata: { let mut v = vec![1, 0, 0, 12, 0, 255]; v.extend((0..255u32).map(|i| (i * 5 + 1) as u8)); v.extend([0, 1, 0x40]); v } },
        Case { owner: vec![0], class: 1, ttl: 0, rt: 13, rdata: { let mut v = vec![255u8]; v.extend([b'x'; 255]); v.push(255); v.extend([b'\\'; 255]); v } },
        Case { owner: { let mut w = Vec::new(); for n in [63usize, 63, 63, 61] { w.push(n as u8); w.extend(vec![b'n'; n]); } w.push(0); w }, class: 1, ttl: 0, rt: 2,
               rdata: { let mut w = Vec::new(); for n in [63usize, 63, 63, 61] { w.push(n as u8); w.extend(vec![b'.'; n]); } w.push(0); w } },
        // one reproducer per known class
        Case { owner: vec![0], class: 1, ttl: 0, rt: 50, rdata: vec![1, 0, 0, 10, 0, 0, 0, 1, 0x40] },          // empty_field_NSEC3: no next-owner hash
        Case { owner: vec![0], class: 1, ttl: 0, rt: 257, rdata: vec![0, 0, b'x'] },                              // empty_field_CAA: empty tag
        Case { owner: vec![0], class: 1, ttl: 0, rt: 64, rdata: vec![0, 1, 0, 0, 2, 0, 0] },                      // svcb_params_nodefaultalpn
        Case { owner: vec![0], class: 1, ttl: 0, rt: 64, rdata: vec![0, 1, 0, 0, 1, 0, 4, 3, b'a', b' ', b'b'] }, // svcb_params_value_escaping: alpn id "a b"
        Case { owner: vec![0], class: 1, ttl: 0, rt: 64, rdata: vec![0, 0x61, 0, 0, 7, 0, 1, 0xf7] },             // svcb_params_dohpath_not_utf8
        Case { owner: b"\x07$ORIGIN\x01$\x00".to_vec(), class: 1, ttl: 0, rt: 15, rdata: b"\x00\x0a\x04$TTL\x00".to_vec() },
    ];
    let mut per_type_stats: BTreeMap<String, (u64, u64)> = BTreeMap::new();
    let mut unbuildable = 0u64;
    let total = per_type as usize * ZONE_TYPES.len() + corpus.len();
    for i in 0..total {
        let case = if i < corpus.len() { clone_case(&corpus[i]) } else {
            let (rt0, _) = ZONE_TYPES[(i - corpus.len()) % ZONE_TYPES.len()];
            let rt = if rt0 == 0 { gen_unknown_rtype(&mut r) } else { rt0 };
            let owner = if r.chance(1, 3) { b"\x07example\x00".to_vec() } else { gen_name(&mut r) };
            Case { owner, class: gen_class(&mut r), ttl: ext_u32(&mut r), rt, rdata: gen_rdata(&mut r, rt) }
        };
        let tname = type_name(case.rt);
        let rec = match make_record(&case.owner, case.class, case.ttl, case.rt, &case.rdata) { Some(x) => x, None => { unbuildable += 1; out.count(&format!("unbuildable_{}", tname)); continue; } };
        for (kname, k) in KINDS {
            idx += 1; if !out.wants(idx) { continue; }
            let c = case_line(&case, k);
            out.begin(&c);
            out.oracle_case(&c, true, &format!("rt_{}_{}", tname, kname));
            let v = round_trip(&rec, tname, k, kname);
            let e = per_type_stats.entry(format!("{}_{}", tname, kname)).or_insert((0, 0));
            e.0 += 1;
            match v {
                Verdict::Ok => out.check(true, "roundtrip", &c, ""),
                Verdict::Fail(class, detail) => {
                    e.1 += 1;
                    let cnt = minimised.entry(class.clone()).or_insert(0);
                    *cnt += 1;
                    if *cnt <= 2 && !class.contains("panic") {
                        let (m, d) = minimise(&case, tname, k, kname, &class);
                        out.check(false, &class, &case_line(&m, k), &format!("(minimised) {}", d));
                    } else if *cnt <= 5 {
                        out.check(false, &class, &c, &detail);
                    } else {
                        // keep oracle.txt (200 lines) representative of every class
                        out.count(&format!("more_failures_{}", class));
                    }
                }
            }
        }
    }

    // ---- oracle: UnknownRecordData built directly for arbitrary rtypes (generic form, RFC 3597)
    let n_unk = (if a.thorough { 3000 } else { 300 }) * a.scale as usize;
    for _ in 0..n_unk {
        let rt = match r.below(3) { 0 => gen_unknown_rtype(&mut r), 1 => r.u16(), _ => ZONE_TYPES[r.below(ZONE_TYPES.len() as u64 - 1) as usize].0 };
        let data = gen_blob(&mut r, 50);
        let owner = gen_name(&mut r);
        let class = gen_class(&mut r);
        let ttl = ext_u32(&mut r);
        let urec: Record<Name<Bytes>, ZoneRecordData<Bytes, Name<Bytes>>> = Record::new(Name::from_octets(Bytes::from(owner.clone())).unwrap(), Class::from_int(class), Ttl::from_secs(ttl),
            ZoneRecordData::Unknown(UnknownRecordData::from_octets(Rtype::from_int(rt), Bytes::from(data.clone())).unwrap()));
        for (kname, k) in KINDS {
            idx += 1; if !out.wants(idx) { continue; }
            let c = format!("generic {} {} {} {} {} {}", k, class, ttl, rt, hex(&owner), hex(&data));
            let gclass = format!("roundtrip_GENERIC_{}", kname);
            out.begin(&c);
            out.oracle_case(&c, true, &format!("generic_{}", kname));
            let u2 = urec.clone();
            let text = catch(move || format!("{}\n", u2.display_zonefile(kind_of(k))));
            let text = match text { Ok(t) => t, Err(p) => { out.check(false, "panic_writer", &c, &p); continue; } };
            match read_text(text.as_bytes(), None) {
                Err(p) => out.check(false, "panic_reader", &c, &p),
                Ok(Err(e)) => out.check(false, &gclass, &c, &format!("text={} :: reader error: {}", printable(text.as_bytes()), e)),
                Ok(Ok(v)) => {
                    let ok = v.len() == 1 && v[0].owner().name_eq(urec.owner()) && v[0].class() == urec.class() && v[0].ttl() == urec.ttl() && v[0].data() == urec.data();
                    out.check(ok, &gclass, &c, &format!("text={} :: read back {} records, first rdata {}", printable(text.as_bytes()), v.len(),
                        v.first().map(|g| hex(&rdata_wire(g.data()))).unwrap_or_default()));
                }
            }
        }
    }

    let mut failing: Vec<String> = per_type_stats.iter().filter(|(_, v)| v.1 > 0).map(|(k, v)| format!("{}:{}/{}", k, v.1, v.0)).collect();
    failing.sort();
    let classes: Vec<String> = minimised.iter().map(|(k, v)| format!("{}:{}", k, v)).collect();
    out.finish(&[("unbuildable_cases", format!("{}", unbuildable)), ("failing_type_kinds", json_str(&failing.join(" "))), ("failure_classes", json_str(&classes.join(" ")))]);
}
