//! C16 -- servers answer each request once, correctly framed and within the
//! size limit: correspondence cases for the Coq model and the property oracle
//! on the real middleware stack and the real DgramServer / StreamServer over
//! in-memory sockets.
//!
//! T2 case syntax (see model/C16/driver.ml):
//!   neg <client|-> <hint|->      hint stored in the UdpTransportContext after
//!                                EdnsMiddlewareSvc::call          => Ok <n|->
//!   cfg <v|->                    dgram::Config::set_max_response_size => <n|->
//!   push <limit|-> <pos> <adds>  MessageBuilder pushes under a push limit
//!   udp <id> <b2> <labels> <qtype> <client|-> <cfg|-> <rb2> <rb3> <n_an> <an_len> <n_ar> <ar_len> <size:dlen|->
//!                                one request through Mandatory(Edns(service))
//!                                => Ok len= tc= id= cnt= opt= b2=
//!   frame <hex>                  StreamTarget length shim          => Ok <hex> | Err 1
//!   conn <hexchunk>...           bytes written in these chunks to a StreamServer
//!                                connection => open|closed D:id:len.. F:id:len.. (X)
use std::collections::{HashMap, VecDeque};
use std::future::Future;
use std::io;
use std::net::SocketAddr;
use std::pin::Pin;
use std::str::FromStr;
use std::sync::atomic::{AtomicBool, Ordering};
use std::sync::{Arc, Mutex};
use std::task::{Context, Poll};
use std::time::Duration;

use domain::base::iana::{Class, Rcode};
use domain::base::message_builder::{AdditionalBuilder, PushError};
use domain::base::name::Name;
use domain::base::rdata::UnknownRecordData;
use domain::base::{Message, Rtype, StreamTarget, Ttl};
use domain::dep::octseq::OctetsBuilder;
use domain::net::server::buf::VecBufSource;
use domain::net::server::dgram::{self, DgramServer};
use domain::net::server::message::{Request, UdpTransportContext};
use domain::net::server::middleware::cookies::CookiesMiddlewareSvc;
use domain::net::server::middleware::edns::EdnsMiddlewareSvc;
use domain::net::server::middleware::mandatory::MandatoryMiddlewareSvc;
use domain::net::server::service::{CallResult, Service, ServiceError, ServiceResult};
use domain::net::server::sock::{AsyncAccept, AsyncDgramSock};
use domain::net::server::stream::{self, StreamServer};
use domain::net::server::ConnectionConfig;
use domain::net::server::util::mk_builder_for_target;
use dv_harness::*;
use futures_util::stream::{Stream, StreamExt};
use tokio::io::{AsyncReadExt, AsyncWriteExt, DuplexStream, ReadBuf};
use tokio::sync::Notify;

// ------------------------------------------------------------------ service

/// One response the test service produces, described by sizes.
#[derive(Clone, Debug)]
struct Resp {
    aa: bool,
    b3: u8, // RA . AD CD rcode
    n_an: u16,
    an_len: u16, // >= 11: root owner + type class ttl rdlen + rdata
    n_ar: u16,
    ar_len: u16,
    opt: Option<(u16, u16)>, // (udp payload size, option data length: 0 or >= 4)
}
impl Resp {
    fn opt_len(&self) -> usize { self.opt.map(|(_, d)| 11 + d as usize).unwrap_or(0) }
    /// length of the response after the EDNS fix-ups (OPT stripped for a
    /// request without OPT, an empty OPT added for a request with one), given
    /// its length without OPT: what has to fit into the limit
    fn intended(&self, len_without_opt: usize, client: Option<u16>) -> usize {
        match client { None => len_without_opt, Some(_) => len_without_opt + if self.opt.is_some() { self.opt_len() } else { 11 } }
    }
    fn small() -> Resp { Resp { aa: false, b3: 0, n_an: 1, an_len: 15, n_ar: 0, ar_len: 11, opt: None } }
}

/// What the service does for a request: wait, then a stream of results.
#[derive(Clone, Debug)]
struct Beh {
    delay_ms: u64,
    items: Vec<Result<Resp, u8>>, // Err(kind): ServiceError
}
impl Beh {
    fn single(r: Resp) -> Beh { Beh { delay_ms: 0, items: vec![Ok(r)] } }
    /// number of responses the transport has to deliver (the invoker stops after an error)
    fn expected(&self) -> usize {
        match self.items.iter().position(|x| x.is_err()) { Some(i) => i + 1, None => self.items.len() }
    }
}

#[derive(Clone, Default)]
struct Shared {
    table: Arc<Mutex<HashMap<u16, Beh>>>,
    calls: Arc<Mutex<Vec<(u16, usize)>>>,          // (id, request length) in call order
    produced: Arc<Mutex<Vec<(u16, usize, bool)>>>, // (id, response length without its OPT record, has records beyond question/OPT); see `intended`
}

#[derive(Clone)]
struct TestSvc { sh: Shared }

fn rec(len: u16) -> (Name<Vec<u8>>, Class, Ttl, UnknownRecordData<Vec<u8>>) {
    let rd = vec![0u8; (len as usize).saturating_sub(11)];
    (Name::root_vec(), Class::IN, Ttl::ZERO, UnknownRecordData::from_octets(Rtype::from_int(65280), rd).unwrap())
}

fn build_resp(req: &Message<Vec<u8>>, r: &Resp) -> Result<AdditionalBuilder<StreamTarget<Vec<u8>>>, PushError> {
    let builder = mk_builder_for_target::<Vec<u8>>();
    let mut ans = builder.start_answer(req, Rcode::masked_from_int(r.b3 & 0x0f))?;
    {
        let h = ans.header_mut();
        h.set_aa(r.aa);
        h.set_ra(r.b3 & 0x80 != 0);
        h.set_ad(r.b3 & 0x20 != 0);
        h.set_cd(r.b3 & 0x10 != 0);
    }
    for _ in 0..r.n_an { ans.push(rec(r.an_len))?; }
    let mut add = ans.additional();
    for _ in 0..r.n_ar { add.push(rec(r.ar_len))?; }
    if let Some((sz, dl)) = r.opt {
        add.opt(|o| {
            o.set_udp_payload_size(sz);
            if dl >= 4 { o.padding(dl - 4)?; }
            Ok(())
        })?;
    }
    Ok(add)
}

fn svc_err(k: u8) -> ServiceError {
    match k % 4 { 0 => ServiceError::FormatError, 1 => ServiceError::InternalError, 2 => ServiceError::NotImplemented, _ => ServiceError::Refused }
}

impl Service<Vec<u8>, ()> for TestSvc {
    type Target = Vec<u8>;
    type Stream = Pin<Box<dyn Stream<Item = ServiceResult<Vec<u8>>> + Send>>;
    type Future = Pin<Box<dyn Future<Output = Self::Stream> + Send>>;

    fn call(&self, request: Request<Vec<u8>, ()>) -> Self::Future {
        let sh = self.sh.clone();
        Box::pin(async move {
            let msg = request.message().clone();
            let id = msg.header().id();
            sh.calls.lock().unwrap().push((id, msg.as_slice().len()));
            let beh = sh.table.lock().unwrap().get(&id).cloned().unwrap_or_else(|| Beh::single(Resp::small()));
            if beh.delay_ms > 0 { tokio::time::sleep(Duration::from_millis(beh.delay_ms)).await; }
            let mut out: Vec<ServiceResult<Vec<u8>>> = vec![];
            for it in beh.items.iter() {
                match it {
                    Ok(r) => match build_resp(&msg, r) {
                        Ok(b) => {
                            sh.produced.lock().unwrap().push((id, b.as_slice().len() - r.opt_len(), r.n_an > 0 || r.n_ar > 0));
                            out.push(Ok(CallResult::new(b)));
                        }
                        Err(_) => out.push(Err(ServiceError::InternalError)),
                    },
                    Err(k) => out.push(Err(svc_err(*k))),
                }
            }
            Box::pin(futures_util::stream::iter(out)) as Self::Stream
        })
    }
}

/// The recommended stack: Mandatory over Edns over Cookies over the service.
/// Requests without a COOKIE option from an address that is not on the deny
/// list pass the cookies middleware unchanged (all T2 kinds rely on that).
type Stack = MandatoryMiddlewareSvc<Vec<u8>, EdnsMiddlewareSvc<Vec<u8>, CookiesMiddlewareSvc<Vec<u8>, TestSvc, ()>, ()>, ()>;
const COOKIE_SECRET: [u8; 16] = [0, 1, 2, 3, 4, 5, 6, 7, 8, 9, 10, 11, 12, 13, 14, 15];
fn denied_addr() -> SocketAddr { "192.0.2.66:5353".parse().unwrap() }
fn stack(sh: &Shared) -> Stack {
    let cookies = CookiesMiddlewareSvc::new(TestSvc { sh: sh.clone() }, COOKIE_SECRET).with_denied_ips([denied_addr().ip()]);
    MandatoryMiddlewareSvc::new(EdnsMiddlewareSvc::new(cookies))
}

// ------------------------------------------------------------------ requests

/// A query as raw octets: header, one question of `a` labels, optional OPT.
fn mk_query(id: u16, b2: u8, labels: &[usize], qtype: u16, client: Option<u16>) -> Vec<u8> {
    let mut v = vec![(id >> 8) as u8, id as u8, b2, 0, 0, 1, 0, 0, 0, 0, 0, if client.is_some() { 1 } else { 0 }];
    for &l in labels { v.push(l as u8); v.extend(std::iter::repeat(b'a').take(l)); }
    v.push(0);
    v.extend_from_slice(&[(qtype >> 8) as u8, qtype as u8, 0, 1]);
    if let Some(c) = client { v.extend_from_slice(&[0, 0, 41, (c >> 8) as u8, c as u8, 0, 0, 0, 0, 0, 0]); }
    v
}
fn labels_str(l: &[usize]) -> String {
    if l.is_empty() { "-".into() } else { l.iter().map(|x| x.to_string()).collect::<Vec<_>>().join(".") }
}
fn opt_str<T: std::fmt::Display>(o: Option<T>) -> String { o.map(|x| x.to_string()).unwrap_or_else(|| "-".into()) }
fn client_addr() -> SocketAddr { "192.0.2.7:5353".parse().unwrap() }

/// The limit the property text allows for a UDP response.
fn text_limit(client: Option<u16>, cfg: Option<u16>) -> usize {
    match client {
        None => 512,
        Some(c) => { let c = c.max(512) as usize; match cfg { Some(h) => c.min(h as usize), None => c } }
    }
}

/// Parsed view of a response datagram (None = does not parse).
struct View { id: u16, b2: u8, b3: u8, ottl: u32, odl: u16, tc: bool, qd: u16, an: u16, ns: u16, ar: u16, opt: bool, question: Vec<u8> }
fn view(bytes: &[u8]) -> Option<View> {
    let m = Message::from_octets(bytes.to_vec()).ok()?;
    // walk every section completely; trailing octets are not allowed
    let mut q = m.question();
    let mut qbytes = vec![];
    for x in &mut q { let x = x.ok()?; qbytes.extend_from_slice(&format!("{}|{}|{}", x.qname(), x.qtype(), x.qclass()).into_bytes()); qbytes.push(b';'); }
    let mut sec = q.answer().ok()?;
    let end;
    loop {
        for r in &mut sec { r.ok()?; }
        let pos = sec.pos();
        match sec.next_section() { Ok(Some(s)) => sec = s, Ok(None) => { end = pos; break; } Err(_) => return None }
    }
    if end != bytes.len() { return None; }
    let c = m.header_counts();
    let mut ottl = 0u32;
    let mut odl = 0u16;
    if let Ok(add) = m.additional() { for r in add { if let Ok(r) = r { if r.rtype() == Rtype::OPT { ottl = r.ttl().as_secs(); odl = r.rdlen(); break; } } } }
    Some(View { id: m.header().id(), b2: bytes[2], b3: bytes[3], ottl, odl, tc: m.header().tc(), qd: c.qdcount(), an: c.ancount(), ns: c.nscount(),
        ar: c.arcount(), opt: m.opt().is_some(), question: qbytes })
}
fn question_of(req: &[u8]) -> Option<Vec<u8>> {
    let m = Message::from_octets(req.to_vec()).ok()?;
    let mut out = vec![];
    for x in m.question() { let x = x.ok()?; out.extend_from_slice(&format!("{}|{}|{}", x.qname(), x.qtype(), x.qclass()).into_bytes()); out.push(b';'); }
    Some(out)
}

// ------------------------------------------------------------ direct (part A)

fn rt() -> tokio::runtime::Runtime {
    tokio::runtime::Builder::new_current_thread().enable_time().start_paused(true).build().unwrap()
}

fn imp_neg(rt: &tokio::runtime::Runtime, client: Option<u16>, hint: Option<u16>) -> String {
    let q = mk_query(7, 0, &[1], 1, client);
    let r = catch_mut(|| {
        rt.block_on(async {
            let ctx = UdpTransportContext::new(hint);
            let request = Request::new(client_addr(), tokio::time::Instant::now(), Message::from_octets(q).unwrap(), ctx.clone().into(), ());
            let svc = EdnsMiddlewareSvc::<Vec<u8>, _, ()>::new(TestSvc { sh: Shared::default() });
            let mut st = svc.call(request).await;
            let _ = st.next().await;
            ctx.max_response_size_hint()
        })
    });
    match r { Ok(h) => format!("Ok {}", opt_str(h)), Err(_) => "Panic".into() }
}

struct UdpCase { id: u16, b2: u8, labels: Vec<usize>, qtype: u16, client: Option<u16>, cfg: Option<u16>, resp: Resp }
impl UdpCase {
    fn rb2(&self) -> u8 { 0x80 | (self.b2 & 0x79) | if self.resp.aa { 4 } else { 0 } }
    fn line(&self) -> String {
        format!("udp {} {} {} {} {} {} {} {} {} {} {} {} {}", self.id, self.b2, labels_str(&self.labels), self.qtype,
            opt_str(self.client), opt_str(self.cfg), self.rb2(), self.resp.b3 & 0xbf, self.resp.n_an, self.resp.an_len,
            self.resp.n_ar, self.resp.ar_len, match self.resp.opt { Some((s, d)) => format!("{}:{}", s, d), None => "-".into() })
    }
}

/// Runs one request through Mandatory(Edns(service)); returns the response octets.
fn imp_udp(rt: &tokio::runtime::Runtime, c: &UdpCase) -> Result<Option<Vec<u8>>, String> {
    let q = mk_query(c.id, c.b2, &c.labels, c.qtype, c.client);
    let sh = Shared::default();
    sh.table.lock().unwrap().insert(c.id, Beh::single(c.resp.clone()));
    catch_mut(|| {
        rt.block_on(async {
            let ctx = UdpTransportContext::new(c.cfg);
            let request = Request::new(client_addr(), tokio::time::Instant::now(), Message::from_octets(q).unwrap(), ctx.into(), ());
            let svc = stack(&sh);
            let mut st = svc.call(request).await;
            match st.next().await {
                Some(Ok(cr)) => { let (resp, _) = cr.into_inner(); resp.map(|b| b.as_slice().to_vec()) }
                _ => None,
            }
        })
    })
}

fn obs_udp(bytes: &[u8]) -> String {
    match view(bytes) {
        Some(v) => format!("Ok len={} tc={} id={} cnt={},{},{},{} opt={} b2={}", bytes.len(), v.tc as u8, v.id, v.qd, v.an, v.ns, v.ar, v.opt as u8, v.b2),
        None => "Unparseable".into(),
    }
}

fn imp_push(limit: Option<usize>, adds: &[usize]) -> (usize, String) {
    let b = mk_builder_for_target::<Vec<u8>>();
    let mut ans = b.question().answer();
    let pos = ans.as_slice().len();
    if let Some(l) = limit { ans.set_push_limit(l); }
    let mut tr = vec![];
    for &a in adds {
        let rd = vec![0u8; a.saturating_sub(11)];
        let r = match UnknownRecordData::from_octets(Rtype::from_int(65280), rd) {
            Ok(d) => ans.push((Name::root_vec(), Class::IN, Ttl::ZERO, d)),
            Err(_) => Err(PushError::ShortBuf),
        };
        tr.push(match r { Ok(()) => format!("o{}", ans.as_slice().len()), Err(PushError::LimitExceeded) => "L".into(),
            Err(PushError::ShortBuf) => "S".into(), Err(PushError::CountOverflow) => "C".into() });
    }
    let fin = ans.as_slice().len();
    (pos, format!("{} fin={}", if tr.is_empty() { "-".into() } else { tr.join(",") }, fin))
}

fn imp_frame(m: &[u8]) -> String {
    let mut t = StreamTarget::new_vec();
    match t.append_slice(m) { Ok(()) => format!("Ok {}", hex(t.as_stream_slice())), Err(_) => "Err 1".into() }
}

fn imp_cfg(v: Option<u16>) -> String {
    let mut c = dgram::Config::new();
    c.set_max_response_size(v);
    let d = format!("{:?}", c);
    // Debug output: Config { max_response_size: Some(512), write_timeout: 5s }
    let k = "max_response_size: ";
    let i = d.find(k).map(|i| i + k.len()).unwrap_or(0);
    let rest = &d[i..];
    if rest.starts_with("None") { "-".into() }
    else { rest.trim_start_matches("Some(").split(')').next().unwrap_or("?").to_string() }
}

// ------------------------------------------------ one datagram, whole server (srv)

#[derive(Clone, Debug)]
enum OptSpec { None, One(u16, u8), Ka(u16, bool), Dup(u16), Bad }
#[derive(Clone, Debug)]
enum SvcSpec { None, Err(u8), Ok(Resp) }
#[derive(Clone, Debug)]
struct SrvCase { tcp: bool, id: u16, b2: u8, nq: usize, labels: Vec<usize>, qtype: u16, opt: OptSpec, cfg: Option<u32>, svc: SvcSpec }
impl SrvCase { fn cfg16(&self) -> Option<u16> { self.cfg.map(|v| v as u16) } }
impl SrvCase {
    fn datagram(&self) -> Vec<u8> {
        let nopt = match self.opt { OptSpec::None => 0u8, OptSpec::One(..) | OptSpec::Ka(..) | OptSpec::Bad => 1, OptSpec::Dup(_) => 2 };
        let mut v = vec![(self.id >> 8) as u8, self.id as u8, self.b2, 0, (self.nq >> 8) as u8, self.nq as u8, 0, 0, 0, 0, 0, nopt];
        for _ in 0..self.nq {
            for &l in &self.labels { v.push(l as u8); v.extend(std::iter::repeat(b'a').take(l)); }
            v.push(0);
            v.extend_from_slice(&[(self.qtype >> 8) as u8, self.qtype as u8, 0, 1]);
        }
        let opt = |c: u16, ver: u8, rdlen: u16| vec![0, 0, 41, (c >> 8) as u8, c as u8, 0, ver, 0, 0, (rdlen >> 8) as u8, rdlen as u8];
        match self.opt {
            OptSpec::None => {}
            OptSpec::One(c, ver) => v.extend(opt(c, ver, 0)),
            OptSpec::Ka(c, false) => { v.extend(opt(c, 0, 4)); v.extend_from_slice(&[0, 11, 0, 0]); }
            OptSpec::Ka(c, true) => { v.extend(opt(c, 0, 6)); v.extend_from_slice(&[0, 11, 0, 2, 0, 50]); }
            OptSpec::Dup(c) => { v.extend(opt(c, 0, 0)); v.extend(opt(4096, 0, 0)); }
            OptSpec::Bad => v.extend(opt(1232, 0, 0xffff)),
        }
        v
    }
    fn client(&self) -> Option<u16> { match self.opt { OptSpec::One(c, _) | OptSpec::Ka(c, _) | OptSpec::Dup(c) => Some(c), _ => None } }
    fn rc_of(k: u8) -> u8 { [1, 2, 4, 5][(k % 4) as usize] }
    fn line(&self) -> String {
        let o = match self.opt { OptSpec::None => "-".to_string(), OptSpec::One(c, v) => format!("one:{}:{}", c, v), OptSpec::Ka(c, t) => format!("ka:{}:{}", c, t as u8), OptSpec::Dup(c) => format!("dup:{}", c), OptSpec::Bad => "bad".into() };
        let sv = match &self.svc {
            SvcSpec::None => "none".to_string(),
            SvcSpec::Err(k) => format!("err:{}", Self::rc_of(*k)),
            SvcSpec::Ok(r) => format!("ok:{}:{}:{}:{}:{}:{}:{}", 0x80 | (self.b2 & 0x79) | if r.aa { 4 } else { 0 }, r.b3 & 0xbf, r.n_an, r.an_len, r.n_ar, r.ar_len,
                match r.opt { Some((s, d)) => format!("{}/{}", s, d), None => "-".into() }),
        };
        format!("{} {} {} {} {} {} {} {} {} {}", if self.tcp { "tcp" } else { "srv" }, self.id, self.b2, self.nq, self.nq, labels_str(&self.labels), self.qtype, o, opt_str(self.cfg), sv)
    }
}

fn gen_srv_case(r: &mut Rng, id: u16) -> SrvCase {
    let labels: Vec<usize> = match r.below(4) { 0 => vec![], 1 => vec![1], 2 => vec![63, 63, 63, 61], _ => (0..r.range(1, 3)).map(|_| r.range(1, 12) as usize).collect() };
    let qsz = qlen_of(&labels);
    let max_nq = (1024 - 12 - 22) / qsz; // the server reads datagrams into a 1024-octet buffer
    let nq = match r.below(8) { 0 => 0, 1 | 2 | 3 => 1, 4 => 2, 5 => r.range(2, 8) as usize, 6 => max_nq, _ => r.range(1, max_nq as u64) as usize }.min(max_nq);
    let opcode: u8 = match r.below(8) { 0 => 1, 1 => 2, 2 => 4, 3 => 5, _ => 0 };
    let b2 = (opcode << 3) | (r.below(2) as u8) | if r.chance(1, 8) { 0x80 } else { 0 };
    let opt = match r.below(8) { 0 | 1 | 2 => OptSpec::None, 3 => OptSpec::Dup(pick_size(r)), 4 => OptSpec::Bad, 5 => OptSpec::One(pick_size(r), r.range(1, 3) as u8), _ => OptSpec::One(pick_size(r), 0) };
    let cfg = match r.below(5) { 0 => None, 1 => Some(512), 2 => Some(4096), 3 => Some(pick_size(r).clamp(512, 4096)), _ => Some(1232) };
    let client = match opt { OptSpec::One(c, _) | OptSpec::Dup(c) => Some(c), _ => None };
    let svc = match r.below(6) { 0 => SvcSpec::None, 1 => SvcSpec::Err(r.u8()), _ => SvcSpec::Ok(pick_resp(r, text_limit(client, cfg), nq * qsz)) };
    SrvCase { tcp: false, id, b2, nq, labels, qtype: 1, opt, cfg: cfg.map(|v| v as u32), svc }
}

/// T2 + oracle: one datagram through DgramServer / Mandatory / Edns / service
async fn run_srv_cases(recs: &mut Vec<Rec>, cases: Vec<SrvCase>, idx: &mut u64, only: Option<u64>) {
    for c in cases {
        *idx += 1;
        if only.map_or(false, |o| o != *idx) { continue; }
        let line = c.line();
        let mut config = dgram::Config::new();
        config.set_max_response_size(c.cfg16());
        let sh = Shared::default();
        let beh = match &c.svc { SvcSpec::None => Beh { delay_ms: 0, items: vec![] }, SvcSpec::Err(k) => Beh { delay_ms: 0, items: vec![Err(*k)] }, SvcSpec::Ok(r) => Beh::single(r.clone()) };
        sh.table.lock().unwrap().insert(c.id, beh);
        let srv = Arc::new(DgramServer::with_config(MockSock::default(), VecBufSource, stack(&sh), config));
        let sock = srv.source();
        let s2 = srv.clone();
        let handle = tokio::spawn(async move { s2.run().await });
        PANICKED.store(false, Ordering::SeqCst);
        let dg = c.datagram();
        sock.inject(dg.clone(), client_addr());
        settle(20).await;
        let outv = sock.take_out();
        let obs = match outv.len() {
            0 => "Ok None".to_string(),
            1 => match view(&outv[0].1) {
                Some(v) => format!("Ok len={} tc={} id={} cnt={},{},{},{} opt={} b2={} b3={} ottl={}", outv[0].1.len(), v.tc as u8, v.id, v.qd, v.an, v.ns, v.ar, v.opt as u8, v.b2, v.b3, v.ottl),
                None => "Unparseable".into(),
            },
            n => format!("Multi {}", n),
        };
        recs.push(Rec::Case(line.clone(), obs, "srv"));
        chk(recs, !PANICKED.load(Ordering::SeqCst) && !handle.is_finished(), "panic_server", &line, "a server task panicked".into());
        chk(recs, outv.len() <= 1, "duplicate_response", &line, format!("{} datagrams for one request", outv.len()));
        chk(recs, outv.iter().all(|(a, _)| *a == client_addr()), "wrong_destination", &line, "a response went to another address".into());
        if let Some((_, d)) = outv.first() {
            // the property text's limit; a request that is a reply (QR=1) is still a UDP datagram without EDNS negotiation
            let lim = text_limit(c.client(), c.cfg16());
            match view(d) {
                None => chk(recs, false, "tc_malformed", &line, "response does not parse".into()),
                Some(v) => {
                    chk(recs, v.id == c.id, "id_mismatch", &line, format!("response id {}", v.id));
                    let class = if c.nq > 1 { "udp_oversize_many_questions" } else if v.tc { "udp_oversize_truncated_form" } else { "udp_oversize" };
                    chk(recs, d.len() <= lim, class, &line, format!("{} octets sent in answer to the {}-octet datagram {}, the property allows {}", d.len(), dg.len(), hex(&dg), lim));
                    if v.tc { chk(recs, v.an == 0 && v.ns == 0 && (v.ar == 0 || (v.ar == 1 && v.opt)), "tc_malformed", &line, format!("TC set with counts {},{},{},{}", v.qd, v.an, v.ns, v.ar)); }
                }
            }
        } else {
            chk(recs, matches!(c.svc, SvcSpec::None) && c.b2 & 0x80 == 0, "missing_response", &line, "no datagram although a response was due".into());
        }
        let _ = srv.shutdown();
        settle(2).await;
    }
}

fn gen_tcp_case(r: &mut Rng, id: u16) -> SrvCase {
    let mut c = gen_srv_case(r, id);
    c.tcp = true;
    // the request travels in one frame; any number of questions up to ~60 kB is possible, keep it moderate
    c.opt = match r.below(10) { 0 | 1 | 2 => OptSpec::None, 3 => OptSpec::Dup(pick_size(r)), 4 => OptSpec::Bad, 5 => OptSpec::One(pick_size(r), r.range(1, 3) as u8),
        6 => OptSpec::Ka(pick_size(r), true), 7 => OptSpec::Ka(pick_size(r), false), _ => OptSpec::One(pick_size(r), 0) };
    c.cfg = Some(*r.pick(&[30_000u32, 30_000, 200, 12_345, 6_553_500, 6_553_600, 99_999]));
    if let SvcSpec::Ok(resp) = &mut c.svc {
        let qsz = qlen_of(&c.labels) * c.nq;
        let near = *r.pick(&[100usize, 600, 5000, 64_000]);
        *resp = pick_resp(r, near, qsz);
    }
    c
}

fn stream_server_with(idle_ms: u64, max_conn: Option<usize>) -> StreamSrv {
    let sh = Shared::default();
    let mut cc = ConnectionConfig::new();
    cc.set_idle_timeout(Duration::from_millis(idle_ms));
    let mut cfg = stream::Config::new();
    cfg.set_connection_config(cc);
    if let Some(m) = max_conn { cfg.set_max_concurrent_connections(m); }
    let srv = Arc::new(StreamServer::with_config(MockListener::default(), VecBufSource, stack(&sh), cfg));
    let listener = srv.source();
    let s2 = srv.clone();
    let handle = tokio::spawn(async move { s2.run().await });
    StreamSrv { listener, sh, handle, _srv: srv }
}

/// is the connection served: a query is answered by one frame with its id
async fn probe(client: &mut DuplexStream, id: u16) -> bool {
    let q = mk_query(id, 1, &[4], 1, None);
    let mut f = vec![0, q.len() as u8]; f.extend_from_slice(&q);
    if client.write_all(&f).await.is_err() { return false; }
    let (got, _) = drain(client, 20).await;
    let (frames, _) = split_stream(&got);
    frames.len() == 1 && frames[0].len() >= 2 && frames[0][0] == (id >> 8) as u8 && frames[0][1] == id as u8
}

/// the accept errors a listener can report for one connection attempt (index = the kind in the case line)
fn accept_error(kind: usize) -> io::Error {
    match kind % 12 {
        0 => io::ErrorKind::ConnectionAborted.into(),   // ECONNABORTED: reset while in the accept queue
        1 => io::Error::from_raw_os_error(24),          // EMFILE
        2 => io::Error::from_raw_os_error(23),          // ENFILE
        3 => io::ErrorKind::ConnectionReset.into(),
        4 => io::Error::from_raw_os_error(100),         // ENETDOWN
        5 => io::Error::from_raw_os_error(71),          // EPROTO
        6 => io::Error::from_raw_os_error(113),         // EHOSTUNREACH
        7 => io::ErrorKind::PermissionDenied.into(),    // firewall (EPERM)
        8 => io::ErrorKind::OutOfMemory.into(),         // ENOBUFS / ENOMEM
        9 => io::ErrorKind::Interrupted.into(),
        10 => io::ErrorKind::TimedOut.into(),
        _ => io::Error::new(io::ErrorKind::Other, "TLS handshake failed"),
    }
}

/// T2 + oracle: accept errors and failing stream futures in between connections;
/// every connection must be served, whatever went wrong for other attempts
async fn run_accept_cases(recs: &mut Vec<Rec>, cases: Vec<Vec<Option<Option<usize>>>>, idx: &mut u64, only: Option<u64>) {
    for evs in cases {
        *idx += 1;
        if only.map_or(false, |o| o != *idx) { continue; }
        let line = format!("accept {}", evs.iter().map(|e| match e { None => "c".to_string(), Some(None) => "f".to_string(), Some(Some(1000)) => "p".to_string(), Some(Some(k)) => format!("e{}", k) }).collect::<Vec<_>>().join(","));
        let srv = stream_server_with(30_000, None);
        PANICKED.store(false, Ordering::SeqCst);
        let mut obs = String::new();
        let mut clients = vec![];
        for (j, e) in evs.iter().enumerate() {
            match e {
                None => {
                    let mut c = srv.listener.connect(9000 + j as u16);
                    settle(1).await;
                    let served = probe(&mut c, 0x6400 + j as u16).await;
                    obs.push(if served { 's' } else { '-' });
                    // root cause by what preceded: a connection setup that never completes, or an accept error
                    let after_stall = evs[..j].iter().any(|e| matches!(e, Some(Some(1000))));
                    let after_error = evs[..j].iter().any(|e| matches!(e, Some(Some(k)) if *k != 1000) || matches!(e, Some(None)));
                    let class = if after_stall && !after_error { "connection_setup_blocks_accept" } else { "accept_error_stops_server" };
                    chk(recs, served, class, &line, format!("connection #{} was not served", j));
                    clients.push(c);
                }
                Some(None) => { srv.listener.push(AcceptEv::StreamFails("192.0.2.9:9999".parse().unwrap())); settle(1).await; obs.push('-'); }
                Some(Some(1000)) => { srv.listener.push(AcceptEv::Stalled("192.0.2.9:9998".parse().unwrap())); settle(1).await; obs.push('-'); }
                Some(Some(k)) => { srv.listener.push(AcceptEv::Error(accept_error(*k))); settle(1).await; obs.push('-'); }
            }
        }
        recs.push(Rec::Case(line.clone(), obs, "accept"));
        chk(recs, !srv.handle.is_finished() && !PANICKED.load(Ordering::SeqCst), "accept_error_stops_server", &line, "the server task ended or panicked".into());
        drop(clients);
        drop(srv);
        settle(1).await;
    }
}

/// T2 + oracle: DgramServer::reconfigure - the limit configured when a datagram is received applies to it
async fn run_recfg_cases(recs: &mut Vec<Rec>, cases: Vec<(u16, Vec<usize>, Option<u16>, Option<u16>, Option<u16>, Resp)>, idx: &mut u64, only: Option<u64>) {
    for (id, labels, client, cfg1, cfg2, resp) in cases {
        *idx += 1;
        if only.map_or(false, |o| o != *idx) { continue; }
        let b2 = 1u8;
        let rb2 = 0x80 | (b2 & 0x79) | if resp.aa { 4 } else { 0 };
        let line = format!("recfg {} {} {} {} {} {} {} {} {} {}", id, b2, labels_str(&labels), opt_str(client), opt_str(cfg1), opt_str(cfg2), rb2, resp.n_an, resp.an_len,
            match resp.opt { Some((s, d)) => format!("{}:{}", s, d), None => "-".into() });
        let mk_cfg = |v: Option<u16>| { let mut c = dgram::Config::new(); c.set_max_response_size(v); c };
        let sh = Shared::default();
        let srv = Arc::new(DgramServer::with_config(MockSock::default(), VecBufSource, stack(&sh), mk_cfg(cfg1)));
        let sock = srv.source();
        let s2 = srv.clone();
        let _h = tokio::spawn(async move { s2.run().await });
        sh.table.lock().unwrap().insert(id, Beh::single(Resp { b3: 0, n_ar: 0, ..resp.clone() }));
        let q = mk_query(id, b2, &labels, 1, client);
        let mut obs = vec![];
        let mut lens = vec![];
        for step in 0..2 {
            if step == 1 { let _ = srv.reconfigure(mk_cfg(cfg2)); settle(2).await; }
            sock.inject(q.clone(), client_addr());
            settle(10).await;
            let outv = sock.take_out();
            match outv.first().and_then(|(_, d)| view(d).map(|v| (d.len(), v))) {
                Some((l, v)) if outv.len() == 1 => { obs.push(format!("len={} tc={} id={} cnt={},{},{},{} opt={} b2={}", l, v.tc as u8, v.id, v.qd, v.an, v.ns, v.ar, v.opt as u8, v.b2)); lens.push(l); }
                _ => { obs.push(format!("Bad{}", outv.len())); lens.push(usize::MAX); }
            }
        }
        recs.push(Rec::Case(line.clone(), format!("Ok {}", obs.join(" ; ")), "recfg"));
        // oracle: each response within the limit configured when its request was received
        let eff = |c: Option<u16>| c.map(|v| v.clamp(512, 4096));
        chk(recs, lens[0] <= text_limit(client, eff(cfg1)), "udp_oversize", &line, format!("before the reconfiguration: {} octets, limit {}", lens[0], text_limit(client, eff(cfg1))));
        chk(recs, lens[1] <= text_limit(client, eff(cfg2)), "udp_oversize_after_reconfigure", &line,
            format!("after DgramServer::reconfigure({}): {} octets sent, the property allows {} (request {})", opt_str(cfg2), lens[1], text_limit(client, eff(cfg2)), hex(&q)));
        let _ = srv.shutdown();
        settle(2).await;
    }
}

/// T2 + oracle (virtual time): idle timeout of a connection; connection limit of the server
async fn run_idle_limit(recs: &mut Vec<Rec>, idle_cases: Vec<(u64, u64)>, limit_cases: Vec<(usize, usize)>, idx: &mut u64, only: Option<u64>) {
    let mut port = 8000u16;
    for (timeout, wait) in idle_cases {
        *idx += 1;
        if only.map_or(false, |o| o != *idx) { continue; }
        let srv = stream_server_with(timeout, None);
        port = port.wrapping_add(1).max(8000);
        let mut client = srv.listener.connect(port);
        settle(0).await; // the connection handler starts at virtual time t0
        tokio::time::sleep(Duration::from_millis(wait)).await;
        let open = probe(&mut client, 0x5151).await;
        let line = format!("idle {} {}", timeout, wait);
        recs.push(Rec::Case(line.clone(), if open { "open".into() } else { "closed".into() }, "idle"));
        // oracle: an idle connection is served before the timeout and gone after it
        if wait + 1 < timeout { chk(recs, open, "idle_timeout_wrong", &line, "closed before the idle timeout".into()); }
        if wait > timeout { chk(recs, !open, "idle_timeout_wrong", &line, "still served after the idle timeout".into()); }
        if open {
            // a complete exchange re-arms the timer: still served just before a second period ends, gone after it
            tokio::time::sleep(Duration::from_millis(timeout.saturating_sub(25))).await;
            let again = probe(&mut client, 0x5252).await;
            chk(recs, again || timeout <= 25, "idle_timeout_wrong", &line, "closed although less than the idle timeout passed since the last response".into());
            tokio::time::sleep(Duration::from_millis(timeout + 30)).await;
            let late = probe(&mut client, 0x5353).await;
            chk(recs, !late, "idle_timeout_wrong", &line, "still served one idle period after the last response".into());
        }
        // octets that do not complete a message must not re-arm the timer (RFC 7766 6.2.3)
        let mut slow = srv.listener.connect(port.wrapping_add(3000));
        settle(0).await;
        let step = (timeout / 3).max(1);
        let mut alive_after = 0u64;
        for _ in 0..6 { let _ = slow.write_all(&[0]).await; tokio::time::sleep(Duration::from_millis(step)).await; alive_after += step; }
        let mut b = [0u8; 1];
        let eof = matches!(tokio::time::timeout(Duration::from_millis(5), slow.read(&mut b)).await, Ok(Ok(0)) | Ok(Err(_)));
        chk(recs, eof || alive_after <= timeout, "idle_timeout_wrong", &line, format!("a connection trickling single octets is still open {} ms after it started", alive_after));
        drop(srv);
        settle(1).await;
    }
    for (max, k) in limit_cases {
        *idx += 1;
        if only.map_or(false, |o| o != *idx) { continue; }
        let srv = stream_server_with(30_000, Some(max));
        let mut clients = vec![];
        let mut obs = String::new();
        for j in 0..k {
            port = port.wrapping_add(1).max(8000);
            let mut c = srv.listener.connect(port);
            settle(1).await;
            let served = probe(&mut c, 0x6100 + j as u16).await;
            obs.push(if served { 's' } else { 'd' });
            clients.push(c);
        }
        let line = format!("limit {} {}", max, k);
        recs.push(Rec::Case(line.clone(), obs.clone(), "limit"));
        // oracle: never more than `max` connections served at once; after one is closed a new one is served
        chk(recs, obs.chars().filter(|c| *c == 's').count() <= max, "connection_limit_exceeded", &line, obs.clone());
        chk(recs, obs.chars().take(max.min(k)).all(|c| c == 's'), "connection_refused_below_limit", &line, obs.clone());
        if k > max && max >= 1 {
            clients.remove(0);
            settle(5).await;
            let mut c = srv.listener.connect(port.wrapping_add(500));
            settle(1).await;
            let served = probe(&mut c, 0x6200).await;
            chk(recs, served, "connection_refused_below_limit", &line, "a connection opened after another was closed is not served".into());
        }
        chk(recs, !srv.handle.is_finished(), "panic_server", &line, "server task ended".into());
        drop(clients);
        drop(srv);
        settle(1).await;
    }
}

/// T2: the cookies middleware's own answers made without the request's question
/// (malformed COOKIE option => FORMERR; no cookie from a denied address => REFUSED + TC)
async fn run_ck_cases(recs: &mut Vec<Rec>, cases: Vec<(u16, u8, Vec<usize>, Option<u16>, Option<u16>, bool)>, idx: &mut u64, only: Option<u64>) {
    for (id, b2, labels, client, cfg, denied) in cases {
        *idx += 1;
        if only.map_or(false, |o| o != *idx) { continue; }
        let line = format!("ck {} {} {} 1 {} {} {}", id, b2, labels_str(&labels), opt_str(client), opt_str(cfg), if denied { "deny" } else { "mal" });
        let mut q = mk_query(id, b2, &labels, 1, None);
        if let Some(c) = client {
            q[11] = 1;
            if denied { q.extend_from_slice(&[0, 0, 41, (c >> 8) as u8, c as u8, 0, 0, 0, 0, 0, 0]); }
            else { q.extend_from_slice(&[0, 0, 41, (c >> 8) as u8, c as u8, 0, 0, 0, 0, 0, 9, 0, 10, 0, 5, 1, 2, 3, 4, 5]); } // COOKIE of 5 octets
        }
        let mut config = dgram::Config::new();
        config.set_max_response_size(cfg);
        let sh = Shared::default();
        let srv = Arc::new(DgramServer::with_config(MockSock::default(), VecBufSource, stack(&sh), config));
        let sock = srv.source();
        let s2 = srv.clone();
        let _handle = tokio::spawn(async move { s2.run().await });
        sock.inject(q.clone(), if denied { denied_addr() } else { client_addr() });
        settle(20).await;
        let outv = sock.take_out();
        let obs = match outv.len() {
            0 => "Ok None".to_string(),
            1 => match view(&outv[0].1) {
                Some(v) => format!("Ok len={} tc={} id={} cnt={},{},{},{} opt={} b2={} b3={} ottl={}", outv[0].1.len(), v.tc as u8, v.id, v.qd, v.an, v.ns, v.ar, v.opt as u8, v.b2, v.b3, v.ottl),
                None => "Unparseable".into(),
            },
            n => format!("Multi {}", n),
        };
        recs.push(Rec::Case(line.clone(), obs, "ck"));
        for (_, d) in &outv {
            if let Some(v) = view(d) {
                chk(recs, v.qd >= 1, "cookie_response_without_question", &line, format!("datagram {} answered by {} octets with QDCOUNT 0 (rcode {}, TC={})", hex(&q), d.len(), v.b3 & 15, v.tc as u8));
            }
        }
        chk(recs, sh.calls.lock().unwrap().is_empty(), "cookie_reject_reached_service", &line, "the service was called".into());
        let _ = srv.shutdown();
        settle(2).await;
    }
}

/// a raw datagram without records and without compression pointers: QDCOUNT above,
/// at or below the questions present, trailing octets, shorter than a header, longer
/// than the 1024-octet receive buffer
fn gen_pad_datagram(r: &mut Rng, id: u16) -> Vec<u8> {
    if r.chance(1, 6) {
        // shorter than a header: the count octets that are present stay zero
        let n = r.below(12) as usize;
        let mut d = vec![(id >> 8) as u8, id as u8, (r.below(16) as u8) << 3 | r.below(8) as u8 & 0x7f, 0, 0, r.below(3) as u8, 0, 0, 0, 0, 0, 0];
        if r.chance(1, 2) { d[2] &= 0x7f; }
        d.truncate(n.max(0));
        return d;
    }
    let labels: Vec<usize> = match r.below(4) { 0 => vec![], 1 => vec![1], 2 => vec![63, 63, 63, 61], _ => (0..r.range(1, 3)).map(|_| r.range(1, 12) as usize).collect() };
    let qsz = qlen_of(&labels);
    let nq = match r.below(6) { 0 => 0, 1 | 2 => 1, 3 => r.range(2, 6) as usize, 4 => 1100 / qsz, _ => r.range(1, (1000 / qsz) as u64) as usize };
    let qd: usize = match r.below(8) { 0 => nq, 1 => nq + 1, 2 => nq + r.range(2, 40) as usize, 3 => 65535, 4 => nq.saturating_sub(1), 5 => 300, _ => nq };
    let opcode: u8 = match r.below(8) { 0 => 1, 1 | 2 => 2, 3 => 4, 4 => 5, _ => 0 };
    let b2 = (opcode << 3) | (r.below(2) as u8) | if r.chance(1, 10) { 0x80 } else { 0 };
    let mut d = vec![(id >> 8) as u8, id as u8, b2, 0, (qd >> 8) as u8, qd as u8, 0, 0, 0, 0, 0, 0];
    for _ in 0..nq {
        for &l in &labels { d.push(l as u8); d.extend(std::iter::repeat(b'a').take(l)); }
        d.push(0);
        d.extend_from_slice(&[0, 1, 0, 1]);
    }
    // trailing octets: label lengths, bad label types, data; no compression pointers (>= 0xc0)
    for _ in 0..r.below(7) { d.push(r.below(192) as u8); }
    d
}

/// T2: what the datagram server makes of the zero-padded receive buffer
async fn run_pad_cases(recs: &mut Vec<Rec>, cases: Vec<(Vec<u8>, Option<u16>)>, idx: &mut u64, only: Option<u64>) {
    for (dg, cfg) in cases {
        *idx += 1;
        if only.map_or(false, |o| o != *idx) { continue; }
        let line = format!("pad {} {}", hex(&dg), opt_str(cfg));
        let mut config = dgram::Config::new();
        config.set_max_response_size(cfg);
        let sh = Shared::default();
        let srv = Arc::new(DgramServer::with_config(MockSock::default(), VecBufSource, stack(&sh), config));
        let sock = srv.source();
        let s2 = srv.clone();
        let handle = tokio::spawn(async move { s2.run().await });
        PANICKED.store(false, Ordering::SeqCst);
        sock.inject(dg.clone(), client_addr());
        settle(20).await;
        let outv = sock.take_out();
        let obs = match outv.len() {
            0 => "Ok None".to_string(),
            1 => match view(&outv[0].1) {
                Some(v) => format!("Ok len={} tc={} id={} cnt={},{},{},{} opt={} b2={} b3={} ottl={}", outv[0].1.len(), v.tc as u8, v.id, v.qd, v.an, v.ns, v.ar, v.opt as u8, v.b2, v.b3, v.ottl),
                None => "Unparseable".into(),
            },
            n => format!("Multi {}", n),
        };
        recs.push(Rec::Case(line.clone(), obs, "pad"));
        chk(recs, !PANICKED.load(Ordering::SeqCst) && !handle.is_finished(), "panic_server", &line, "a server task panicked".into());
        chk(recs, outv.len() <= 1, "duplicate_response", &line, format!("{} datagrams for one datagram", outv.len()));
        // what the datagram itself holds: complete questions among its own octets
        let own_questions = {
            let mut n = 0usize; let mut i = 12usize;
            let qd = if dg.len() >= 6 { ((dg[4] as usize) << 8) | dg[5] as usize } else { 0 };
            let lim = dg.len().min(1024);
            'q: while n < qd && i < lim {
                let mut j = i;
                loop {
                    if j >= lim { break 'q; }
                    let l = dg[j] as usize;
                    if l == 0 { j += 1; break; }
                    if l > 63 || j - i + 1 + l > 254 { break 'q; }
                    j += 1 + l;
                }
                if j + 4 > lim { break; }
                i = j + 4; n += 1;
            }
            n
        };
        // the response must not be made from octets that were never received: nothing at all for a
        // datagram shorter than a header, no more questions than the datagram holds
        chk(recs, dg.len() >= 12 || outv.is_empty(), "udp_padding_parsed_as_request", &line, format!("a datagram of {} octets (shorter than a DNS header) was answered", dg.len()));
        for (_, d) in &outv {
            if let Some(v) = view(d) {
                chk(recs, dg.len() < 12 || (v.qd as usize) <= own_questions, "udp_padding_parsed_as_request", &line,
                    format!("the {}-octet datagram holds {} complete questions, the {}-octet response carries {}", dg.len(), own_questions, d.len(), v.qd));
            }
        }
        for (_, d) in &outv {
            chk(recs, view(d).is_some(), "tc_malformed", &line, "response does not parse".into());
            chk(recs, d.len() <= text_limit(None, cfg), "udp_oversize", &line, format!("{} octets sent, the property allows {}", d.len(), text_limit(None, cfg)));
        }
        let _ = srv.shutdown();
        settle(2).await;
    }
}

/// T2 + oracle: one request on a StreamServer connection (EDNS non-UDP arm, keepalive option)
async fn run_tcp_cases(recs: &mut Vec<Rec>, cases: Vec<SrvCase>, idx: &mut u64, only: Option<u64>) {
    let mut servers: HashMap<u32, StreamSrv> = HashMap::new();
    let mut port = 7000u16;
    for c in cases {
        *idx += 1;
        if only.map_or(false, |o| o != *idx) { continue; }
        let idle = c.cfg.unwrap_or(30_000);
        let srv = servers.entry(idle).or_insert_with(|| {
            let sh = Shared::default();
            let mut cc = ConnectionConfig::new();
            cc.set_idle_timeout(Duration::from_millis(idle as u64));
            let mut cfg = stream::Config::new();
            cfg.set_connection_config(cc);
            let srv = Arc::new(StreamServer::with_config(MockListener::default(), VecBufSource, stack(&sh), cfg));
            let listener = srv.source();
            let s2 = srv.clone();
            let handle = tokio::spawn(async move { s2.run().await });
            StreamSrv { listener, sh, handle, _srv: srv }
        });
        let line = c.line();
        let beh = match &c.svc { SvcSpec::None => Beh { delay_ms: 0, items: vec![] }, SvcSpec::Err(k) => Beh { delay_ms: 0, items: vec![Err(*k)] }, SvcSpec::Ok(r) => Beh::single(r.clone()) };
        srv.sh.table.lock().unwrap().clear();
        srv.sh.table.lock().unwrap().insert(c.id, beh);
        PANICKED.store(false, Ordering::SeqCst);
        port = port.wrapping_add(1).max(7000);
        let mut client = srv.listener.connect(port);
        let dg = c.datagram();
        let mut f = vec![(dg.len() >> 8) as u8, dg.len() as u8]; f.extend_from_slice(&dg);
        let _ = client.write_all(&f).await;
        let (got, _closed) = drain(&mut client, 60).await;
        let (frames, leftover) = split_stream(&got);
        let obs = match frames.len() {
            0 => "Ok None".to_string(),
            1 => match view(&frames[0]) {
                Some(v) => format!("Ok len={} tc={} id={} cnt={},{},{},{} opt={} b2={} b3={} ottl={} odl={}", frames[0].len(), v.tc as u8, v.id, v.qd, v.an, v.ns, v.ar, v.opt as u8, v.b2, v.b3, v.ottl, v.odl),
                None => "Unparseable".into(),
            },
            n => format!("Multi {}", n),
        };
        recs.push(Rec::Case(line.clone(), obs, "tcp"));
        chk(recs, leftover == 0, "framing_wrong", &line, format!("{} octets after the last complete frame", leftover));
        chk(recs, !PANICKED.load(Ordering::SeqCst) && !srv.handle.is_finished(), "panic_server", &line, "a server task panicked".into());
        chk(recs, frames.len() <= 1, "duplicate_response", &line, format!("{} frames for one request", frames.len()));
        if let Some(fr) = frames.first() {
            match view(fr) {
                None => chk(recs, false, "framing_wrong", &line, "response frame does not parse".into()),
                Some(v) => { chk(recs, v.id == c.id, "id_mismatch", &line, format!("response id {}", v.id)); chk(recs, !v.tc, "tc_malformed", &line, "TC set on a stream response".into()); }
            }
        } else {
            chk(recs, matches!(c.svc, SvcSpec::None) && c.b2 & 0x80 == 0, "missing_response", &line, "no frame although a response was due".into());
        }
        drop(client);
        settle(2).await;
    }
}

// -------------------------------------------------------- mock sockets (part B)

#[derive(Default)]
struct MockSock {
    inq: Mutex<VecDeque<(Vec<u8>, SocketAddr)>>,
    notify: Notify,
    out: Mutex<Vec<(SocketAddr, Vec<u8>)>>,
}
impl MockSock {
    fn inject(&self, data: Vec<u8>, from: SocketAddr) { self.inq.lock().unwrap().push_back((data, from)); self.notify.notify_one(); }
    fn take_out(&self) -> Vec<(SocketAddr, Vec<u8>)> { std::mem::take(&mut *self.out.lock().unwrap()) }
}
impl AsyncDgramSock for MockSock {
    fn poll_send_to(&self, _cx: &mut Context<'_>, data: &[u8], dest: &SocketAddr) -> Poll<io::Result<usize>> {
        self.out.lock().unwrap().push((*dest, data.to_vec()));
        Poll::Ready(Ok(data.len()))
    }
    fn readable(&self) -> Pin<Box<dyn Future<Output = io::Result<()>> + '_ + Send>> {
        Box::pin(async move {
            loop {
                if !self.inq.lock().unwrap().is_empty() { return Ok(()); }
                self.notify.notified().await;
            }
        })
    }
    fn try_recv_buf_from(&self, buf: &mut ReadBuf<'_>) -> io::Result<(usize, SocketAddr)> {
        match self.inq.lock().unwrap().pop_front() {
            Some((d, a)) => { let n = d.len().min(buf.remaining()); buf.put_slice(&d[..n]); Ok((n, a)) }
            None => Err(io::ErrorKind::WouldBlock.into()),
        }
    }
}

/// what the listener's poll_accept() yields next
enum AcceptEv { Conn(DuplexStream, SocketAddr), Error(io::Error), StreamFails(SocketAddr), Stalled(SocketAddr) }
#[derive(Default)]
struct MockListener {
    q: Mutex<VecDeque<AcceptEv>>,
    waker: Mutex<Option<std::task::Waker>>,
    /// keeps the setup of stalled connections pending for as long as the listener lives
    stalled: Mutex<Vec<tokio::sync::oneshot::Sender<()>>>,
}
impl MockListener {
    fn connect(&self, port: u16) -> DuplexStream { self.connect_buf(port, 1 << 20) }
    fn connect_buf(&self, port: u16, buf: usize) -> DuplexStream {
        let (client, server) = tokio::io::duplex(buf);
        self.push(AcceptEv::Conn(server, format!("192.0.2.9:{}", port).parse().unwrap()));
        client
    }
    fn push(&self, ev: AcceptEv) {
        self.q.lock().unwrap().push_back(ev);
        if let Some(w) = self.waker.lock().unwrap().take() { w.wake(); }
    }
}
/// the future of an accepted stream: ready, failing, or (a peer that never completes
/// its TLS handshake) pending for ever
type SetupFuture = Pin<Box<dyn Future<Output = Result<DuplexStream, io::Error>> + Send>>;
impl AsyncAccept for MockListener {
    type Error = io::Error;
    type StreamType = DuplexStream;
    type Future = SetupFuture;
    fn poll_accept(&self, cx: &mut Context<'_>) -> Poll<io::Result<(Self::Future, SocketAddr)>> {
        match self.q.lock().unwrap().pop_front() {
            Some(AcceptEv::Conn(s, a)) => Poll::Ready(Ok((Box::pin(std::future::ready(Ok(s))) as SetupFuture, a))),
            Some(AcceptEv::Error(e)) => Poll::Ready(Err(e)),
            Some(AcceptEv::StreamFails(a)) => Poll::Ready(Ok((Box::pin(std::future::ready(Err(io::Error::new(io::ErrorKind::InvalidData, "handshake failed")))) as SetupFuture, a))),
            Some(AcceptEv::Stalled(a)) => {
                let (tx, rx) = tokio::sync::oneshot::channel::<()>();
                self.stalled.lock().unwrap().push(tx);
                Poll::Ready(Ok((Box::pin(async move { let _ = rx.await; Err(io::Error::new(io::ErrorKind::TimedOut, "setup abandoned")) }) as SetupFuture, a)))
            }
            None => { *self.waker.lock().unwrap() = Some(cx.waker().clone()); Poll::Pending }
        }
    }
}

static PANICKED: AtomicBool = AtomicBool::new(false);

/// let every runnable task run and virtual time pass
async fn settle(ms: u64) { tokio::time::sleep(Duration::from_millis(ms)).await; }

fn split_stream(mut s: &[u8]) -> (Vec<Vec<u8>>, usize) {
    let mut v = vec![];
    while s.len() >= 2 {
        let n = ((s[0] as usize) << 8) | s[1] as usize;
        if s.len() < 2 + n { break; }
        v.push(s[2..2 + n].to_vec());
        s = &s[2 + n..];
    }
    (v, s.len())
}

/// read everything the server writes until it closes the connection or stays
/// silent for `quiet_ms` of virtual time
async fn drain(client: &mut DuplexStream, quiet_ms: u64) -> (Vec<u8>, bool) {
    let mut got = vec![];
    let mut buf = vec![0u8; 1 << 16];
    loop {
        match tokio::time::timeout(Duration::from_millis(quiet_ms), client.read(&mut buf)).await {
            Ok(Ok(0)) => return (got, true),
            Ok(Ok(n)) => got.extend_from_slice(&buf[..n]),
            Ok(Err(_)) => return (got, true),
            Err(_) => return (got, false),
        }
    }
}

// ------------------------------------------------------------------ generators

fn pick_size(r: &mut Rng) -> u16 {
    const B: [u16; 22] = [0, 1, 100, 510, 511, 512, 513, 514, 600, 1000, 1231, 1232, 1233, 1400, 1452, 4095, 4096, 4097, 8192, 32768, 65534, 65535];
    match r.below(5) { 0 | 1 => *r.pick(&B), 2 => r.pick(&B).wrapping_add(r.below(5) as u16).wrapping_sub(2), _ => r.u16() }
}
fn pick_labels(r: &mut Rng) -> Vec<usize> {
    match r.below(6) {
        0 => vec![],
        1 => vec![63, 63, 63, 61], // 255-octet name
        2 => vec![63, 63],
        _ => (0..r.range(1, 4)).map(|_| r.range(1, 20) as usize).collect(),
    }
}
fn pick_resp(r: &mut Rng, near: usize, qlen: usize) -> Resp {
    // aim the total length near `near` (a limit), below, at, above
    let base = 12 + qlen;
    let opt = match r.below(4) { 0 => None, 1 => Some((pick_size(r), 0)), 2 => Some((1232, 4 + r.below(40) as u16)), _ => Some((r.u16(), if r.chance(1, 8) { 4 + r.below(700) as u16 } else { 0 })) };
    let optlen = opt.map(|(_, d)| 11 + d as usize).unwrap_or(0);
    let n_ar = if r.chance(1, 4) { r.range(1, 3) as u16 } else { 0 };
    let ar_len = 11 + r.below(30) as u16;
    let fixed = base + optlen + n_ar as usize * ar_len as usize;
    let target = (near as i64 + match r.below(6) { 0 => -1, 1 => 0, 2 => 1, 3 => -(r.below(200) as i64), 4 => r.below(300) as i64, _ => 2 }).max(0) as usize;
    let n_an = r.range(0, 4) as u16;
    let an_len = if n_an == 0 { 11 } else { (((target.saturating_sub(fixed)) / n_an as usize).max(11)).min(60000) as u16 };
    // make the total hit the target exactly when possible by using one answer record
    let (n_an, an_len) = if r.chance(1, 2) && target > fixed + 11 && target - fixed < 60000 { (1, (target - fixed) as u16) } else { (n_an, an_len) };
    // the test service cannot build more than 65535 octets
    let (n_an, an_len) = if fixed + n_an as usize * an_len as usize > 65000 { (1u16, (65000usize.saturating_sub(fixed)).max(11) as u16) } else { (n_an, an_len) };
    Resp { aa: r.chance(1, 2), b3: (if r.chance(1, 3) { 0x80 } else { 0 }) | (r.below(6) as u8), n_an, an_len, n_ar, ar_len, opt }
}
fn qlen_of(labels: &[usize]) -> usize { labels.iter().map(|l| l + 1).sum::<usize>() + 1 + 4 }

fn gen_udp_case(r: &mut Rng, id: u16) -> UdpCase {
    let labels = pick_labels(r);
    let client = if r.chance(2, 5) { None } else { Some(pick_size(r)) };
    let cfg = match r.below(6) { 0 => None, 1 => Some(512), 2 => Some(1232), 3 => Some(4096), _ => Some(pick_size(r)) };
    let near = match (client, cfg) { (Some(c), Some(h)) => (c.max(512)).min(h.max(512)) as usize, (Some(c), None) => c.max(512) as usize,
        (None, Some(h)) => if r.chance(1, 2) { 512 } else { h as usize }, (None, None) => 512 };
    let resp = pick_resp(r, near, qlen_of(&labels));
    let b2 = (if r.chance(1, 2) { 1 } else { 0 }) | if r.chance(1, 6) { 2 << 3 } else { 0 };
    UdpCase { id, b2, labels, qtype: *r.pick(&[1u16, 16, 28, 255, 65280]), client, cfg, resp }
}

fn hostile_bytes(r: &mut Rng) -> Vec<u8> {
    match r.below(9) {
        0 => vec![],
        1 => { let n = r.range(1, 11) as usize; r.bytes(n) }
        2 => r.bytes(12),
        3 => { let n = r.range(13, 600) as usize; r.bytes(n) }
        4 => { let mut q = mk_query(r.u16(), 0, &[3, 2], 1, Some(1232)); let n = r.range(12, q.len() as u64 - 1) as usize; q.truncate(n); q }
        5 => { let mut q = mk_query(r.u16(), 0, &[5], 1, None); q[4] = 0xff; q[5] = 0xff; q }          // QDCOUNT 65535
        6 => { let mut q = mk_query(r.u16(), 0, &[5], 1, None); q[12] = 0xc0; q[13] = 0x0c; q }        // self-pointing name
        7 => { let mut q = mk_query(r.u16(), 0, &[2], 1, Some(1232)); let l = q.len(); q[l - 1] = 0xff; q } // OPT rdlen overruns
        _ => { // many questions
            let k = r.range(2, 140) as usize;
            let mut q = vec![r.u8(), r.u8(), 0, 0, (k >> 8) as u8, k as u8, 0, 0, 0, 0, 0, 0];
            for _ in 0..k { q.extend_from_slice(&[1, b'a', 0, 0, 1, 0, 1]); }
            q
        }
    }
}

// ------------------------------------------------------------------ main

fn main() {
    let a = args();
    let mut out = Out::new(&a, "C16", 120);
    let mut r = Rng::new(a.seed);
    let scale = a.scale.max(1);
    let mut idx = 0u64;
    {
        // a panic inside a spawned server task is caught by tokio; remember it
        std::panic::set_hook(Box::new(|_| { PANICKED.store(true, Ordering::SeqCst); }));
    }
    let rt1 = rt();
    // Out keeps the first 200 failures only: write at most 12 per class so
    // that one frequent class cannot hide another
    let mut per_class: HashMap<&'static str, u32> = HashMap::new();

    // ---- neg: corpus, boundary pairs, then (thorough) every client value x hints
    let hints: [Option<u16>; 12] = [None, Some(0), Some(1), Some(511), Some(512), Some(513), Some(1232), Some(1233), Some(4096), Some(4097), Some(65534), Some(65535)];
    let mut neg_cases: Vec<(Option<u16>, Option<u16>)> = vec![(None, None), (None, Some(511)), (None, Some(512)), (None, Some(65535)),
        (Some(511), None), (Some(512), None), (Some(65535), None), (Some(511), Some(511)), (Some(511), Some(65535)), (Some(65535), Some(511)),
        (Some(65535), Some(65535)), (Some(4096), Some(1232)), (Some(1232), Some(4096)), (Some(0), Some(0))];
    for c in [0u16, 1, 511, 512, 513, 1231, 1232, 1233, 4095, 4096, 4097, 65535] { for h in hints { neg_cases.push((Some(c), h)); } }
    let n_rand = if a.thorough { 20_000 } else { 6_000 } * scale;
    for _ in 0..n_rand {
        let c = if r.chance(1, 8) { None } else { Some(pick_size(&mut r)) };
        let h = if r.chance(1, 8) { None } else { Some(pick_size(&mut r)) };
        neg_cases.push((c, h));
    }
    if a.thorough { for c in 0..=65535u16 { for h in [None, Some(511u16), Some(512), Some(1232), Some(4096), Some(40000), Some(c), Some(c.wrapping_add(1))] { neg_cases.push((Some(c), h)); } } }
    for (c, h) in neg_cases {
        idx += 1;
        if !out.wants(idx) { continue; }
        let line = format!("neg {} {}", opt_str(c), opt_str(h));
        out.begin(&line);
        let obs = imp_neg(&rt1, c, h);
        out.case(&line, &obs, c.is_some(), "neg");
        // oracle: the text's closed form for limits a server can be configured with
        out.check(obs != "Panic", "panic_server", &line, "EdnsMiddlewareSvc panicked");
        if let (Some(cv), Some(hv)) = (c, h) {
            if hv >= 512 {
                out.check(obs == format!("Ok {}", text_limit(Some(cv), Some(hv))), "negotiate_mismatch", &line, &obs);
            }
        }
        if let (Some(cv), None) = (c, h) { out.check(obs == format!("Ok {}", cv.max(512)), "negotiate_mismatch", &line, &obs); }
    }

    // ---- cfg
    for v in [None, Some(0u16), Some(511), Some(512), Some(513), Some(1232), Some(4095), Some(4096), Some(4097), Some(65535)].into_iter()
        .chain((0..200 * scale).map(|_| Some(pick_size(&mut r)))) {
        idx += 1;
        if !out.wants(idx) { continue; }
        let line = format!("cfg {}", opt_str(v));
        let obs = imp_cfg(v);
        out.case(&line, &obs, v.is_some(), "cfg");
        if let Some(x) = v { out.check(obs == format!("{}", x.clamp(512, 4096)), "cfg_limit", &line, &obs); }
    }

    // ---- push limit
    let n_push = if a.thorough { 6000 } else { 1500 } * scale;
    let mut push_cases: Vec<(Option<usize>, Vec<usize>)> = vec![(Some(25), vec![12, 13, 12]), (Some(24), vec![12]), (Some(23), vec![11]), (Some(12), vec![11]),
        (Some(0), vec![11]), (None, vec![65000, 500, 523, 11, 12]), (Some(65535), vec![65000, 523, 522]), (Some(65536), vec![65000, 523, 522])];
    for _ in 0..n_push {
        let k = r.range(1, 6) as usize;
        let adds: Vec<usize> = (0..k).map(|_| 11 + match r.below(4) { 0 => 0, 1 => r.below(5) as usize, 2 => r.below(300) as usize, _ => r.below(2000) as usize }).collect();
        let total: usize = 12 + adds.iter().sum::<usize>();
        let limit = match r.below(6) { 0 => None, 1 => Some(total), 2 => Some(total + 1), 3 => Some(total.saturating_sub(1)), 4 => Some(12 + adds[0]), _ => Some(r.below(total as u64 + 20) as usize) };
        push_cases.push((limit, adds));
    }
    for (limit, adds) in push_cases {
        idx += 1;
        if !out.wants(idx) { continue; }
        let (pos, obs) = imp_push(limit, &adds);
        let line = format!("push {} {} {}", opt_str(limit), pos, adds.iter().map(|x| x.to_string()).collect::<Vec<_>>().join(","));
        out.begin(&line);
        out.case(&line, &obs, limit.is_some(), "push");
        // oracle: with a limit set, pushes never bring the message to the limit or beyond
        let fin: usize = obs.rsplit("fin=").next().unwrap().parse().unwrap();
        if let Some(l) = limit { out.check(fin < l || fin == pos, "push_limit_exceeded", &line, &obs); }
    }

    // ---- frame (write side)
    let mut frames: Vec<Vec<u8>> = vec![vec![], vec![7], vec![0; 255], vec![1; 256], vec![2; 65535], vec![3; 65536], vec![4; 65534], vec![5; 70000]];
    for _ in 0..(if a.thorough { 400 } else { 60 } * scale) { let n = match r.below(4) { 0 => r.below(20), 1 => 250 + r.below(12), 2 => 65530 + r.below(12), _ => r.below(3000) } as usize; frames.push(r.bytes(n)); }
    for f in frames {
        idx += 1;
        if !out.wants(idx) { continue; }
        let line = format!("frame {}", hex(&f));
        out.begin(&format!("frame <{} octets>", f.len()));
        let obs = imp_frame(&f);
        out.case(&line, &obs, !f.is_empty(), "frame");
        if f.len() <= 65535 {
            let mut want = vec![(f.len() >> 8) as u8, f.len() as u8]; want.extend_from_slice(&f);
            out.check(obs == format!("Ok {}", hex(&want)), "framing_wrong", &format!("frame <{} octets>", f.len()), "length shim");
        } else {
            out.check(obs == "Err 1", "framing_wrong", &format!("frame <{} octets>", f.len()), "message longer than 65535 framed");
        }
    }

    // ---- udp: one request through the real middleware stack
    let n_udp = if a.thorough { 40_000 } else { 5_000 } * scale;
    let mut udp_cases: Vec<UdpCase> = vec![];
    // corpus: the limit boundary with and without EDNS (regression of 2e0728b), the truncated form
    // with a large OPT (regression of b664034: falls back to an OPT without options)
    for (client, cfg, total) in [(None, Some(1232u16), 512usize), (None, Some(1232), 513), (None, Some(1232), 1232), (None, Some(1232), 1233), (None, None, 512), (None, None, 513),
        (Some(4096u16), Some(1232), 1232), (Some(4096), Some(1232), 1233), (Some(100), Some(1232), 512), (Some(100), Some(1232), 513), (Some(1232), Some(4096), 1232),
        (Some(1232), Some(4096), 1233), (Some(65535), None, 65000), (Some(512), Some(512), 512), (Some(512), Some(512), 513)] {
        let labels = vec![7usize, 4];
        let fixed = 12 + qlen_of(&labels) + if client.is_some() { 11 } else { 0 };
        udp_cases.push(UdpCase { id: 0x1000 + udp_cases.len() as u16, b2: 1, labels, qtype: 16, client, cfg,
            resp: Resp { aa: true, b3: 0, n_an: 1, an_len: (total - fixed) as u16, n_ar: 0, ar_len: 11, opt: client.map(|_| (1232, 0)) } });
    }
    // hand-over of the negotiated size: client below the configured limit, response between the two
    for (client, cfg, total) in [(600u16, 1232u16, 900usize), (600, 4096, 601), (600, 4096, 600), (512, 1232, 1000), (1000, 4096, 1001)] {
        let labels = vec![5usize];
        let fixed = 12 + qlen_of(&labels) + 11;
        udp_cases.push(UdpCase { id: 0x1080 + udp_cases.len() as u16, b2: 1, labels, qtype: 1, client: Some(client), cfg: Some(cfg),
            resp: Resp { aa: false, b3: 0, n_an: 1, an_len: (total - fixed) as u16, n_ar: 0, ar_len: 11, opt: Some((1232, 0)) } });
    }
    udp_cases.push(UdpCase { id: 0x1100, b2: 0, labels: vec![3], qtype: 1, client: Some(512), cfg: Some(1232),
        resp: Resp { aa: false, b3: 0, n_an: 2, an_len: 100, n_ar: 0, ar_len: 11, opt: Some((1232, 604)) } });
    udp_cases.push(UdpCase { id: 0x1101, b2: 0, labels: vec![63, 63, 63, 61], qtype: 1, client: Some(512), cfg: Some(512),
        resp: Resp { aa: false, b3: 0, n_an: 1, an_len: 300, n_ar: 1, ar_len: 20, opt: Some((1232, 250)) } });
    for i in 0..n_udp { udp_cases.push(gen_udp_case(&mut r, (0x2000 + i) as u16)); }
    for c in udp_cases {
        idx += 1;
        if !out.wants(idx) { continue; }
        let line = c.line();
        out.begin(&line);
        let req = mk_query(c.id, c.b2, &c.labels, c.qtype, c.client);
        match imp_udp(&rt1, &c) {
            Err(e) => { out.case(&line, "Panic", true, "udp"); out.check(false, "panic_server", &line, &e); }
            Ok(None) => { out.case(&line, "NoResponse", true, "udp"); out.check(false, "missing_response", &line, "middleware produced nothing"); }
            Ok(Some(bytes)) => {
                out.case(&line, &obs_udp(&bytes), true, "udp");
                // untruncated length of what the service produced
                let plen = { let m = Message::from_octets(req.clone()).unwrap(); build_resp(&m, &c.resp).map(|b| b.as_slice().len()).unwrap_or(0) };
                let plen = c.resp.intended(plen - c.resp.opt_len(), c.client);
                let mut o = SubOut { recs: vec![] };
                oracle_udp_rec(&mut o, &line, &req, c.client, c.cfg, Some((plen, c.resp.n_an > 0 || c.resp.n_ar > 0)), &bytes);
                for rec in o.recs { if let Rec::Check(ok, class, case, detail) = rec { capped(&mut out, &mut per_class, ok, class, &case, &detail); } }
            }
        }
    }

    // ---- conn: framing over a real StreamServer connection (T2) ...
    // ---- servers: DgramServer and StreamServer with behaviours and hostile input (oracle)
    let n_conn = if a.thorough { 1500 } else { 250 } * scale;
    let n_dg = if a.thorough { 300 } else { 40 } * scale;
    let n_st = if a.thorough { 600 } else { 80 } * scale;
    let mut conn_cases: Vec<Vec<Vec<u8>>> = vec![];
    {
        let q1 = mk_query(1, 1, &[3], 1, None);
        let fr = |m: &[u8]| { let mut v = vec![(m.len() >> 8) as u8, m.len() as u8]; v.extend_from_slice(m); v };
        conn_cases.push(vec![fr(&q1)]);
        conn_cases.push(fr(&q1).iter().map(|b| vec![*b]).collect());                       // one octet at a time
        conn_cases.push(vec![[fr(&q1), fr(&mk_query(2, 0, &[4], 1, Some(4096)))].concat()]); // two pipelined in one chunk
        conn_cases.push(vec![vec![0, 0]]);                                                  // zero length
        conn_cases.push(vec![vec![0, 5, 1, 2, 3, 4, 5], fr(&q1)]);                          // short message, then a good one
        conn_cases.push(vec![vec![0, 12], vec![0, 9, 0, 0, 0, 0, 0, 0, 0, 0, 0, 0]]);      // header only
        conn_cases.push(vec![fr(&{ let mut q = q1.clone(); q[2] |= 0x80; q[1] = 3; q })]);  // QR = 1
        conn_cases.push(vec![vec![0xff, 0xff], vec![0; 100]]);                              // announces 65535, sends 100
        conn_cases.push(vec![vec![0]]);                                                     // half a length prefix
    }
    for _ in 0..n_conn {
        // a byte stream of frames (good, QR, short, hostile, unfinished) cut into random chunks
        let mut s: Vec<u8> = vec![];
        let k = r.range(1, 6);
        for j in 0..k {
            let id = (0x4000 + (conn_cases.len() as u64 * 8 + j) % 0x3000) as u16;
            let m: Vec<u8> = match r.below(10) {
                0 => { let n = r.below(12) as usize; r.bytes(n) }
                1 => { let mut q = mk_query(id, 0, &[2], 1, None); q[2] |= 0x80; q }
                // garbage after a header that the middleware passes on to the service
                // (opcode QUERY, at most one question, no records announced)
                2 => { let n = r.range(12, 40) as usize; let mut b = r.bytes(n); b[0] = (id >> 8) as u8; b[1] = id as u8; b[2] &= 0x07; b[4] = 0; b[5] = r.below(2) as u8;
                       for x in &mut b[6..12] { *x = 0; } b }
                _ => mk_query(id, r.below(2) as u8, &pick_labels(&mut r), 1, if r.chance(1, 2) { Some(pick_size(&mut r)) } else { None }),
            };
            s.push((m.len() >> 8) as u8); s.push(m.len() as u8);
            if j + 1 == k && r.chance(1, 6) { let cut = r.below(m.len() as u64 + 1) as usize; s.extend_from_slice(&m[..cut]); } else { s.extend_from_slice(&m); }
        }
        let mut chunks = vec![];
        let mut i = 0;
        while i < s.len() {
            let n = match r.below(4) { 0 => 1, 1 => r.range(1, 3) as usize, 2 => r.range(1, 40) as usize, _ => s.len() };
            let e = (i + n).min(s.len());
            chunks.push(s[i..e].to_vec()); i = e;
        }
        if chunks.is_empty() { chunks.push(vec![]); }
        conn_cases.push(chunks);
    }

    // ---- srv: one datagram through the whole datagram server
    let n_srv = if a.thorough { 12_000 } else { 1_500 } * scale;
    let mut srv_cases: Vec<SrvCase> = vec![];
    {
        let base = SrvCase { tcp: false, id: 0x3000, b2: 0, nq: 1, labels: vec![3], qtype: 1, opt: OptSpec::None, cfg: Some(1232), svc: SvcSpec::Ok(Resp::small()) };
        let mut push = |f: &dyn Fn(&mut SrvCase)| { let mut c = base.clone(); c.id = 0x3000 + srv_cases.len() as u16; f(&mut c); srv_cases.push(c); };
        push(&|_| {});
        push(&|c| { c.b2 = 0x80; });                                        // a reply as request
        push(&|c| { c.b2 = 0x80; c.nq = 100; c.labels = vec![1]; });        // ... echoing 100 questions
        push(&|c| { c.nq = 100; c.labels = vec![1]; });                     // QUERY with QDCOUNT 100
        push(&|c| { c.nq = 2; });
        push(&|c| { c.b2 = 1 << 3; });                                      // IQUERY
        push(&|c| { c.b2 = 2 << 3; c.nq = 100; c.labels = vec![1]; });      // STATUS with 100 questions, answered by the service
        push(&|c| { c.b2 = 2 << 3; c.nq = 100; c.labels = vec![1]; c.svc = SvcSpec::Err(0); });
        push(&|c| { c.opt = OptSpec::One(4096, 1); });                      // BADVERS
        push(&|c| { c.opt = OptSpec::Dup(4096); });
        push(&|c| { c.opt = OptSpec::Bad; });
        push(&|c| { c.svc = SvcSpec::Err(1); });
        push(&|c| { c.svc = SvcSpec::None; });
        push(&|c| { c.nq = 0; });
    }
    for i in 0..n_srv { srv_cases.push(gen_srv_case(&mut r, (0x3100 + i) as u16)); }
    let n_pad = if a.thorough { 8_000 } else { 1_000 } * scale;
    let mut pad_cases: Vec<(Vec<u8>, Option<u16>)> = vec![
        (vec![], Some(1232)), (vec![0xab], Some(1232)), (vec![0xab, 0xcd], None), (vec![0xab, 0xcd, 0x10, 0, 0, 2], Some(512)),
        (vec![0x12, 0x34, 0x10, 0, 0xff, 0xff, 0, 0, 0, 0, 0, 0], Some(1232)),                    // STATUS, QDCOUNT 65535, nothing else
        (vec![0x12, 0x35, 0x10, 0, 0, 200, 0, 0, 0, 0, 0, 0, 1, b'a', 0, 0, 1, 0, 1], Some(4096)), // one question, QDCOUNT 200
        (vec![0x12, 0x36, 0x00, 0, 0, 3, 0, 0, 0, 0, 0, 0, 1, b'a', 0, 0, 1, 0, 1], Some(1232)),   // QUERY, QDCOUNT 3
    ];
    for i in 0..n_pad { let d = gen_pad_datagram(&mut r, (0xa000 + (i % 0x1000)) as u16); pad_cases.push((d, *r.pick(&[None, Some(512), Some(1232), Some(4096)]))); }
    let mut ck_cases: Vec<(u16, u8, Vec<usize>, Option<u16>, Option<u16>, bool)> = vec![
        (0xb000, 1, vec![1], Some(1232), Some(1232), false), (0xb001, 1, vec![1], None, Some(1232), true), (0xb002, 0, vec![3, 2], Some(4096), None, true)];
    for i in 0..(if a.thorough { 1500 } else { 200 } * scale) {
        let denied = r.chance(1, 2);
        let client = if denied && r.chance(1, 2) { None } else { Some(pick_size(&mut r)) };
        let opcode: u8 = *r.pick(&[0u8, 0, 0, 2, 4, 5]);
        ck_cases.push((0xb100 + (i % 0xe00) as u16, opcode << 3 | r.below(2) as u8, pick_labels(&mut r), client, *r.pick(&[None, Some(512), Some(1232), Some(4096)]), denied));
    }
    let mut idle_cases: Vec<(u64, u64)> = vec![(200, 0), (200, 199), (200, 200), (200, 201), (1000, 999), (1000, 1000), (30_000, 29_999), (30_000, 30_001)];
    for _ in 0..(if a.thorough { 200 } else { 30 } * scale) {
        let t = *r.pick(&[200u64, 250, 1000, 5000, 30_000]);
        let w = match r.below(5) { 0 => t - 1, 1 => t, 2 => t + 1, 3 => r.below(t), _ => t + r.below(t) };
        idle_cases.push((t, w));
    }
    let mut limit_cases: Vec<(usize, usize)> = vec![(1, 3), (2, 2), (2, 3), (3, 5)];
    for _ in 0..(if a.thorough { 60 } else { 10 } * scale) { let m = r.range(1, 6) as usize; limit_cases.push((m, (m as i64 + r.below(5) as i64 - 1).max(1) as usize)); }
    let mut accept_cases: Vec<Vec<Option<Option<usize>>>> = vec![
        vec![None, Some(Some(0)), None, None],                      // served, ECONNABORTED, served, served
        vec![Some(Some(1)), None], vec![Some(None), None], vec![None, Some(Some(11)), Some(None), Some(Some(2)), None]];
    for k in 0..12 { accept_cases.push(vec![None, Some(Some(k)), None]); }
    // a peer that never completes its connection setup, before other clients connect
    accept_cases.push(vec![None, Some(Some(1000)), None, None]);
    accept_cases.push(vec![Some(Some(1000)), None]);
    accept_cases.push(vec![Some(Some(1000)), Some(Some(1000)), Some(None), None, Some(Some(0)), None]);
    for _ in 0..(if a.thorough { 300 } else { 40 } * scale) {
        let n = r.range(2, 7) as usize;
        accept_cases.push((0..n).map(|_| match r.below(6) { 0 | 1 => None, 2 => Some(None), 3 => Some(Some(1000)), _ => Some(Some(r.below(12) as usize)) }).collect());
    }
    let mut recfg_cases: Vec<(u16, Vec<usize>, Option<u16>, Option<u16>, Option<u16>, Resp)> = vec![];
    {
        let big = |total: usize, labels: &Vec<usize>, with_opt: bool| Resp { aa: false, b3: 0, n_an: 1, an_len: (total - 12 - qlen_of(labels) - if with_opt { 11 } else { 0 }) as u16, n_ar: 0, ar_len: 11, opt: None };
        let l = vec![7usize, 3];
        recfg_cases.push((0xc000, l.clone(), Some(4096), Some(1232), Some(512), big(1012, &l, true)));   // lowered: must truncate afterwards
        recfg_cases.push((0xc001, l.clone(), Some(4096), Some(512), Some(4096), big(1012, &l, true)));   // raised
        recfg_cases.push((0xc002, l.clone(), Some(4096), Some(4096), None, big(3000, &l, true)));        // limit removed
        recfg_cases.push((0xc003, l.clone(), Some(1000), None, Some(600), big(900, &l, true)));
        recfg_cases.push((0xc004, l.clone(), None, Some(4096), Some(512), big(500, &l, false)));
        for i in 0..(if a.thorough { 800 } else { 100 } * scale) {
            let labels = pick_labels(&mut r);
            let client = if r.chance(1, 4) { None } else { Some(pick_size(&mut r)) };
            let pc = |r: &mut Rng| match r.below(5) { 0 => None, 1 => Some(512u16), 2 => Some(4096), 3 => Some(pick_size(r)), _ => Some(1232) };
            let (c1, c2) = (pc(&mut r), pc(&mut r));
            let near = text_limit(client, if r.chance(1, 2) { c1 } else { c2 }.map(|v| v.clamp(512, 4096)));
            let mut resp = pick_resp(&mut r, near, qlen_of(&labels));
            resp.n_ar = 0; resp.b3 = 0;
            recfg_cases.push((0xc100 + (i % 0xf00) as u16, labels, client, c1, c2, resp));
        }
    }
    let n_tcp = if a.thorough { 6_000 } else { 800 } * scale;
    let mut tcp_cases: Vec<SrvCase> = vec![];
    {
        let base = SrvCase { tcp: true, id: 0x3800, b2: 1, nq: 1, labels: vec![3], qtype: 1, opt: OptSpec::One(1232, 0), cfg: Some(30_000), svc: SvcSpec::Ok(Resp::small()) };
        let mut push = |f: &dyn Fn(&mut SrvCase)| { let mut c = base.clone(); c.id = 0x3800 + tcp_cases.len() as u16; f(&mut c); tcp_cases.push(c); };
        push(&|_| {});
        push(&|c| { c.opt = OptSpec::None; });
        push(&|c| { c.opt = OptSpec::Ka(1232, false); });
        push(&|c| { c.opt = OptSpec::Ka(1232, true); });
        push(&|c| { c.opt = OptSpec::Bad; });
        push(&|c| { c.opt = OptSpec::Dup(512); });
        push(&|c| { c.opt = OptSpec::One(1232, 2); });
        push(&|c| { c.cfg = Some(6_553_600); });                                   // timeout does not fit a u16: no option
        push(&|c| { c.svc = SvcSpec::Ok(Resp { opt: Some((4096, 20)), ..Resp::small() }); });
        push(&|c| { c.svc = SvcSpec::Ok(Resp { n_ar: 2, ar_len: 30, opt: Some((4096, 0)), ..Resp::small() }); });
        // no room left for the option / the OPT record
        push(&|c| { c.svc = SvcSpec::Ok(Resp { n_an: 2, an_len: 32_745, opt: Some((4096, 0)), ..Resp::small() }); });
        push(&|c| { c.svc = SvcSpec::Ok(Resp { n_an: 2, an_len: 32_749, opt: Some((4096, 0)), ..Resp::small() }); });
        push(&|c| { c.svc = SvcSpec::Ok(Resp { n_an: 2, an_len: 32_752, opt: None, ..Resp::small() }); });
        push(&|c| { c.svc = SvcSpec::Ok(Resp { n_an: 2, an_len: 32_750, opt: None, ..Resp::small() }); });
        push(&|c| { c.svc = SvcSpec::Err(2); });
        push(&|c| { c.b2 = 0x80; });
        push(&|c| { c.nq = 3; });
        // the largest message a frame can carry, and one octet less (request without OPT: nothing is added)
        push(&|c| { c.opt = OptSpec::None; c.svc = SvcSpec::Ok(Resp { n_an: 1, an_len: 65_514, ..Resp::small() }); });
        push(&|c| { c.opt = OptSpec::None; c.svc = SvcSpec::Ok(Resp { n_an: 1, an_len: 65_513, ..Resp::small() }); });
        push(&|c| { c.opt = OptSpec::None; c.svc = SvcSpec::Ok(Resp { n_an: 2, an_len: 32_757, ..Resp::small() }); });
    }
    for i in 0..n_tcp { tcp_cases.push(gen_tcp_case(&mut r, (0x3900 + i) as u16)); }

    let rt2 = rt();
    let only = a.only;
    let seed2 = r.next();
    // one block_on per phase; verdicts are flushed (and the hang watchdog fed) between phases
    let mut rr = Rng(seed2);
    macro_rules! phase {
        ($name:expr, $recs:ident => $fut:expr) => {{
            out.begin($name);
            let mut $recs: Vec<Rec> = vec![];
            rt2.block_on($fut);
            for rec in $recs {
                match rec {
                    Rec::Case(line, obs, kind) => out.case(&line, &obs, true, kind),
                    Rec::Oracle(line, kind) => out.oracle_case(&line, true, kind),
                    Rec::Check(ok, class, case, detail) => capped(&mut out, &mut per_class, ok, class, &case, &detail),
                    Rec::Count(k) => out.count(k),
                }
            }
        }};
    }
    phase!("srv cases", recs => run_srv_cases(&mut recs, srv_cases, &mut idx, only));
    phase!("recfg cases", recs => run_recfg_cases(&mut recs, recfg_cases, &mut idx, only));
    phase!("accept cases", recs => run_accept_cases(&mut recs, accept_cases, &mut idx, only));
    phase!("idle and limit cases", recs => run_idle_limit(&mut recs, idle_cases, limit_cases, &mut idx, only));
    phase!("ck cases", recs => run_ck_cases(&mut recs, ck_cases, &mut idx, only));
    phase!("pad cases", recs => run_pad_cases(&mut recs, pad_cases, &mut idx, only));
    phase!("tcp cases", recs => run_tcp_cases(&mut recs, tcp_cases, &mut idx, only));
    phase!("conn cases", recs => run_conn_cases(&mut recs, conn_cases, &mut idx, only));
    phase!("dgram rounds", recs => run_dgram(&mut recs, &mut rr, n_dg, &mut idx, only));
    phase!("cookies rounds", recs => run_cookies(&mut recs, &mut rr, n_dg * 2, &mut idx, only));
    phase!("full stack rounds", recs => run_full_stack(&mut recs, &mut rr, if a.thorough { 120 } else { 16 } * scale, &mut idx, only));
    phase!("stream big frames", recs => run_big_frames(&mut recs, &mut idx, only));
    phase!("stream rounds", recs => run_stream(&mut recs, &mut rr, n_st, &mut idx, only));
    for (n, d) in [(10usize, 0u64), (11, 0), (40, 0), (10, 25), (12, 25)] { phase!("stream burst", recs => run_burst(&mut recs, n, d, &mut idx, only)); }
    // ---- slow reader against a one-slot response queue (virtual time)
    let slow: &[(usize, u64, u64, u64)] = if a.thorough { &[(24, 150, 2000, 500), (16, 250, 2000, 300)] } else { &[(24, 150, 2000, 500)] };
    let mut slow_secs = 0.0;
    for &(n, pause, wt, delay) in slow {
        idx += 1;
        if !out.wants(idx) { continue; }
        let case = format!("stream slow reader: {} pipelined requests, max_queued_responses=1, response_write_timeout={}ms, service delay {}ms, client reads one response per {}ms through a 16-octet pipe", n, wt, delay, pause);
        out.begin(&case);
        let (answered, closed, frames, secs) = run_slow_reader(n, pause, wt, delay);
        slow_secs += secs;
        out.oracle_case(&case, true, "stream_slow_reader");
        capped(&mut out, &mut per_class, answered == n && frames == n && !closed, "stream_response_dropped_slow_reader", &case,
            &format!("{} of {} requests answered, {} frames, closed={}, {:.1} virtual seconds", answered, n, frames, closed, secs));
    }
    out.finish(&[("slow_reader_virtual_seconds", format!("{:.2}", slow_secs))]);
}

fn capped(out: &mut Out, per_class: &mut HashMap<&'static str, u32>, ok: bool, class: &'static str, case: &str, detail: &str) {
    if ok { out.check(true, class, case, detail); return; }
    let n = per_class.entry(class).or_insert(0);
    *n += 1;
    if *n <= 12 { out.check(false, class, case, detail); } else { out.count("suppressed_repeat_failures"); }
}

enum Rec { Case(String, String, &'static str), Oracle(String, &'static str), Check(bool, &'static str, String, String), Count(&'static str) }
fn chk(recs: &mut Vec<Rec>, ok: bool, class: &'static str, case: &str, detail: String) {
    let mut c = case.to_string(); if c.len() > 600 { c.truncate(600); c.push_str("..."); }
    recs.push(Rec::Check(ok, class, c, detail));
}

struct StreamSrv { listener: Arc<MockListener>, sh: Shared, handle: tokio::task::JoinHandle<()>, _srv: Arc<StreamServer<MockListener, VecBufSource, Stack>> }
fn start_stream() -> StreamSrv {
    let sh = Shared::default();
    let srv = Arc::new(StreamServer::new(MockListener::default(), VecBufSource, stack(&sh)));
    let listener = srv.source();
    let s2 = srv.clone();
    let handle = tokio::spawn(async move { s2.run().await });
    StreamSrv { listener, sh, handle, _srv: srv }
}

/// T2: which frames reach the service / get a direct FORMERR, does the server close
async fn run_conn_cases(recs: &mut Vec<Rec>, cases: Vec<Vec<Vec<u8>>>, idx: &mut u64, only: Option<u64>) {
    let srv = start_stream();
    let mut port = 1000u16;
    for chunks in cases {
        *idx += 1;
        if only.map_or(false, |o| o != *idx) { continue; }
        let line = format!("conn {}", chunks.iter().map(|c| hex(c)).collect::<Vec<_>>().join(" "));
        srv.sh.calls.lock().unwrap().clear();
        PANICKED.store(false, Ordering::SeqCst);
        port = port.wrapping_add(1).max(1000);
        let mut client = srv.listener.connect(port);
        let mut got = vec![];
        let mut closed = false;
        for c in &chunks {
            if c.is_empty() { continue; }
            if client.write_all(c).await.is_err() { closed = true; break; }
            // let the server consume this chunk before the next arrives
            settle(1).await;
        }
        let (more, cl) = drain(&mut client, 300).await;
        got.extend_from_slice(&more);
        closed |= cl;
        settle(5).await; // tasks spawned for the last frames have run
        let calls: Vec<(u16, usize)> = srv.sh.calls.lock().unwrap().clone();
        let (frames, leftover) = split_stream(&got);
        // FORMERR responses that did not come from the service: ids not dispatched
        let mut obs = vec![if closed { "closed".to_string() } else { "open".to_string() }];
        for (id, len) in &calls { obs.push(format!("D:{}:{}", id, len)); }
        let all: Vec<u8> = chunks.concat();
        let (reqs, _) = split_stream(&all);
        // a direct FORMERR is recognised by rcode 1 and QR-flagged request id
        let mut n_form = 0;
        for q in reqs.iter() {
            if q.len() >= 12 && q[2] & 0x80 != 0 {
                let id = ((q[0] as u16) << 8) | q[1] as u16;
                // after DisconnectWithoutFlush queued responses are not written: not observable
                if !closed && frames.iter().any(|f| f.len() >= 12 && f[0] == q[0] && f[1] == q[1] && f[3] & 0x0f == 1) { obs.push(format!("F:{}:{}", id, q.len())); n_form += 1; }
            }
        }
        if closed { obs.push("X".into()); }
        recs.push(Rec::Case(line.clone(), obs.join(" "), "conn"));
        // oracle
        chk(recs, leftover == 0, "framing_wrong", &line, format!("{} trailing octets after the last complete response frame", leftover));
        chk(recs, !PANICKED.load(Ordering::SeqCst) && !srv.handle.is_finished(), "panic_server", &line, "a server task panicked".into());
        for f in &frames { chk(recs, view(f).is_some(), "tc_malformed", &line, "stream response does not parse".into()); }
        let mut seen: HashMap<u16, usize> = HashMap::new();
        for f in &frames { if f.len() >= 2 { *seen.entry(((f[0] as u16) << 8) | f[1] as u16).or_insert(0) += 1; } }
        if !closed {
            for (id, _) in &calls {
                let n = calls.iter().filter(|c| c.0 == *id).count();
                let s = *seen.get(id).unwrap_or(&0);
                chk(recs, s >= n, "missing_response", &line, format!("id {} dispatched {} times, {} responses", id, n, s));
                chk(recs, s <= n, "duplicate_response", &line, format!("id {} dispatched {} times, {} responses", id, n, s));
            }
        }
        // every response belongs to a dispatched request or to a QR=1 frame (direct FORMERR,
        // which may or may not have been written before a disconnect)
        let n_qr = reqs.iter().filter(|q| q.len() >= 12 && q[2] & 0x80 != 0).count();
        let _ = n_form;
        chk(recs, frames.len() <= calls.len() + n_qr, "duplicate_response", &line, format!("{} responses for {} requests", frames.len(), calls.len() + n_qr));
        drop(client);
        settle(5).await;
    }
    // the server still accepts and answers
    let mut client = srv.listener.connect(999);
    let q = mk_query(0x7777, 1, &[4], 1, None);
    let mut f = vec![0, q.len() as u8]; f.extend_from_slice(&q);
    let _ = client.write_all(&f).await;
    let (got, _) = drain(&mut client, 300).await;
    let (frames, _) = split_stream(&got);
    chk(recs, frames.len() == 1 && frames[0][0] == 0x77, "panic_server", "conn final-probe", "server does not answer after the conn cases".into());
}

fn gen_beh(r: &mut Rng, client: Option<u16>, cfg: Option<u16>, qlen: usize, udp: bool) -> Beh {
    let near = if udp { text_limit(client, cfg) } else { *r.pick(&[100usize, 512, 1232, 4096, 20000, 65000]) };
    let n = match r.below(8) { 0 => 2, 1 => r.range(2, 5) as usize, 2 => 0, _ => 1 };
    let mut items: Vec<Result<Resp, u8>> = (0..n).map(|_| Ok(pick_resp(r, near, qlen))).collect();
    if r.chance(1, 8) { let at = r.below(items.len() as u64 + 1) as usize; items.insert(at, Err(r.u8())); }
    Beh { delay_ms: if r.chance(1, 3) { r.range(1, 80) } else { 0 }, items }
}

/// DgramServer over the mock socket: generated requests with behaviours, hostile datagrams in between
async fn run_dgram(recs: &mut Vec<Rec>, r: &mut Rng, rounds: u64, idx: &mut u64, only: Option<u64>) {
    for round in 0..rounds {
        *idx += 1;
        if only.map_or(false, |o| o != *idx) { continue; }
        let cfg_in: Option<u16> = match r.below(5) { 0 => None, 1 => Some(512), 2 => Some(4096), 3 => Some(pick_size(r)), _ => Some(1232) };
        let mut config = dgram::Config::new();
        let default_cfg = r.chance(1, 3);
        if !default_cfg { config.set_max_response_size(cfg_in); }
        let cfg = if default_cfg { Some(1232) } else { cfg_in.map(|v| v.clamp(512, 4096)) };
        let sh = Shared::default();
        let srv = Arc::new(DgramServer::with_config(MockSock::default(), VecBufSource, stack(&sh), config));
        let sock = srv.source();
        let s2 = srv.clone();
        let handle = tokio::spawn(async move { s2.run().await });
        PANICKED.store(false, Ordering::SeqCst);
        let k = r.range(3, 14);
        // (request octets, client, behaviour) per id; hostile datagrams have no entry
        let mut sent: Vec<(u16, Vec<u8>, Option<u16>, Beh)> = vec![];
        let mut desc = format!("dgram round={} cfg={}", round, opt_str(cfg));
        for j in 0..k {
            let id = (round * 32 + j) as u16 ^ 0x5a5a;
            if r.chance(1, 4) {
                let mut h = hostile_bytes(r);
                // keep hostile ids apart from the ids of tracked requests
                if h.len() >= 2 { h[0] = 0xee; h[1] = j as u8; }
                desc.push_str(&format!(" H:{}", hex(&h)));
                sock.inject(h, client_addr());
            } else {
                let labels = pick_labels(r);
                let client = if r.chance(2, 5) { None } else { Some(pick_size(r)) };
                let beh = gen_beh(r, client, cfg, qlen_of(&labels), true);
                let q = mk_query(id, r.below(2) as u8, &labels, 1, client);
                sh.table.lock().unwrap().insert(id, beh.clone());
                desc.push_str(&format!(" Q:{}:{:?}", hex(&q), beh));
                sock.inject(q.clone(), client_addr());
                sent.push((id, q, client, beh));
            }
            if r.chance(1, 2) { settle(r.range(1, 30)).await; }
        }
        settle(500).await;
        recs.push(Rec::Oracle(desc.clone(), "dgram_round"));
        let outv = sock.take_out();
        let produced = sh.produced.lock().unwrap().clone();
        for (id, q, client, beh) in &sent {
            let mine: Vec<&Vec<u8>> = outv.iter().filter(|(_, d)| d.len() >= 2 && d[0] == (*id >> 8) as u8 && d[1] == *id as u8).map(|(_, d)| d).collect();
            let want = beh.expected();
            let case = format!("dgram cfg={} client={} req={} beh={:?}", opt_str(cfg), opt_str(*client), hex(q), beh);
            chk(recs, mine.len() >= want, "missing_response", &case, format!("{} datagrams, service produced {}", mine.len(), want));
            chk(recs, mine.len() <= want, "duplicate_response", &case, format!("{} datagrams, service produced {}", mine.len(), want));
            let prod: Vec<(usize, bool)> = produced.iter().filter(|p| p.0 == *id).map(|p| (p.1, p.2)).collect();
            for (i, d) in mine.iter().enumerate() {
                recs.push(Rec::Count("n_dgram_responses"));
                // error responses (after Err items) have no `produced` entry
                let p = match beh.items.get(i) {
                    Some(Ok(rsp)) => prod.get(beh.items[..i].iter().filter(|x| x.is_ok()).count()).map(|(l, h)| (rsp.intended(*l, *client), *h)),
                    _ => None,
                };
                let mut sub = vec![]; std::mem::swap(recs, &mut sub);
                let mut o = SubOut { recs: sub };
                oracle_udp_rec(&mut o, &case, q, *client, cfg, p, d);
                *recs = o.recs;
            }
        }
        // not asserted (C16_udp_size_bound_proviso_needed): error responses that echo very many
        // questions of a hostile request cannot be cut below header + questions; counted only
        for (_, d) in outv.iter() { if d.len() > 512 && d[0] == 0xee { recs.push(Rec::Count("n_hostile_many_question_responses_over_512")); } }
        chk(recs, outv.iter().all(|(a, _)| *a == client_addr()), "wrong_destination", &desc, "a response went to another address".into());
        // liveness: a final plain request is answered and the server task is alive
        sh.table.lock().unwrap().clear(); // the probe gets the default behaviour whatever its id
        sock.inject(mk_query(0xfefe, 1, &[5], 1, None), client_addr());
        settle(50).await;
        let fin = sock.take_out();
        chk(recs, fin.iter().any(|(_, d)| d.len() >= 2 && d[0] == 0xfe && d[1] == 0xfe) && !handle.is_finished() && !PANICKED.load(Ordering::SeqCst),
            "panic_server", &desc, "server dead or a task panicked after this round".into());
        let _ = srv.shutdown();
        settle(5).await;
    }
}

/// Slow reader.  A response queue of one slot, `n` pipelined requests whose
/// responses become ready together, a client that reads one response and then lets
/// `pause_ms` pass, through a 16-octet pipe: the last responses wait about
/// n * pause_ms for a slot, far longer than the write timeout `wt_ms`, while a single
/// write takes about pause_ms.  Every request must still get its response and the
/// connection must stay up.
/// Deterministic: the clock is tokio's paused clock.  The wait-for-a-queue-slot loop
/// yields instead of sleeping, so the runtime is never idle and the clock never
/// auto-advances while responses are pending; the client moves it explicitly with
/// `tokio::time::advance`.  No wall-clock time, no dependence on machine load.
fn run_slow_reader(n: usize, pause_ms: u64, wt_ms: u64, delay_ms: u64) -> (usize, bool, usize, f64) {
    let rt = rt();
    rt.block_on(async move {
        let t0 = tokio::time::Instant::now();
        let sh = Shared::default();
        let mut cc = ConnectionConfig::new();
        cc.set_max_queued_responses(1);
        cc.set_response_write_timeout(Duration::from_millis(wt_ms));
        let mut cfg = stream::Config::new();
        cfg.set_connection_config(cc);
        let srv = Arc::new(StreamServer::with_config(MockListener::default(), VecBufSource, stack(&sh), cfg));
        let listener = srv.source();
        let s2 = srv.clone();
        let _h = tokio::spawn(async move { s2.run().await });
        for j in 0..n { sh.table.lock().unwrap().insert(0x6800 + j as u16, Beh { delay_ms, items: vec![Ok(Resp::small())] }); }
        let client = listener.connect_buf(6000, 16);
        let (mut rd, mut wr) = tokio::io::split(client);
        let mut bytes = vec![];
        for j in 0..n { let q = mk_query(0x6800 + j as u16, 1, &[3, 2], 1, None); bytes.push(0); bytes.push(q.len() as u8); bytes.extend_from_slice(&q); }
        let writer = tokio::spawn(async move { let _ = wr.write_all(&bytes).await; wr });
        let quiet = Duration::from_millis(wt_ms + 4000);
        let mut ids = std::collections::HashSet::new();
        let mut frames = 0usize;
        let mut closed = false;
        while frames < n {
            let mut l = [0u8; 2];
            match tokio::time::timeout(quiet, rd.read_exact(&mut l)).await {
                Ok(Ok(_)) => {}
                Ok(Err(_)) => { closed = true; break; }
                Err(_) => break,
            }
            let mut m = vec![0u8; ((l[0] as usize) << 8) | l[1] as usize];
            match tokio::time::timeout(quiet, rd.read_exact(&mut m)).await {
                Ok(Ok(_)) => {}
                Ok(Err(_)) => { closed = true; break; }
                Err(_) => break,
            }
            frames += 1;
            if m.len() >= 2 { ids.insert(((m[0] as u16) << 8) | m[1] as u16); }
            tokio::time::advance(Duration::from_millis(pause_ms)).await;
        }
        let answered = (0..n).filter(|j| ids.contains(&(0x6800 + *j as u16))).count();
        writer.abort();
        let _ = srv.shutdown();
        (answered, closed, frames, t0.elapsed().as_secs_f64())
    })
}

/// DNS cookies (RFC 7873) in the stack: requests carrying a COOKIE option of every
/// shape, from an ordinary and from a denied address.  Whatever the middleware
/// answers itself (pre-fetch reply, BADCOOKIE, FORMERR, REFUSED+TC) is subject
/// to the same oracle: one datagram, request id, size, TC shape, parses.
async fn run_cookies(recs: &mut Vec<Rec>, r: &mut Rng, rounds: u64, idx: &mut u64, only: Option<u64>) {
    for round in 0..rounds {
        *idx += 1;
        if only.map_or(false, |o| o != *idx) { continue; }
        let cfg_in: Option<u16> = *r.pick(&[None, Some(512), Some(1232), Some(4096)]);
        let mut config = dgram::Config::new();
        config.set_max_response_size(cfg_in);
        let sh = Shared::default();
        let srv = Arc::new(DgramServer::with_config(MockSock::default(), VecBufSource, stack(&sh), config));
        let sock = srv.source();
        let s2 = srv.clone();
        let handle = tokio::spawn(async move { s2.run().await });
        PANICKED.store(false, Ordering::SeqCst);
        let k = r.range(2, 8);
        let mut sent: Vec<(u16, Vec<u8>, Option<u16>, SocketAddr, bool)> = vec![];
        let mut desc = format!("cookies round={} cfg={}", round, opt_str(cfg_in));
        for j in 0..k {
            let id = 0x9000u16 + (round * 8 + j) as u16;
            let nq: usize = match r.below(6) { 0 => 0, 1 => r.range(2, 120) as usize, _ => 1 };
            let opcode: u8 = if nq > 1 { 2 } else { 0 };
            let client = pick_size(r);
            let cookie: Vec<u8> = match r.below(7) {
                0 => vec![],                                   // OPT without COOKIE
                1 => r.bytes(8),                               // client cookie only
                2 => r.bytes(24),                              // client + (invalid) server cookie
                3 => r.bytes(16),                              // shortest server cookie
                4 => r.bytes(40),                              // longest
                5 => { let n = *r.pick(&[1usize, 7, 9, 15, 41, 60]); r.bytes(n) } // malformed lengths
                _ => r.bytes(8),
            };
            let with_opt = !(cookie.is_empty() && r.chance(1, 2));
            let mut q = vec![(id >> 8) as u8, id as u8, opcode << 3 | 1, 0, (nq >> 8) as u8, nq as u8, 0, 0, 0, 0, 0, with_opt as u8];
            for _ in 0..nq { q.extend_from_slice(&[1, b'a', 0, 0, 1, 0, 1]); }
            if with_opt {
                let rdlen = if cookie.is_empty() { 0 } else { 4 + cookie.len() };
                q.extend_from_slice(&[0, 0, 41, (client >> 8) as u8, client as u8, 0, 0, 0, 0, (rdlen >> 8) as u8, rdlen as u8]);
                if !cookie.is_empty() { q.extend_from_slice(&[0, 10, 0, cookie.len() as u8]); q.extend_from_slice(&cookie); }
            }
            let from = if r.chance(1, 3) { denied_addr() } else { client_addr() };
            desc.push_str(&format!(" {}:{}", if from == denied_addr() { "D" } else { "Q" }, hex(&q)));
            sock.inject(q.clone(), from);
            sent.push((id, q, if with_opt { Some(client) } else { None }, from, nq == 0));
            if r.chance(1, 2) { settle(r.range(1, 10)).await; }
        }
        settle(100).await;
        recs.push(Rec::Oracle(desc.clone(), "cookies_round"));
        let outv = sock.take_out();
        let cfg = cfg_in.map(|v| v.clamp(512, 4096));
        let calls = sh.calls.lock().unwrap().clone();
        for (id, q, client, from, _prefetch) in &sent {
            let mine: Vec<&(SocketAddr, Vec<u8>)> = outv.iter().filter(|(_, d)| d.len() >= 2 && d[0] == (*id >> 8) as u8 && d[1] == *id as u8).collect();
            let case = format!("cookies cfg={} from={} req={}", opt_str(cfg), from, hex(q));
            chk(recs, mine.len() >= 1, "missing_response", &case, "no datagram".into());
            chk(recs, mine.len() <= 1, "duplicate_response", &case, format!("{} datagrams", mine.len()));
            for (a, d) in mine {
                recs.push(Rec::Count("n_cookie_responses"));
                if d.len() >= 12 {
                    // which of the middleware's own answers were seen (coverage only)
                    let by_svc = calls.iter().any(|c| c.0 == *id);
                    recs.push(Rec::Count(match (by_svc, d[3] & 0x0f, d[2] & 2 != 0) {
                        (true, _, _) => "cookie_passed_to_service",
                        (false, 0, _) => "cookie_prefetch_reply",
                        (false, 1, _) => "cookie_formerr",
                        (false, 5, true) => "cookie_refused_tc",
                        (false, 7, _) => "cookie_badcookie",
                        _ => "cookie_other",
                    }));
                }
                chk(recs, a == from, "wrong_destination", &case, format!("sent to {}", a));
                // the question is asserted only for responses of the service (the middleware's own
                // FORMERR / REFUSED answers carry no question section)
                let by_service = calls.iter().any(|c| c.0 == *id);
                // the middleware's own answers: "sent back with the request's ID and question" - a requestor
                // matches responses by the question (RFC 5452 9.1); at least the first question must be there
                if !by_service && !*_prefetch {
                    if let Some(v) = view(d) {
                        chk(recs, v.qd >= 1 && question_of(q).map_or(false, |rq| rq.starts_with(&v.question) && !v.question.is_empty()),
                            "cookie_response_without_question", &case,
                            format!("request has {} question(s), the {}-octet response (rcode {}, TC={}) has QDCOUNT {}", ((q[4] as usize) << 8) | q[5] as usize, d.len(), d[3] & 15, v.tc as u8, v.qd));
                    }
                }
                let mut sub = vec![]; std::mem::swap(recs, &mut sub);
                let mut o = SubOut { recs: sub };
                let req_for_oracle: Vec<u8> = if by_service { q.clone() } else { q[..2].to_vec() };
                oracle_udp_rec(&mut o, &case, &req_for_oracle, *client, cfg, None, d);
                *recs = o.recs;
            }
        }
        sock.inject(mk_query(0xfefe, 1, &[5], 1, None), client_addr());
        settle(50).await;
        let fin = sock.take_out();
        chk(recs, fin.iter().any(|(_, d)| d.len() >= 2 && d[0] == 0xfe && d[1] == 0xfe) && !handle.is_finished() && !PANICKED.load(Ordering::SeqCst),
            "panic_server", &desc, "server dead or a task panicked after this round".into());
        let _ = srv.shutdown();
        settle(5).await;
    }
}

/// responses of exactly 65535 octets (the largest a frame can carry), an attempt at
/// 65536 / 65537 (the service's builder refuses the push: SERVFAIL via the invoker)
/// and small ones, pipelined on one connection: every frame's prefix is its length,
/// and the frames after a maximal one are intact
async fn run_big_frames(recs: &mut Vec<Rec>, idx: &mut u64, only: Option<u64>) {
    *idx += 1;
    if only.map_or(false, |o| o != *idx) { return; }
    let srv = start_stream();
    let mut client = srv.listener.connect(5100);
    // qname "aaa": question 9 octets, header 12 => answers of 65514 octets make 65535
    let sizes: [(u16, u16, usize); 7] = [(1, 65_514, 65_535), (1, 15, 36), (1, 65_515, 0), (1, 65_516, 0), (2, 32_757, 65_535), (1, 65_513, 65_534), (1, 15, 36)];
    let mut bytes = vec![];
    for (j, (n_an, an_len, _)) in sizes.iter().enumerate() {
        let id = 0x6c00 + j as u16;
        srv.sh.table.lock().unwrap().insert(id, Beh::single(Resp { n_an: *n_an, an_len: *an_len, ..Resp::small() }));
        let q = mk_query(id, 1, &[3], 1, None);
        bytes.push(0); bytes.push(q.len() as u8); bytes.extend_from_slice(&q);
    }
    let _ = client.write_all(&bytes).await;
    let (got, closed) = drain(&mut client, 500).await;
    let (frames, leftover) = split_stream(&got);
    let case = "stream big frames: pipelined responses of 65535, 36, (65536), (65537), 65535, 65534, 36 octets".to_string();
    recs.push(Rec::Oracle(case.clone(), "stream_big_frames"));
    chk(recs, leftover == 0 && !closed, "framing_wrong", &case, format!("{} octets after the last complete frame, closed={}", leftover, closed));
    chk(recs, frames.len() == sizes.len(), "missing_response", &case, format!("{} frames for {} requests", frames.len(), sizes.len()));
    for (j, (_, _, want)) in sizes.iter().enumerate() {
        let id = 0x6c00 + j as u16;
        let mine: Vec<&Vec<u8>> = frames.iter().filter(|f| f.len() >= 2 && f[0] == (id >> 8) as u8 && f[1] == id as u8).collect();
        chk(recs, mine.len() == 1, "framing_wrong", &case, format!("request #{}: {} frames carry its id", j, mine.len()));
        for f in mine {
            chk(recs, f.len() <= 65_535 && view(f).is_some(), "framing_wrong", &case, format!("request #{}: frame of {} octets does not parse", j, f.len()));
            if *want > 0 { chk(recs, f.len() == *want, "framing_wrong", &case, format!("request #{}: frame of {} octets, expected {}", j, f.len(), want)); }
            else { chk(recs, f.len() < 100 && f[3] & 15 == 2, "framing_wrong", &case, format!("request #{}: a message past 65535 octets cannot exist, got {} octets rcode {}", j, f.len(), f[3] & 15)); }
        }
    }
}

// ------------------------------------------- the full middleware chain (oracle only)

mod full {
    use super::*;
    use domain::base::iana::Class as IClass;
    use domain::base::Serial;
    use domain::net::server::middleware::notify::{Notifiable, NotifyError, NotifyMiddlewareSvc};
    use domain::net::server::middleware::tsig::TsigMiddlewareSvc;
    use domain::net::server::middleware::xfr::{XfrData, XfrDataProvider, XfrDataProviderError, XfrMiddlewareSvc};
    use domain::tsig::{Algorithm, Key, KeyName};
    use domain::zonefile::inplace::Zonefile;
    use domain::zonetree::types::EmptyZoneDiff;
    use domain::zonetree::Zone;
    use futures_util::stream::Once;
    use std::future::Ready;

    /// a service whose future and stream are Sync (the XFR / NOTIFY layers ask for that)
    #[derive(Clone)]
    pub struct SyncSvc { pub sh: Shared }
    impl Service<Vec<u8>, Option<Key>> for SyncSvc {
        type Target = Vec<u8>;
        type Stream = Once<Ready<ServiceResult<Vec<u8>>>>;
        type Future = Ready<Self::Stream>;
        fn call(&self, request: Request<Vec<u8>, Option<Key>>) -> Self::Future {
            let msg = request.message().clone();
            let id = msg.header().id();
            self.sh.calls.lock().unwrap().push((id, msg.as_slice().len()));
            let r = match self.sh.table.lock().unwrap().get(&id).and_then(|b| b.items.first().cloned()) { Some(Ok(r)) => r, _ => Resp::small() };
            let item = match build_resp(&msg, &r) { Ok(b) => Ok(CallResult::new(b)), Err(_) => Err(ServiceError::InternalError) };
            std::future::ready(futures_util::stream::once(std::future::ready(item)))
        }
    }

    #[derive(Clone)]
    pub struct Xdp { pub zone: Zone }
    impl XfrDataProvider<Option<Key>> for Xdp {
        type Diff = EmptyZoneDiff;
        fn request<Octs>(&self, req: &Request<Octs, Option<Key>>, _diff_from: Option<Serial>)
            -> Pin<Box<dyn Future<Output = Result<XfrData<Self::Diff>, XfrDataProviderError>> + Sync + Send + '_>>
        where Octs: domain::dep::octseq::Octets + Send + Sync {
            let res = req.message().sole_question().map_err(XfrDataProviderError::ParseError).and_then(|q| {
                if q.qname().to_string().eq_ignore_ascii_case("example.com") && q.qclass() == IClass::IN { Ok(XfrData::new(self.zone.clone(), vec![], false)) }
                else { Err(XfrDataProviderError::UnknownZone) }
            });
            Box::pin(std::future::ready(res))
        }
    }

    #[derive(Clone)]
    pub struct Target;
    impl Notifiable for Target {
        fn notify_zone_changed(&self, _class: IClass, apex: &Name<bytes::Bytes>, _serial: Option<Serial>, _source: std::net::IpAddr)
            -> Pin<Box<dyn Future<Output = Result<(), NotifyError>> + Sync + Send + '_>> {
            let ok = apex.to_string().eq_ignore_ascii_case("example.com");
            Box::pin(std::future::ready(if ok { Ok(()) } else { Err(NotifyError::NotAuthForZone) }))
        }
    }

    pub const N_TXT: usize = 700;
    pub fn zone() -> Zone {
        let mut text = String::from("example.com. 3600 IN SOA ns.example.com. host.example.com. 2024010101 3600 900 604800 300\nexample.com. 3600 IN NS ns.example.com.\nns.example.com. 3600 IN A 192.0.2.1\n");
        for i in 0..N_TXT { text.push_str(&format!("t{}.example.com. 3600 IN TXT \"{}\"\n", i, "x".repeat(200))); }
        let mut reader = std::io::BufReader::new(text.as_bytes());
        let zf = Zonefile::load(&mut reader).unwrap();
        Zone::try_from(zf).map_err(|_| ()).unwrap()
    }

    pub fn key() -> Key {
        Key::new(Algorithm::Sha256, &[7u8; 32], KeyName::from_str("demo-key").unwrap(), None, None).unwrap()
    }

    /// Mandatory(Tsig(Edns(Cookies(Notify(Xfr(service)))))) as in examples/serve-zone.rs
    pub fn stack(sh: &Shared, zone: Zone) -> impl Service<Vec<u8>, ()> + Clone {
        let svc = SyncSvc { sh: sh.clone() };
        let svc = XfrMiddlewareSvc::<Vec<u8>, _, Option<Key>, _>::new(svc, Xdp { zone }, 1);
        let svc = NotifyMiddlewareSvc::new(svc, Target);
        let svc = CookiesMiddlewareSvc::new(svc, COOKIE_SECRET).with_denied_ips([denied_addr().ip()]);
        let svc = EdnsMiddlewareSvc::new(svc);
        let mut store = HashMap::new();
        let k = key();
        store.insert((k.name().clone(), k.algorithm()), k);
        let svc = TsigMiddlewareSvc::<Vec<u8>, _, _, ()>::new(svc, Arc::new(store));
        Arc::new(MandatoryMiddlewareSvc::new(svc))
    }
}

/// a query for example.com with the given opcode / qtype, optional OPT, optional trailing (garbage) TSIG record
fn full_query(id: u16, opcode: u8, qname: &[&str], qtype: u16, client: Option<u16>, tsig_garbage: bool) -> Vec<u8> {
    let ar = client.is_some() as u8 + tsig_garbage as u8;
    let mut v = vec![(id >> 8) as u8, id as u8, opcode << 3, 0, 0, 1, 0, 0, 0, 0, 0, ar];
    for l in qname { v.push(l.len() as u8); v.extend_from_slice(l.as_bytes()); }
    v.push(0);
    v.extend_from_slice(&[(qtype >> 8) as u8, qtype as u8, 0, 1]);
    if let Some(c) = client { v.extend_from_slice(&[0, 0, 41, (c >> 8) as u8, c as u8, 0, 0, 0, 0, 0, 0]); }
    if tsig_garbage {
        // owner "demo-key", type TSIG (250), class ANY, ttl 0, rdata: hmac-sha256. time fudge mac(32 zero octets) id error other
        v.extend_from_slice(&[8]); v.extend_from_slice(b"demo-key"); v.push(0);
        v.extend_from_slice(&[0, 250, 0, 255, 0, 0, 0, 0]);
        let mut rd = vec![11]; rd.extend_from_slice(b"hmac-sha256"); rd.push(0);
        rd.extend_from_slice(&[0, 0, 0x65, 0, 0, 0, 1, 44, 0, 32]); rd.extend_from_slice(&[0u8; 32]);
        rd.extend_from_slice(&[(id >> 8) as u8, id as u8, 0, 0, 0, 0]);
        v.push((rd.len() >> 8) as u8); v.push(rd.len() as u8); v.extend_from_slice(&rd);
    }
    v
}

/// TSIG / NOTIFY / XFR middleware in the chain: framing and size limits still hold
async fn run_full_stack(recs: &mut Vec<Rec>, r: &mut Rng, rounds: u64, idx: &mut u64, only: Option<u64>) {
    let zone = full::zone();
    for round in 0..rounds {
        *idx += 1;
        if only.map_or(false, |o| o != *idx) { continue; }
        PANICKED.store(false, Ordering::SeqCst);
        let sh = Shared::default();
        // ---- stream: pipelined ordinary queries, AXFR, NOTIFY, a request with a bad TSIG
        let srv = Arc::new(StreamServer::new(MockListener::default(), VecBufSource, full::stack(&sh, zone.clone())));
        let listener = srv.source();
        let s2 = srv.clone();
        let handle = tokio::spawn(async move { s2.run().await });
        let mut client = listener.connect(5200 + round as u16);
        let mut kinds: Vec<(u16, &'static str)> = vec![];
        let mut bytes = vec![];
        let k = r.range(3, 7);
        for j in 0..k {
            let id = 0x7000 + (round * 8 + j) as u16;
            let (q, kind) = match r.below(6) {
                0 => (full_query(id, 0, &["example", "com"], 252, None, false), "axfr"),
                1 => (full_query(id, 4, &["example", "com"], 6, None, false), "notify"),
                2 => (full_query(id, 4, &["other", "org"], 6, None, false), "notify_other"),
                3 => (full_query(id, 0, &["www", "example", "com"], 1, Some(1232), true), "bad_tsig"),
                4 => (full_query(id, 0, &["example", "com"], 251, None, false), "ixfr_no_soa"),
                _ => (full_query(id, 0, &["www", "example", "com"], 1, if r.chance(1, 2) { Some(pick_size(r)) } else { None }, false), "query"),
            };
            let near = *r.pick(&[100usize, 2000, 60_000]);
            sh.table.lock().unwrap().insert(id, Beh::single(pick_resp(r, near, 21)));
            bytes.push((q.len() >> 8) as u8); bytes.push(q.len() as u8); bytes.extend_from_slice(&q);
            kinds.push((id, kind));
        }
        let desc = format!("full stack round={} stream {:?}", round, kinds);
        let _ = client.write_all(&bytes).await;
        let (got, closed) = drain(&mut client, 1000).await;
        let (frames, leftover) = split_stream(&got);
        recs.push(Rec::Oracle(desc.clone(), "full_stack_round"));
        chk(recs, leftover == 0 && !closed, "framing_wrong", &desc, format!("{} octets after the last complete frame, closed={}", leftover, closed));
        chk(recs, !handle.is_finished() && !PANICKED.load(Ordering::SeqCst), "panic_server", &desc, "a server task ended or panicked".into());
        for f in &frames { chk(recs, f.len() <= 65_535 && view(f).is_some(), "framing_wrong", &desc, format!("a frame of {} octets does not parse", f.len())); }
        for (id, kind) in &kinds {
            let mine: Vec<&Vec<u8>> = frames.iter().filter(|f| f.len() >= 2 && f[0] == (*id >> 8) as u8 && f[1] == *id as u8).collect();
            recs.push(Rec::Count(match *kind { "axfr" => "full_axfr", "notify" | "notify_other" => "full_notify", "bad_tsig" => "full_bad_tsig", "ixfr_no_soa" => "full_ixfr", _ => "full_query" }));
            if *kind == "axfr" {
                // the whole zone, SOA first and last, over as many frames as it takes
                let total: usize = mine.iter().map(|f| ((f[6] as usize) << 8) | f[7] as usize).sum();
                chk(recs, mine.len() >= 2 && total == full::N_TXT + 4, "xfr_incomplete", &desc, format!("AXFR id {}: {} frames, {} records (zone has {} + closing SOA)", id, mine.len(), total, full::N_TXT + 3));
            } else {
                chk(recs, mine.len() >= 1, "missing_response", &desc, format!("{} id {}: no response", kind, id));
                chk(recs, mine.len() <= 1, "duplicate_response", &desc, format!("{} id {}: {} responses", kind, id, mine.len()));
            }
        }
        let claimed = frames.iter().filter(|f| f.len() >= 2 && kinds.iter().any(|(id, _)| f[0] == (*id >> 8) as u8 && f[1] == *id as u8)).count();
        chk(recs, claimed == frames.len(), "id_mismatch", &desc, format!("{} frames, {} carry a request id", frames.len(), claimed));
        drop(client);
        let _ = srv.shutdown();
        settle(5).await;
        // ---- datagrams: the same request kinds; every response within the property text's limit
        let cfg_in = *r.pick(&[None, Some(512u16), Some(1232), Some(4096)]);
        let mut config = dgram::Config::new();
        config.set_max_response_size(cfg_in);
        let cfg = cfg_in;
        let dsrv = Arc::new(DgramServer::with_config(MockSock::default(), VecBufSource, full::stack(&sh, zone.clone()), config));
        let sock = dsrv.source();
        let d2 = dsrv.clone();
        let dh = tokio::spawn(async move { d2.run().await });
        let mut sent: Vec<(u16, Vec<u8>, Option<u16>, &'static str)> = vec![];
        for j in 0..r.range(3, 7) {
            let id = 0x7800 + (round * 8 + j) as u16;
            let client = if r.chance(1, 2) { Some(pick_size(r)) } else { None };
            let (q, kind) = match r.below(5) {
                0 => (full_query(id, 0, &["example", "com"], 252, client, false), "axfr"),
                1 => (full_query(id, 4, &["example", "com"], 6, client, false), "notify"),
                2 => (full_query(id, 0, &["www", "example", "com"], 1, client, true), "bad_tsig"),
                3 => (full_query(id, 0, &["example", "com"], 251, client, false), "ixfr_no_soa"),
                _ => (full_query(id, 0, &["www", "example", "com"], 1, client, false), "query"),
            };
            sh.table.lock().unwrap().insert(id, Beh::single(pick_resp(r, text_limit(client, cfg), 21)));
            sock.inject(q.clone(), client_addr());
            sent.push((id, q, client, kind));
        }
        settle(300).await;
        let outv = sock.take_out();
        let ddesc = format!("full stack round={} dgram cfg={}", round, opt_str(cfg));
        chk(recs, !dh.is_finished() && !PANICKED.load(Ordering::SeqCst), "panic_server", &ddesc, "a server task ended or panicked".into());
        for (id, q, client, kind) in &sent {
            let mine: Vec<&Vec<u8>> = outv.iter().filter(|(_, d)| d.len() >= 2 && d[0] == (*id >> 8) as u8 && d[1] == *id as u8).map(|(_, d)| d).collect();
            let case = format!("full stack dgram {} cfg={} client={} req={}", kind, opt_str(cfg), opt_str(*client), hex(q));
            chk(recs, mine.len() >= 1, "missing_response", &case, "no datagram".into());
            if *kind != "axfr" { chk(recs, mine.len() <= 1, "duplicate_response", &case, format!("{} datagrams", mine.len())); }
            for d in mine {
                recs.push(Rec::Count("n_full_stack_dgram_responses"));
                let mut sub = vec![]; std::mem::swap(recs, &mut sub);
                let mut o = SubOut { recs: sub };
                // a response to a request with a TSIG record may carry one itself: the id is checked, the question only for plain requests
                let req_for_oracle: Vec<u8> = if *kind == "query" { q.clone() } else { q[..2].to_vec() };
                oracle_udp_rec(&mut o, &case, &req_for_oracle, *client, cfg, None, d);
                *recs = o.recs;
            }
        }
        let _ = dsrv.shutdown();
        settle(5).await;
    }
}

/// many requests written at once on one connection: every one must be answered
async fn run_burst(recs: &mut Vec<Rec>, n: usize, delay_ms: u64, idx: &mut u64, only: Option<u64>) {
    *idx += 1;
    if only.map_or(false, |o| o != *idx) { return; }
    let srv = start_stream();
    let mut client = srv.listener.connect(5000);
    let mut bytes = vec![];
    for j in 0..n { srv.sh.table.lock().unwrap().insert(0x6000 + j as u16, Beh { delay_ms, items: vec![Ok(Resp::small())] }); }
    for j in 0..n { let q = mk_query(0x6000 + j as u16, 1, &[3, 2], 1, None); bytes.push(0); bytes.push(q.len() as u8); bytes.extend_from_slice(&q); }
    let _ = client.write_all(&bytes).await;
    let (got, closed) = drain(&mut client, 500).await;
    let (frames, leftover) = split_stream(&got);
    let case = format!("stream burst of {} pipelined requests in one write, service delay {} ms", n, delay_ms);
    recs.push(Rec::Oracle(case.clone(), "stream_burst"));
    let answered = (0..n).filter(|j| frames.iter().any(|f| f.len() >= 2 && f[0] == ((0x6000 + *j as u16) >> 8) as u8 && f[1] == (0x6000 + *j as u16) as u8)).count();
    if std::env::var("C16_DEBUG").is_ok() { eprintln!("{}: answered {} frames {} calls {} closed {}", case, answered, frames.len(), srv.sh.calls.lock().unwrap().len(), closed); }
    chk(recs, answered == n && !closed, "stream_response_dropped", &case, format!("{} of {} requests answered, service called {} times, closed={}", answered, n, srv.sh.calls.lock().unwrap().len(), closed));
    chk(recs, leftover == 0, "framing_wrong", &case, "partial frame".into());
}

/// `oracle_udp` needs an `Out`; inside the async part verdicts are collected in records.
struct SubOut { recs: Vec<Rec> }
fn oracle_udp_rec(o: &mut SubOut, case: &str, req: &[u8], client: Option<u16>, cfg: Option<u16>, produced: Option<(usize, bool)>, bytes: &[u8]) {
    let lim = text_limit(client, cfg);
    let recs = &mut o.recs;
    let v = match view(bytes) { Some(v) => v, None => { chk(recs, false, "tc_malformed", case, "response does not parse".into()); return; } };
    let rid = ((req[0] as u16) << 8) | req[1] as u16;
    chk(recs, v.id == rid, "id_mismatch", case, format!("request id {} response id {}", rid, v.id));
    // questions that do not fit the limit are left out of a truncated response (TC set): a prefix then
    if let Some(q) = question_of(req) { chk(recs, v.question == q || (v.tc && q.starts_with(&v.question)), "question_mismatch", case, "question section differs".into()); }
    // a limit below 512 cannot be configured (dgram::Config clamps to 512..=4096):
    // such hints exist only at the API and are judged by T2 against the model alone
    if matches!(cfg, Some(h) if h < 512) { return; }
    let over = bytes.len() > lim;
    let class = if !over { "udp_oversize" }
        else if client.is_none() && bytes.len() <= cfg.map(|x| x as usize).unwrap_or(512) { "udp_no_edns_over_512" }
        else if v.tc && v.an == 0 && v.ns == 0 { "udp_oversize_truncated_form" }
        else { "udp_oversize" };
    chk(recs, !over, class, case, format!("{} octets sent, the property allows {}", bytes.len(), lim));
    if let Some((plen, has_records)) = produced {
        let dropped = has_records && (v.an == 0 && v.ns == 0 && v.ar <= 1) && bytes.len() < plen;
        if plen > lim && !over { chk(recs, v.tc, "tc_missing", case, format!("service produced {} octets, limit {}, TC clear", plen, lim)); }
        if dropped { chk(recs, v.tc, "tc_missing", case, "records dropped but TC clear".into()); }
    }
    if v.tc {
        let ok = v.an == 0 && v.ns == 0 && (v.ar == 0 || (v.ar == 1 && v.opt));
        chk(recs, ok, "tc_malformed", case, format!("TC set with counts {},{},{},{}", v.qd, v.an, v.ns, v.ar));
    }
}

/// StreamServer: pipelined / interleaved requests with behaviours on one connection,
/// hostile and aborted connections next to it
async fn run_stream(recs: &mut Vec<Rec>, r: &mut Rng, rounds: u64, idx: &mut u64, only: Option<u64>) {
    let srv = start_stream();
    for round in 0..rounds {
        *idx += 1;
        if only.map_or(false, |o| o != *idx) { continue; }
        PANICKED.store(false, Ordering::SeqCst);
        srv.sh.table.lock().unwrap().clear();
        // a hostile or aborted connection first, every other round
        let mut desc = format!("stream round={}", round);
        if r.chance(1, 2) {
            let mut bad = srv.listener.connect(2000 + round as u16);
            let junk = match r.below(4) {
                0 => vec![0, 0],
                1 => { let mut v = vec![0, 40]; v.extend_from_slice(&r.bytes(17)); v }            // aborted mid-frame
                2 => { let h = hostile_bytes(r); let mut v = vec![(h.len() >> 8) as u8, h.len() as u8]; v.extend_from_slice(&h); v }
                _ => { let n = r.range(1, 200) as usize; r.bytes(n) }
            };
            desc.push_str(&format!(" bad:{}", hex(&junk)));
            let _ = bad.write_all(&junk).await;
            settle(2).await;
            if r.chance(1, 2) { drop(bad); } else { std::mem::forget(bad); }
        }
        let mut client = srv.listener.connect(3000 + round as u16);
        let k = r.range(1, 8);
        let mut stream_bytes = vec![];
        let mut sent: Vec<(u16, Vec<u8>, Beh)> = vec![];
        for j in 0..k {
            let id = ((round * 16 + j) as u16) ^ 0x3c3c;
            let labels = pick_labels(r);
            let q = mk_query(id, r.below(2) as u8, &labels, 1, if r.chance(1, 2) { Some(pick_size(r)) } else { None });
            let beh = gen_beh(r, None, None, qlen_of(&labels), false);
            srv.sh.table.lock().unwrap().insert(id, beh.clone());
            stream_bytes.push((q.len() >> 8) as u8); stream_bytes.push(q.len() as u8); stream_bytes.extend_from_slice(&q);
            desc.push_str(&format!(" Q:{}:{:?}", hex(&q), beh));
            sent.push((id, q, beh));
        }
        // write in random chunks
        let mut i = 0;
        let mut write_failed = false;
        while i < stream_bytes.len() {
            let n = match r.below(3) { 0 => r.range(1, 5) as usize, 1 => r.range(1, 60) as usize, _ => stream_bytes.len() };
            let e = (i + n).min(stream_bytes.len());
            if client.write_all(&stream_bytes[i..e]).await.is_err() { write_failed = true; break; }
            i = e;
            if r.chance(1, 2) { settle(r.range(1, 20)).await; }
        }
        let abort = r.chance(1, 8);
        recs.push(Rec::Oracle(desc.clone(), "stream_round"));
        if abort {
            // client goes away with responses pending: nothing to check but liveness below
            drop(client);
            settle(200).await;
        } else {
            let (got, closed) = drain(&mut client, 400).await;
            let (frames, leftover) = split_stream(&got);
            chk(recs, leftover == 0, "framing_wrong", &desc, format!("{} octets after the last complete frame", leftover));
            chk(recs, !closed && !write_failed, "connection_closed", &desc, "server closed a connection that carried only valid requests".into());
            let mut claimed = 0usize;
            // more responses than the connection's response queue holds (T1: MAX_QUEUED_RESPONSES
            // default 10): losses are the queue-full drop, reported under its own class
            let total_expected: usize = sent.iter().map(|s| s.2.expected()).sum();
            let missing_class = if total_expected > 10 { "stream_response_dropped" } else { "missing_response" };
            for (id, q, beh) in &sent {
                let mine: Vec<&Vec<u8>> = frames.iter().filter(|f| f.len() >= 2 && f[0] == (*id >> 8) as u8 && f[1] == *id as u8).collect();
                claimed += mine.len();
                let want = beh.expected();
                let case = format!("stream req={} beh={:?} (pipelined with {} others)", hex(q), beh, k - 1);
                chk(recs, mine.len() >= want, missing_class, &case, format!("{} frames, service produced {} ({} responses due on this connection)", mine.len(), want, total_expected));
                chk(recs, mine.len() <= want, "duplicate_response", &case, format!("{} frames, service produced {}", mine.len(), want));
                for f in mine {
                    recs.push(Rec::Count("n_stream_responses"));
                    match view(f) {
                        None => chk(recs, false, "framing_wrong", &case, "response frame does not parse as a message".into()),
                        Some(v) => {
                            if let Some(qq) = question_of(q) { chk(recs, v.question == qq, "question_mismatch", &case, "question section differs".into()); }
                            chk(recs, !v.tc, "tc_malformed", &case, "TC set on a stream response".into());
                        }
                    }
                }
            }
            chk(recs, claimed == frames.len(), "id_mismatch", &desc, format!("{} frames, {} match a request id", frames.len(), claimed));
            drop(client);
        }
        settle(5).await;
        // liveness
        let mut probe = srv.listener.connect(4000 + round as u16);
        srv.sh.table.lock().unwrap().clear(); // the probe gets the default behaviour whatever its id
        let q = mk_query(0x7d7d, 1, &[4], 1, None);
        let mut f = vec![0, q.len() as u8]; f.extend_from_slice(&q);
        let _ = probe.write_all(&f).await;
        let (got, _) = drain(&mut probe, 100).await;
        let (frames, _) = split_stream(&got);
        chk(recs, frames.len() == 1 && frames[0][0] == 0x7d && !srv.handle.is_finished() && !PANICKED.load(Ordering::SeqCst),
            "panic_server", &desc, "server dead or a task panicked after this round".into());
    }
}
