//! C17 -- serial arithmetic: correspondence cases for the Coq model and the
//! property oracle (RFC 1982 laws) on the implementation.
use domain::base::cmp::CanonicalOrd;
use domain::base::Serial;
use domain::rdata::dnssec::Timestamp;
use dv_harness::*;
use std::cmp::Ordering;
use std::str::FromStr;
use domain::base::{Name, Rtype, Ttl};
use domain::base::iana::Class;
use domain::rdata::{Soa, ZoneRecordData};
use domain::zonetree::types::ZoneDiffError;
use domain::zonetree::{InMemoryZoneDiffBuilder, Rrset, SharedRrset, StoredName};

/// Builds, through the public diff builder, a diff whose removed SOA has serial
/// `start` and whose added SOA has serial `end`; returns whether it was refused
/// for its serial range.
fn diff_range_rejected(start: u32, end: u32) -> Result<bool, String> {
    let apex: StoredName = Name::from_str("example.").unwrap();
    let soa = |serial: u32| {
        let mut rrset = Rrset::new(Rtype::SOA, Ttl::from_secs(3600));
        rrset.push_data(ZoneRecordData::Soa(Soa::new(
            Name::from_str("ns.example.").unwrap(), Name::from_str("admin.example.").unwrap(), Serial(serial),
            Ttl::from_secs(7200), Ttl::from_secs(900), Ttl::from_secs(86400), Ttl::from_secs(300))));
        SharedRrset::new(rrset)
    };
    let _ = Class::IN;
    let mut b = InMemoryZoneDiffBuilder::new();
    b.remove(apex.clone(), Rtype::SOA, soa(start));
    b.add(apex, Rtype::SOA, soa(end));
    match b.build() {
        Ok(d) => {
            if d.start_serial != Serial(start) || d.end_serial != Serial(end) { return Err(format!("serials {} {}", d.start_serial, d.end_serial)); }
            Ok(false)
        }
        Err(ZoneDiffError::InvalidSerialRange) => Ok(true),
        Err(e) => Err(format!("{:?}", e)),
    }
}

fn ord(o: Option<Ordering>) -> &'static str {
    match o { Some(Ordering::Less) => "Lt", Some(Ordering::Greater) => "Gt", Some(Ordering::Equal) => "Eq", None => "None" }
}

fn interesting(r: &mut Rng) -> u32 {
    const B: [u32; 14] = [0, 1, 2, 0x7FFF_FFFE, 0x7FFF_FFFF, 0x8000_0000, 0x8000_0001,
        0xFFFF_FFFE, 0xFFFF_FFFF, 0x4000_0000, 0xC000_0000, 12, 0x1_0000, 0xFFFF];
    match r.below(4) { 0 => *r.pick(&B), 1 => r.pick(&B).wrapping_add(r.below(5) as u32).wrapping_sub(2), _ => r.u32() }
}

fn pair(r: &mut Rng) -> (u32, u32) {
    let a = interesting(r);
    let b = match r.below(5) {
        0 => a,
        1 => a.wrapping_add(0x8000_0000).wrapping_add(r.below(5) as u32).wrapping_sub(2),
        2 => a.wrapping_add(r.below(9) as u32).wrapping_sub(4),
        _ => interesting(r),
    };
    (a, b)
}

fn oracle_pair(out: &mut Out, a: u32, b: u32, k: u32) {
    let (sa, sb) = (Serial(a), Serial(b));
    let ab = sa.partial_cmp(&sb);
    let ba = sb.partial_cmp(&sa);
    let c = format!("cmp {} {}", a, b);
    // antisymmetry
    out.check(ab.map(Ordering::reverse) == ba, "antisym", &c, &format!("{:?} vs {:?}", ab, ba));
    // Equal iff same value
    out.check((ab == Some(Ordering::Equal)) == (a == b), "eq_iff", &c, &format!("{:?}", ab));
    // undefined exactly for values 2^31 apart
    out.check(ab.is_none() == (a.wrapping_sub(b) == 0x8000_0000), "none_iff_2_31", &c, &format!("{:?}", ab));
    // invariant under adding the same amount to both sides
    let (a2, b2) = (a.wrapping_add(k), b.wrapping_add(k));
    out.check(Serial(a2).partial_cmp(&Serial(b2)) == ab, "shift_invariant", &format!("cmp {} {} shift {}", a, b, k), "");
    // RFC 1982 3.2 literal definition
    let (x, y) = (a as u64, b as u64);
    let lt = (x < y && y - x < (1 << 31)) || (x > y && x - y > (1 << 31));
    let gt = (x < y && y - x > (1 << 31)) || (x > y && x - y < (1 << 31));
    out.check((ab == Some(Ordering::Less)) == lt && (ab == Some(Ordering::Greater)) == gt, "rfc1982", &c, &format!("{:?}", ab));
    // Timestamp delegates
    let tab = Timestamp::from(a).partial_cmp(&Timestamp::from(b));
    out.check(tab == ab, "timestamp_same", &c, &format!("{:?} vs {:?}", tab, ab));
}

// derived operators must agree with partial_cmp (also at the undefined distance)
fn oracle_ops(out: &mut Out, a: u32, b: u32) {
    let c = format!("cmp {} {}", a, b);
    let (sa, sb) = (Serial(a), Serial(b));
    let pc = sa.partial_cmp(&sb);
    let want = |f: fn(Ordering) -> bool| pc.map_or(false, f);
    let ok = (sa < sb) == want(|o| o == Ordering::Less)
        && (sa <= sb) == want(|o| o != Ordering::Greater)
        && (sa > sb) == want(|o| o == Ordering::Greater)
        && (sa >= sb) == want(|o| o != Ordering::Less);
    out.check(ok, "serial_operators_differ_from_partial_cmp", &c, &format!("{:?} lt={} le={} gt={} ge={}", pc, sa < sb, sa <= sb, sa > sb, sa >= sb));
    let (ta, tb) = (Timestamp::from(a), Timestamp::from(b));
    let tpc = ta.partial_cmp(&tb);
    let twant = |f: fn(Ordering) -> bool| tpc.map_or(false, f);
    let ok = (ta < tb) == twant(|o| o == Ordering::Less)
        && (ta <= tb) == twant(|o| o != Ordering::Greater)
        && (ta > tb) == twant(|o| o == Ordering::Greater)
        && (ta >= tb) == twant(|o| o != Ordering::Less);
    out.check(ok, "timestamp_operators_differ_from_partial_cmp", &c, &format!("{:?}", tpc));
}

fn days_from_civil(y: i64, m: i64, d: i64) -> i64 {
    let y = if m <= 2 { y - 1 } else { y };
    let era = if y >= 0 { y } else { y - 399 } / 400;
    let yoe = y - era * 400;
    let mp = (m + 9) % 12;
    let doy = (153 * mp + 2) / 5 + d - 1;
    let doe = yoe * 365 + yoe / 4 - yoe / 100 + doy;
    era * 146097 + doe - 719468
}

fn days_in_month(y: i64, m: i64) -> i64 {
    match m { 1 | 3 | 5 | 7 | 8 | 10 | 12 => 31, 4 | 6 | 9 | 11 => 30, _ => if (y % 4 == 0 && y % 100 != 0) || y % 400 == 0 { 29 } else { 28 } }
}

fn oracle_add(out: &mut Out, a: u32, n: u32) {
    let c = format!("add {} {}", a, n);
    let r = catch(move || Serial(a).add(n));
    if n > 0x7FFF_FFFF {
        out.check(r.is_err(), "add_panics_iff", &c, "no panic for addend > 2^31-1");
    } else {
        match r {
            Err(e) => out.check(false, "add_panics_iff", &c, &format!("panic {}", e)),
            Ok(s) => {
                out.check(s.0 == a.wrapping_add(n), "add_wraps", &c, &format!("{}", s.0));
                if n >= 1 {
                    out.check(Serial(a).partial_cmp(&s) == Some(Ordering::Less)
                        && s.partial_cmp(&Serial(a)) == Some(Ordering::Greater), "add_gt", &c, &format!("{}", s.0));
                }
            }
        }
    }
}

fn main() {
    let a = args();
    let mut out = Out::new(&a, "C17", 60);
    let mut r = Rng::new(a.seed);
    let n_pairs = if a.thorough { 400_000 } else { 40_000 } * a.scale;
    // corpus (boundary pairs) first
    let corpus: &[(u32, u32)] = &[(0, 0), (0, 0x8000_0000), (0x8000_0000, 0), (0xFFFF_FFFF, 0x7FFF_FFFF),
        (0xFFFF_FFFF, 0x7FFF_FFFE), (0xFFFF_FFFF, 0x8000_0000), (3000000000, 852516352), (12, 112), (1, 0xFFFF_FFFF)];
    let mut idx = 0u64;
    for i in 0..n_pairs + corpus.len() as u64 {
        let (x, y) = if (i as usize) < corpus.len() { corpus[i as usize] } else { pair(&mut r) };
        let k = r.u32();
        idx += 1;
        if !out.wants(idx) { continue; }
        let c = format!("cmp {} {}", x, y);
        out.begin(&c);
        let obs = match catch(move || Serial(x).partial_cmp(&Serial(y))) { Ok(o) => format!("Ok {}", ord(o)), Err(_) => "Panic".into() };
        out.case(&c, &obs, x != y, "cmp");
        oracle_pair(&mut out, x, y, k);
        oracle_ops(&mut out, x, y);
        if i % 4 == 0 {
            let c = format!("ccmp {} {}", x, y);
            let o = Serial(x).canonical_cmp(&Serial(y));
            out.case(&c, ord(Some(o)), x != y, "ccmp");
            out.check(o == x.cmp(&y), "canonical_u32", &c, "");
        }
    }
    for _ in 0..n_pairs / 2 {
        let x = interesting(&mut r);
        let n = match r.below(6) { 0 => 0x7FFF_FFFF, 1 => 0x8000_0000, 2 => r.below(4) as u32, 3 => 0x7FFF_FFFF - r.below(3) as u32, 4 => 0x8000_0000 + r.below(1000) as u32, _ => r.u32() };
        idx += 1;
        if !out.wants(idx) { continue; }
        let c = format!("add {} {}", x, n);
        out.begin(&c);
        let obs = match catch(move || Serial(x).add(n)) { Ok(s) => format!("Ok {}", s.0), Err(_) => "Panic".into() };
        out.case(&c, &obs, n <= 0x7FFF_FFFF && n > 0, "add");
        oracle_add(&mut out, x, n);
    }
    // call sites: the expressions the code evaluates (anchored by T1) on Timestamp / Serial
    for i in 0..n_pairs / 4 {
        let now = interesting(&mut r);
        let (inc, exp) = match r.below(5) {
            0 => (now.wrapping_sub(r.below(100) as u32), now.wrapping_add(r.below(100) as u32)),
            1 => (now.wrapping_sub(0x7FFF_FFFF).wrapping_add(r.below(3) as u32).wrapping_sub(1), now.wrapping_add(0x7FFF_FFFF).wrapping_add(r.below(3) as u32).wrapping_sub(1)),
            2 => (interesting(&mut r), interesting(&mut r)),
            3 => (now.wrapping_add(1 + r.below(50) as u32), now.wrapping_add(1000)),
            _ => (r.u32(), r.u32()),
        };
        idx += 1;
        if !out.wants(idx) { continue; }
        let c = format!("sigtime {} {} {}", now, inc, exp);
        out.begin(&c);
        let (tn, ti, te) = (Timestamp::from(now), Timestamp::from(inc), Timestamp::from(exp));
        // group.rs: `!(ts_now <= rrsig.expiration() && ts_now >= rrsig.inception())` => reject
        let ok = tn <= te && tn >= ti;
        out.case(&c, if ok { "true" } else { "false" }, ok, "sigtime");
        // RFC 4034 3.1.5 / RFC 1982: accepted iff inception is at most 2^31-1 behind and
        // expiration at most 2^31-1 ahead of now; invariant under a common shift
        let want = now.wrapping_sub(inc) < 0x8000_0000 && exp.wrapping_sub(now) < 0x8000_0000;
        out.check(ok == want, "sig_time_not_rfc1982", &c, &format!("{}", ok));
        let k = r.u32();
        let (tn2, ti2, te2) = (Timestamp::from(now.wrapping_add(k)), Timestamp::from(inc.wrapping_add(k)), Timestamp::from(exp.wrapping_add(k)));
        out.check((tn2 <= te2 && tn2 >= ti2) == ok, "sig_time_shift_dependent", &format!("{} shift {}", c, k), "");
        if i % 2 == 0 {
            let (q, z) = pair(&mut r);
            let c = format!("uptodate {} {}", q, z);
            let up = Serial(q) >= Serial(z);
            out.case(&c, if up { "true" } else { "false" }, q != z, "uptodate");
            out.check(up == (q.wrapping_sub(z) < 0x8000_0000), "ixfr_uptodate_not_rfc1982", &c, "");
            let c = format!("diffrange {} {}", q, z);
            // the real check: InMemoryZoneDiffBuilder::build() -> InMemoryZoneDiff::new
            match catch(move || diff_range_rejected(q, z)) {
                Ok(Ok(rej)) => {
                    out.case(&c, if rej { "true" } else { "false" }, q != z, "diffrange");
                    // a diff leads from a version to a strictly newer one (RFC 1982): refused iff
                    // the end serial is equal to or serially before the start serial; a
                    // wrap-crossing bump (0xFFFFFFFF -> 0) is a legal diff
                    let d = z.wrapping_sub(q);
                    let want = d == 0 || d > 0x8000_0000;
                    if d != 0x8000_0000 { out.check(rej == want, "diff_range_not_rfc1982", &c, &format!("rejected={}", rej)); }
                }
                Ok(Err(e)) => { out.case(&c, "Err", false, "diffrange"); out.check(false, "diff_range_builder_error", &c, &e); }
                Err(e) => { out.case(&c, "Panic", false, "diffrange"); out.check(false, "diff_range_panics", &c, &e); }
            }
        }
    }
    // commit(true) of an in-memory zone: published SOA serial `old`; the writer either leaves the
    // SOA alone or writes one with serial `z` (other fields unchanged); observed: the serial a
    // reader sees afterwards
    {
        use domain::zonetree::ZoneBuilder;
        use domain::zonetree::{Answer, AnswerContent};
        let rt = tokio::runtime::Builder::new_current_thread().build().unwrap();
        let apex: StoredName = Name::from_str("example.").unwrap();
        let soa_rrset = |serial: u32| {
            let mut rrset = Rrset::new(Rtype::SOA, Ttl::from_secs(3600));
            rrset.push_data(ZoneRecordData::Soa(Soa::new(
                Name::from_str("ns.example.").unwrap(), Name::from_str("admin.example.").unwrap(), Serial(serial),
                Ttl::from_secs(7200), Ttl::from_secs(900), Ttl::from_secs(86400), Ttl::from_secs(300))));
            SharedRrset::new(rrset)
        };
        let mut cases: Vec<(u32, Option<u32>)> = vec![(0xFFFF_FFFF, None), (0xFFFF_FFFE, None), (0, None), (0x7FFF_FFFF, None),
            (0xFFFF_FFF0, Some(5)), (5, Some(0xFFFF_FFF0)), (7, Some(7)), (0xFFFF_FFFF, Some(0)), (0xFFFF_FFFF, Some(0xFFFF_FFFF)),
            (0, Some(0x8000_0000)), (0x8000_0000, Some(0)), (10, Some(9)), (10, Some(11))];
        for _ in 0..(n_pairs / 200) {
            let (q, z) = pair(&mut r);
            cases.push((q, if r.below(3) == 0 { None } else { Some(z) }));
        }
        for (old, written) in cases {
            idx += 1;
            if !out.wants(idx) { continue; }
            let c = format!("commit {} {} {}", old, if written.is_some() { 1 } else { 0 }, written.unwrap_or(0));
            out.begin(&c);
            let apex2 = apex.clone();
            let got = catch(std::panic::AssertUnwindSafe(|| {
                let mut b = ZoneBuilder::new(apex2.clone(), Class::IN);
                b.insert_rrset(&apex2, soa_rrset(old)).map_err(|_| "insert".to_string())?;
                let zone = b.build();
                rt.block_on(async {
                    let mut w = zone.write().await;
                    let node = w.open(false).await.map_err(|e| e.to_string())?;
                    if let Some(z) = written { node.update_rrset(soa_rrset(z)).await.map_err(|e| e.to_string())?; }
                    drop(node);
                    w.commit(true).await.map_err(|e| e.to_string())?;
                    Ok::<(), String>(())
                })?;
                let ans: Answer = zone.read().query(apex2.clone(), Rtype::SOA).map_err(|_| "out of zone".to_string())?;
                match ans.content() {
                    AnswerContent::Data(rrset) => match rrset.first().map(|rr| rr.data().clone()) {
                        Some(ZoneRecordData::Soa(soa)) => Ok(soa.serial().0),
                        _ => Err("no SOA data".to_string()),
                    },
                    _ => Err("SOA query not answered with data".to_string()),
                }
            }));
            match got {
                Ok(Ok(v)) => {
                    out.case(&c, &format!("Ok {}", v), written.is_none() || written == Some(old), "commit");
                    match written {
                        // untouched (or rewritten unchanged): the next serial, strictly newer, also across the wrap
                        None => { out.check(v == old.wrapping_add(1) && Serial(old) < Serial(v), "commit_bump_not_next_serial", &c, &format!("{}", v)); }
                        Some(z) if z == old => { out.check(v == old.wrapping_add(1), "commit_bump_not_next_serial", &c, &format!("{}", v)); }
                        // the writer's own SOA is what gets published, wherever the two serials sit
                        Some(z) => { out.check(v == z, "commit_discards_written_soa", &c, &format!("{}", v)); }
                    }
                }
                Ok(Err(e)) => { out.case(&c, "Err", false, "commit"); out.check(false, "commit_failed", &c, &e); }
                Err(e) => { out.case(&c, "Panic", false, "commit"); out.check(false, "commit_panics", &c, &e); }
            }
        }
    }
    // Version::next (zonetree/in_memory/versioned.rs, through the cfg(domain_verif) hook; a
    // Version of any value is obtained through its serde representation)
    {
        use domain::zonetree::verif_hooks::Version;
        let mut vals: Vec<u32> = vec![0, 1, 0x7FFF_FFFE, 0x7FFF_FFFF, 0x8000_0000, 0xFFFF_FFFE, 0xFFFF_FFFF];
        for _ in 0..(n_pairs / 40) { vals.push(interesting(&mut r)); }
        for v in vals {
            idx += 1;
            if !out.wants(idx) { continue; }
            let c = format!("next {}", v);
            out.begin(&c);
            let ver: Version = match serde_json::from_str(&format!("{}", v)) { Ok(x) => x, Err(e) => { out.check(false, "version_serde", &c, &e.to_string()); continue; } };
            match catch(move || ver.next()) {
                Ok(nx) => {
                    let n: u32 = serde_json::to_string(&nx).ok().and_then(|t| t.parse().ok()).unwrap_or(0);
                    out.case(&c, &format!("Ok {}", n), v == 0xFFFF_FFFF, "next");
                    out.check(n == v.wrapping_add(1), "version_next_value", &c, &format!("{}", n));
                    // the next version is strictly newer than this one in the order readers use
                    out.check(ver.partial_cmp(&nx) == Some(Ordering::Less) && ver < nx && !(nx <= ver), "version_next_not_newer", &c, "");
                }
                Err(e) => { out.case(&c, "Panic", false, "next"); out.check(false, "version_next_panics", &c, &e); }
            }
        }
    }
    // Serial from a point in time (jiff and chrono): seconds since the epoch mod 2^32
    {
        const JMIN: i64 = -377_705_023_201; const JMAX: i64 = 253_402_207_200; // jiff::Timestamp range
        let mut times: Vec<i64> = vec![0, 1, -1, 0x7FFF_FFFF, 0x8000_0000, 0xFFFF_FFFF, 0x1_0000_0000, 0x1_0000_0001,
            0x1_7FFF_FFFF, 0x1_8000_0000, 0x2_0000_0000 - 1, 0x2_0000_0000, -0x8000_0000, -0x1_0000_0000, JMIN, JMAX, 1_790_380_800];
        for _ in 0..(n_pairs / 20) {
            times.push(match r.below(5) {
                0 => (r.below(8) as i64) * 0x1_0000_0000 + interesting(&mut r) as i64,
                1 => -((r.below(8) as i64) * 0x1_0000_0000 + interesting(&mut r) as i64),
                2 => 0x1_0000_0000 + r.below(2000) as i64 - 1000,
                3 => r.below(0x2_0000_0000) as i64,
                _ => JMIN + r.below((JMAX - JMIN) as u64) as i64,
            }.clamp(JMIN, JMAX));
        }
        for secs in times {
            idx += 1;
            if !out.wants(idx) { continue; }
            let c = format!("fromtime {} {}", if secs < 0 { "-" } else { "+" }, secs.unsigned_abs());
            out.begin(&c);
            let want = secs.rem_euclid(1i64 << 32) as u32;
            let got = catch(move || jiff::Timestamp::from_second(secs).map(|t| Serial::from(t).0));
            match got {
                Ok(Ok(v)) => {
                    out.case(&c, &format!("{}", v), !(0..(1i64 << 32)).contains(&secs), "fromtime");
                    out.check(v == want, "from_time_not_mod_2_32", &c, &format!("got {} want {}", v, want));
                    // a later point in time is a serially greater value, also across the wrap
                    let k = match r.below(4) { 0 => 1, 1 => 0x7FFF_FFFF, 2 => 1 + r.below(100_000) as i64, _ => 1 + r.below(0x7FFF_FFFF) as i64 };
                    if secs + k <= JMAX {
                        let later = Serial::from(jiff::Timestamp::from_second(secs + k).unwrap());
                        out.check(Serial(v).partial_cmp(&later) == Some(Ordering::Less) && later.partial_cmp(&Serial(v)) == Some(Ordering::Greater),
                            "from_time_later_not_newer", &format!("{} plus {}", c, k), &format!("{} vs {}", v, later.0));
                        let added = catch(move || Serial(v).add(k as u32));
                        out.check(added.map(|s| s.0).ok() == Some(later.0), "from_time_add_differs", &format!("{} plus {}", c, k), "");
                    }
                    // the chrono conversion agrees
                    if let Some(dt) = chrono::DateTime::from_timestamp(secs, 0) {
                        out.check(Serial::from(dt).0 == v, "from_time_chrono_differs", &c, &format!("{}", Serial::from(dt).0));
                    }
                }
                Ok(Err(_)) => { out.case(&c, "Err", false, "fromtime"); out.check(false, "from_time_rejected", &c, "jiff refused an in-range second"); }
                Err(e) => { out.case(&c, "Panic", false, "fromtime"); out.check(false, "from_time_panics", &c, &e); }
            }
        }
    }
    // date notation of signature times: YYYYMMDDHHmmSS -> seconds mod 2^32
    {
        // fixed boundary dates first
        let mut dates: Vec<(i64, i64, i64, i64, i64, i64)> = vec![
            (1970, 1, 1, 0, 0, 0), (2038, 1, 19, 3, 14, 7), (2038, 1, 19, 3, 14, 8), (2106, 2, 7, 6, 28, 15),
            (2106, 2, 7, 6, 28, 16), (2106, 2, 7, 6, 28, 17), (2107, 1, 1, 0, 0, 0), (2107, 6, 1, 12, 0, 0),
            (2242, 3, 16, 12, 56, 32), (2000, 2, 29, 23, 59, 59), (2100, 2, 28, 23, 59, 59), (2100, 3, 1, 0, 0, 0),
            (9998, 12, 31, 23, 59, 59),
        ];
        for _ in 0..(n_pairs / 40) {
            let y = match r.below(4) { 0 => 2105 + r.below(3) as i64, 1 => 2037 + r.below(3) as i64, 2 => 1970 + r.below(300) as i64, _ => 1970 + r.below(8028) as i64 };
            let m = 1 + r.below(12) as i64;
            let d = 1 + r.below(days_in_month(y, m) as u64) as i64;
            dates.push((y, m, d, r.below(24) as i64, r.below(60) as i64, r.below(60) as i64));
        }
        for (y, m, d, h, mi, se) in dates {
            idx += 1;
            if !out.wants(idx) { continue; }
            let text = format!("{:04}{:02}{:02}{:02}{:02}{:02}", y, m, d, h, mi, se);
            let c = format!("date {} {} {} {} {} {}", y, m, d, h, mi, se);
            out.begin(&c);
            let secs = days_from_civil(y, m, d) * 86400 + h * 3600 + mi * 60 + se;
            let want = secs.rem_euclid(1i64 << 32) as u32;
            match catch(move || Timestamp::from_str(&text)) {
                Ok(Ok(t)) => {
                    out.case(&c, &format!("{}", t.into_int()), secs >= (1i64 << 32), "date");
                    out.check(t.into_int() == want, "date_notation_not_mod_2_32", &c, &format!("got {} want {}", t.into_int(), want));
                    // one second later is strictly newer (RFC 1982), also across the wrap
                    let later = Timestamp::from(want.wrapping_add(1));
                    out.check(t.partial_cmp(&later) == Some(Ordering::Less), "date_plus_one_not_newer", &c, "");
                }
                Ok(Err(_)) => { out.case(&c, "Err", false, "date"); out.check(false, "date_notation_rejected", &c, "valid date rejected"); }
                Err(e) => { out.case(&c, "Panic", false, "date"); out.check(false, "date_notation_panics", &c, &e); }
            }
        }
    }
    // thorough: sweep all 2^32 differences from several bases (supporting sweep,
    // implementation against the closed form proved equal to the model)
    let mut swept = 0u64;
    if a.thorough {
        let bases: Vec<u32> = vec![0, 1, 0x7FFF_FFFF, 0x8000_0000, 0xFFFF_FFFF, 0x1234_5678, r.u32(), r.u32()];
        let fails = std::sync::Mutex::new(Vec::<String>::new());
        std::thread::scope(|s| {
            for chunk in 0..16u64 {
                let bases = &bases; let fails = &fails;
                s.spawn(move || {
                    let lo = chunk << 28; let hi = (chunk + 1) << 28;
                    for d in lo..hi {
                        let d = d as u32;
                        for &b in bases.iter() {
                            let o = Serial(b).partial_cmp(&Serial(b.wrapping_add(d)));
                            let want = if d == 0 { Some(Ordering::Equal) } else if d < 0x8000_0000 { Some(Ordering::Less) } else if d == 0x8000_0000 { None } else { Some(Ordering::Greater) };
                            if o != want {
                                let mut f = fails.lock().unwrap();
                                if f.len() < 20 { f.push(format!("cmp {} {}", b, b.wrapping_add(d))); }
                            }
                        }
                    }
                });
            }
        });
        swept = (1u64 << 32) * bases.len() as u64;
        for f in fails.lock().unwrap().iter() { out.check(false, "sweep_closed_form", f, "differs from classify((b-a) mod 2^32)"); }
    }
    out.finish(&[("swept_pairs", format!("{}", swept))]);
}
