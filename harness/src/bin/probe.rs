//! Reproduction probes for the genuine defects recorded in known_findings.json.
//! Prints one line per probe: `<id> DEFECT <what was observed>` or `<id> ok`.
use domain::base::iana::{Class, Rtype};
use domain::base::message_builder::{HashCompressor, MessageBuilder, StaticCompressor, TreeCompressor};
use domain::base::name::{Label, Name, NameBuilder, RelativeName, ToName};
use domain::base::{Message, Record, Ttl};
use domain::rdata::A;
use dv_harness::*;
use std::collections::hash_map::DefaultHasher;
use std::hash::{Hash, Hasher};
use std::str::FromStr;

fn report(id: &str, defect: Option<String>) {
    match defect { Some(d) => println!("{} DEFECT {}", id, d), None => println!("{} ok", id) }
}

fn with_timeout<T: Send + 'static>(secs: u64, f: impl FnOnce() -> T + Send + 'static) -> Option<T> {
    let (tx, rx) = std::sync::mpsc::channel();
    std::thread::spawn(move || { let _ = tx.send(f()); });
    rx.recv_timeout(std::time::Duration::from_secs(secs)).ok()
}

fn big_message<F>(mk: F) -> Option<String>
where F: FnOnce() -> Vec<u8> {
    let bytes = mk();
    let msg = match Message::from_octets(bytes.clone()) { Ok(m) => m, Err(_) => return Some("unparseable header".into()) };
    let ans = match msg.answer() { Ok(a) => a, Err(e) => return Some(format!("answer(): {}", e)) };
    let mut n = 0;
    for r in ans.limit_to::<A>() {
        match r { Ok(_) => n += 1, Err(e) => return Some(format!("record {} fails to parse: {} (message {} octets)", n, e, bytes.len())) }
    }
    None
}

fn main() {
    std::panic::set_hook(Box::new(|_| {}));
    // F1 canonical_name with ANCOUNT = 0xFFFF
    {
        let mut m = vec![0u8; 12];
        m[2] = 0x80; m[5] = 1; m[6] = 0xFF; m[7] = 0xFF;
        m.extend_from_slice(b"\x01a\x00\x00\x01\x00\x01");
        let r = catch(move || { let msg = Message::from_octets(m).unwrap(); msg.canonical_name().map(|n| n.to_string()) });
        report("F1-canonical_name-ancount-65535", r.err().map(|e| format!("panic: {}", e)));
    }
    // F2 SliceLabelsIter self pointer / cycle
    {
        let r = with_timeout(2, || Label::iter_slice(b"\xc0\x00", 0).count());
        report("F2a-iter_slice-self-pointer", if r.is_none() { Some("hang on c0 00".into()) } else { None });
        let r = with_timeout(2, || Label::iter_slice(b"\x00\x00\x01x\xc0\x02", 2).take(100000).count());
        report("F2b-iter_slice-pointer-cycle", match r { None => Some("hang".into()), Some(n) if n >= 100000 => Some("endless label stream on 01 78 c0 02".into()), _ => None });
    }
    // F4 compressors beyond 16384 octets
    {
        fn build<T: domain::base::wire::Composer + AsRef<[u8]> + AsMut<[u8]> + domain::dep::octseq::Truncate>(t: T) -> Vec<u8> {
            let mut b = MessageBuilder::from_target(t).ok().unwrap().answer();
            let root = Name::<Vec<u8>>::root_vec();
            while b.as_slice().len() < 16500 {
                let data = domain::base::rdata::UnknownRecordData::from_octets(Rtype::from_int(65280), vec![7u8; 4000]).unwrap();
                b.push((root.clone(), 3600, data)).unwrap();
            }
            let late = Name::<Vec<u8>>::from_str("late.zone.test.").unwrap();
            b.push((late.clone(), 3600, A::from_octets(1, 1, 1, 1))).unwrap();
            b.push((late, 3600, A::from_octets(2, 2, 2, 2))).unwrap();
            b.finish().as_ref().to_vec()
        }
        report("F4a-static-compressor-16384", big_message(|| build(StaticCompressor::new(Vec::new()))));
        report("F4b-tree-compressor-16384", big_message(|| build(TreeCompressor::new(Vec::new()))));
        report("F4c-hash-compressor-16384", big_message(|| build(HashCompressor::new(Vec::new()))));
    }
    // F5 append_name with open label
    {
        let mut b = NameBuilder::new_vec();
        b.push(b'x').unwrap();
        b.append_name(&RelativeName::<Vec<u8>>::from_str("foo").unwrap()).unwrap();
        let s = b.finish();
        let ok = s.as_slice() == b"\x01x\x03foo";
        report("F5-append_name-open-label", if ok { None } else { Some(format!("octets {}", hex(s.as_slice()))) });
    }
    // F6 push at len 253 / Name::from_str 256 octets
    {
        let mut b = NameBuilder::new_vec();
        for _ in 0..25 { b.append_label(b"123456789").unwrap(); }
        b.append_label(b"12").unwrap();
        let r = b.push(b'x');
        report("F6a-push-at-253", if r.is_ok() { Some(format!("accepted, builder now {} octets", b.len())) } else { None });
        let s = format!("{}ab.x", "123456789.".repeat(25));
        let r = Name::<Vec<u8>>::from_str(&s);
        report("F6b-from_str-256", match r { Ok(n) if n.as_slice().len() > 255 => Some(format!("Name::from_str returned {} octets", n.as_slice().len())), _ => None });
    }
    // F7 in-label append_slice without total check
    {
        let mut b = NameBuilder::new_vec();
        for _ in 0..25 { b.append_label(b"123456789").unwrap(); }
        b.push(b'a').unwrap();
        let r = b.append_slice(&[b'z'; 40]);
        report("F7-append_slice-in-label-total", if r.is_ok() { Some(format!("accepted, builder now {} octets", b.len())) } else { None });
    }
    // F8 known (pinned by test): new label at len+n = 254
    {
        let mut b = NameBuilder::new_vec();
        for _ in 0..25 { b.append_label(b"123456789").unwrap(); }
        let r = b.append_label(b"1234");
        report("K8-append_label-255-relative", if r.is_ok() && b.len() == 255 { Some("255-octet relative name accepted (pinned by builder::test::name_limit)".into()) } else { None });
    }
    // F9 Record Eq vs Hash
    {
        let n = Name::<Vec<u8>>::from_str("example.com.").unwrap();
        let a = Record::new(n.clone(), Class::IN, Ttl::from_secs(10), A::from_octets(1, 2, 3, 4));
        let b = Record::new(n, Class::IN, Ttl::from_secs(20), A::from_octets(1, 2, 3, 4));
        let h = |r: &Record<Name<Vec<u8>>, A>| { let mut s = DefaultHasher::new(); r.hash(&mut s); s.finish() };
        report("F9-record-eq-hash", if a == b && h(&a) != h(&b) { Some("records equal, hashes differ (TTL hashed, not compared)".into()) } else { None });
    }
    // F12 Label display
    {
        let l = Label::from_slice(b"a;b\"c(d)").unwrap();
        let n = RelativeName::<Vec<u8>>::from_octets(b"\x08a;b\"c(d)".to_vec()).unwrap();
        let shown = format!("{}", l);
        let back = Name::<Vec<u8>>::from_str(&format!("{}.", n));
        let bad = shown.contains(';') && !shown.contains("\\;");
        let _ = back;
        report("F12-label-display-unescaped", if bad { Some(format!("printed {}", shown)) } else { None });
    }
    let _ = Rtype::A;
}
