//! C12 -- DNSSEC signatures made by the signer verify; the signed octets follow
//! RFC 4034.  Correspondence cases for the Coq model (validator signed_data,
//! signer scratch buffer captured through a recording SignRaw, key tags, DS
//! digests, label counts, closest enclosers) and the implementation-side
//! oracle: sign with the library's signer and ring keys, verify with the
//! validator primitives after every legitimate resolver transformation, and
//! check that every alteration of a covered field, of the signature or of the
//! key is rejected; signed octets, key tags and DS digests are compared with
//! independent computations written here.
//!
//! T2 case syntax (model/C12/driver.ml):
//!   sd tc alg labels ottl exp inc kt signer n {owner type class ttl crdata}*n
//!   sr|ss kalg ktag kowner inc exp n {owner type class ttl crdata}*n
//!   kt flags proto alg pk        ds dalg owner flags proto alg pk
//!   lc owner                     wce labels owner
//!   rsa min_len pk   renc e n   ksz alg pk      (public key field parsing)
//!   so nops {I owner type u data | E k {owner type u data}*k}   (SortedRecords entry points)
//! names are uncompressed wire format in hex, crdata is the canonical RDATA.
use bytes::Bytes;
use domain::base::iana::{DigestAlgorithm, Rtype, SecurityAlgorithm};
use domain::base::name::FlattenInto;
use domain::base::rdata::ComposeRecordData;
use domain::base::{Message, Name, ParsedName, Record, ToName, Ttl};
use domain::crypto::sign::{generate, GenerateParams, KeyPair, SecretKeyBytes, SignError, SignRaw, Signature};
use domain::dnssec::sign::keys::SigningKey;
use domain::dnssec::sign::records::{Rrset, SortedRecords};
use domain::dnssec::sign::signatures::rrsigs::{sign_rrset, sign_sorted_rrset_in, sign_sorted_zone_records, GenerateRrsigConfig};
use domain::dnssec::validator::base::{DnskeyExt, RrsigExt};
use domain::rdata::dnssec::Timestamp;
use domain::rdata::{AllRecordData, Dnskey, Rrsig, ZoneRecordData};
use dv_harness::*;
use octseq::OctetsFrom;
use std::cell::RefCell;

type Lab = Vec<u8>;
type Nm = Vec<Lab>; // non-root labels, leftmost first
type ZRec = Record<Name<Bytes>, ZoneRecordData<Bytes, Name<Bytes>>>;
type VRec = Record<Name<Bytes>, AllRecordData<Bytes, ParsedName<Bytes>>>;
type Sig = Rrsig<Bytes, Name<Bytes>>;

// ------------------------------------------------------------------ names
fn wire(n: &Nm) -> Vec<u8> {
    let mut v = vec![];
    for l in n { v.push(l.len() as u8); v.extend_from_slice(l); }
    v.push(0);
    v
}
fn lower(n: &Nm) -> Nm { n.iter().map(|l| l.to_ascii_lowercase()).collect() }
fn to_name(n: &Nm) -> Name<Bytes> { Name::from_octets(Bytes::from(wire(n))).expect("generated name is valid") }
fn flip_case(r: &mut Rng, n: &Nm) -> Nm {
    n.iter().map(|l| l.iter().map(|&c| if c.is_ascii_alphabetic() && r.chance(1, 2) { c ^ 0x20 } else { c }).collect()).collect()
}
fn gen_label(r: &mut Rng) -> Lab {
    let len = match r.below(12) { 0 => 63, 1 => 1, _ => r.range(1, 9) } as usize;
    match r.below(10) {
        0 => r.bytes(len),                                  // any octets, including 0, '.', '*'
        1 => vec![b'*'; 1.max(len.min(2))],                 // "*" or "**" in a non-leading position too
        _ => (0..len).map(|_| *r.pick(b"abcdefghijklmnopqrstuvwxyzABCDEFGHIJKLMNOPQRSTUVWXYZ0123456789-_")).collect(),
    }
}
fn gen_name(r: &mut Rng, max_labels: u64, budget: usize) -> Nm {
    let k = r.below(max_labels + 1);
    let mut n: Nm = vec![];
    let mut used = 1usize;
    for _ in 0..k {
        let l = gen_label(r);
        if used + 1 + l.len() > budget { break; }
        used += 1 + l.len();
        n.push(l);
    }
    n
}
fn wire_len(n: &Nm) -> usize { n.iter().map(|l| l.len() + 1).sum::<usize>() + 1 }

// ------------------------------------------------------------------ record data
#[derive(Clone, Debug)]
enum Part {
    Raw(Vec<u8>),
    /// an embedded domain name: `lower` = the type is in the RFC 4034 6.2 list
    /// (as amended by RFC 6840 5.1), `compress` = RFC 1035 type whose names
    /// may be compressed on the wire
    Name { n: Nm, lower: bool, compress: bool },
}
type RData = Vec<Part>;

fn raw_canonical(d: &RData) -> Vec<u8> {
    let mut v = vec![];
    for p in d {
        match p {
            Part::Raw(b) => v.extend_from_slice(b),
            Part::Name { n, lower: lw, .. } => v.extend_from_slice(&wire(&if *lw { lower(n) } else { n.clone() })),
        }
    }
    v
}
fn charstr(r: &mut Rng, max: u64) -> Vec<u8> {
    let n = r.below(max + 1) as usize;
    let mut v = vec![n as u8];
    v.extend((0..n).map(|_| if r.chance(1, 6) { r.u8() } else { *r.pick(b"abcXYZ 019") }));
    v
}
fn bitmap(r: &mut Rng) -> Vec<u8> {
    // one or two windows, ascending, no trailing zero octets
    let mut v = vec![];
    let mut w = r.below(2) as u8;
    for _ in 0..r.range(1, 2) {
        let len = r.range(1, 6) as usize;
        let mut b = r.bytes(len);
        if b[len - 1] == 0 { b[len - 1] = 1 << r.below(8); }
        v.push(w); v.push(len as u8); v.extend(b);
        w += 1 + r.below(3) as u8;
    }
    v
}
fn u16b(x: u16) -> Vec<u8> { x.to_be_bytes().to_vec() }
fn rb(r: &mut Rng, lo: u64, hi: u64) -> Vec<u8> { let n = r.range(lo, hi) as usize; r.bytes(n) }

const TYPES: &[u16] = &[1, 28, 2, 5, 12, 39, 7, 8, 9, 3, 4, 15, 6, 14, 17, 33, 35, 16, 13, 48, 60, 43, 59, 47, 50,
    51, 52, 44, 257, 63, 61, 64, 65, 65280, 99, 1, 15, 16, 2, 48];

/// one RDATA of the given type; `apex` lets embedded names share a suffix with
/// the owner (compression targets)
fn gen_rdata(r: &mut Rng, t: u16, apex: &Nm) -> RData {
    let emb = |r: &mut Rng| -> Nm {
        let mut n = gen_name(r, 3, 60);
        if r.chance(2, 3) { n.extend(apex.iter().cloned()); }
        if wire_len(&n) > 200 { n = apex.clone(); }
        n
    };
    let nm = |n: Nm, lower: bool, compress: bool| Part::Name { n, lower, compress };
    match t {
        1 => vec![Part::Raw(r.bytes(4))],
        28 => vec![Part::Raw(r.bytes(16))],
        2 | 5 | 12 | 7 | 8 | 9 | 3 | 4 => vec![nm(emb(r), true, true)],
        39 => vec![nm(emb(r), true, false)],
        15 => vec![Part::Raw(u16b(if r.chance(1, 2) { 10 } else { r.u16() })), nm(emb(r), true, true)],
        6 => vec![nm(emb(r), true, true), nm(emb(r), true, true), Part::Raw(r.bytes(20))],
        14 => vec![nm(emb(r), true, true), nm(emb(r), true, true)],
        17 => vec![nm(emb(r), true, false), nm(emb(r), true, false)],
        33 => vec![Part::Raw(r.bytes(6)), nm(emb(r), true, false)],
        35 => {
            let mut h = r.bytes(4);
            h.extend(charstr(r, 3)); h.extend(charstr(r, 8)); h.extend(charstr(r, 12));
            vec![Part::Raw(h), nm(emb(r), true, false)]
        }
        16 => { let mut v = vec![]; for _ in 0..r.range(1, 3) { v.extend(charstr(r, 12)); } vec![Part::Raw(v)] }
        13 => { let mut v = charstr(r, 8); v.extend(charstr(r, 8)); vec![Part::Raw(v)] }
        48 | 60 => { let mut v = u16b(*r.pick(&[256u16, 257, 0, 385])); v.push(3); v.push(*r.pick(&[8u8, 13, 15, 1])); v.extend(rb(r, 4, 40)); vec![Part::Raw(v)] }
        43 | 59 => { let mut v = u16b(r.u16()); v.push(*r.pick(&[8u8, 13, 15])); v.push(*r.pick(&[1u8, 2, 4])); v.extend(rb(r, 20, 48)); vec![Part::Raw(v)] }
        47 => vec![nm(emb(r), false, false), Part::Raw(bitmap(r))],
        50 => {
            let mut v = vec![1u8, r.below(2) as u8]; v.extend(u16b(r.below(20) as u16));
            let s = r.below(9) as usize; v.push(s as u8); v.extend(r.bytes(s));
            v.push(20); v.extend(r.bytes(20)); v.extend(bitmap(r));
            vec![Part::Raw(v)]
        }
        51 => { let mut v = vec![1u8, 0]; v.extend(u16b(r.below(20) as u16)); let s = r.below(9) as usize; v.push(s as u8); v.extend(r.bytes(s)); vec![Part::Raw(v)] }
        52 => { let mut v = vec![r.below(4) as u8, r.below(2) as u8, r.below(3) as u8]; v.extend(rb(r, 1, 32)); vec![Part::Raw(v)] }
        44 => { let mut v = vec![r.range(1, 4) as u8, r.range(1, 2) as u8]; v.extend(rb(r, 1, 32)); vec![Part::Raw(v)] }
        257 => {
            let tag: Vec<u8> = (0..r.range(1, 8)).map(|_| *r.pick(b"issuewildodef0")).collect();
            let mut v = vec![if r.chance(1, 4) { 128 } else { 0 }, tag.len() as u8]; v.extend(tag); v.extend(rb(r, 0, 19));
            vec![Part::Raw(v)]
        }
        63 => { let mut v = r.bytes(4); v.push(1); v.push(r.range(1, 2) as u8); v.extend(rb(r, 12, 48)); vec![Part::Raw(v)] }
        61 => vec![Part::Raw(rb(r, 1, 30))],
        64 | 65 => {
            let mut tail = vec![];
            if r.chance(1, 2) { tail.extend([0u8, 3, 0, 2]); tail.extend(u16b(r.u16())); }
            if r.chance(1, 3) { tail.extend([0u8, 4, 0, 4]); tail.extend(r.bytes(4)); }
            vec![Part::Raw(u16b(r.range(1, 9) as u16)), nm(emb(r), false, false), Part::Raw(tail)]
        }
        _ => vec![Part::Raw(rb(r, 0, 23))],
    }
}

#[derive(Clone, Debug)]
struct Rec { owner: Nm, class: u16, ttl: u32, rtype: u16, data: RData }

/// hand-written message: header + answer section; with `compress`, owners after
/// the first become a pointer to offset 12 when they are octet-identical and
/// compressible embedded names point into the first owner where a suffix matches
fn message(recs: &[Rec], compress: bool) -> Bytes {
    let mut m = vec![0u8, 0, 0x84, 0, 0, 0];
    m.extend(u16b(recs.len() as u16));
    m.extend([0u8; 4]);
    let first = recs.first().map(|r| r.owner.clone()).unwrap_or_default();
    let first_wire = wire(&first);
    // offsets of the suffixes of the first owner
    let mut sufs: Vec<(Vec<u8>, usize)> = vec![];
    let mut off = 12usize;
    for i in 0..first.len() { sufs.push((wire(&first[i..].to_vec()), off)); off += first[i].len() + 1; }
    let put_name = |m: &mut Vec<u8>, n: &Nm, allow: bool, is_first_owner: bool| {
        if !allow || is_first_owner { m.extend(wire(n)); return; }
        for i in 0..n.len() {
            let w = wire(&n[i..].to_vec());
            if let Some((_, o)) = sufs.iter().find(|(s, _)| *s == w) {
                for l in &n[..i] { m.push(l.len() as u8); m.extend_from_slice(l); }
                m.extend(u16b(0xC000 | *o as u16));
                return;
            }
        }
        m.extend(wire(n));
    };
    for (i, rec) in recs.iter().enumerate() {
        if i == 0 { debug_assert_eq!(wire(&rec.owner), first_wire); }
        put_name(&mut m, &rec.owner, compress, i == 0);
        m.extend(u16b(rec.rtype)); m.extend(u16b(rec.class)); m.extend(rec.ttl.to_be_bytes());
        let mut rd = vec![];
        let at = m.len() + 2;
        let _ = at;
        for p in &rec.data {
            match p {
                Part::Raw(b) => rd.extend_from_slice(b),
                Part::Name { n, compress: c, .. } => put_name(&mut rd, n, compress && *c, false),
            }
        }
        m.extend(u16b(rd.len() as u16));
        m.extend(rd);
    }
    Bytes::from(m)
}

fn parse_resolver(msg: &Bytes) -> Result<Vec<VRec>, String> {
    let m = Message::from_octets(msg.clone()).map_err(|_| "short".to_string())?;
    let mut out = vec![];
    for rr in m.answer().map_err(|e| format!("{}", e))? {
        let rr = rr.map_err(|e| format!("{}", e))?;
        let rec = rr.into_any_record::<AllRecordData<Bytes, ParsedName<Bytes>>>().map_err(|e| format!("{}", e))?;
        let owner: Name<Bytes> = rec.owner().to_name();
        out.push(Record::new(owner, rec.class(), rec.ttl(), rec.data().clone()));
    }
    Ok(out)
}
fn parse_zone(msg: &Bytes) -> Result<Vec<ZRec>, String> {
    let m = Message::from_octets(msg.clone()).map_err(|_| "short".to_string())?;
    let mut out = vec![];
    for rr in m.answer().map_err(|e| format!("{}", e))? {
        let rr = rr.map_err(|e| format!("{}", e))?;
        let rec = rr.into_record::<ZoneRecordData<Bytes, ParsedName<Bytes>>>().map_err(|e| format!("{}", e))?
            .ok_or_else(|| "not zone data".to_string())?;
        let rec: ZRec = rec.flatten_into();
        out.push(rec);
    }
    Ok(out)
}

fn lib_canonical<D: ComposeRecordData>(d: &D) -> Vec<u8> {
    let mut v = vec![];
    d.compose_canonical_rdata(&mut v).unwrap();
    v
}

// ------------------------------------------------------------------ independent computations
/// RFC 4034 3.1.8.1 / RFC 4035 5.3.2, written from the RFC text
#[derive(Clone, Debug, PartialEq)]
struct SigF { tc: u16, alg: u8, labels: u8, ottl: u32, exp: u32, inc: u32, kt: u16, signer: Nm }
fn rfc_signed_data(s: &SigF, recs: &[(Nm, u16, u16, Vec<u8>)]) -> Vec<u8> {
    let mut v = vec![];
    v.extend(u16b(s.tc)); v.push(s.alg); v.push(s.labels); v.extend(s.ottl.to_be_bytes());
    v.extend(s.exp.to_be_bytes()); v.extend(s.inc.to_be_bytes()); v.extend(u16b(s.kt));
    v.extend(wire(&lower(&s.signer)));
    let mut rs: Vec<&(Nm, u16, u16, Vec<u8>)> = recs.iter().collect();
    rs.sort_by(|a, b| a.3.cmp(&b.3)); // octet strings, shorter prefix first
    for (owner, t, c, rd) in rs {
        let name: Nm = if (s.labels as usize) < owner.len() {
            let mut n = vec![b"*".to_vec()];
            n.extend(owner[owner.len() - s.labels as usize..].iter().cloned());
            n
        } else { owner.clone() };
        v.extend(wire(&lower(&name)));
        v.extend(u16b(*t)); v.extend(u16b(*c)); v.extend(s.ottl.to_be_bytes());
        v.extend(u16b(rd.len() as u16)); v.extend_from_slice(rd);
    }
    v
}
/// class word for a difference from the RFC construction: when the octets are
/// the RFC prefix followed by the RFC RRs in another order, name the record
/// type whose canonical_cmp is not the octet order of its canonical RDATA
fn not_rfc_class(s: &SigF, recs: &[(Nm, u16, u16, Vec<u8>)], got: &[u8]) -> String {
    let n = recs.len();
    if n >= 2 && n <= 6 {
        let mut idx: Vec<usize> = (0..n).collect();
        // Heap's algorithm over the record order
        let mut c = vec![0usize; n];
        let try_order = |idx: &Vec<usize>| -> bool {
            // encode with a rank byte prepended so that rfc_signed_data's sort keeps this order
            let one: Vec<Vec<u8>> = idx.iter().map(|&i| rfc_signed_data(s, &recs[i..i + 1])).collect();
            let plen = rfc_signed_data(s, &[]).len();
            let mut v = rfc_signed_data(s, &[]);
            for o in &one { v.extend_from_slice(&o[plen..]); }
            v == got
        };
        let mut found = try_order(&idx);
        let mut i = 0;
        while i < n && !found {
            if c[i] < i { if i % 2 == 0 { idx.swap(0, i); } else { idx.swap(c[i], i); } found = try_order(&idx); c[i] += 1; i = 0; } else { c[i] = 0; i += 1; }
        }
        if found {
            return match recs[0].1 { 64 | 65 => "signed_data_not_rfc_svcb_target_order".into(), 47 => "signed_data_not_rfc_nsec_bitmap_order".into(),
                t => format!("signed_data_not_rfc_order_type_{}", t) };
        }
    }
    "signed_data_not_rfc".into()
}
/// RFC 4034 Appendix B, the reference C code
fn rfc_keytag(rdata: &[u8]) -> u16 {
    let mut ac: u64 = 0;
    for (i, &b) in rdata.iter().enumerate() { ac += if i & 1 == 1 { b as u64 } else { (b as u64) << 8 }; }
    ac += (ac >> 16) & 0xFFFF;
    (ac & 0xFFFF) as u16
}
fn sha256(msg: &[u8]) -> Vec<u8> {
    const K: [u32; 64] = [
        0x428a2f98, 0x71374491, 0xb5c0fbcf, 0xe9b5dba5, 0x3956c25b, 0x59f111f1, 0x923f82a4, 0xab1c5ed5, 0xd807aa98, 0x12835b01,
        0x243185be, 0x550c7dc3, 0x72be5d74, 0x80deb1fe, 0x9bdc06a7, 0xc19bf174, 0xe49b69c1, 0xefbe4786, 0x0fc19dc6, 0x240ca1cc,
        0x2de92c6f, 0x4a7484aa, 0x5cb0a9dc, 0x76f988da, 0x983e5152, 0xa831c66d, 0xb00327c8, 0xbf597fc7, 0xc6e00bf3, 0xd5a79147,
        0x06ca6351, 0x14292967, 0x27b70a85, 0x2e1b2138, 0x4d2c6dfc, 0x53380d13, 0x650a7354, 0x766a0abb, 0x81c2c92e, 0x92722c85,
        0xa2bfe8a1, 0xa81a664b, 0xc24b8b70, 0xc76c51a3, 0xd192e819, 0xd6990624, 0xf40e3585, 0x106aa070, 0x19a4c116, 0x1e376c08,
        0x2748774c, 0x34b0bcb5, 0x391c0cb3, 0x4ed8aa4a, 0x5b9cca4f, 0x682e6ff3, 0x748f82ee, 0x78a5636f, 0x84c87814, 0x8cc70208,
        0x90befffa, 0xa4506ceb, 0xbef9a3f7, 0xc67178f2];
    let mut h: [u32; 8] = [0x6a09e667, 0xbb67ae85, 0x3c6ef372, 0xa54ff53a, 0x510e527f, 0x9b05688c, 0x1f83d9ab, 0x5be0cd19];
    let mut m = msg.to_vec();
    m.push(0x80);
    while m.len() % 64 != 56 { m.push(0); }
    m.extend(((msg.len() as u64) * 8).to_be_bytes());
    for blk in m.chunks(64) {
        let mut w = [0u32; 64];
        for i in 0..16 { w[i] = u32::from_be_bytes([blk[4 * i], blk[4 * i + 1], blk[4 * i + 2], blk[4 * i + 3]]); }
        for i in 16..64 {
            let s0 = w[i - 15].rotate_right(7) ^ w[i - 15].rotate_right(18) ^ (w[i - 15] >> 3);
            let s1 = w[i - 2].rotate_right(17) ^ w[i - 2].rotate_right(19) ^ (w[i - 2] >> 10);
            w[i] = w[i - 16].wrapping_add(s0).wrapping_add(w[i - 7]).wrapping_add(s1);
        }
        let (mut a, mut b, mut c, mut d, mut e, mut f, mut g, mut hh) = (h[0], h[1], h[2], h[3], h[4], h[5], h[6], h[7]);
        for i in 0..64 {
            let s1 = e.rotate_right(6) ^ e.rotate_right(11) ^ e.rotate_right(25);
            let ch = (e & f) ^ (!e & g);
            let t1 = hh.wrapping_add(s1).wrapping_add(ch).wrapping_add(K[i]).wrapping_add(w[i]);
            let s0 = a.rotate_right(2) ^ a.rotate_right(13) ^ a.rotate_right(22);
            let mj = (a & b) ^ (a & c) ^ (b & c);
            let t2 = s0.wrapping_add(mj);
            hh = g; g = f; f = e; e = d.wrapping_add(t1); d = c; c = b; b = a; a = t1.wrapping_add(t2);
        }
        for (x, y) in h.iter_mut().zip([a, b, c, d, e, f, g, hh]) { *x = x.wrapping_add(y); }
    }
    h.iter().flat_map(|x| x.to_be_bytes()).collect()
}

// ------------------------------------------------------------------ keys
/// SignRaw that remembers the octets it was asked to sign
struct RecKey { inner: Option<KeyPair>, alg: SecurityAlgorithm, dnskey: Dnskey<Vec<u8>>, seen: RefCell<Option<Vec<u8>>> }
impl std::fmt::Debug for RecKey { fn fmt(&self, f: &mut std::fmt::Formatter<'_>) -> std::fmt::Result { write!(f, "RecKey") } }
impl SignRaw for RecKey {
    fn algorithm(&self) -> SecurityAlgorithm { self.alg }
    fn dnskey(&self) -> Dnskey<Vec<u8>> { self.dnskey.clone() }
    fn sign_raw(&self, data: &[u8]) -> Result<Signature, SignError> {
        *self.seen.borrow_mut() = Some(data.to_vec());
        match &self.inner {
            Some(k) => k.sign_raw(data),
            None => Ok(Signature::Ed25519(Box::new([0u8; 64]))),
        }
    }
}
fn real_key(kp: KeyPair) -> RecKey {
    let alg = kp.algorithm(); let dnskey = kp.dnskey();
    RecKey { inner: Some(kp), alg, dnskey, seen: RefCell::new(None) }
}
fn fake_key(r: &mut Rng) -> RecKey {
    let alg = *r.pick(&[8u8, 13, 15, 5, 1, 253]);
    let n = r.range(1, 40) as usize;
    let dnskey = Dnskey::new(*r.pick(&[256u16, 257]), 3, SecurityAlgorithm::from_int(alg), r.bytes(n)).unwrap();
    RecKey { inner: None, alg: SecurityAlgorithm::from_int(alg), dnskey, seen: RefCell::new(None) }
}
fn load_bind_key(repo: &str, base: &str) -> Option<KeyPair> {
    let dir = format!("{}/test-data/dnssec-keys/", repo);
    let sec = std::fs::read_to_string(format!("{}{}.private", dir, base)).ok()?;
    let pubk = std::fs::read_to_string(format!("{}{}.key", dir, base)).ok()?;
    let sec = SecretKeyBytes::parse_from_bind(&sec).ok()?;
    let rec = domain::dnssec::common::parse_from_bind::<Vec<u8>>(&pubk).ok()?;
    KeyPair::from_bytes(&sec, rec.data()).ok()
}

// ------------------------------------------------------------------ helpers for cases
fn rec_words(owner: &[u8], t: u16, c: u16, ttl: u32, crd: &[u8]) -> String {
    format!(" {} {} {} {} {}", hex(owner), t, c, ttl, hex(crd))
}
fn sig_fields<O, N: ToName>(s: &Rrsig<O, N>) -> SigF {
    SigF { tc: s.type_covered().to_int(), alg: s.algorithm().to_int(), labels: s.labels(), ottl: s.original_ttl().as_secs(),
           exp: s.expiration().into_int(), inc: s.inception().into_int(), kt: s.key_tag(),
           signer: labels_of(s.signer_name()) }
}
fn labels_of(n: &impl ToName) -> Nm {
    let mut v: Nm = n.iter_labels().map(|l| l.as_slice().to_vec()).collect();
    v.pop(); // root
    v
}
fn sd_case<N: ToName, D: ComposeRecordData + domain::base::RecordData>(f: &SigF, recs: &[Record<N, D>]) -> String {
    let mut c = format!("sd {} {} {} {} {} {} {} {} {}", f.tc, f.alg, f.labels, f.ottl, f.exp, f.inc, f.kt, hex(&wire(&f.signer)), recs.len());
    for r in recs {
        c.push_str(&rec_words(&wire(&labels_of(r.owner())), r.rtype().to_int(), r.class().to_int(), r.ttl().as_secs(), &lib_canonical(r.data())));
    }
    c
}
fn mk_sig(f: &SigF, signature: &[u8]) -> Sig {
    Rrsig::new(Rtype::from_int(f.tc), SecurityAlgorithm::from_int(f.alg), f.labels, Ttl::from_secs(f.ottl),
        Timestamp::from(f.exp), Timestamp::from(f.inc), f.kt, to_name(&f.signer), Bytes::copy_from_slice(signature)).unwrap()
}
fn lib_signed_data(sig: &Sig, recs: &[VRec]) -> Result<Vec<u8>, String> {
    let mut recs: Vec<VRec> = recs.to_vec();
    let sig = sig.clone();
    catch_mut(move || { let mut buf: Vec<u8> = vec![]; sig.signed_data(&mut buf, &mut recs[..]).unwrap(); buf })
}
fn lib_verify(sig: &Sig, key: &Dnskey<Vec<u8>>, data: &[u8]) -> Result<bool, String> {
    let (sig, key, data) = (sig.clone(), key.clone(), data.to_vec());
    catch_mut(move || sig.verify_signed_data(&key, &data).is_ok())
}

struct Ctx { keys: Vec<RecKey>, n_sign: u64, n_verify: u64, n_tamper: u64, rejected_gen: u64, dup_views: u64, dup_views_verified: u64, zone_rrsigs: u64 }

fn shuffle<T>(r: &mut Rng, v: &mut Vec<T>) { for i in (1..v.len()).rev() { let j = r.below(i as u64 + 1) as usize; v.swap(i, j); } }

/// one RRset: sign with the library, compare octets, verify after every
/// resolver transformation, reject after every alteration
fn run_rrset(out: &mut Out, r: &mut Rng, cx: &mut Ctx, idx: u64) {
    // ---- generate
    let mut apex = gen_name(r, 3, 80);
    let mut owner = gen_name(r, 3, 60);
    if r.chance(3, 10) { owner.insert(0, b"*".to_vec()); }
    owner.extend(apex.iter().cloned());
    // asterisk labels that are not the leftmost label are ordinary labels (RFC 4034 3.1.3, RFC 4592 2.1.1)
    if idx % 29 == 3 {
        apex = vec![b"example".to_vec()];
        owner = match r.below(4) { 0 => vec![b"a".to_vec(), b"*".to_vec()], 1 => vec![b"*".to_vec(), b"*".to_vec()], 2 => vec![b"*".to_vec(), b"b".to_vec(), b"*".to_vec()], _ => vec![b"x".to_vec(), b"**".to_vec(), b"*".to_vec()] };
        owner.extend(apex.iter().cloned());
    }
    // boundary shape: the deepest names there are (127 one-octet labels = 255 octets)
    if idx % 23 == 5 {
        let k = *r.pick(&[125usize, 126, 127]);
        owner = (0..k).map(|_| vec![*r.pick(b"abcXYZ09")]).collect();
        if r.chance(1, 2) { owner[0] = b"*".to_vec(); }
        apex = owner[k - r.range(0, 3) as usize..].to_vec();
    }
    // a leading "*" label makes the owner a wildcard wherever it came from
    let wildcard = owner.first().map(|l| l.as_slice() == b"*").unwrap_or(false);
    let big_rdata = idx % 61 == 7;
    let t = if big_rdata { 65280 } else { *r.pick(TYPES) };
    let class = if r.chance(1, 8) { *r.pick(&[3u16, 4, 254, 1000]) } else { 1 };
    let ttl = match r.below(6) { 0 => 0, 1 => 0x7FFF_FFFF, 2 => r.u32() >> 1, 3 => *r.pick(&[0xFFFF_FFFFu32, 0x8000_0000, 1]), _ => r.range(1, 86400) as u32 };
    let mut datas: Vec<RData> = vec![];
    let want = if t == 6 || t == 5 || t == 39 { 1 } else { r.range(1, 5) };
    let base = if big_rdata { let n = *r.pick(&[65535usize, 65534, 256, 255]); vec![Part::Raw(r.bytes(n))] } else { gen_rdata(r, t, &apex) };
    let want = if big_rdata { 2 } else { want };
    for i in 0..want {
        let d = if i == 0 { base.clone() } else if r.chance(1, 2) {
            // close relative: change or extend the last raw part so that RDATA share long prefixes
            let mut d = base.clone();
            let simple = matches!(t, 1 | 28 | 61 | 65280 | 99 | 52 | 44);
            if let (true, Some(Part::Raw(b))) = (simple, d.last_mut()) {
                let k = b.len();
                if k > 0 { if t == 1 || t == 28 || k >= 65535 || r.chance(1, 2) { b[k - 1] = r.u8(); } else { b.push(r.u8()); } }
                d
            } else { gen_rdata(r, t, &apex) }
        } else { gen_rdata(r, t, &apex) };
        if !datas.iter().any(|x| raw_canonical(x) == raw_canonical(&d)) { datas.push(d); }
    }
    // zone data may spell the owner differently from record to record
    let mixed_owner_case = r.chance(1, 4);
    let recs: Vec<Rec> = datas.iter().map(|d| Rec { owner: if mixed_owner_case { flip_case(r, &owner) } else { owner.clone() }, class, ttl, rtype: t, data: d.clone() }).collect();
    let zone = match parse_zone(&message(&recs, false)) { Ok(z) => z, Err(_) => { cx.rejected_gen += 1; return; } };
    let (inc, exp) = match r.below(6) {
        0 => (0xFFFF_FF00u32, 0x0000_0100u32),            // expiration numerically below inception, serially after
        1 => { let a = r.u32(); (a, a) }
        2 => { let a = r.u32(); (a, a.wrapping_add(0x7FFF_FFFF)) }
        _ => { let a = r.u32(); (a, a.wrapping_add(r.range(1, 1 << 24) as u32)) }
    };
    let ki = (idx as usize) % cx.keys.len();
    let key = SigningKey::new(to_name(&apex), cx.keys[ki].dnskey.flags(), RecKeyRef(&cx.keys[ki]));
    let dnskey = cx.keys[ki].dnskey.clone();
    let kalg = cx.keys[ki].alg.to_int();
    let ktag = dnskey.key_tag();

    // ---- sign (T2 kind sr)
    let mut case = format!("sr {} {} {} {} {} {}", kalg, ktag, hex(&wire(&apex)), inc, exp, zone.len());
    for z in &zone { case.push_str(&rec_words(&wire(&labels_of(z.owner())), t, class, ttl, &lib_canonical(z.data()))); }
    out.begin(&case);
    *cx.keys[ki].seen.borrow_mut() = None;
    let signed = catch_mut(|| {
        let rrset = Rrset::new_from_owned(&zone).map_err(|_| "empty")?;
        sign_rrset(&key, &rrset, Timestamp::from(inc), Timestamp::from(exp)).map_err(|_| "err")
    });
    cx.n_sign += 1;
    let scratch = cx.keys[ki].seen.borrow().clone();
    let rrsig_rr = match signed {
        Ok(Ok(rr)) => rr,
        Ok(Err(e)) => { out.case(&case, &format!("Err {}", e), false, "sign_rrset"); out.check(false, "honest_sign_fails", &case, e); return; }
        Err(p) => { out.case(&case, "Panic", false, "sign_rrset"); out.check(false, "panic_sign", &case, &p); return; }
    };
    let sig: Sig = rrsig_rr.data().clone();
    let f = sig_fields(&sig);
    let scratch = scratch.unwrap_or_default();
    out.case(&case, &format!("Ok {} {} {} {} {} {} {} {} {}", f.tc, f.alg, f.labels, f.ottl, f.exp, f.inc, f.kt, hex(&wire(&f.signer)), hex(&scratch)), true, "sign_rrset");
    // RRSIG RR envelope and fields (RFC 4035 2.2)
    let want_labels = if wildcard { owner.len() - 1 } else { owner.len() } as u8;
    out.check(f.labels == want_labels && f.tc == t && f.ottl == ttl && f.exp == exp && f.inc == inc && f.kt == ktag && f.alg == kalg
        && lower(&f.signer) == lower(&apex) && lower(&labels_of(rrsig_rr.owner())) == lower(&owner) && rrsig_rr.class().to_int() == class && rrsig_rr.ttl().as_secs() == ttl,
        "rrsig_fields_wrong", &case, &format!("{:?}", f));
    // signer octets against the independent RFC construction
    let own_canon: Vec<(Nm, u16, u16, Vec<u8>)> = datas.iter().map(|d| (owner.clone(), t, class, raw_canonical(d))).collect();
    let rfc = rfc_signed_data(&f, &own_canon);
    let cls = if scratch == rfc { "signed_data_not_rfc".to_string() } else { not_rfc_class(&f, &own_canon, &scratch) };
    out.check(scratch == rfc, &cls, &case, &format!("signer scratch {} rfc {}", hex(&scratch), hex(&rfc)));

    // ---- resolver views
    let plain: Vec<Rec> = recs.clone();
    let mut views: Vec<(&'static str, Vec<Rec>, bool)> = vec![("identity", plain.clone(), false)];
    { let mut v = plain.clone(); shuffle(r, &mut v); if r.chance(1, 2) { v.reverse(); } views.push(("reorder", v, false)); }
    { let v = plain.iter().map(|x| { let mut y = x.clone(); y.owner = flip_case(r, &x.owner);
          for p in y.data.iter_mut() { if let Part::Name { n, lower: true, .. } = p { *n = flip_case(r, n); } } y }).collect(); views.push(("case", v, false)); }
    { let v = plain.iter().map(|x| { let mut y = x.clone(); y.ttl = if ttl == 0 { 0 } else { r.below(ttl as u64 + 1) as u32 }; y }).collect(); views.push(("ttl", v, false)); }
    views.push(("compression", plain.clone(), true));
    if wildcard {
        let mut exp_labels = gen_name(r, 2, 40);
        if exp_labels.is_empty() { exp_labels.push(b"x".to_vec()); }
        while wire_len(&exp_labels) + wire_len(&owner) - 2 > 255 { exp_labels.pop(); if exp_labels.is_empty() { exp_labels.push(b"x".to_vec()); break; } }
        if wire_len(&exp_labels) + wire_len(&owner) - 3 <= 255 {
            let mut o = exp_labels.clone(); o.extend(owner[1..].iter().cloned());
            let v = plain.iter().map(|x| { let mut y = x.clone(); y.owner = o.clone(); y }).collect(); views.push(("wildcard", v, false));
        }
    }
    { // everything at once
        let mut v: Vec<Rec> = views.last().unwrap().1.clone();
        let o = flip_case(r, &v[0].owner);
        for y in v.iter_mut() { y.owner = o.clone(); y.ttl = if ttl == 0 { 0 } else { r.below(ttl as u64 + 1) as u32 };
            for p in y.data.iter_mut() { if let Part::Name { n, lower: true, .. } = p { *n = flip_case(r, n); } } }
        shuffle(r, &mut v);
        views.push(("all", v, true));
    }
    let mut honest: Option<(Vec<VRec>, Vec<u8>)> = None;
    for (tname, v, compress) in &views {
        let msg = message(v, *compress);
        let seen = match parse_resolver(&msg) { Ok(s) => s, Err(e) => { out.check(false, &format!("honest_verify_fails_{}", tname), &case, &format!("resolver parse: {}", e)); continue; } };
        let c = sd_case(&f, &seen);
        out.begin(&c);
        match lib_signed_data(&sig, &seen) {
            Err(p) => { out.case(&c, "Panic", false, "signed_data"); out.check(false, "panic_signed_data", &c, &p); }
            Ok(sd) => {
                out.case(&c, &hex(&sd), true, &format!("signed_data_{}", tname));
                let canon: Vec<(Nm, u16, u16, Vec<u8>)> = v.iter().map(|x| (x.owner.clone(), x.rtype, x.class, raw_canonical(&x.data))).collect();
                let rfc = rfc_signed_data(&f, &canon);
                let cls = if sd == rfc { "signed_data_not_rfc".to_string() } else { not_rfc_class(&f, &canon, &sd) };
                out.check(sd == rfc, &cls, &c, &format!("validator {} rfc {}", hex(&sd), hex(&rfc)));
                out.check(sd == scratch, &format!("validator_differs_from_signer_{}", tname), &c, &format!("signer {}", hex(&scratch)));
                cx.n_verify += 1;
                match lib_verify(&sig, &dnskey, &sd) {
                    Ok(true) => {}
                    Ok(false) => out.check(false, &format!("honest_verify_fails_{}", tname), &c, &format!("key alg {} tag {}", kalg, ktag)),
                    Err(p) => out.check(false, "panic_verify", &c, &p),
                }
                out.check(true, "honest", &c, "");
                if honest.is_none() || *tname == "all" { honest = Some((seen, sd)); }
            }
        }
    }
    // the RRSIG itself travels too: RRset and RRSIG in one message (the signer name possibly a compression
    // pointer), parsed, and turned into an owned value by each conversion the library offers; every path must
    // give back the same fields and signature, and the RRset must still verify under what came back
    if let Some((seen, sd0)) = &honest {
        let mut head = u16b(f.tc); head.push(f.alg); head.push(f.labels); head.extend(f.ottl.to_be_bytes());
        head.extend(f.exp.to_be_bytes()); head.extend(f.inc.to_be_bytes()); head.extend(u16b(f.kt));
        let sg = sig.signature().as_ref().to_vec();
        let mut with_sig: Vec<Rec> = plain.clone();
        with_sig.push(Rec { owner: plain[0].owner.clone(), class, ttl, rtype: 46,
            data: vec![Part::Raw(head), Part::Name { n: f.signer.clone(), lower: true, compress: true }, Part::Raw(sg.clone())] });
        for compress in [false, true] {
            let msg = message(&with_sig, compress);
            let mut paths: Vec<(&'static str, SigF, Vec<u8>, Result<Vec<u8>, String>)> = vec![];
            let run = |s: &dyn Fn(&mut Vec<u8>, &mut [VRec])| -> Result<Vec<u8>, String> {
                let mut recs: Vec<VRec> = seen.clone();
                catch_mut(move || { let mut buf: Vec<u8> = vec![]; s(&mut buf, &mut recs[..]); buf })
            };
            if let Ok(all) = parse_resolver(&msg) {
                if let Some(AllRecordData::Rrsig(p)) = all.last().map(|x| x.data().clone()) {
                    let p0 = p.clone();
                    paths.push(("parsed", sig_fields(&p0), p0.signature().as_ref().to_vec(), run(&|b, rs| { p0.signed_data(b, rs).unwrap(); })));
                    let fl: Rrsig<Bytes, Name<Bytes>> = p.clone().flatten_into();
                    paths.push(("flatten", sig_fields(&fl), fl.signature().as_ref().to_vec(), run(&|b, rs| { fl.signed_data(b, rs).unwrap(); })));
                    let rec_all: Record<Name<Bytes>, AllRecordData<Bytes, Name<Bytes>>> = Record::new(to_name(&plain[0].owner), domain::base::iana::Class::from_int(class), Ttl::from_secs(ttl), AllRecordData::Rrsig(p.clone())).flatten_into();
                    if let AllRecordData::Rrsig(x) = rec_all.data() { let x = x.clone();
                        paths.push(("all_record_data_flatten", sig_fields(&x), x.signature().as_ref().to_vec(), run(&|b, rs| { x.signed_data(b, rs).unwrap(); }))); }
                }
            }
            if let Ok(oc) = Rrsig::<Vec<u8>, Name<Vec<u8>>>::try_octets_from(sig.clone()) {
                paths.push(("octets_from", sig_fields(&oc), oc.signature().clone(), run(&|b, rs| { oc.signed_data(b, rs).unwrap(); })));
            }
            if let Ok(z) = parse_zone(&msg) {
                if let Some(ZoneRecordData::Rrsig(x)) = z.last().map(|x| x.data().clone()) {
                    paths.push(("zone_record_data_flatten", sig_fields(&x), x.signature().as_ref().to_vec(), run(&|b, rs| { x.signed_data(b, rs).unwrap(); })));
                }
            }
            out.check(paths.len() >= 5, "rrsig_roundtrip_unparsable", &case, &format!("{} of 5 conversion paths gave an RRSIG (compress {})", paths.len(), compress));
            for (name, f2, sg2, sd2) in paths {
                let c = format!("{} rrsig-path {} compress {}", case, name, compress);
                out.check(f2 == f && sg2 == sg, &format!("rrsig_fields_changed_{}", name), &c, &format!("{:?} vs {:?}", f2, f));
                match sd2 {
                    Err(p) => out.check(false, "panic_signed_data", &c, &p),
                    Ok(sd2) => {
                        out.check(sd2 == *sd0, &format!("signed_data_differs_after_{}", name), &c, &hex(&sd2));
                        out.check(lib_verify(&mk_sig(&f2, &sg2), &dnskey, &sd2) == Ok(true), &format!("honest_verify_fails_rrsig_{}", name), &c, "");
                    }
                }
            }
        }
    }
    // the signer name in another case is not an alteration
    {
        let mut f2 = f.clone(); f2.signer = flip_case(r, &f.signer);
        let s2 = mk_sig(&f2, sig.signature().as_ref());
        if let Some((seen, _)) = &honest {
            if let Ok(sd) = lib_signed_data(&s2, seen) {
                out.check(lib_verify(&s2, &dnskey, &sd) == Ok(true), "honest_verify_fails_signer_case", &case, "");
            }
        }
    }

    // a resolver view with one RR twice: the code keeps duplicates (RFC 4034 6.3 lets an
    // implementation treat them as a protocol error), so this is counted, not judged
    if idx % 7 == 0 && cx.keys[ki].inner.is_some() {
        let mut v = plain.clone(); v.push(plain[0].clone());
        if let Ok(seen) = parse_resolver(&message(&v, false)) {
            if let Ok(sd) = lib_signed_data(&sig, &seen) {
                cx.dup_views += 1;
                if lib_verify(&sig, &dnskey, &sd) == Ok(true) { cx.dup_views_verified += 1; }
            }
        }
    }

    // ---- alterations
    let Some((seen, sd)) = honest else { return; };
    let real = cx.keys[ki].inner.is_some();
    if !real { return; }
    let mut tamper = |out: &mut Out, field: &str, s: &Sig, recs: &[VRec], k: &Dnskey<Vec<u8>>, data: Option<&[u8]>| {
        cx.n_tamper += 1;
        let d = match data { Some(d) => Ok(d.to_vec()), None => lib_signed_data(s, recs) };
        let ok = match d { Err(_) => false, Ok(d) => matches!(lib_verify(s, k, &d), Ok(true)) };
        out.check(!ok, &format!("tamper_accepted_{}", field), &case, "verification succeeded after the alteration");
    };
    let sg = sig.signature().as_ref().to_vec();
    // RRSIG fields
    for (name, g) in [
        ("type_covered", Box::new(|x: &mut SigF| x.tc ^= 1 << 3) as Box<dyn Fn(&mut SigF)>),
        ("algorithm", Box::new(|x: &mut SigF| x.alg = if x.alg == 13 { 15 } else { 13 })),
        ("labels_plus", Box::new(|x: &mut SigF| x.labels = x.labels.wrapping_add(1))),
        ("labels_minus", Box::new(|x: &mut SigF| x.labels = x.labels.wrapping_sub(1))),
        ("original_ttl", Box::new(|x: &mut SigF| x.ottl ^= 1)),
        ("expiration", Box::new(|x: &mut SigF| x.exp = x.exp.wrapping_add(1))),
        ("inception", Box::new(|x: &mut SigF| x.inc = x.inc.wrapping_sub(1))),
        ("key_tag", Box::new(|x: &mut SigF| x.kt ^= 0x100)),
        ("signer_name", Box::new(|x: &mut SigF| { if let Some(l) = x.signer.first_mut() { l[0] = if l[0] == b'0' { b'1' } else { b'0' }; } else { x.signer.push(b"x".to_vec()); } })),
    ] {
        let mut f2 = f.clone(); g(&mut f2);
        if f2 == f { continue; }
        tamper(out, name, &mk_sig(&f2, &sg), &seen, &dnskey, None);
    }
    // expiration and inception exchanged
    if f.exp != f.inc { let mut f2 = f.clone(); std::mem::swap(&mut f2.exp, &mut f2.inc); tamper(out, "exp_inc_swapped", &mk_sig(&f2, &sg), &seen, &dnskey, None); }
    // signature bits
    { let mut s2 = sg.clone(); let i = r.below(s2.len() as u64) as usize; s2[i] ^= 1 << r.below(8); tamper(out, "signature_bit", &mk_sig(&f, &s2), &seen, &dnskey, None); }
    { let mut s2 = sg.clone(); s2.pop(); tamper(out, "signature_truncated", &mk_sig(&f, &s2), &seen, &dnskey, None); }
    // the signed octets themselves
    { let mut d2 = sd.clone(); let i = r.below(d2.len() as u64) as usize; d2[i] ^= 1 << r.below(8); tamper(out, "octets_bit", &sig, &seen, &dnskey, Some(&d2)); }
    // another key of the same algorithm, a damaged key
    if let Some(other) = cx.keys.iter().enumerate().find(|(i, k)| *i != ki && k.alg.to_int() == kalg && k.inner.is_some()) {
        tamper(out, "key_other", &sig, &seen, &other.1.dnskey, None);
    }
    { let mut pk = dnskey.public_key().clone(); let i = r.below(pk.len() as u64) as usize; pk[i] ^= 1 << r.below(8);
      let k2 = Dnskey::new(dnskey.flags(), dnskey.protocol(), dnskey.algorithm(), pk).unwrap(); tamper(out, "key_bit", &sig, &seen, &k2, None); }
    // records: RDATA, membership, class, owner
    let last = views.last().unwrap().1.clone();
    let reparse = |v: &Vec<Rec>| parse_resolver(&message(v, false)).ok();
    { // one octet of one raw part
        let mut v = last.clone(); let i = r.below(v.len() as u64) as usize; let mut done = false;
        for p in v[i].data.iter_mut() { if let Part::Raw(b) = p { if !b.is_empty() && !done && matches!(t, 1 | 28 | 61 | 65280 | 99) { let j = r.below(b.len() as u64) as usize; b[j] ^= 1 << r.below(8); done = true; } } }
        if done { if let Some(s) = reparse(&v) { tamper(out, "rdata", &sig, &s, &dnskey, None); } }
    }
    if last.len() > 1 { let mut v = last.clone(); v.pop(); if let Some(s) = reparse(&v) { tamper(out, "record_removed", &sig, &s, &dnskey, None); } }
    { let mut v = last.clone(); let mut extra = v[0].clone(); extra.data = gen_rdata(r, t, &apex);
      if !v.iter().any(|x| raw_canonical(&x.data) == raw_canonical(&extra.data)) { v.push(extra); if let Some(s) = reparse(&v) { tamper(out, "record_added", &sig, &s, &dnskey, None); } } }
    { let mut v = last.clone(); for x in v.iter_mut() { x.class ^= 2; } if let Some(s) = reparse(&v) { tamper(out, "class", &sig, &s, &dnskey, None); } }
    if f.labels > 0 { // an octet inside the labels that the RRSIG covers
        let mut v = last.clone();
        for x in v.iter_mut() { let n = x.owner.len(); let l = &mut x.owner[n - 1]; l[0] = if l[0] == b'0' { b'1' } else { b'0' }; }
        if let Some(s) = reparse(&v) { tamper(out, "owner", &sig, &s, &dnskey, None); }
    }
    if matches!(t, 2 | 5 | 12 | 15 | 33) { // an embedded name replaced by a different name
        let mut v = last.clone();
        for p in v[0].data.iter_mut() { if let Part::Name { n, .. } = p { n.insert(0, b"zz".to_vec()); if wire_len(n) > 250 { *n = vec![b"zz".to_vec()]; } } }
        if let Some(s) = reparse(&v) { tamper(out, "rdata_name", &sig, &s, &dnskey, None); }
    }
}

/// SigningKey owns its Inner; lend the recording key
struct RecKeyRef<'a>(&'a RecKey);
impl std::fmt::Debug for RecKeyRef<'_> { fn fmt(&self, f: &mut std::fmt::Formatter<'_>) -> std::fmt::Result { write!(f, "RecKeyRef") } }
impl SignRaw for RecKeyRef<'_> {
    fn algorithm(&self) -> SecurityAlgorithm { self.0.algorithm() }
    fn dnskey(&self) -> Dnskey<Vec<u8>> { self.0.dnskey() }
    fn sign_raw(&self, data: &[u8]) -> Result<Signature, SignError> { self.0.sign_raw(data) }
}

/// signer refusals, unsorted input to sign_sorted_rrset_in, duplicates: T2 only (fake key)
fn run_signer_cases(out: &mut Out, r: &mut Rng) {
    let fk = fake_key(r);
    let apex = gen_name(r, 2, 40);
    let mut owner = gen_name(r, 3, 60);
    if r.chance(1, 3) { owner.insert(0, b"*".to_vec()); }
    owner.extend(apex.iter().cloned());
    let t = if r.chance(1, 6) { 46 } else { *r.pick(&[1u16, 28, 16, 2, 15, 65280, 48]) };
    let n = r.range(1, 4);
    let ttl = r.range(0, 5000) as u32;
    let mixed_ttl = r.chance(1, 8);
    let mut recs: Vec<Rec> = vec![];
    for i in 0..n {
        let d = if t == 46 {
            let mut v = u16b(1); v.push(15); v.push(2); v.extend(r.bytes(12)); v.extend(u16b(r.u16()));
            vec![Part::Raw(v), Part::Name { n: apex.clone(), lower: true, compress: false }, Part::Raw(r.bytes(16))]
        } else if i > 0 && r.chance(1, 5) { recs[0].data.clone() } else { gen_rdata(r, t, &apex) };
        recs.push(Rec { owner: owner.clone(), class: 1, ttl: if mixed_ttl && i > 0 { ttl + 1 } else { ttl }, rtype: t, data: d });
    }
    let zone = match parse_zone(&message(&recs, false)) { Ok(z) => z, Err(_) => return };
    let (inc, exp) = match r.below(4) { 0 => { let a = r.u32(); (a, a.wrapping_sub(r.range(1, 1 << 30) as u32)) } 1 => { let a = r.u32(); (a, a.wrapping_add(0x8000_0000)) } _ => { let a = r.u32(); (a, a.wrapping_add(r.below(1 << 20) as u32)) } };
    let key = SigningKey::new(to_name(&apex), 256, RecKeyRef(&fk));
    let sorted_api = r.chance(1, 2);
    let mut case = format!("{} {} {} {} {} {} {}", if sorted_api { "ss" } else { "sr" }, fk.alg.to_int(), fk.dnskey.key_tag(), hex(&wire(&apex)), inc, exp, zone.len());
    for z in &zone { case.push_str(&rec_words(&wire(&owner), t, 1, z.ttl().as_secs(), &lib_canonical(z.data()))); }
    out.begin(&case);
    let res = catch_mut(|| {
        let rrset = Rrset::new_from_owned(&zone).map_err(|_| "empty")?;
        let rr = if sorted_api { sign_sorted_rrset_in(&key, &rrset, Timestamp::from(inc), Timestamp::from(exp), &mut vec![]) }
                 else { sign_rrset(&key, &rrset, Timestamp::from(inc), Timestamp::from(exp)) };
        rr.map_err(|e| match e { domain::dnssec::sign::error::SigningError::RrsigRrsMustNotBeSigned => "rrsig",
            domain::dnssec::sign::error::SigningError::InvalidSignatureValidityPeriod(_, _) => "period", _ => "other" })
    });
    let obs = match res {
        Err(_) => "Panic".to_string(),
        Ok(Err(e)) => format!("Err {}", e),
        Ok(Ok(rr)) => { let f = sig_fields(rr.data()); let scratch = fk.seen.borrow().clone().unwrap_or_default();
            format!("Ok {} {} {} {} {} {} {} {} {}", f.tc, f.alg, f.labels, f.ottl, f.exp, f.inc, f.kt, hex(&wire(&f.signer)), hex(&scratch)) }
    };
    // the property text does not say what happens for mixed TTLs; a refusal for RRSIG / period is required
    if t == 46 { out.check(obs == "Err rrsig", "rrsig_rrset_signed", &case, &obs); }
    else if !mixed_ttl {
        let lt = exp != inc && exp.wrapping_sub(inc) > 0x8000_0000; // RFC 1982: exp < inc
        out.check((obs == "Err period") == lt, "validity_period_check_wrong", &case, &obs);
        out.check(obs != "Panic", "panic_sign", &case, "");
    }
    out.case(&case, &obs, obs.starts_with("Ok"), if sorted_api { "sign_sorted" } else { "sign_rrset_fake" });
}

/// a small zone through SortedRecords and sign_sorted_zone_records: which RRsets
/// get an RRSIG (T2 kind zs; RFC 4035 2.2 computed here from the zone content),
/// and every RRSIG that comes back must verify over the RRset it names and be
/// made over the RFC octets
fn run_zone(out: &mut Out, r: &mut Rng, cx: &mut Ctx, idx: u64) {
    let mut apex = gen_name(r, 2, 40);
    if apex.is_empty() { apex.push(b"zone".to_vec()); }
    let ttl = r.range(1, 86400) as u32;
    let mut specs: Vec<Rec> = vec![];
    let under = |l: &[&[u8]], base: &Nm| -> Nm { let mut n: Nm = l.iter().map(|x| x.to_vec()).collect(); n.extend(base.iter().cloned()); n };
    let rrsig_rd = |r: &mut Rng, apex: &Nm| -> RData {
        let mut v = u16b(1); v.push(15); v.push(2); v.extend(r.bytes(12)); v.extend(u16b(r.u16()));
        vec![Part::Raw(v), Part::Name { n: apex.clone(), lower: true, compress: false }, Part::Raw(r.bytes(16))]
    };
    let add = |r: &mut Rng, specs: &mut Vec<Rec>, owner: &Nm, t: u16, n: u64, ttl: u32| {
        if wire_len(owner) > 220 { return; }
        if specs.iter().any(|x| lower(&x.owner) == lower(owner) && (x.rtype == t || (x.rtype == 5) != (t == 5) && (t == 5 || x.rtype == 5))) { return; }
        let ttl = specs.iter().find(|x| lower(&x.owner) == lower(owner) && x.rtype == t).map(|x| x.ttl).unwrap_or(ttl);
        let mut ds: Vec<RData> = vec![];
        for _ in 0..n { let d = if t == 46 { rrsig_rd(r, &apex) } else { gen_rdata(r, t, &apex) }; if !ds.iter().any(|x| raw_canonical(x) == raw_canonical(&d)) { ds.push(d); } }
        for d in ds { let o = if r.chance(1, 3) { flip_case(r, owner) } else { owner.clone() }; specs.push(Rec { owner: o, class: 1, ttl, rtype: t, data: d }); }
    };
    add(r, &mut specs, &apex, 6, 1, ttl); add(r, &mut specs, &apex, 2, 2, ttl); add(r, &mut specs, &apex, 48, 2, ttl);
    if r.chance(1, 2) { add(r, &mut specs, &apex, 59, 1, ttl); } if r.chance(1, 2) { add(r, &mut specs, &apex, 60, 1, ttl); }
    if r.chance(1, 3) { add(r, &mut specs, &apex, 46, 1, ttl); } if r.chance(1, 2) { add(r, &mut specs, &apex, 47, 1, ttl); }
    for _ in 0..r.range(2, 6) {
        let mut o = gen_name(r, 2, 40);
        if o.is_empty() { o.push(b"h".to_vec()); }
        if r.chance(1, 4) { o.insert(0, b"*".to_vec()); }
        o.extend(apex.iter().cloned());
        for _ in 0..r.range(1, 3) { let t = *r.pick(&[1u16, 28, 16, 15, 33, 52, 65, 257, 13, 99, 5, 35, 46, 47, 48, 59, 43]); let t_ttl = r.range(1, 86400) as u32;
            let cnt = if t == 5 { 1 } else { r.range(1, 3) };
            add(r, &mut specs, &o, t, cnt, t_ttl); }
    }
    // delegations: NS (+ DS, NSEC, other data) at the cut, glue, occluded names and a nested delegation below it
    for cutl in [&b"sub"[..], &b"Tcut"[..]] {
        if cutl == b"Tcut" && r.chance(1, 2) { continue; }
        let cut = under(&[cutl], &apex);
        add(r, &mut specs, &cut, 2, 2, ttl);
        if r.chance(3, 4) { add(r, &mut specs, &cut, 43, 1, ttl); } if r.chance(1, 2) { add(r, &mut specs, &cut, 47, 1, ttl); }
        if r.chance(1, 3) { add(r, &mut specs, &cut, 1, 1, ttl); } if r.chance(1, 4) { add(r, &mut specs, &cut, 46, 1, ttl); }
        add(r, &mut specs, &under(&[b"ns"], &cut), 1, 1, ttl);
        if r.chance(1, 2) { add(r, &mut specs, &under(&[b"deep", b"x"], &cut), 16, 1, ttl); }
        if r.chance(1, 2) { let n2 = under(&[b"sub2"], &cut); add(r, &mut specs, &n2, 2, 1, ttl); add(r, &mut specs, &n2, 43, 1, ttl); add(r, &mut specs, &under(&[b"a"], &n2), 1, 1, ttl); }
    }
    // names that sort right after a delegation, and a name that merely shares a label prefix with it
    add(r, &mut specs, &under(&[b"sub0"], &apex), 1, 1, ttl); add(r, &mut specs, &under(&[b"t"], &apex), 28, 1, ttl); add(r, &mut specs, &under(&[b"zz"], &apex), 16, 1, ttl);
    // records outside the zone, sorting before and after it
    if r.chance(2, 3) { let o = vec![b"0out".to_vec()]; if !lower(&o).ends_with(&lower(&apex)[..]) { add(r, &mut specs, &o, 1, 1, ttl); } }
    if r.chance(2, 3) { let mut o = vec![b"w".to_vec()]; let mut sib = lower(&apex); let k = sib.len() - 1; sib[k].push(b'z'); o.extend(sib); add(r, &mut specs, &o, 1, 1, ttl); }
    // SortedRecords::from removes exact duplicates (owner compared ignoring case)
    let dups = if r.chance(1, 2) { r.range(1, 3) } else { 0 };
    let n0 = specs.len();
    for _ in 0..dups { let mut d = specs[r.below(n0 as u64) as usize].clone(); d.owner = flip_case(r, &d.owner); specs.push(d); }
    shuffle(r, &mut specs);
    let mut zone: Vec<ZRec> = vec![];
    for chunk in specs.chunks(20) { match parse_zone(&message(chunk, false)) { Ok(z) => zone.extend(z), Err(_) => { cx.rejected_gen += 1; return; } } }
    let real: Vec<usize> = (0..cx.keys.len()).filter(|i| cx.keys[*i].inner.is_some()).collect();
    let k1 = real[(idx as usize) % real.len()];
    let k2 = real[(idx as usize / 3 + 1) % real.len()];
    let two = r.chance(1, 3) && k1 != k2 && cx.keys[k1].dnskey.key_tag() != cx.keys[k2].dnskey.key_tag();
    let key1 = SigningKey::new(to_name(&apex), 256, RecKeyRef(&cx.keys[k1]));
    let key2 = SigningKey::new(to_name(&apex), 257, RecKeyRef(&cx.keys[k2]));
    let keys: Vec<&SigningKey<Bytes, RecKeyRef>> = if two { vec![&key1, &key2] } else { vec![&key1] };
    let (inc, exp) = { let a = r.u32(); (a, a.wrapping_add(r.range(1, 1 << 24) as u32)) };
    let apex_name = to_name(&apex);
    let sorted: SortedRecords<Name<Bytes>, ZoneRecordData<Bytes, Name<Bytes>>> = SortedRecords::from(zone.clone());
    let mut case = format!("zs {} {} {}", hex(&wire(&apex)), keys.len(), sorted.len());
    for z in sorted.iter() { case.push_str(&format!(" {} {}", hex(&wire(&labels_of(z.owner()))), z.rtype().to_int())); }
    out.begin(&case);
    let res = catch_mut(|| {
        sign_sorted_zone_records(&apex_name, sorted.owner_rrs(), &keys, &GenerateRrsigConfig::new(Timestamp::from(inc), Timestamp::from(exp))).map_err(|e| format!("{}", e))
    });
    let rrsigs = match res {
        Err(p) => { out.case(&case, "Panic", false, "zone_selection"); out.check(false, "panic_sign", &case, &p); return; }
        Ok(Err(e)) => { out.case(&case, "Err", false, "zone_selection"); out.check(false, "honest_sign_fails", &case, &e); return; }
        Ok(Ok(v)) => v,
    };
    // the same through the model of SortedRecords::from (C13 sort + dedup), from the unsorted list
    let mut ucase = format!("zu {} {} {}", hex(&wire(&apex)), keys.len(), zone.len());
    for z in zone.iter() { ucase.push_str(&format!(" {} {} {} {}", hex(&wire(&labels_of(z.owner()))), z.rtype().to_int(),
        if matches!(z.data(), ZoneRecordData::Unknown(_)) { 1 } else { 0 }, hex(&lib_canonical(z.data())))); }
    let obs: Vec<String> = rrsigs.iter().map(|rr| format!("{}:{}", hex(&wire(&labels_of(rr.owner()))), rr.data().type_covered().to_int())).collect();
    out.case(&case, &if obs.is_empty() { "-".to_string() } else { obs.join(" ") }, !obs.is_empty(), "zone_selection");
    out.case(&ucase, &if obs.is_empty() { "-".to_string() } else { obs.join(" ") }, !obs.is_empty(), "zone_selection_unsorted");
    // ---- RFC 4035 2.2 from the zone content
    let lapex = lower(&apex);
    let below = |o: &Nm, c: &Nm| o.len() > c.len() && o[o.len() - c.len()..] == c[..];
    let in_zone = |o: &Nm| *o == lapex || below(o, &lapex);
    let mut owners: Vec<Nm> = specs.iter().map(|x| lower(&x.owner)).collect(); owners.sort(); owners.dedup();
    let cuts: Vec<Nm> = owners.iter().filter(|o| **o != lapex && in_zone(o) && specs.iter().any(|x| lower(&x.owner) == **o && x.rtype == 2)).cloned().collect();
    let mut want: Vec<(Nm, u16)> = vec![];
    for o in &owners {
        if !in_zone(o) || cuts.iter().any(|c| below(o, c)) { continue; }
        let at_cut = cuts.contains(o);
        let mut types: Vec<u16> = specs.iter().filter(|x| lower(&x.owner) == *o).map(|x| x.rtype).collect(); types.sort(); types.dedup();
        for t in types {
            let sign = if at_cut { t == 43 || t == 47 } else { t != 46 && !(*o == lapex && matches!(t, 48 | 59 | 60)) };
            if sign { want.push((o.clone(), t)); }
        }
    }
    let mut got: Vec<(Nm, u16)> = rrsigs.iter().map(|rr| (lower(&labels_of(rr.owner())), rr.data().type_covered().to_int())).collect();
    for w in &want {
        let n = got.iter().filter(|g| *g == w).count();
        out.check(n == keys.len(), "zone_rrset_not_signed", &case, &format!("owner {} type {}: {} RRSIGs for {} keys", hex(&wire(&w.0)), w.1, n, keys.len()));
    }
    got.sort(); got.dedup();
    for g in &got { out.check(want.contains(g), "zone_signs_non_authoritative", &case, &format!("owner {} type {}", hex(&wire(&g.0)), g.1)); }
    // ---- every RRSIG verifies
    for rr in &rrsigs {
        cx.zone_rrsigs += 1;
        let sig: Sig = rr.data().clone();
        let f = sig_fields(&sig);
        let owner = labels_of(rr.owner());
        let ki = if f.kt == cx.keys[k1].dnskey.key_tag() && f.alg == cx.keys[k1].alg.to_int() { k1 } else { k2 };
        let dnskey = cx.keys[ki].dnskey.clone();
        let mut members: Vec<ZRec> = sorted.iter().filter(|z| lower(&labels_of(z.owner())) == lower(&owner) && z.rtype().to_int() == f.tc).cloned().collect();
        let c = format!("zone {} rrsig owner {} type {}", idx, hex(&wire(&owner)), f.tc);
        let sig2 = sig.clone();
        let sd = catch_mut(move || { let mut buf: Vec<u8> = vec![]; sig2.signed_data(&mut buf, &mut members[..]).unwrap(); buf });
        match sd {
            Err(p) => out.check(false, "panic_signed_data", &c, &p),
            Ok(sd) => {
                out.check(lib_verify(&sig, &dnskey, &sd) == Ok(true), "zone_rrsig_does_not_verify", &c, "");
                let mut canon: Vec<(Nm, u16, u16, Vec<u8>)> = specs.iter().filter(|x| lower(&x.owner) == lower(&owner) && x.rtype == f.tc)
                    .map(|x| (lower(&x.owner), x.rtype, x.class, raw_canonical(&x.data))).collect();
                canon.sort(); canon.dedup();
                let rfc = rfc_signed_data(&f, &canon);
                let cls = if sd == rfc { "signed_data_not_rfc".to_string() } else { not_rfc_class(&f, &canon, &sd) };
                out.check(sd == rfc, &cls, &c, &format!("validator {} rfc {}", hex(&sd), hex(&rfc)));
            }
        }
    }
}

/// signatures made by other signers (ED25519.nl DNSKEY RRset; RFC 4035 B.6
/// wildcard expansion example): the validator primitives must accept them
fn known_answers(out: &mut Out) {
    use domain::utils::base64;
    use std::str::FromStr;
    let b64 = |s: &str| base64::decode::<Vec<u8>>(s).expect("base64");
    struct Ka { name: &'static str, recs: Vec<Rec>, f: SigF, sig: Vec<u8>, key: Dnskey<Vec<u8>> }
    let dnskey_rd = |flags: u16, alg: u8, pk: &[u8]| { let mut v = u16b(flags); v.push(3); v.push(alg); v.extend_from_slice(pk); vec![Part::Raw(v)] };
    let mut kas: Vec<Ka> = vec![];
    {
        let ksk = b64("m1NELLVVQKl4fHVn/KKdeNO0PrYKGT3IGbYseT8XcKo=");
        let zsk = b64("2tstZAjgmlDTePn0NVXrAHBJmg84LoaFVxzLl1anjGI=");
        let owner: Nm = vec![b"ED25519".to_vec(), b"nl".to_vec()];
        kas.push(Ka { name: "ed25519_nl_dnskey",
            recs: vec![Rec { owner: owner.clone(), class: 1, ttl: 0, rtype: 48, data: dnskey_rd(257, 15, &ksk) },
                       Rec { owner: owner.clone(), class: 1, ttl: 0, rtype: 48, data: dnskey_rd(256, 15, &zsk) }],
            f: SigF { tc: 48, alg: 15, labels: 2, ottl: 3600, exp: 1559174400, inc: 1557360000, kt: 45515, signer: owner },
            sig: b64("hvPSS3E9Mx7lMARqtv6IGiw0NE0uz0mZewndJCHTkhwSYqlasUq7KfO5QdtgPXja7YkTaqzrYUbYk01J8ICsAA=="),
            key: Dnskey::new(257, 3, SecurityAlgorithm::ED25519, ksk.clone()).unwrap() });
    }
    {
        let pk = b64("AQOy1bZVvpPqhg4j7EJoM9rI3ZmyEx2OzDBVrZy/lvI5CQePxXHZS4i8dANH4DX3tbHol61ek8EFMcsGXxKciJFHyhl94C+NwILQdzsUlSFovBZsyl/NX6yEbtw/xN9ZNcrbYvgjjZ/UVPZIySFNsgEYvh0z2542lzMKR4Dh8uZffQ==");
        let ts = |s: &str| Timestamp::from_str(s).unwrap().into_int();
        kas.push(Ka { name: "rfc4035_b6_wildcard",
            recs: vec![Rec { owner: vec![b"a".to_vec(), b"z".to_vec(), b"w".to_vec(), b"example".to_vec()], class: 1, ttl: 3600, rtype: 15,
                data: vec![Part::Raw(u16b(1)), Part::Name { n: vec![b"ai".to_vec(), b"example".to_vec()], lower: true, compress: true }] }],
            f: SigF { tc: 15, alg: 5, labels: 2, ottl: 3600, exp: ts("20040509183619"), inc: ts("20040409183619"), kt: 38519, signer: vec![b"example".to_vec()] },
            sig: b64("OMK8rAZlepfzLWW75Dxd63jy2wswESzxDKG2f9AMN1CytCd10cYISAxfAdvXSZ7xujKAtPbctvOQ2ofO7AZJ+d01EeeQTVBPq4/6KCWhqe2XTjnkVLNvvhnc0u28aoSsG0+4InvkkOHknKxw4kX18MMR34i8lC36SR5xBni8vHI="),
            key: Dnskey::new(256, 3, SecurityAlgorithm::RSASHA1, pk).unwrap() });
    }
    for ka in kas {
        let sig = mk_sig(&ka.f, &ka.sig);
        for compress in [false, true] {
            let Ok(seen) = parse_resolver(&message(&ka.recs, compress)) else { out.check(false, "known_answer_rejected", ka.name, "parse"); continue };
            let c = sd_case(&ka.f, &seen);
            out.begin(&c);
            match lib_signed_data(&sig, &seen) {
                Ok(sd) => {
                    out.case(&c, &hex(&sd), true, "signed_data_known_answer");
                    out.check(ka.key.key_tag() == ka.f.kt, "key_tag_mismatch", &c, ka.name);
                    out.check(lib_verify(&sig, &ka.key, &sd) == Ok(true), &format!("known_answer_rejected_{}", ka.name), &c, "a signature made by another signer does not verify");
                }
                Err(p) => { out.case(&c, "Panic", false, "signed_data_known_answer"); out.check(false, "panic_signed_data", &c, &p); }
            }
        }
    }
}

/// the public key field of a DNSKEY comes off the wire: every octet string must
/// give a result or an error from rsa_exponent_modulus, key_size and
/// verify_signed_data - never a panic, and never an accepted signature
fn run_key_parsing(out: &mut Out, r: &mut Rng) {
    use domain::crypto::common::{rsa_encode, rsa_exponent_modulus, AlgorithmError};
    let pk: Vec<u8> = match r.below(14) {
        0 => vec![],
        1 => vec![0],
        2 => vec![0, r.u8()],
        3 => vec![0, 0, r.u8(), 1, 2, 3],
        4 => { let l = r.range(1, 255) as u8; let mut v = vec![l]; v.extend(rb(r, 0, l as u64)); v }          // exponent fills or overruns the key
        5 => { let mut v = vec![0u8]; v.extend(u16b(r.range(256, 700) as u16)); v.extend(rb(r, 0, 800)); v }
        6 => { let mut v = vec![r.range(1, 4) as u8]; let n = v[0] as u64; v.extend(rb(r, n, n)); v }            // no modulus octets
        7 => { let el = r.range(1, 4); let mut v = vec![el as u8]; let mut e = rb(r, el, el); if r.chance(1, 3) { e[0] = 0; } v.extend(e);
               let mut n = rb(r, 1, 40); if r.chance(1, 3) { n[0] = 0; } v.extend(n); v }
        8 => { let mut v = vec![3u8, 1, 0, 1]; let nl = *r.pick(&[127u64, 128, 129, 255, 256, 257, 511, 512, 513, 600]); let mut n = rb(r, nl, nl); n[0] |= 1 << r.below(8); v.extend(n); v }
        9 => { let el = *r.pick(&[255u64, 256, 257, 512, 513]); let e = { let mut e = rb(r, el, el); e[0] |= 1; e }; let n = { let mut n = rb(r, 128, 128); n[0] |= 0x80; n };
               let mut v = if el < 256 { vec![el as u8] } else { let mut v = vec![0u8]; v.extend(u16b(el as u16)); v }; v.extend(e); v.extend(n); v }
        _ => rb(r, 0, 70),
    };
    let min_len = *r.pick(&[0usize, 1, 128, 129, 256]);
    let key = Dnskey::new(256, 3, SecurityAlgorithm::RSASHA256, pk.clone()).unwrap();
    let c = format!("rsa {} {}", min_len, hex(&pk));
    out.begin(&c);
    let k2 = key.clone();
    match catch_mut(move || rsa_exponent_modulus(&k2, min_len)) {
        Err(p) => { out.case(&c, "Panic", false, "rsa_parse"); out.check(false, "panic_rsa_parse", &c, &p); }
        Ok(res) => {
            let obs = match &res { Ok((e, n)) => format!("Ok {} {}", hex(e), hex(n)), Err(AlgorithmError::Unsupported) => "Err unsupported".into(), Err(_) => "Err invalid".into() };
            out.case(&c, &obs, res.is_ok(), "rsa_parse");
            // RFC 3110 section 2 written out here: exponent length in one octet (1..255) or 0 + two octets
            // (256..65535); exponent and modulus each 1..=512 octets (4096 bits) without a leading zero
            let want: Result<(Vec<u8>, Vec<u8>), &str> = (|| {
                let (el, rest): (usize, &[u8]) = match pk.first() {
                    None => return Err("invalid"),
                    Some(0) => { if pk.len() < 3 || pk[1] == 0 { return Err("invalid"); } (((pk[1] as usize) << 8) | pk[2] as usize, &pk[3..]) }
                    Some(&l) => (l as usize, &pk[1..]),
                };
                if rest.len() < el { return Err("invalid"); }
                let (e, n) = rest.split_at(el);
                for part in [e, n] { if part.is_empty() || part.len() > 512 || part[0] == 0 { return Err("invalid"); } }
                if n.len() < min_len { return Err("unsupported"); }
                Ok((e.to_vec(), n.to_vec()))
            })();
            let want_obs = match &want { Ok((e, n)) => format!("Ok {} {}", hex(e), hex(n)), Err(w) => format!("Err {}", w) };
            out.check(obs == want_obs, "rsa_parse_wrong", &c, &format!("have {} want {}", &obs[..obs.len().min(40)], &want_obs[..want_obs.len().min(40)]));
            if let Ok((e, n)) = &res {
                // RFC 3110 section 2 and the round trip through the encoder
                let good = |x: &Vec<u8>| !x.is_empty() && x.len() <= 512 && x[0] != 0;
                let back = Dnskey::new(256, 3, SecurityAlgorithm::RSASHA256, rsa_encode(e, n)).unwrap();
                out.check(good(e) && good(n) && n.len() >= min_len && pk.ends_with(n) && rsa_exponent_modulus(&back, 0) == Ok((e.clone(), n.clone())),
                    "rsa_roundtrip_wrong", &c, &obs);
            }
        }
    }
    if r.chance(1, 4) {
        let (mut e, mut n) = (rb(r, 0, 6), rb(r, 0, 12));
        if r.chance(1, 2) { e.insert(0, 0); e.insert(0, 0); } if r.chance(1, 2) { n.insert(0, 0); }
        if r.chance(1, 10) { e = { let mut x = rb(r, 256, 300); x[0] |= 1; x }; }
        let c = format!("renc {} {}", hex(&e), hex(&n));
        let (e2, n2) = (e.clone(), n.clone());
        match catch_mut(move || rsa_encode(&e2, &n2)) {
            Ok(k) => out.case(&c, &format!("Ok {}", hex(&k)), true, "rsa_encode"),
            Err(p) => { out.case(&c, "Panic", false, "rsa_encode"); out.check(false, "panic_rsa_encode", &c, &p); }
        }
    }
    {
        // a well-formed RSA key of at least 1024 bits must be taken as a key: a wrong signature then is BadSig,
        // and only a malformed or too short key is InvalidData / Unsupported
        let key8 = Dnskey::new(256, 3, SecurityAlgorithm::RSASHA256, pk.clone()).unwrap();
        if let Ok(parsed) = catch_mut(|| rsa_exponent_modulus(&key8, 0)) {
            let wellformed = { let good = |x: &[u8]| !x.is_empty() && x.len() <= 512 && x[0] != 0;
                match pk.first() { Some(0) if pk.len() >= 3 && pk[1] != 0 => { let el = ((pk[1] as usize) << 8) | pk[2] as usize; pk.len() >= 3 + el && good(&pk[3..3 + el]) && good(&pk[3 + el..]) && pk.len() - 3 - el >= 128 }
                                   Some(&l) if l != 0 => { let el = l as usize; pk.len() >= 1 + el && good(&pk[1..1 + el]) && good(&pk[1 + el..]) && pk.len() - 1 - el >= 128 } _ => false } };
            let f = SigF { tc: 1, alg: 8, labels: 0, ottl: 0, exp: 0, inc: 0, kt: 0, signer: vec![] };
            let sig = mk_sig(&f, &vec![1u8; 64]);
            let s2 = sig.clone(); let k2 = key8.clone();
            if let Ok(v) = catch_mut(move || s2.verify_signed_data(&k2, &vec![0u8; 10])) {
                let c = format!("rsa-verify {}", hex(&pk));
                if wellformed { out.check(v == Err(AlgorithmError::BadSig), "wellformed_rsa_key_refused", &c, &format!("{:?} (parse {:?})", v, parsed.is_ok())); }
                else { out.check(v.is_err() && v != Err(AlgorithmError::BadSig) || !parsed.is_ok() || v.is_err(), "tamper_accepted_malformed_key", &c, &format!("{:?}", v)); }
            }
        }
    }
    for alg in [*r.pick(&[5u8, 7, 8, 10]), *r.pick(&[13u8, 14, 15, 16, 1, 253, 3])] {
        let key = Dnskey::new(256, 3, SecurityAlgorithm::from_int(alg), pk.clone()).unwrap();
        let c = format!("ksz {} {}", alg, hex(&pk));
        out.begin(&c);
        let k2 = key.clone();
        match catch_mut(move || k2.key_size()) {
            Err(p) => { out.case(&c, "Panic", false, "key_size"); out.check(false, "panic_key_size", &c, &p); }
            Ok(res) => {
                let obs = match res { Ok(k) => format!("Ok {}", k), Err(AlgorithmError::Unsupported) => "Err unsupported".into(), Err(_) => "Err invalid".into() };
                out.case(&c, &obs, res.is_ok(), "key_size");
                // a key that parses has the size of its modulus
                if let (true, Ok((_, n))) = (matches!(alg, 5 | 7 | 8 | 10), rsa_exponent_modulus(&key, 0)) {
                    out.check(res == Ok(n.len() * 8 - n[0].leading_zeros() as usize), "key_size_wrong", &c, &obs);
                }
            }
        }
        // the algorithm of the RRSIG against the algorithm of the key, before any cryptography (T2 kind va)
        {
            let sa = if r.chance(1, 2) { alg } else { *r.pick(&[5u8, 7, 8, 10, 13, 14, 15, 16, 1, 253]) };
            let f = SigF { tc: 1, alg: sa, labels: 0, ottl: 0, exp: 0, inc: 0, kt: 0, signer: vec![] };
            let sig = mk_sig(&f, &[7u8; 64]);
            let k2 = key.clone();
            if let Ok(v) = catch_mut(move || sig.verify_signed_data(&k2, &vec![1u8, 2, 3])) {
                let c = format!("va {} {}", sa, alg);
                let obs = if sa != alg { match v { Err(AlgorithmError::InvalidData) => "Err invalid".to_string(), other => format!("{:?}", other.is_ok()) } } else { "-".to_string() };
                out.case(&c, &obs, sa != alg, "verify_algorithm_check");
                out.check(sa == alg || v == Err(AlgorithmError::InvalidData), "tamper_accepted_algorithm", &c, &format!("{:?}", v));
            }
        }
        // verification with such a key: an error, not a panic, never success
        let f = SigF { tc: 1, alg, labels: 0, ottl: 0, exp: 0, inc: 0, kt: 0, signer: vec![] };
        let sg = rb(r, 0, 130);
        let sig = mk_sig(&f, &sg);
        match lib_verify(&sig, &key, &rb(r, 0, 40)) {
            Err(p) => out.check(false, "panic_verify", &c, &p),
            Ok(ok) => out.check(!ok, "tamper_accepted_malformed_key", &c, "a random signature verified"),
        }
    }
}

/// the signer's validity period check across the 2^32 wrap (RFC 1982 through
/// Timestamp's PartialOrd): boundary distances on a fixed RRset, fake key
fn run_period(out: &mut Out, r: &mut Rng) {
    const B: [u32; 9] = [0, 1, 2, 0x7FFF_FFFE, 0x7FFF_FFFF, 0x8000_0000, 0x8000_0001, 0xFFFF_FFFE, 0xFFFF_FFFF];
    let inc = match r.below(3) { 0 => *r.pick(&B), 1 => r.pick(&B).wrapping_add(r.below(5) as u32).wrapping_sub(2), _ => r.u32() };
    let exp = inc.wrapping_add(match r.below(3) { 0 => *r.pick(&B), 1 => r.pick(&B).wrapping_add(r.below(5) as u32).wrapping_sub(2), _ => r.u32() });
    let fk = fake_key(r);
    let apex: Nm = vec![b"p".to_vec()];
    let owner: Nm = vec![b"w".to_vec(), b"p".to_vec()];
    let recs = vec![Rec { owner: owner.clone(), class: 1, ttl: 300, rtype: 1, data: vec![Part::Raw(vec![192, 0, 2, 1])] }];
    let Ok(zone) = parse_zone(&message(&recs, false)) else { return };
    let key = SigningKey::new(to_name(&apex), 256, RecKeyRef(&fk));
    let sorted_api = r.chance(1, 2);
    let case = format!("{} {} {} {} {} {} 1{}", if sorted_api { "ss" } else { "sr" }, fk.alg.to_int(), fk.dnskey.key_tag(), hex(&wire(&apex)), inc, exp,
        rec_words(&wire(&owner), 1, 1, 300, &[192, 0, 2, 1]));
    out.begin(&case);
    let res = catch_mut(|| {
        let rrset = Rrset::new_from_owned(&zone).map_err(|_| "empty")?;
        let rr = if sorted_api { sign_sorted_rrset_in(&key, &rrset, Timestamp::from(inc), Timestamp::from(exp), &mut vec![]) }
                 else { sign_rrset(&key, &rrset, Timestamp::from(inc), Timestamp::from(exp)) };
        rr.map_err(|e| match e { domain::dnssec::sign::error::SigningError::InvalidSignatureValidityPeriod(_, _) => "period", _ => "other" })
    });
    let obs = match res {
        Err(_) => "Panic".to_string(),
        Ok(Err(e)) => format!("Err {}", e),
        Ok(Ok(rr)) => { let f = sig_fields(rr.data()); let scratch = fk.seen.borrow().clone().unwrap_or_default();
            format!("Ok {} {} {} {} {} {} {} {} {}", f.tc, f.alg, f.labels, f.ottl, f.exp, f.inc, f.kt, hex(&wire(&f.signer)), hex(&scratch)) }
    };
    // RFC 1982 3.2 literally: exp < inc iff (exp < inc and inc - exp < 2^31) or (exp > inc and exp - inc > 2^31)
    let (e, i) = (exp as u64, inc as u64);
    let lt = (e < i && i - e < (1 << 31)) || (e > i && e - i > (1 << 31));
    out.check((obs == "Err period") == lt && (obs.starts_with("Ok") == !lt), "validity_period_check_wrong", &case, &obs);
    if let Some(rest) = obs.strip_prefix("Ok ") {
        let w: Vec<&str> = rest.split(' ').collect();
        out.check(w[4] == exp.to_string() && w[5] == inc.to_string(), "rrsig_fields_wrong", &case, &obs);
    }
    out.case(&case, &obs, true, "sign_period");
}

/// SortedRecords through every entry point (insert, extend, from_iter, From<Vec>)
/// in op sequences: the collection must at every point be the canonical sort of
/// what arrived, without duplicates (computed here independently), and what
/// sign_sorted_rrset_in makes of its RRsets - it trusts the order - must verify
fn run_sorted_ops(out: &mut Out, r: &mut Rng, cx: &mut Ctx, idx: u64) {
    type Sorted = SortedRecords<Name<Bytes>, ZoneRecordData<Bytes, Name<Bytes>>>;
    let apex: Nm = vec![b"ex".to_vec()];
    // a small pool: few owners, few types, several records per RRset with close RDATA
    let mut specs: Vec<Rec> = vec![];
    let owners: Vec<Nm> = { let mut v = vec![apex.clone()]; for l in [&b"a"[..], &b"www"[..], &b"Zz"[..]] { if r.chance(2, 3) { let mut n = vec![l.to_vec()]; n.extend(apex.iter().cloned()); v.push(n); } } v };
    for o in &owners {
        for t in [1u16, 2, 15, 16, 65280] {
            if !r.chance(1, 2) { continue; }
            let n = r.range(1, 4);
            let mut ds: Vec<RData> = vec![];
            for _ in 0..n {
                let d = match t { 1 => vec![Part::Raw(vec![192, 0, 2, r.below(6) as u8])], 65280 => vec![Part::Raw(rb(r, 0, 3))], _ => gen_rdata(r, t, &apex) };
                if !ds.iter().any(|x| raw_canonical(x) == raw_canonical(&d)) { ds.push(d); }
            }
            for d in ds { specs.push(Rec { owner: o.clone(), class: 1, ttl: 300, rtype: t, data: d }); }
        }
    }
    if specs.is_empty() { return; }
    // independent canonical key: owner labels from the right in lower case, type, canonical RDATA
    let key = |x: &Rec| -> (Vec<Vec<u8>>, u16, Vec<u8>) { let mut o = lower(&x.owner); o.reverse(); (o, x.rtype, raw_canonical(&x.data)) };
    let mut asc: Vec<Rec> = specs.clone();
    asc.sort_by(|a, b| key(a).cmp(&key(b)));
    // ---- the arrival sequence
    enum Op { Insert(Rec), Extend(Vec<Rec>), FromVec(Vec<Rec>), FromIter(Vec<Rec>) }
    let mut ops: Vec<Op> = vec![];
    let vary = |r: &mut Rng, x: &Rec| { let mut y = x.clone(); if r.chance(1, 3) { y.owner = flip_case(r, &y.owner); } y };
    match r.below(6) {
        0 => { let mut v = specs.clone(); shuffle(r, &mut v); for x in v { ops.push(Op::Insert(x)); } }
        1 | 2 => {
            // zone order, but the RRset at the very end arrives in descending RDATA order
            let last = asc.last().unwrap().clone();
            let (head, tail): (Vec<Rec>, Vec<Rec>) = asc.iter().cloned().partition(|x| !(lower(&x.owner) == lower(&last.owner) && x.rtype == last.rtype));
            if r.chance(1, 2) { ops.push(Op::FromVec(head)); } else { for x in head { ops.push(Op::Insert(x)); } }
            for x in tail.into_iter().rev() { ops.push(Op::Insert(x)); }
        }
        3 => {
            // a later part first, then an internally sorted batch that sorts before the tail
            let k = r.below(asc.len() as u64 + 1) as usize;
            ops.push(if r.chance(1, 2) { Op::FromIter(asc[k..].to_vec()) } else { Op::Extend(asc[k..].to_vec()) });
            ops.push(Op::Extend(asc[..k].to_vec()));
        }
        4 => { let mut v = asc.clone(); v.reverse(); for x in v { if r.chance(1, 3) { ops.push(Op::Extend(vec![x])); } else { ops.push(Op::Insert(x)); } } }
        _ => {
            let mut v = specs.clone(); shuffle(r, &mut v);
            while !v.is_empty() { let k = r.range(1, 4).min(v.len() as u64) as usize; let batch: Vec<Rec> = v.drain(..k).collect();
                if r.chance(1, 2) { ops.push(Op::Extend(batch)); } else { for x in batch { ops.push(Op::Insert(x)); } } }
        }
    }
    // duplicates of what has been seen, the owner possibly in another case
    for _ in 0..r.below(3) { let base = r.pick(&specs).clone(); let x = vary(r, &base); let at = r.below(ops.len() as u64 + 1) as usize; ops.insert(at, if r.chance(1, 2) { Op::Insert(x) } else { Op::Extend(vec![x]) }); }
    // ---- run on the implementation
    let to_z = |v: &[Rec]| -> Option<Vec<ZRec>> { let mut z = vec![]; for c in v.chunks(20) { z.extend(parse_zone(&message(c, false)).ok()?); } Some(z) };
    let word = |z: &ZRec| format!("{} {} {} {}", hex(&wire(&labels_of(z.owner()))), z.rtype().to_int(), if matches!(z.data(), ZoneRecordData::Unknown(_)) { 1 } else { 0 }, hex(&lib_canonical(z.data())));
    let mut case = format!("so {}", ops.len());
    let mut arrivals: Vec<Rec> = vec![];
    let mut want_flags = String::new();
    let mut zops: Vec<(bool, Vec<ZRec>)> = vec![];
    for op in &ops {
        let (is_insert, recs): (bool, Vec<Rec>) = match op { Op::Insert(x) => (true, vec![x.clone()]), Op::Extend(v) | Op::FromVec(v) | Op::FromIter(v) => (false, v.clone()) };
        let Some(z) = to_z(&recs) else { cx.rejected_gen += 1; return; };
        if is_insert { case.push_str(&format!(" I {}", word(&z[0]))); want_flags.push(if arrivals.iter().any(|a| key(a) == key(&recs[0])) { '0' } else { '1' }); }
        else { case.push_str(&format!(" E {}", z.len())); for x in &z { case.push(' '); case.push_str(&word(x)); } }
        arrivals.extend(recs);
        zops.push((is_insert, z));
    }
    out.begin(&case);
    let ops_ref = &ops;
    let res = catch_mut(move || {
        let mut coll: Sorted = Sorted::new();
        let mut flags = String::new();
        for (i, (is_insert, z)) in zops.into_iter().enumerate() {
            if is_insert { flags.push(if coll.insert(z.into_iter().next().unwrap()).is_ok() { '1' } else { '0' }); }
            else { match &ops_ref[i] {
                Op::FromVec(_) if i == 0 => { coll = Sorted::from(z); }
                Op::FromIter(_) if i == 0 => { coll = z.into_iter().collect(); }
                _ => coll.extend(z),
            } }
        }
        (coll, flags)
    });
    let (coll, flags) = match res { Ok(x) => x, Err(p) => { out.case(&case, "Panic", false, "sorted_ops"); out.check(false, "panic_sorted_records", &case, &p); return; } };
    let fin: Vec<String> = coll.iter().map(|z| format!("{}:{}:{}", hex(&wire(&labels_of(z.owner()))), z.rtype().to_int(), hex(&lib_canonical(z.data())))).collect();
    out.case(&case, &format!("{} {}", if flags.is_empty() { "-".to_string() } else { flags.clone() }, if fin.is_empty() { "-".to_string() } else { fin.join(" ") }), true, "sorted_ops");
    // ---- independent expectation: stable canonical sort of the arrivals, first of equals kept
    let mut exp: Vec<&Rec> = arrivals.iter().collect();
    exp.sort_by(|a, b| key(a).cmp(&key(b)));
    exp.dedup_by(|b, a| key(a) == key(b));
    let want: Vec<String> = exp.iter().map(|x| format!("{}:{}:{}", hex(&wire(&x.owner)), x.rtype, hex(&raw_canonical(&x.data)))).collect();
    out.check(fin == want, "sorted_records_not_canonical", &case, &format!("have [{}] want [{}]", fin.join(" "), want.join(" ")));
    out.check(flags == want_flags, "sorted_records_insert_result_wrong", &case, &format!("have {} want {}", flags, want_flags));
    // ---- sign_sorted_rrset_in trusts the order of the collection
    let ki = cx.keys.iter().position(|k| k.inner.is_some() && k.alg.to_int() == 15).unwrap_or(0);
    if cx.keys[ki].inner.is_none() { return; }
    let key_s = SigningKey::new(to_name(&apex), 256, RecKeyRef(&cx.keys[ki]));
    let dnskey = cx.keys[ki].dnskey.clone();
    for (n, rrset) in coll.rrsets().enumerate() {
        if n % 2 == (idx % 2) as usize && coll.len() > 12 { continue; }
        let c = format!("{} rrset {} type {}", case, hex(&wire(&labels_of(rrset.owner()))), rrset.rtype().to_int());
        let signed = catch_mut(|| sign_sorted_rrset_in(&key_s, &rrset, Timestamp::from(1), Timestamp::from(1000), &mut vec![]).map_err(|_| "err"));
        match signed {
            Err(p) => out.check(false, "panic_sign", &c, &p),
            Ok(Err(_)) => out.check(false, "honest_sign_fails", &c, ""),
            Ok(Ok(rr)) => {
                let sig: Sig = rr.data().clone();
                let mut members: Vec<ZRec> = rrset.iter().cloned().collect();
                let sig2 = sig.clone();
                match catch_mut(move || { let mut buf: Vec<u8> = vec![]; sig2.signed_data(&mut buf, &mut members[..]).unwrap(); buf }) {
                    Err(p) => out.check(false, "panic_signed_data", &c, &p),
                    Ok(sd) => {
                        cx.n_verify += 1;
                        out.check(lib_verify(&sig, &dnskey, &sd) == Ok(true), "honest_verify_fails_sorted_records", &c, "an RRset taken from SortedRecords, signed by sign_sorted_rrset_in, does not verify");
                    }
                }
            }
        }
    }
}
fn main() {
    let a = args();
    let mut out = Out::new(&a, "C12", 120);
    let mut r = Rng::new(a.seed);
    let repo = std::env::var("VERIF_REPO").unwrap_or_else(|_| "/repo".to_string());
    // ---- keys (ring): generated Ed25519 / ECDSA P-256 / P-384, RSA imported from the repository's test keys
    let mut keys: Vec<RecKey> = vec![];
    let mut keygen_failed = 0u64;
    for p in [GenerateParams::Ed25519, GenerateParams::EcdsaP256Sha256, GenerateParams::Ed25519, GenerateParams::EcdsaP256Sha256, GenerateParams::EcdsaP384Sha384, GenerateParams::EcdsaP384Sha384] {
        let flags = if keys.len() % 2 == 0 { 256 } else { 257 };
        match generate(&p, flags).ok().and_then(|(sk, pk)| KeyPair::from_bytes(&sk, &pk).ok()) {
            Some(kp) => keys.push(real_key(kp)),
            // the harness could not construct a key (system randomness): counted, not judged
            None => keygen_failed += 1,
        }
    }
    let mut rsa = 0;
    for base in ["Ktest.+008+60616", "Ktest.+010+46731"] {
        if let Some(kp) = load_bind_key(&repo, base) { keys.push(real_key(kp)); rsa += 1; }
    }
    let n_real = keys.len();
    // without any real key nothing of the property can be exercised: that is a harness failure worth reporting
    out.check(n_real > 0, "no_signing_keys", "setup", "neither key generation nor the repository's test keys gave a usable key");
    if n_real == 0 { out.finish(&[]); return; }
    if std::env::var("C12_TIMING").is_ok() { eprintln!("keys ready"); }
    let mut cx = Ctx { keys, n_sign: 0, n_verify: 0, n_tamper: 0, rejected_gen: 0, dup_views: 0, dup_views_verified: 0, zone_rrsigs: 0 };

    // ---- corpus: key tags and DS digests of the repository's BIND-generated keys (independent known answers)
    let dir = format!("{}/test-data/dnssec-keys/", repo);
    let mut known = 0;
    if let Ok(rd) = std::fs::read_dir(&dir) {
        let mut names: Vec<String> = rd.filter_map(|e| e.ok()).map(|e| e.file_name().to_string_lossy().to_string()).filter(|n| n.ends_with(".key")).collect();
        names.sort();
        for n in names {
            let Ok(txt) = std::fs::read_to_string(format!("{}{}", dir, n)) else { continue };
            let Ok(rec) = domain::dnssec::common::parse_from_bind::<Vec<u8>>(&txt) else { continue };
            let tag_in_name: Option<u16> = n.trim_end_matches(".key").rsplit('+').next().and_then(|s| s.parse().ok());
            let k = rec.data();
            let c = format!("kt {} {} {} {}", k.flags(), k.protocol(), k.algorithm().to_int(), hex(k.public_key()));
            out.case(&c, &format!("Ok {}", k.key_tag()), true, "key_tag_bind");
            if let Some(t) = tag_in_name { out.check(k.key_tag() == t, "key_tag_mismatch", &c, &format!("{} vs file name {}", k.key_tag(), t)); known += 1; }
            if let Ok(ds) = std::fs::read_to_string(format!("{}{}", dir, n.replace(".key", ".ds"))) {
                let w: Vec<&str> = ds.split_whitespace().collect();
                if let Some(p) = w.iter().position(|x| *x == "DS") {
                    let dt: u8 = w[p + 3].parse().unwrap_or(0);
                    let want = w[p + 4..].concat().to_lowercase();
                    let owner = labels_of(rec.owner());
                    let c = format!("ds {} {} {} {} {} {}", dt, hex(&wire(&owner)), k.flags(), k.protocol(), k.algorithm().to_int(), hex(k.public_key()));
                    let got = k.digest(rec.owner(), DigestAlgorithm::from_int(dt)).map(|d| hex(d.as_ref()));
                    out.case(&c, &match &got { Ok(h) => format!("Ok {}", h), Err(_) => "Err unsupported".into() }, true, "ds_bind");
                    out.check(got.as_deref().ok() == Some(want.as_str()), "ds_digest_mismatch", &c, &format!("{:?} vs file {}", got, want));
                }
            }
        }
    }

    known_answers(&mut out);
    // label counts: only a LEFTMOST asterisk label is left out
    for (txt, want) in [("a.*.example", 3u8), ("*.*.example", 2), ("*.example", 1), ("*", 0), ("", 0), ("**.example", 2), ("*.a.*.b", 3),
                        ("x.*", 2), ("*.*", 1), ("*.*.*", 2), ("a.b.c.d", 4), ("*a.example", 2), ("\\*.example", 1)] {
        let n: Nm = if txt.is_empty() { vec![] } else { txt.replace("\\", "").split('.').map(|l| l.as_bytes().to_vec()).collect() };
        let c = format!("lc {}", hex(&wire(&n)));
        let lc = to_name(&n).rrsig_label_count();
        out.case(&c, &format!("{}", lc), true, "label_count_corpus");
        out.check(lc == want, "label_count_wrong", &c, &format!("{} has {} want {}", txt, lc, want));
    }

    // ---- RRsets: sign, rebuild, verify, tamper
    let n_sets = if a.thorough { 6000 } else { 300 } * a.scale;
    let mut idx = 0u64;
    for _ in 0..n_sets {
        idx += 1;
        let mut rr = r.fork();
        if !out.wants(idx) { continue; }
        run_rrset(&mut out, &mut rr, &mut cx, idx);
    }
    if std::env::var("C12_TIMING").is_ok() { eprintln!("rrsets done"); }
    // ---- whole zones through SortedRecords / sign_sorted_zone_records
    for _ in 0..(if a.thorough { 1500 } else { 80 } * a.scale) {
        idx += 1;
        let mut rr = r.fork();
        if !out.wants(idx) { continue; }
        let t0 = std::time::Instant::now();
        run_zone(&mut out, &mut rr, &mut cx, idx);
        if std::env::var("C12_TIMING").is_ok() { eprintln!("zone {} key {} {:?}", idx, idx as usize % cx.keys.len(), t0.elapsed()); }
    }
    // ---- signer refusals / given order / duplicates (fake key, T2)
    for _ in 0..(if a.thorough { 8000 } else { 600 } * a.scale) {
        idx += 1;
        let mut rr = r.fork();
        if !out.wants(idx) { continue; }
        run_signer_cases(&mut out, &mut rr);
    }
    // ---- SortedRecords entry points in op sequences
    for _ in 0..(if a.thorough { 6000 } else { 300 } * a.scale) {
        idx += 1;
        let mut rr = r.fork();
        if !out.wants(idx) { continue; }
        run_sorted_ops(&mut out, &mut rr, &mut cx, idx);
    }
    // ---- validity period across the wrap
    for _ in 0..(if a.thorough { 6000 } else { 400 } * a.scale) {
        idx += 1;
        let mut rr = r.fork();
        if !out.wants(idx) { continue; }
        run_period(&mut out, &mut rr);
    }
    // ---- validator signed_data on arbitrary RRSIG fields (labels above, equal, below the owner's; foreign signer)
    for _ in 0..(if a.thorough { 8000 } else { 500 } * a.scale) {
        idx += 1;
        let mut r = r.fork();
        if !out.wants(idx) { continue; }
        let owner = gen_name(&mut r, 5, 120);
        let t = *r.pick(&[1u16, 16, 15, 47, 65280, 2]);
        let n = r.range(1, 4);
        let recs: Vec<Rec> = (0..n).map(|_| Rec { owner: if r.chance(1, 4) { flip_case(&mut r, &owner) } else { owner.clone() }, class: 1, ttl: r.u32() >> 1, rtype: t, data: gen_rdata(&mut r, t, &owner) }).collect();
        let Ok(seen) = parse_resolver(&message(&recs, false)) else { continue };
        let labels = match r.below(4) { 0 => owner.len() as u8, 1 => r.below(owner.len() as u64 + 1) as u8, 2 => owner.len() as u8 + 1 + r.below(3) as u8, _ => r.u8() };
        let f = SigF { tc: if r.chance(1, 4) { r.u16() } else { t }, alg: r.u8(), labels, ottl: r.u32(), exp: r.u32(), inc: r.u32(), kt: r.u16(), signer: gen_name(&mut r, 3, 60) };
        let sig = mk_sig(&f, &[0u8; 8]);
        let c = sd_case(&f, &seen);
        out.begin(&c);
        match lib_signed_data(&sig, &seen) {
            Ok(sd) => {
                out.case(&c, &hex(&sd), true, "signed_data_free");
                if (labels as usize) <= owner.len() {
                    let canon: Vec<(Nm, u16, u16, Vec<u8>)> = recs.iter().map(|x| (x.owner.clone(), x.rtype, x.class, raw_canonical(&x.data))).collect();
                    // duplicates (same canonical RDATA) are kept by the code, as in the RFC construction here
                    let rfc = rfc_signed_data(&f, &canon);
                    let cls = if sd == rfc { "signed_data_not_rfc".to_string() } else { not_rfc_class(&f, &canon, &sd) };
                    out.check(sd == rfc, &cls, &c, &hex(&sd));
                }
            }
            Err(p) => { out.case(&c, "Panic", false, "signed_data_free"); out.check(false, "panic_signed_data", &c, &p); }
        }
        // closest encloser and label count
        let oname = to_name(&owner);
        let c2 = format!("wce {} {}", labels, hex(&wire(&owner)));
        let w = catch_mut(|| sig.wildcard_closest_encloser(&seen[0].clone()));
        let own0 = labels_of(seen[0].owner());
        let c2 = if own0 != owner { format!("wce {} {}", labels, hex(&wire(&own0))) } else { c2 };
        match w {
            Ok(w) => {
                out.case(&c2, &match &w { Some(n) => format!("Some {}", hex(n.as_slice())), None => "None".into() }, true, "wce");
                let want = if (labels as usize) < own0.len() { Some(wire(&own0[own0.len() - labels as usize..].to_vec())) } else { None };
                out.check(w.as_ref().map(|n| n.as_slice().to_vec()) == want, "closest_encloser_wrong", &c2, "");
            }
            Err(p) => { out.case(&c2, "Panic", false, "wce"); out.check(false, "panic_wce", &c2, &p); }
        }
        let mut o2 = owner.clone(); if r.chance(1, 2) { o2.insert(0, b"*".to_vec()); if wire_len(&o2) > 255 { o2.remove(1); } }
        let c3 = format!("lc {}", hex(&wire(&o2)));
        let lc = to_name(&o2).rrsig_label_count();
        out.case(&c3, &format!("{}", lc), true, "label_count");
        let want = if o2.first().map(|l| l.as_slice() == b"*").unwrap_or(false) { o2.len() - 1 } else { o2.len() };
        out.check(lc as usize == want, "label_count_wrong", &c3, &format!("{}", lc));
        let _ = oname;
    }
    if std::env::var("C12_TIMING").is_ok() { eprintln!("free cases done"); }
    // ---- public key field parsing
    for _ in 0..(if a.thorough { 20000 } else { 1200 } * a.scale) {
        idx += 1;
        let mut rr = r.fork();
        if !out.wants(idx) { continue; }
        run_key_parsing(&mut out, &mut rr);
    }
    // ---- key tags and DS digests
    for i in 0..(if a.thorough { 20000 } else { 1500 } * a.scale) {
        idx += 1;
        if !out.wants(idx) { continue; }
        let alg = match r.below(6) { 0 => 1u8, 1 => r.u8(), _ => *r.pick(&[8u8, 13, 15, 5, 10, 14]) };
        let len = match r.below(120) { 0..=9 => r.below(4) as usize, 10 => 65531, 11 => 65530, 12 => 65531 - r.below(3000) as usize, 13..=16 => r.range(1000, 9000) as usize, _ => r.range(4, 300) as usize };
        let pk = match r.below(8) { 0 => vec![0xFFu8; len], 1 => vec![0u8; len], _ => r.bytes(len) };
        let (flags, proto) = (if r.chance(1, 2) { r.u16() } else { *r.pick(&[256u16, 257, 0xFFFF]) }, if r.chance(1, 4) { r.u8() } else { 3 });
        let c = format!("kt {} {} {} {}", flags, proto, alg, hex(&pk));
        out.begin(&c);
        let pk2 = pk.clone();
        let got = catch_mut(move || Dnskey::new(flags, proto, SecurityAlgorithm::from_int(alg), pk2).map(|k| k.key_tag()));
        match got {
            Ok(Ok(tag)) => {
                out.case(&c, &format!("Ok {}", tag), true, if alg == 1 { "key_tag_alg1" } else { "key_tag" });
                let mut rdata = u16b(flags); rdata.push(proto); rdata.push(alg); rdata.extend_from_slice(&pk);
                let want = if alg == 1 { if pk.len() >= 3 { u16::from_be_bytes([pk[pk.len() - 3], pk[pk.len() - 2]]) } else { 0 } } else { rfc_keytag(&rdata) };
                // for algorithm 1 with fewer than three octets RFC 4034 says nothing: only the model is compared
                if alg != 1 || pk.len() >= 3 { out.check(tag == want, "key_tag_mismatch", &c, &format!("{} vs {}", tag, want)); }
            }
            Ok(Err(_)) => { out.check(false, "key_tag_mismatch", &c, "Dnskey::new refused RDATA of at most 65535 octets"); }
            Err(p) => { out.case(&c, "Panic", false, "key_tag"); out.check(false, "panic_key_tag", &c, &p); }
        }
        if i % 5 == 0 && pk.len() < 2000 {
            let owner = gen_name(&mut r, 4, 100);
            let dalg = *r.pick(&[2u8, 2, 2, 1, 4, 3, 0]);
            let c = format!("ds {} {} {} {} {} {}", dalg, hex(&wire(&owner)), flags, proto, alg, hex(&pk));
            let k = Dnskey::new(flags, proto, SecurityAlgorithm::from_int(alg), pk.clone()).unwrap();
            let got = k.digest(&to_name(&owner), DigestAlgorithm::from_int(dalg)).map(|d| d.as_ref().to_vec());
            out.case(&c, &match &got { Ok(h) => format!("Ok {}", hex(h)), Err(_) => "Err unsupported".into() }, got.is_ok(), "ds_digest");
            if dalg == 2 {
                let mut inp = wire(&lower(&owner)); inp.extend(u16b(flags)); inp.push(proto); inp.push(alg); inp.extend_from_slice(&pk);
                out.check(got.as_ref().ok() == Some(&sha256(&inp)), "ds_digest_mismatch", &c, "");
            }
            // owner case must not matter
            let got2 = k.digest(&to_name(&flip_case(&mut r, &owner)), DigestAlgorithm::from_int(dalg)).map(|d| d.as_ref().to_vec());
            out.check(got.is_ok() == got2.is_ok() && got.ok() == got2.ok(), "ds_digest_case_sensitive", &c, "");
        }
    }
    // keys in use: tag and digest
    for k in cx.keys.iter() {
        let d = &k.dnskey;
        let mut rdata = u16b(d.flags()); rdata.push(d.protocol()); rdata.push(d.algorithm().to_int()); rdata.extend_from_slice(d.public_key());
        let c = format!("kt {} {} {} {}", d.flags(), d.protocol(), d.algorithm().to_int(), hex(d.public_key()));
        out.case(&c, &format!("Ok {}", d.key_tag()), true, "key_tag");
        out.check(d.key_tag() == rfc_keytag(&rdata), "key_tag_mismatch", &c, "");
    }
    let extra = [("rrsets_signed", format!("{}", cx.n_sign)), ("verifications", format!("{}", cx.n_verify)),
        ("alterations", format!("{}", cx.n_tamper)), ("real_keys", format!("{}", n_real)), ("rsa_keys", format!("{}", rsa)),
        ("bind_known_answers", format!("{}", known)), ("key_generation_failed", format!("{}", keygen_failed)), ("generator_rejected", format!("{}", cx.rejected_gen)),
        ("zone_rrsigs_verified", format!("{}", cx.zone_rrsigs)), ("duplicate_rr_views", format!("{}", cx.dup_views)),
        ("duplicate_rr_views_that_verified", format!("{}", cx.dup_views_verified))];
    out.finish(&extra);
}
