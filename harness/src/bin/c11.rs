//! C11 -- TSIG: correspondence cases for the Coq model (signed octets, MACs,
//! accept/reject + error class, restored octets, sequences) and the property
//! oracle on the implementation.  The oracle has its own RFC 8945 reference:
//! SHA-1/SHA-2 + HMAC written here (independent of ring and of the model) and
//! the digest input of section 4.3 assembled by hand.
//!
//! Case syntax (K = alg secret-hex keyname-wire-hex min|- sign|-):
//!   newkey alg min|- sign|-                      -> Ok min sign | KeyErr ..
//!   genkey alg min|- sign|- secret|-              -> Ok min sign secretlen | KeyErr ..   (Key::generate; secret = the octets it returned)
//!   time self other fudge                        -> true|false
//!   hmac alg key msg                             -> hex
//!   creq K msg now fudge                         -> Ok wire
//!   sreq K wire now                              -> None | Ok msg | Err RCODE | Err BADTIME signed
//!   sans K reqwire nowreq ans now fudge          -> Ok wire
//!   sbad K reqwire now resp                      -> Ok wire   (signed BADTIME response)
//!   cans K req treq fudge wire now               -> Ok msg | Err Word
//!   cseq K req treq fudge now wire...            -> ok,Err X,... done=ok|Err X
//!   sseq K reqwire nowreq fudge (msg time)...    -> wire,wire,...
use domain::base::iana::{Class, Rcode, Rtype};
use domain::base::message_builder::{AdditionalBuilder, MessageBuilder};
use domain::base::name::Name;
use domain::base::{Message, Ttl};
use domain::rdata::tsig::Time48;
use domain::rdata::{Txt, A};
use domain::tsig::{Algorithm, ClientSequence, ClientTransaction, Key, KeyName, ServerSequence, ServerTransaction, ValidationError};
use dv_harness::*;

// ---------------------------------------------------------------- reference SHA / HMAC
fn sha1(msg: &[u8]) -> Vec<u8> {
    let mut h: [u32; 5] = [0x67452301, 0xEFCDAB89, 0x98BADCFE, 0x10325476, 0xC3D2E1F0];
    let mut m = msg.to_vec();
    m.push(0x80);
    while m.len() % 64 != 56 { m.push(0); }
    m.extend_from_slice(&((msg.len() as u64) * 8).to_be_bytes());
    for blk in m.chunks(64) {
        let mut w = [0u32; 80];
        for i in 0..16 { w[i] = u32::from_be_bytes([blk[4 * i], blk[4 * i + 1], blk[4 * i + 2], blk[4 * i + 3]]); }
        for i in 16..80 { w[i] = (w[i - 3] ^ w[i - 8] ^ w[i - 14] ^ w[i - 16]).rotate_left(1); }
        let (mut a, mut b, mut c, mut d, mut e) = (h[0], h[1], h[2], h[3], h[4]);
        for i in 0..80 {
            let (f, k) = match i / 20 { 0 => ((b & c) | (!b & d), 0x5A827999u32), 1 => (b ^ c ^ d, 0x6ED9EBA1), 2 => ((b & c) | (b & d) | (c & d), 0x8F1BBCDC), _ => (b ^ c ^ d, 0xCA62C1D6) };
            let t = a.rotate_left(5).wrapping_add(f).wrapping_add(e).wrapping_add(k).wrapping_add(w[i]);
            e = d; d = c; c = b.rotate_left(30); b = a; a = t;
        }
        h[0] = h[0].wrapping_add(a); h[1] = h[1].wrapping_add(b); h[2] = h[2].wrapping_add(c); h[3] = h[3].wrapping_add(d); h[4] = h[4].wrapping_add(e);
    }
    h.iter().flat_map(|x| x.to_be_bytes()).collect()
}

fn is_prime(n: u64) -> bool { n >= 2 && (2..).take_while(|d| d * d <= n).all(|d| n % d != 0) }
fn primes(n: usize) -> Vec<u64> { (2u64..).filter(|&x| is_prime(x)).take(n).collect() }
// fractional parts of square / cube roots by integer bisection on u128 / bignum-free arithmetic
fn frac_root(p: u64, bits: u32, cube: bool) -> u64 {
    // find largest x with x^k <= p << (k*bits); for 64 bit cube roots that needs 256 bit products,
    // so work with floor arithmetic on (hi, lo) via successive bit setting and u128 checked math on a scaled form
    fn mul(a: &[u64; 8], b: u64) -> [u64; 8] { let mut r = [0u64; 8]; let mut c = 0u128; for i in 0..8 { let t = a[i] as u128 * b as u128 + c; r[i] = t as u64; c = t >> 64; } r }
    fn mulw(a: &[u64; 8], b: &[u64; 8]) -> [u64; 8] { let mut r = [0u64; 8]; for i in 0..8 { if b[i] == 0 { continue; } let t = mul(a, b[i]); let mut c = 0u128; for j in 0..8 - i { let s = r[i + j] as u128 + t[j] as u128 + c; r[i + j] = s as u64; c = s >> 64; } } r }
    fn le(a: &[u64; 8], b: &[u64; 8]) -> bool { for i in (0..8).rev() { if a[i] != b[i] { return a[i] < b[i]; } } true }
    let k = if cube { 3 } else { 2 };
    let mut target = [0u64; 8];
    let sh = (k * bits) as usize;
    target[sh / 64] = p << (sh % 64);
    if sh % 64 != 0 && sh / 64 + 1 < 8 { target[sh / 64 + 1] = p >> (64 - sh % 64); }
    let mut x = [0u64; 8];
    for bit in (0..(bits + 8) as usize).rev() {
        let mut y = x; y[bit / 64] |= 1u64 << (bit % 64);
        let mut pw = y; for _ in 1..k { pw = mulw(&pw, &y); }
        if le(&pw, &target) { x = y; }
    }
    if bits == 64 { x[0] } else { x[0] & ((1u64 << bits) - 1) }
}

struct Sha2Consts { k256: Vec<u32>, k512: Vec<u64>, iv256: Vec<u32>, iv512: Vec<u64>, iv384: Vec<u64> }
fn sha2_consts() -> Sha2Consts {
    let p = primes(80);
    Sha2Consts {
        k256: p[..64].iter().map(|&x| frac_root(x, 32, true) as u32).collect(),
        k512: p.iter().map(|&x| frac_root(x, 64, true)).collect(),
        iv256: p[..8].iter().map(|&x| frac_root(x, 32, false) as u32).collect(),
        iv512: p[..8].iter().map(|&x| frac_root(x, 64, false)).collect(),
        iv384: p[8..16].iter().map(|&x| frac_root(x, 64, false)).collect(),
    }
}

fn sha256(c: &Sha2Consts, msg: &[u8]) -> Vec<u8> {
    let mut h: Vec<u32> = c.iv256.clone();
    let mut m = msg.to_vec();
    m.push(0x80);
    while m.len() % 64 != 56 { m.push(0); }
    m.extend_from_slice(&((msg.len() as u64) * 8).to_be_bytes());
    for blk in m.chunks(64) {
        let mut w = [0u32; 64];
        for i in 0..16 { w[i] = u32::from_be_bytes([blk[4 * i], blk[4 * i + 1], blk[4 * i + 2], blk[4 * i + 3]]); }
        for i in 16..64 {
            let s0 = w[i - 15].rotate_right(7) ^ w[i - 15].rotate_right(18) ^ (w[i - 15] >> 3);
            let s1 = w[i - 2].rotate_right(17) ^ w[i - 2].rotate_right(19) ^ (w[i - 2] >> 10);
            w[i] = w[i - 16].wrapping_add(s0).wrapping_add(w[i - 7]).wrapping_add(s1);
        }
        let mut v = [h[0], h[1], h[2], h[3], h[4], h[5], h[6], h[7]];
        for i in 0..64 {
            let s1 = v[4].rotate_right(6) ^ v[4].rotate_right(11) ^ v[4].rotate_right(25);
            let ch = (v[4] & v[5]) ^ (!v[4] & v[6]);
            let t1 = v[7].wrapping_add(s1).wrapping_add(ch).wrapping_add(c.k256[i]).wrapping_add(w[i]);
            let s0 = v[0].rotate_right(2) ^ v[0].rotate_right(13) ^ v[0].rotate_right(22);
            let mj = (v[0] & v[1]) ^ (v[0] & v[2]) ^ (v[1] & v[2]);
            let t2 = s0.wrapping_add(mj);
            v = [t1.wrapping_add(t2), v[0], v[1], v[2], v[3].wrapping_add(t1), v[4], v[5], v[6]];
        }
        for i in 0..8 { h[i] = h[i].wrapping_add(v[i]); }
    }
    h.iter().flat_map(|x| x.to_be_bytes()).collect()
}

fn sha512_core(c: &Sha2Consts, iv: &[u64], msg: &[u8], outlen: usize) -> Vec<u8> {
    let mut h: Vec<u64> = iv.to_vec();
    let mut m = msg.to_vec();
    m.push(0x80);
    while m.len() % 128 != 112 { m.push(0); }
    m.extend_from_slice(&((msg.len() as u128) * 8).to_be_bytes());
    for blk in m.chunks(128) {
        let mut w = [0u64; 80];
        for i in 0..16 { let mut b = [0u8; 8]; b.copy_from_slice(&blk[8 * i..8 * i + 8]); w[i] = u64::from_be_bytes(b); }
        for i in 16..80 {
            let s0 = w[i - 15].rotate_right(1) ^ w[i - 15].rotate_right(8) ^ (w[i - 15] >> 7);
            let s1 = w[i - 2].rotate_right(19) ^ w[i - 2].rotate_right(61) ^ (w[i - 2] >> 6);
            w[i] = w[i - 16].wrapping_add(s0).wrapping_add(w[i - 7]).wrapping_add(s1);
        }
        let mut v = [h[0], h[1], h[2], h[3], h[4], h[5], h[6], h[7]];
        for i in 0..80 {
            let s1 = v[4].rotate_right(14) ^ v[4].rotate_right(18) ^ v[4].rotate_right(41);
            let ch = (v[4] & v[5]) ^ (!v[4] & v[6]);
            let t1 = v[7].wrapping_add(s1).wrapping_add(ch).wrapping_add(c.k512[i]).wrapping_add(w[i]);
            let s0 = v[0].rotate_right(28) ^ v[0].rotate_right(34) ^ v[0].rotate_right(39);
            let mj = (v[0] & v[1]) ^ (v[0] & v[2]) ^ (v[1] & v[2]);
            let t2 = s0.wrapping_add(mj);
            v = [t1.wrapping_add(t2), v[0], v[1], v[2], v[3].wrapping_add(t1), v[4], v[5], v[6]];
        }
        for i in 0..8 { h[i] = h[i].wrapping_add(v[i]); }
    }
    let mut o: Vec<u8> = h.iter().flat_map(|x| x.to_be_bytes()).collect();
    o.truncate(outlen);
    o
}

#[derive(Clone, Copy, PartialEq, Debug)]
enum Alg { S1, S256, S384, S512 }
impl Alg {
    fn all() -> [Alg; 4] { [Alg::S1, Alg::S256, Alg::S384, Alg::S512] }
    fn word(self) -> &'static str { match self { Alg::S1 => "sha1", Alg::S256 => "sha256", Alg::S384 => "sha384", Alg::S512 => "sha512" } }
    fn lib(self) -> Algorithm { match self { Alg::S1 => Algorithm::Sha1, Alg::S256 => Algorithm::Sha256, Alg::S384 => Algorithm::Sha384, Alg::S512 => Algorithm::Sha512 } }
    fn native(self) -> usize { match self { Alg::S1 => 20, Alg::S256 => 32, Alg::S384 => 48, Alg::S512 => 64 } }
    fn block(self) -> usize { match self { Alg::S1 | Alg::S256 => 64, _ => 128 } }
    fn name_wire(self) -> Vec<u8> {
        let s = match self { Alg::S1 => "hmac-sha1", Alg::S256 => "hmac-sha256", Alg::S384 => "hmac-sha384", Alg::S512 => "hmac-sha512" };
        let mut v = vec![s.len() as u8]; v.extend_from_slice(s.as_bytes()); v.push(0); v
    }
    fn hash(self, c: &Sha2Consts, m: &[u8]) -> Vec<u8> {
        match self { Alg::S1 => sha1(m), Alg::S256 => sha256(c, m), Alg::S384 => sha512_core(c, &c.iv384, m, 48), Alg::S512 => sha512_core(c, &c.iv512, m, 64) }
    }
    /// RFC 2104
    fn hmac(self, c: &Sha2Consts, key: &[u8], m: &[u8]) -> Vec<u8> {
        let b = self.block();
        let mut k = if key.len() > b { self.hash(c, key) } else { key.to_vec() };
        k.resize(b, 0);
        let mut inner: Vec<u8> = k.iter().map(|x| x ^ 0x36).collect();
        inner.extend_from_slice(m);
        let ih = self.hash(c, &inner);
        let mut outer: Vec<u8> = k.iter().map(|x| x ^ 0x5c).collect();
        outer.extend_from_slice(&ih);
        self.hash(c, &outer)
    }
}

// ---------------------------------------------------------------- reference RFC 8945
#[derive(Clone)]
struct KeySpec { alg: Alg, secret: Vec<u8>, name: Vec<u8>, min: Option<usize>, sign: Option<usize> }
impl KeySpec {
    fn words(&self) -> String {
        format!("{} {} {} {} {}", self.alg.word(), hex(&self.secret), hex(&self.name),
            self.min.map_or("-".into(), |x| x.to_string()), self.sign.map_or("-".into(), |x| x.to_string()))
    }
    fn lib(&self) -> Result<Key, String> {
        let name = KeyName::from_octets(domain::dep::octseq::array::Array::<255>::try_from(&self.name[..]).map_err(|_| "array")?).map_err(|e| format!("{}", e))?;
        Key::new(self.alg.lib(), &self.secret, name, self.min, self.sign).map_err(|e| format!("{:?}", e))
    }
    fn sign_len(&self) -> usize { self.sign.unwrap_or(self.alg.native()) }
    fn min_len(&self) -> usize { self.min.unwrap_or(self.alg.native()) }
    fn canonical_name(&self) -> Vec<u8> {
        // lower-case the label contents, not the length octets
        let mut v = self.name.clone(); let mut i = 0;
        while i < v.len() { let l = v[i] as usize; for j in i + 1..i + 1 + l { v[j] = v[j].to_ascii_lowercase(); } i += l + 1; }
        v
    }
}

/// RFC 8945 4.3.3 TSIG variables
fn rfc_variables(k: &KeySpec, time: u64, fudge: u16, error: u16, other: &[u8]) -> Vec<u8> {
    let mut v = k.canonical_name();
    v.extend_from_slice(&[0, 255]);            // CLASS ANY
    v.extend_from_slice(&[0, 0, 0, 0]);        // TTL
    v.extend_from_slice(&k.alg.name_wire());
    v.extend_from_slice(&time.to_be_bytes()[2..]);
    v.extend_from_slice(&fudge.to_be_bytes());
    v.extend_from_slice(&error.to_be_bytes());
    v.extend_from_slice(&(other.len() as u16).to_be_bytes());
    v.extend_from_slice(other);
    v
}
fn rfc_timers(time: u64, fudge: u16) -> Vec<u8> { let mut v = time.to_be_bytes()[2..].to_vec(); v.extend_from_slice(&fudge.to_be_bytes()); v }
fn with_len(mac: &[u8]) -> Vec<u8> { let mut v = (mac.len() as u16).to_be_bytes().to_vec(); v.extend_from_slice(mac); v }

/// the TSIG RR as it goes on the wire (uncompressed owner)
fn rfc_tsig_rr(k: &KeySpec, time: u64, fudge: u16, mac: &[u8], oid: u16, error: u16, other: &[u8]) -> Vec<u8> {
    let mut rd = k.alg.name_wire();
    rd.extend_from_slice(&time.to_be_bytes()[2..]);
    rd.extend_from_slice(&fudge.to_be_bytes());
    rd.extend_from_slice(&(mac.len() as u16).to_be_bytes());
    rd.extend_from_slice(mac);
    rd.extend_from_slice(&oid.to_be_bytes());
    rd.extend_from_slice(&error.to_be_bytes());
    rd.extend_from_slice(&(other.len() as u16).to_be_bytes());
    rd.extend_from_slice(other);
    let mut rr = k.name.clone();
    rr.extend_from_slice(&[0, 250, 0, 255, 0, 0, 0, 0]);
    rr.extend_from_slice(&(rd.len() as u16).to_be_bytes());
    rr.extend_from_slice(&rd);
    rr
}
fn add_rr(msg: &[u8], rr: &[u8]) -> Vec<u8> {
    let mut w = msg.to_vec();
    let ar = u16::from_be_bytes([w[10], w[11]]) + 1;
    w[10..12].copy_from_slice(&ar.to_be_bytes());
    w.extend_from_slice(rr);
    w
}
/// sign `msg` per RFC 8945: digest = prefix | msg | variables (or timers)
fn rfc_sign(c: &Sha2Consts, k: &KeySpec, prefix: &[u8], msg: &[u8], time: u64, fudge: u16, error: u16, other: &[u8], timers_only: bool) -> (Vec<u8>, Vec<u8>) {
    let mut d = prefix.to_vec();
    d.extend_from_slice(msg);
    if timers_only { d.extend_from_slice(&rfc_timers(time, fudge)); } else { d.extend_from_slice(&rfc_variables(k, time, fudge, error, other)); }
    let mut mac = k.alg.hmac(c, &k.secret, &d);
    mac.truncate(k.sign_len());
    let oid = u16::from_be_bytes([msg[0], msg[1]]);
    let wire = add_rr(msg, &rfc_tsig_rr(k, time, fudge, &mac, oid, error, other));
    (mac, wire)
}

// ---------------------------------------------------------------- generators
fn gen_label(r: &mut Rng, max: usize) -> Vec<u8> {
    let n = r.range(1, max as u64) as usize;
    (0..n).map(|_| match r.below(10) { 0 => b'A' + r.below(26) as u8, 1 => b'0' + r.below(10) as u8, 2 => b'-', 3 if r.chance(1, 8) => r.u8(), _ => b'a' + r.below(26) as u8 }).collect()
}
fn gen_name_wire(r: &mut Rng) -> Vec<u8> {
    let mut v = vec![];
    for _ in 0..r.below(4) { let l = gen_label(r, 12); v.push(l.len() as u8); v.extend_from_slice(&l); }
    v.push(0);
    v
}
fn gen_key(r: &mut Rng) -> KeySpec {
    let alg = *r.pick(&Alg::all());
    let slen = match r.below(8) { 0 => alg.block(), 1 => alg.block() + 1 + r.below(40) as usize, 2 => 1, _ => r.range(8, 48) as usize };
    let lo = std::cmp::max(10, alg.native() / 2);
    let pickl = |r: &mut Rng| match r.below(5) { 0 => None, 1 => Some(lo), 2 => Some(alg.native()), _ => Some(r.range(lo as u64, alg.native() as u64) as usize) };
    let min = pickl(r); let sign = pickl(r);
    let mut name = gen_name_wire(r);
    if name.len() == 1 && r.chance(3, 4) { name = b"\x03Key\x07eXample\x00".to_vec(); }
    KeySpec { alg, secret: r.bytes(slen), name, min, sign }
}
/// a compatible receiver: same key, own truncation policy with min <= sender's signing length
fn gen_peer(r: &mut Rng, k: &KeySpec) -> KeySpec {
    let lo = std::cmp::max(10, k.alg.native() / 2);
    let mut p = k.clone();
    p.min = match r.below(3) { 0 => Some(lo), 1 => Some(k.sign_len()), _ => Some(r.range(lo as u64, k.sign_len() as u64) as usize) };
    p.sign = match r.below(3) { 0 => None, _ => Some(r.range(lo as u64, k.alg.native() as u64) as usize) };
    // the peer may spell the key name in another case
    let mut i = 0;
    while i < p.name.len() { let l = p.name[i] as usize; for j in i + 1..i + 1 + l { if r.chance(1, 4) && p.name[j].is_ascii_alphabetic() { p.name[j] ^= 0x20; } } i += l + 1; }
    p
}
fn name_from_wire(w: &[u8]) -> Name<Vec<u8>> { Name::from_octets(w.to_vec()).unwrap() }

/// a message built through the public builder (plain Vec target: no compression)
fn gen_message(r: &mut Rng, id: u16, response: bool) -> AdditionalBuilder<Vec<u8>> {
    let mut b = MessageBuilder::new_vec();
    b.header_mut().set_id(id);
    b.header_mut().set_qr(response);
    b.header_mut().set_rd(r.chance(1, 2));
    if response && r.chance(1, 6) { b.header_mut().set_rcode(*r.pick(&[Rcode::NXDOMAIN, Rcode::SERVFAIL, Rcode::REFUSED])); }
    let mut q = b.question();
    let qn = gen_name_wire(r);
    if r.chance(9, 10) { q.push((name_from_wire(&qn), *r.pick(&[Rtype::A, Rtype::AAAA, Rtype::SOA, Rtype::AXFR, Rtype::TXT]))).unwrap(); }
    let mut a = q.answer();
    if response {
        for _ in 0..r.below(4) {
            if r.chance(1, 2) { a.push((name_from_wire(&qn), Class::IN, Ttl::from_secs(r.u32() >> 8), A::from_octets(r.u8(), r.u8(), r.u8(), r.u8()))).unwrap(); }
            else { let tl = r.below(40) as usize; let t: Txt<Vec<u8>> = Txt::build_from_slice(&r.bytes(tl)).unwrap(); a.push((name_from_wire(&gen_name_wire(r)), Class::IN, Ttl::from_secs(300), t)).unwrap(); }
        }
    }
    let mut ns = a.authority();
    if response && r.chance(1, 4) { ns.push((name_from_wire(&qn), Class::IN, Ttl::from_secs(5), A::from_octets(1, 2, 3, 4))).unwrap(); }
    let mut ar = ns.additional();
    if r.chance(1, 3) { ar.push((name_from_wire(&gen_name_wire(r)), Class::IN, Ttl::from_secs(7), A::from_octets(9, 9, 9, r.u8()))).unwrap(); }
    ar
}
fn builder_from(msg: &[u8]) -> AdditionalBuilder<Vec<u8>> {
    // re-create a builder holding exactly these octets: the builder API has no
    // from-octets constructor, so copy the records
    let m = Message::from_octets(msg.to_vec()).unwrap();
    let mut b = MessageBuilder::new_vec();
    *b.header_mut() = m.header();
    let mut q = b.question();
    for x in m.question() { q.push(x.unwrap()).unwrap(); }
    let mut a = q.answer();
    for x in m.answer().unwrap() { let x = x.unwrap().into_any_record::<domain::rdata::AllRecordData<_, _>>().unwrap(); a.push(x).unwrap(); }
    let mut n = a.authority();
    for x in m.authority().unwrap() { let x = x.unwrap().into_any_record::<domain::rdata::AllRecordData<_, _>>().unwrap(); n.push(x).unwrap(); }
    let mut r = n.additional();
    for x in m.additional().unwrap() { let x = x.unwrap().into_any_record::<domain::rdata::AllRecordData<_, _>>().unwrap(); r.push(x).unwrap(); }
    r
}

fn verr(e: &ValidationError) -> &'static str {
    match e {
        ValidationError::BadAlg => "BadAlg", ValidationError::BadOther => "BadOther", ValidationError::BadSig => "BadSig",
        ValidationError::BadTrunc => "BadTrunc", ValidationError::BadKey => "BadKey", ValidationError::BadTime => "BadTime",
        ValidationError::FormErr => "FormErr", ValidationError::ServerUnsigned => "ServerUnsigned", ValidationError::ServerBadKey => "ServerBadKey",
        ValidationError::ServerBadSig => "ServerBadSig", ValidationError::ServerBadTime { .. } => "ServerBadTime", ValidationError::TooManyUnsigned => "TooManyUnsigned",
    }
}
fn rcode_word(c: u16) -> String { match c { 1 => "FORMERR".into(), 16 => "BADSIG".into(), 17 => "BADKEY".into(), 18 => "BADTIME".into(), 22 => "BADTRUNC".into(), x => format!("RC{}", x) } }

#[derive(Debug)]
enum Srv { None, Ok(Vec<u8>), Err(String), BadTime(Vec<u8> /* signed response, if resp given */), Panic }
impl Srv { fn obs(&self) -> String { match self { Srv::None => "None".into(), Srv::Ok(m) => format!("Ok {}", hex(m)), Srv::Err(w) => format!("Err {}", w), Srv::BadTime(_) => "Err BADTIME signed".into(), Srv::Panic => "Panic".into() } } }

/// ServerTransaction::request on `wire`; for a signed error the response is built with build_message
fn run_server(k: &Key, wire: &[u8], now: u64) -> Srv {
    if wire.len() < 12 { return Srv::Err("short".into()); }
    let w = wire.to_vec();
    let r = catch_mut(|| {
        let mut m = Message::from_octets(w).unwrap();
        match ServerTransaction::request(&k, &mut m, Time48::from_u64(now)) {
            Ok(Some(_)) => Srv::Ok(m.as_slice().to_vec()),
            Ok(None) => Srv::None,
            Err(e) => {
                let code = e.error().to_int();
                if code == 18 {
                    match e.build_message(&m, MessageBuilder::new_vec()) { Ok(b) => Srv::BadTime(b.finish()), Err(_) => Srv::Err("BADTIME push".into()) }
                } else { Srv::Err(rcode_word(code)) }
            }
        }
    });
    r.unwrap_or(Srv::Panic)
}

/// What the harness itself reads out of a (possibly mutated) message: an independent, minimal walk over the
/// sections by their counts (own code, not the library's parser).  Some(..) only if the message ends exactly in
/// one TSIG record that is the last additional record and the only TSIG there, and its owner and algorithm
/// names are spelled without compression pointers; everything a reference needs is taken from THIS message.
struct TsigView { start: usize, owner: Vec<u8>, alg: Vec<u8>, time_fudge: Vec<u8>, mac: Vec<u8> }
fn plain_name_end(w: &[u8], mut pos: usize) -> Option<(usize, bool)> {
    // returns (position behind the name, true if a compression pointer was met)
    let mut total = 0usize;
    loop {
        let b = *w.get(pos)? as usize;
        if b == 0 { return Some((pos + 1, false)); }
        if b >= 0xC0 { w.get(pos + 1)?; return Some((pos + 2, true)); }
        if b > 63 { return None; }
        pos += 1 + b; total += 1 + b;
        if total > 254 || pos > w.len() { return None; }
    }
}
fn view_tsig(w: &[u8]) -> Option<TsigView> {
    if w.len() < 12 { return None; }
    let cnt = |i: usize| u16::from_be_bytes([w[i], w[i + 1]]) as usize;
    let (qd, an, ns, ar) = (cnt(4), cnt(6), cnt(8), cnt(10));
    let mut pos = 12;
    for _ in 0..qd { pos = plain_name_end(w, pos)?.0 + 4; if pos > w.len() { return None; } }
    let mut found: Option<TsigView> = None;
    for i in 0..an + ns + ar {
        let start = pos;
        let (e1, ptr) = plain_name_end(w, pos)?;
        if e1 + 10 > w.len() { return None; }
        let ty = u16::from_be_bytes([w[e1], w[e1 + 1]]);
        let rdlen = u16::from_be_bytes([w[e1 + 8], w[e1 + 9]]) as usize;
        let end = e1 + 10 + rdlen;
        if end > w.len() { return None; }
        if ty == 250 {
            if i < an + ns || found.is_some() || ptr { return None; }
            let (ae, aptr) = plain_name_end(w, e1 + 10)?;
            if aptr || ae + 10 > end { return None; }
            let msz = u16::from_be_bytes([w[ae + 8], w[ae + 9]]) as usize;
            if ae + 10 + msz + 6 > end { return None; }
            let olen = u16::from_be_bytes([w[ae + 10 + msz + 4], w[ae + 10 + msz + 5]]) as usize;
            if ae + 10 + msz + 6 + olen != end { return None; }
            found = Some(TsigView { start, owner: w[start..e1].to_vec(), alg: w[e1 + 10..ae].to_vec(), time_fudge: w[ae..ae + 8].to_vec(), mac: w[ae + 10..ae + 10 + msz].to_vec() });
            if i + 1 != an + ns + ar { return None; }
        }
        pos = end;
    }
    if pos != w.len() { return None; }
    found
}

struct Ctx<'a> { out: &'a mut Out, c: &'a Sha2Consts }

/// `Out::check` keeps only the first 200 failures; three findings of this
/// property fail on every exchange, so cap the failures reported per class.
trait Capped { fn check_c(&mut self, ok: bool, class: &str, case: &str, detail: &str); }
impl Capped for Out {
    fn check_c(&mut self, ok: bool, class: &str, case: &str, detail: &str) {
        if ok { self.check(true, class, case, detail); return; }
        let key = format!("failures_{}", class);
        let n = *self.dist.get(&key).unwrap_or(&0);
        self.count(&key);
        if n < 8 { self.check(false, class, case, detail); }
    }
}

/// `key` is the library key `k` describes: from Key::new, or from Key::generate with k.secret the octets it returned
fn t2_creq(x: &mut Ctx, k: &KeySpec, key: Key, msg: &[u8], now: u64, fudge: u16) -> Option<(ClientTransaction<Key>, Vec<u8>)> {
    let case = format!("creq {} {} {} {}", k.words(), hex(msg), now, fudge);
    x.out.begin(&case);
    let mut b = builder_from(msg);
    if b.as_slice() != msg { x.out.count("skipped_rebuild"); return None; }
    let tr = ClientTransaction::request_with_fudge(key, &mut b, Time48::from_u64(now), fudge).ok()?;
    let wire = b.finish();
    x.out.case(&case, &format!("Ok {}", hex(&wire)), true, "creq");
    // oracle: octets and MAC per RFC 8945
    let (_, want) = rfc_sign(x.c, k, &[], msg, now, fudge, 0, &[], false);
    x.out.check_c(wire == want, "request_mac_rfc8945", &case, &format!("implementation {} reference {}", hex(&wire), hex(&want)));
    // the callers cut the signed request at the reference's offsets
    if wire.len() != want.len() { x.out.count("skipped_request_layout"); return None; }
    Some((tr, wire))
}

fn main() {
    let a = args();
    let mut out = Out::new(&a, "C11", 60);
    let mut r = Rng::new(a.seed);
    let consts = sha2_consts();
    let scale = a.scale as usize;
    let thorough = a.thorough;
    let mut idx = 0u64;

    // Key::generate wants a ring SecureRandom: the trait is sealed and the harness has no ring dependency of
    // its own, so borrow the SystemRandom that a ring DNSSEC key pair of the library carries in a public field
    let ring_kp = domain::crypto::sign::generate(&domain::crypto::sign::GenerateParams::EcdsaP256Sha256, 256).ok()
        .and_then(|(sk, pk)| domain::crypto::ring::sign::KeyPair::from_bytes(&sk, &pk).ok());
    let Some(domain::crypto::ring::sign::KeyPair::EcdsaP256Sha256 { rng: sys_rng, .. }) = &ring_kp else { panic!("no SecureRandom for Key::generate") };
    // the generated key and the octets of its secret
    let generate = |k: &KeySpec| -> Result<(Key, Vec<u8>), String> {
        let name = KeyName::from_octets(domain::dep::octseq::array::Array::<255>::try_from(&k.name[..]).map_err(|_| "array")?).map_err(|e| format!("{}", e))?;
        Key::generate(k.alg.lib(), &**sys_rng, name, k.min, k.sign).map(|(key, bits)| (key, bits.as_ref().to_vec())).map_err(|e| format!("{:?}", e))
    };

    // ---- 0. reference self-test against ring through the public API is implicit (every MAC);
    //         plus raw HMAC cases for the model (RFC 4231 test case 2 first)
    {
        let fixed: [(&[u8], &[u8]); 2] = [(b"Jefe", b"what do ya want for nothing?"), (&[0xaa; 131], b"Test Using Larger Than Block-Size Key - Hash Key First")];
        for (k, m) in fixed.iter() {
            for alg in Alg::all() {
                idx += 1; if !out.wants(idx) { continue; }
                let case = format!("hmac {} {} {}", alg.word(), hex(k), hex(m));
                out.case(&case, &hex(&alg.hmac(&consts, k, m)), true, "hmac");
            }
        }
        let want = "5bdcc146bf60754e6a042426089575c75a003f089d2739839dec58b964ec3843";
        out.check_c(hex(&Alg::S256.hmac(&consts, b"Jefe", b"what do ya want for nothing?")) == want, "reference_selftest", "rfc4231 tc2", "harness reference HMAC-SHA-256 is wrong");
    }

    // ---- 1. Key::new bounds
    for alg in Alg::all() {
        let vals: Vec<Option<usize>> = std::iter::once(None).chain((0..=66).map(Some)).chain([Some(100), Some(65536)]).collect();
        for &mn in &vals {
            for &sg in [None, Some(alg.native()), Some(alg.native() / 2), Some(9), Some(alg.native() + 1), Some(std::cmp::max(10, alg.native() / 2) - 1)].iter() {
                for (m, s) in [(mn, sg), (sg, mn)] {
                    idx += 2; let (want_new, want_gen) = (out.wants(idx - 1), out.wants(idx));
                    let ks = KeySpec { alg, secret: vec![1, 2, 3], name: vec![0], min: m, sign: s };
                    let okl = |l: Option<usize>| l.map_or(true, |l| l >= std::cmp::max(10, alg.native() / 2) && l <= alg.native());
                    // "all keys (.., min_mac_len, signing_len)": each setting governs its own side (absent = full length)
                    let settings = |k: &Key| k.min_mac_len() == ks.min_len() && k.signing_len() == ks.sign_len() && k.native_len() == alg.native() && k.algorithm() == alg.lib();
                    if want_new {
                    let case = format!("newkey {} {} {}", alg.word(), m.map_or("-".into(), |x| x.to_string()), s.map_or("-".into(), |x| x.to_string()));
                    let res = ks.lib();
                    let obs = match &res { Ok(k) => format!("Ok {} {}", k.min_mac_len(), k.signing_len()), Err(e) => format!("KeyErr {}", e) };
                    out.case(&case, &obs, true, "newkey");
                    // RFC 8945 5.2.2.1 / 5.2.4: at least max(10, half the digest), at most the digest length
                    out.check_c(res.is_ok() == (okl(m) && okl(s)), "truncation_bounds", &case, &obs);
                    if let Ok(k) = &res { out.check_c(settings(k), "key_truncation_settings", &case, &obs); }
                    }
                    // the alternative constructor: same bounds, same settings (the model also fixes the secret's length)
                    if !want_gen { continue; }
                    let gres = generate(&ks);
                    let secret = gres.as_ref().map_or(vec![], |(_, b)| b.clone());
                    let case = format!("genkey {} {} {} {}", alg.word(), m.map_or("-".into(), |x| x.to_string()), s.map_or("-".into(), |x| x.to_string()), hex(&secret));
                    let obs = match &gres { Ok((k, b)) => format!("Ok {} {} {}", k.min_mac_len(), k.signing_len(), b.len()), Err(e) => format!("KeyErr {}", e) };
                    out.case(&case, &obs, true, "genkey");
                    out.check_c(gres.is_ok() == (okl(m) && okl(s)), "truncation_bounds", &case, &obs);
                    if let Ok((k, _)) = &gres { out.check_c(settings(k), "key_truncation_settings", &case, &obs); }
                }
            }
        }
    }

    // ---- 2. the fudge window
    {
        let n = if thorough { 40000 } else { 4000 } * scale;
        let m48 = (1u64 << 48) - 1;
        for i in 0..n {
            idx += 1; if !out.wants(idx) { continue; }
            let s = match r.below(6) { 0 => r.below(400), 1 => m48 - r.below(400), 2 => u64::MAX - r.below(70000), _ => r.next() & m48 };
            let f = match r.below(4) { 0 => 300, 1 => r.below(65536), 2 => 0, _ => if i % 7 == 0 { r.next() } else { r.below(65536) } };
            let d = match r.below(5) { 0 => f, 1 => f.wrapping_add(1), 2 => f.saturating_sub(1), 3 => 0, _ => r.below(70000) };
            let o = if r.chance(1, 2) { s.saturating_add(d) } else { s.saturating_sub(d) };
            let case = format!("time {} {} {}", s, o, f);
            let in48 = s <= m48 && o <= m48;
            if !in48 { continue; }
            let got = Time48::from_u64(s).eq_fudged(Time48::from_u64(o), f);
            out.case(&case, if got { "true" } else { "false" }, true, "time");
            let diff = if s > o { s - o } else { o - s };
            out.check_c(got == (diff <= f), "time_window", &case, &format!("|{}-{}|={} fudge {} -> {}", s, o, diff, f, got));
        }
    }

    // ---- 3. honest exchanges, mutations, BADTIME responses
    let n_ex = if thorough { 1500 } else { 45 } * scale;
    for it in 0..n_ex {
        let mut r = r.fork();
        idx += 1; if !out.wants(idx) { continue; }
        let mut x = Ctx { out: &mut out, c: &consts };
        // corpus slot 4 (regression, thorough run of round 3): key name  a.-l-DntahGd2h.  behind an additional A record:
        // RDLENGTH 4 -> 6 lets that record swallow the first label of the TSIG owner, the request stays well formed
        let mut kc = if it < 4 { KeySpec { alg: Alg::all()[it], secret: b"0123456789abcdef0123".to_vec(), name: b"\x03Key\x07Example\x00".to_vec(), min: None, sign: None } }
                 else if it == 4 { KeySpec { alg: Alg::S256, secret: b"0123456789abcdef0123".to_vec(), name: b"\x01a\x0c-l-DntahGd2h\x00".to_vec(), min: None, sign: None } }
                 else { gen_key(&mut r) };
        let mut ks = if it <= 4 { kc.clone() } else { gen_peer(&mut r, &kc) };
        // two in five of the random exchanges run with a key from Key::generate on one side (0: client, 1: server);
        // the other side loads the exported secret with Key::new.  From here on kc/ks describe those keys.
        let gen_side = if it > 4 { r.below(5) } else { 9 };
        let generated = if gen_side < 2 {
            match generate(if gen_side == 0 { &kc } else { &ks }) {
                Ok((k, bits)) => { kc.secret = bits.clone(); ks.secret = bits; x.out.count(if gen_side == 0 { "generated_client_key" } else { "generated_server_key" }); Some(k) }
                Err(_) => { x.out.count("bad_key_gen"); continue }
            }
        } else { None };
        let (kcl, ksl) = match (kc.lib(), ks.lib()) { (Ok(a), Ok(b)) => (a, b), _ => { x.out.count("bad_key_gen"); continue } };
        let (kcl, ksl) = match (gen_side, generated) { (0, Some(g)) => (g, ksl), (1, Some(g)) => (kcl, g), _ => (kcl, ksl) };
        let t = match r.below(5) { 0 => r.below(1000), 1 => (1u64 << 48) - 1 - r.below(1000), _ => 1_600_000_000 + r.below(1 << 28) };
        let fudge: u16 = match r.below(4) { 0 => 300, 1 => 0, 2 => 65535, _ => r.below(4000) as u16 };
        let id = r.u16();
        let req = if it == 4 {
            let mut m = vec![0u8; 12]; m[0..2].copy_from_slice(&id.to_be_bytes()); m[5] = 1; m[11] = 1;
            m.extend_from_slice(b"\x03www\x00\x00\x10\x00\x01"); m.extend_from_slice(b"\x00\x00\x01\x00\x01\x00\x00\x00\x07\x00\x04\x09\x09\x09\x74"); m
        } else { gen_message(&mut r, id, false).as_slice().to_vec() };
        let Some((tr, wire)) = t2_creq(&mut x, &kc, kcl, &req, t, fudge) else { continue };
        // verification time inside the window (boundaries included)
        let off: i64 = match r.below(5) { 0 => fudge as i64, 1 => -(fudge as i64), 2 => 0, _ => r.range(0, 2 * fudge as u64) as i64 - fudge as i64 };
        let now = (t as i64 + off).clamp(0, (1i64 << 48) - 1) as u64;
        let case = format!("sreq {} {} {}", ks.words(), hex(&wire), now);
        x.out.begin(&case);
        let sres = run_server(&ksl, &wire, now);
        x.out.case(&case, &sres.obs(), true, "sreq_honest");
        let compatible = kc.sign_len() >= ks.min_len();
        match &sres {
            Srv::Ok(m) => {
                x.out.check_c(compatible, "truncated_mac_below_min_accepted", &case, "");
                // pre-signing octets: the message as delimited by its header counts
                x.out.check_c(m.len() >= req.len() && m[..req.len()] == req[..], "request_not_restored", &case, &format!("got {} want prefix {}", hex(m), hex(&req)));
            }
            other => x.out.check_c(!compatible, "honest_request_rejected", &case, &format!("{:?} offset {} fudge {}", other.obs(), off, fudge)),
        }
        // ---- time outside the window: BADTIME, signed, other data = server time (6 octets)
        {
            let late = if r.chance(1, 2) { t.saturating_add(fudge as u64 + 1 + r.below(3)) } else { t.saturating_sub(fudge as u64 + 1 + r.below(3)) };
            let diff = if late > t { late - t } else { t - late };
            if late < (1 << 48) && diff > fudge as u64 && compatible {
                let bt = run_server(&ksl, &wire, late);
                let case = format!("sreq {} {} {}", ks.words(), hex(&wire), late);
                x.out.case(&case, &bt.obs(), true, "sreq_badtime");
                match &bt {
                    Srv::BadTime(resp) => {
                        // strip the TSIG the library appended: its size is known
                        let rr_len = ks.name.len() + 10 + ks.alg.name_wire().len() + 16 + ks.sign_len() + 6;
                        if resp.len() > rr_len + 12 {
                            let mut pre = resp[..resp.len() - rr_len].to_vec();
                            let ar = u16::from_be_bytes([pre[10], pre[11]]) - 1; pre[10..12].copy_from_slice(&ar.to_be_bytes());
                            let case = format!("sbad {} {} {} {}", ks.words(), hex(&wire), late, hex(&pre));
                            x.out.case(&case, &format!("Ok {}", hex(resp)), true, "sbad");
                            let reqmac = &wire[wire.len() - 6 - kc.sign_len()..wire.len() - 6];
                            let other = late.to_be_bytes()[2..].to_vec();
                            let (_, want) = rfc_sign(x.c, &ks, &with_len(reqmac), &pre, t, fudge, 18, &other, false);
                            x.out.check_c(*resp == want, "badtime_response_rfc8945", &case, &format!("implementation {} reference {}", hex(resp), hex(&want)));
                            // the client recognises it
                            let rw = resp.clone();
                            let cr = catch_mut(|| { let mut m = Message::from_octets(rw).unwrap(); tr.answer(&mut m, Time48::from_u64(late)) });
                            if ks.sign_len() >= kc.min_len() { x.out.check_c(matches!(cr, Ok(Err(ValidationError::ServerBadTime { .. }))), "badtime_response_not_recognised", &case, &format!("{:?}", cr)); }
                            let ccase = format!("cans {} {} {} {} {} {}", kc.words(), hex(&req), t, fudge, hex(resp), late);
                            x.out.case(&ccase, &match &cr { Ok(Ok(())) => "Ok".to_string(), Ok(Err(e)) => format!("Err {}", verr(e)), Err(_) => "Panic".into() }, true, "cans_badtime");
                        }
                    }
                    other => x.out.check_c(false, "time_outside_window_not_badtime", &case, &other.obs()),
                }
            }
        }
        // ---- mutations of the signed request, server side
        {
            let tsig_at = req.len();
            let owner = kc.name.len();
            let rd_at = tsig_at + owner + 10;
            let algw = kc.alg.name_wire().len();
            let mac_at = rd_at + algw + 10;
            let mut muts: Vec<(&str, Vec<u8>, Option<&str>)> = vec![];   // (kind, wire, expected RFC error word)
            let flip = |w: &[u8], at: usize, bit: u8| { let mut v = w.to_vec(); v[at] ^= 1 << bit; v };
            muts.push(("mac_bit", flip(&wire, mac_at + r.below(kc.sign_len() as u64) as usize, r.below(8) as u8), Some("BADSIG")));
            if req.len() > 12 { muts.push(("body_bit", flip(&wire, req.len() - 1 - r.below(4.min(req.len() as u64 - 12)) as usize, r.below(8) as u8), Some("BADSIG"))); }
            muts.push(("flags_bit", flip(&wire, 2, 0), Some("BADSIG")));
            muts.push(("orig_id", flip(&wire, mac_at + kc.sign_len() + r.below(2) as usize, r.below(8) as u8), Some("BADSIG")));
            muts.push(("time_signed", flip(&wire, rd_at + algw + r.below(6) as usize, r.below(8) as u8), None)); // BADSIG or BADTIME, both rejections
            muts.push(("fudge", flip(&wire, rd_at + algw + 6 + r.below(2) as usize, r.below(8) as u8), None));
            muts.push(("error_field", flip(&wire, mac_at + kc.sign_len() + 2 + r.below(2) as usize, r.below(8) as u8), Some("BADSIG")));
            if owner > 2 { // change a key name character into a different letter of another case class
                let at = tsig_at + 1 + r.below((kc.name[0] as u64).max(1)) as usize;
                let mut v = wire.clone(); v[at] = if v[at].to_ascii_lowercase() == b'q' { b'z' } else { b'q' }; muts.push(("key_name", v, Some("BADKEY")));
            }
            { // another known algorithm of the same name length, or an unknown one
                let mut v = wire.clone();
                let last = rd_at + algw - 2;
                v[last] = if v[last] == b'1' { b'7' } else { b'1' };
                muts.push(("algorithm", v, Some("BADKEY")));
            }
            { // TSIG not last: one more record behind it
                let mut v = add_rr(&wire, b"\x00\x00\x01\x00\x01\x00\x00\x00\x00\x00\x04\x01\x02\x03\x04"); let _ = &mut v;
                muts.push(("tsig_not_last", v, Some("FORMERR")));
            }
            { // two TSIG records
                let rr = wire[tsig_at..].to_vec();
                muts.push(("two_tsigs", add_rr(&wire, &rr), Some("FORMERR")));
            }
            { // TSIG in the answer section: counts moved
                let mut v = wire.clone();
                if v[11] == 1 && v[10] == 0 && v[9] == 0 && v[8] == 0 { v[11] = 0; v[7] = v[7].wrapping_add(1); muts.push(("tsig_in_answer", v, None)); }
            }
            { // missing: the unsigned message
                muts.push(("missing", req.clone(), Some("None")));
            }
            if kc.sign_len() > 10 { // MAC cut below what the receiver accepts
                let cut = ks.min_len() - 1;
                if cut < kc.sign_len() {
                    let mac = &wire[mac_at..mac_at + cut];
                    let oid = u16::from_be_bytes([req[0], req[1]]);
                    let v = add_rr(&req, &rfc_tsig_rr(&kc, t, fudge, mac, oid, 0, &[]));
                    // RFC 8945 5.2.2.1: below max(10, half the digest) is FORMERR; 5.2.4: permitted
                    // truncation that is too short for the local policy is BADTRUNC
                    let floor = std::cmp::max(10, kc.alg.native() / 2);
                    if cut >= floor { muts.push(("mac_truncated_below_min", v, Some("BADTRUNC"))); }
                    else { muts.push(("mac_below_rfc_floor", v, Some("size:FORMERR"))); }
                }
            }
            { // the correct MAC with octets appended
                let mut d = req.clone(); d.extend_from_slice(&rfc_variables(&kc, t, fudge, 0, &[]));
                let full = kc.alg.hmac(x.c, &kc.secret, &d);
                let oid = u16::from_be_bytes([req[0], req[1]]);
                // (a) MAC size > digest length: RFC 8945 5.2.2.1 FORMERR
                let nx = 1 + r.below(4) as usize; let mut m = full.clone(); m.extend_from_slice(&r.bytes(nx));
                muts.push(("mac_extended_beyond_digest", add_rr(&req, &rfc_tsig_rr(&kc, t, fudge, &m, oid, 0, &[])), Some("size:FORMERR")));
                // (b) a truncated MAC followed by wrong octets, still within the digest length
                if kc.sign_len() < kc.alg.native() {
                    let mut m = full[..kc.sign_len()].to_vec();
                    let extra = 1 + r.below((kc.alg.native() - kc.sign_len()) as u64) as usize;
                    for i in 0..extra { m.push(full[kc.sign_len() + i] ^ 0x5a); }
                    muts.push(("mac_extended_wrong_tail", add_rr(&req, &rfc_tsig_rr(&kc, t, fudge, &m, oid, 0, &[])), Some("BADSIG")));
                }
            }
            { // class / ttl of the TSIG RR (RFC 8945 4.2: ANY / 0, both part of the digested variables)
                muts.push(("tsig_class", flip(&wire, tsig_at + owner + 2 + r.below(2) as usize, r.below(8) as u8), Some("reject")));
                muts.push(("tsig_ttl", flip(&wire, tsig_at + owner + 4 + r.below(4) as usize, r.below(8) as u8), Some("reject")));
            }
            // a forwarder picked a new ID (RFC 8945 5.1): legal, must verify, and the original ID must be put back
            { let mut v = wire.clone(); let nid = id ^ (1 + r.below(0xfffe) as u16); v[0..2].copy_from_slice(&nid.to_be_bytes()); muts.push(("forwarded_id", v, Some("accept"))); }
            // framing: the RDLENGTH of an additional A record in front of the TSIG grows by two
            if req.len() > 12 + 15 && req[10] == 0 && req[11] == 1 && req[req.len() - 6..req.len() - 4] == [0, 4] && req[req.len() - 14..req.len() - 10] == [0, 1, 0, 1] {
                muts.push(("rdlength_plus_2", flip(&wire, req.len() - 5, 1), None));
            }
            // random single bit flips anywhere behind the ID
            let nflip = if thorough { 40 } else { 6 };
            for _ in 0..nflip { let at = r.range(2, wire.len() as u64 - 1) as usize; muts.push(("random_bit", flip(&wire, at, r.below(8) as u8), None)); }
            if !compatible { muts.clear(); }
            for (kind, w, want) in muts {
                let case = format!("sreq {} {} {}", ks.words(), hex(&w), t);
                x.out.begin(&case);
                let res = run_server(&ksl, &w, t);
                x.out.case(&case, &res.obs(), true, &format!("sreq_mut_{}", kind));
                let accepted = matches!(res, Srv::Ok(_));
                // is this mutation semantically void?  (case of a letter in key or algorithm name)
                let diffs: Vec<usize> = (0..w.len().min(wire.len())).filter(|&i| w[i] != wire[i]).collect();
                let void = w.len() == wire.len() && diffs.len() == 1 && {
                    let i = diffs[0];
                    let in_owner = i > tsig_at && i < tsig_at + owner;
                    let in_alg = i > rd_at && i < rd_at + algw;
                    (in_owner || in_alg) && (w[i] ^ wire[i]) == 0x20 && wire[i].is_ascii_alphabetic()
                };
                let in_class_ttl = w.len() == wire.len() && diffs.len() == 1 && diffs[0] >= tsig_at + owner + 2 && diffs[0] < tsig_at + owner + 8;
                if void { x.out.count("void_mutation"); continue; }
                if matches!(res, Srv::Panic) { x.out.check_c(false, "panic_on_mutated_message", &case, kind); continue; }
                if kind == "forwarded_id" {
                    match &res {
                        Srv::Ok(m) => x.out.check_c(m.len() >= req.len() && m[..req.len()] == req[..], "forwarded_id_not_restored", &case, &format!("after verification {} want prefix {}", hex(m), hex(&req))),
                        o => x.out.check_c(false, "forwarded_request_rejected", &case, &o.obs()),
                    }
                    continue;
                }
                if in_class_ttl {
                    x.out.check_c(!accepted, "tsig_class_ttl_unchecked", &case, &format!("{}: TSIG RR with CLASS/TTL octet {} changed verifies", kind, diffs[0] - tsig_at - owner));
                    continue;
                }
                x.out.check_c(!accepted, "tampered_request_accepted", &case, kind);
                if let Srv::Err(word) = &res {
                    // the documented way to answer a rejected request: ServerError::build_message
                    let w2 = w.clone(); let kk = ksl.clone();
                    let built = catch_mut(move || {
                        let mut m = Message::from_octets(w2).unwrap();
                        match ServerTransaction::request(&&kk, &mut m, Time48::from_u64(t)) {
                            Err(e) => e.build_message(&m, MessageBuilder::new_vec()).map(|b| b.finish()).map_err(|_| ()),
                            _ => Err(()),
                        }
                    });
                    let ecase = format!("serr {} {} {}", ks.words(), hex(&w), t);
                    x.out.case(&ecase, &match &built { Err(_) => "Panic".to_string(), Ok(Ok(resp)) => format!("rcode {}", resp[3] & 0x0f), Ok(Err(())) => "NotBuilt".into() }, true, "serr");
                    match built {
                        Err(p) => x.out.check_c(false, "server_error_response_panics", &case, &format!("{}: ServerError({}).build_message panicked: {}", kind, word, p)),
                        Ok(Err(())) => x.out.check_c(false, "server_error_response_not_built", &case, kind),
                        Ok(Ok(resp)) => {
                            x.out.check_c(true, "server_error_response_panics", &case, "");
                            // RFC 8945 5.2: FORMERR for an uninterpretable / misplaced TSIG, 5.2.2-5.2.4: NOTAUTH + TSIG error otherwise
                            // the octets: for NOTAUTH errors the request's TSIG is echoed with an empty MAC
                            if word != "FORMERR" {
                                // everything the reference and the model case need is read from the MUTATED request
                                // by the harness's own walk; mutations that leave no plainly spelled single TSIG at
                                // the end (compression pointers, changed framing that the walk cannot follow) are counted and skipped
                                match view_tsig(&w) {
                                    None => x.out.count("serrw_request_not_viewed"),
                                    Some(v) => {
                                        let rrlen = v.owner.len() + 10 + v.alg.len() + 16;
                                        if resp.len() >= 12 + rrlen {
                                            let mut prer = resp[..resp.len() - rrlen].to_vec();
                                            let ar = u16::from_be_bytes([prer[10], prer[11]]).wrapping_sub(1); prer[10..12].copy_from_slice(&ar.to_be_bytes());
                                            let wcase = format!("serrw {} {} {} {}", ks.words(), hex(&w), t, hex(&prer));
                                            x.out.case(&wcase, &format!("Ok {}", hex(&resp)), true, "serrw");
                                            // reference: RFC 8945 5.3.2 - names and time values of the request, MAC empty, error code, request ID
                                            let code: u16 = match word.as_str() { "BADSIG" => 16, "BADKEY" => 17, "BADTRUNC" => 22, _ => 0 };
                                            let mut rd = v.alg.clone();
                                            rd.extend_from_slice(&v.time_fudge);                           // time signed, fudge as sent
                                            rd.extend_from_slice(&[0, 0]);                                 // MAC size 0
                                            rd.extend_from_slice(&w[0..2]);                                // original ID := ID of the request
                                            rd.extend_from_slice(&code.to_be_bytes());
                                            rd.extend_from_slice(&[0, 0]);                                 // other len
                                            let mut rr = v.owner.clone();
                                            rr.extend_from_slice(&[0, 250, 0, 255, 0, 0, 0, 0]);
                                            rr.extend_from_slice(&(rd.len() as u16).to_be_bytes());
                                            rr.extend_from_slice(&rd);
                                            let want = add_rr(&prer, &rr);
                                            if code != 0 { x.out.check_c(resp == want, "unsigned_error_response_octets", &wcase, &format!("{}: implementation {} reference {}", kind, hex(&resp), hex(&want))); }
                                        } else { x.out.count("serrw_response_too_short"); }
                                    }
                                }
                            }
                            let rc = resp[3] & 0x0f;
                            let want = if word == "FORMERR" { 1 } else { 9 };
                            x.out.check_c(rc == want, "server_error_response_wrong_rcode", &case, &format!("{}: TSIG error {} answered with RCODE {} (want {}): {}", kind, word, rc, want, hex(&resp)));
                        }
                    }
                }
                if let Some(wantw) = want {
                    if wantw == "reject" || accepted { continue; }
                    let got = match &res { Srv::None => "None".to_string(), Srv::Err(wd) => wd.clone(), Srv::BadTime(_) => "BADTIME".into(), _ => "?".into() };
                    if let Some(sz) = wantw.strip_prefix("size:") {
                        x.out.check_c(got == sz, "mac_size_outside_rfc_range_wrong_error", &case, &format!("{}: RFC 8945 5.2.2.1 assigns {} to a MAC size above the digest length or below max(10, half of it), got {}", kind, sz, got));
                    } else if wantw == "BADSIG" && got == "FORMERR" {
                        x.out.check_c(false, "server_badsig_reported_as_formerr", &case, &format!("{}: MAC does not verify, RFC 8945 5.2.3 assigns BADSIG, got FORMERR", kind));
                    } else {
                        x.out.check_c(got == wantw, "wrong_error_for_tampered_request", &case, &format!("{}: want {} got {}", kind, wantw, got));
                    }
                }
            }
        }
        // ---- the answer
        if !matches!(sres, Srv::Ok(_)) { continue; }
        let mut reqm = Message::from_octets(wire.clone()).unwrap();
        let Ok(Some(st)) = ServerTransaction::request(&&ksl, &mut reqm, Time48::from_u64(now)) else { continue };
        let ans_b = gen_message(&mut r, id, true);
        let ans = ans_b.as_slice().to_vec();
        let t2 = now.saturating_add(r.below(5)).min((1 << 48) - 1);
        let fudge2: u16 = if r.chance(1, 2) { 300 } else { r.below(1000) as u16 };
        let mut ab = ans_b;
        if st.answer_with_fudge(&mut ab, Time48::from_u64(t2), fudge2).is_err() { continue; }
        let awire = ab.finish();
        let case = format!("sans {} {} {} {} {} {}", ks.words(), hex(&wire), now, hex(&ans), t2, fudge2);
        x.out.case(&case, &format!("Ok {}", hex(&awire)), true, "sans");
        let reqmac = wire[wire.len() - 6 - kc.sign_len()..wire.len() - 6].to_vec();
        let (_, want) = rfc_sign(x.c, &ks, &with_len(&reqmac), &ans, t2, fudge2, 0, &[], false);
        x.out.check_c(awire == want, "answer_mac_rfc8945", &case, &format!("implementation {} reference {}", hex(&awire), hex(&want)));
        if awire.len() != want.len() { x.out.count("skipped_answer_layout"); continue; }   // the mutations below cut at the reference's offsets
        // client side
        let off2: i64 = match r.below(4) { 0 => fudge2 as i64, 1 => -(fudge2 as i64), _ => r.range(0, 2 * fudge2 as u64) as i64 - fudge2 as i64 };
        let now2 = (t2 as i64 + off2).clamp(0, (1i64 << 48) - 1) as u64;
        let compatible2 = ks.sign_len() >= kc.min_len();
        let run_client = |w: &[u8], at: u64| -> (String, bool) {
            let w = w.to_vec();
            let tr = tr.clone();
            match catch_mut(move || { let mut m = Message::from_octets(w).unwrap(); tr.answer(&mut m, Time48::from_u64(at)).map(|_| m.as_slice().to_vec()) }) {
                Ok(Ok(m)) => (format!("Ok {}", hex(&m)), true), Ok(Err(e)) => (format!("Err {}", verr(&e)), false), Err(_) => ("Panic".into(), false),
            }
        };
        let ccase = |w: &[u8], at: u64| format!("cans {} {} {} {} {} {}", kc.words(), hex(&req), t, fudge, hex(w), at);
        {
            let case = ccase(&awire, now2);
            x.out.begin(&case);
            let (obs, ok) = run_client(&awire, now2);
            x.out.case(&case, &obs, true, "cans_honest");
            if compatible2 {
                x.out.check_c(ok, "honest_answer_rejected", &case, &obs);
                if ok { let m = unhex(&obs[3..]); x.out.check_c(m.len() >= ans.len() && m[..ans.len()] == ans[..], "answer_not_restored", &case, &obs); }
            } else { x.out.check_c(!ok, "truncated_mac_below_min_accepted", &case, &obs); }
        }
        if compatible2 {
            let tsig_at = ans.len(); let owner = ks.name.len(); let rd_at = tsig_at + owner + 10; let algw = ks.alg.name_wire().len(); let mac_at = rd_at + algw + 10;
            let flip = |w: &[u8], at: usize, bit: u8| { let mut v = w.to_vec(); v[at] ^= 1 << bit; v };
            let mut muts: Vec<(&str, Vec<u8>, u64, Option<&str>)> = vec![];
            muts.push(("mac_bit", flip(&awire, mac_at + r.below(ks.sign_len() as u64) as usize, r.below(8) as u8), t2, Some("BadSig")));
            muts.push(("body_bit", flip(&awire, 12.max(ans.len() - 1), r.below(8) as u8), t2, if ans.len() > 12 { Some("BadSig") } else { None }));
            muts.push(("orig_id", flip(&awire, mac_at + ks.sign_len(), r.below(8) as u8), t2, Some("BadSig")));
            muts.push(("time_outside", awire.clone(), if r.chance(1, 2) { t2.saturating_add(fudge2 as u64 + 1) } else { t2.saturating_sub(fudge2 as u64 + 1) }, Some("BadTime")));
            { let mut v = awire.clone(); let last = rd_at + algw - 2; v[last] = if v[last] == b'1' { b'7' } else { b'1' }; muts.push(("algorithm", v, t2, Some("BadKey"))); }
            if owner > 2 { let mut v = awire.clone(); let at = tsig_at + 1; v[at] = if v[at].to_ascii_lowercase() == b'q' { b'z' } else { b'q' }; muts.push(("key_name", v, t2, Some("BadKey"))); }
            // double faults: the MAC is checked before the time (both wrong -> BadSig), the key before the MAC
            { let outside = if r.chance(1, 2) { t2.saturating_add(fudge2 as u64 + 1 + r.below(50)) } else { t2.saturating_sub(fudge2 as u64 + 1 + r.below(50)) };
              if (outside as i128 - t2 as i128).unsigned_abs() as u64 > fudge2 as u64 {
                muts.push(("mac_and_time", flip(&awire, mac_at + r.below(ks.sign_len() as u64) as usize, r.below(8) as u8), outside, Some("BadSig")));
                muts.push(("body_and_time", flip(&awire, 2, 1), outside, Some("BadSig")));
                if owner > 2 { let mut v = flip(&awire, mac_at, 0); let at = tsig_at + 1; v[at] = if v[at].to_ascii_lowercase() == b'q' { b'z' } else { b'q' }; muts.push(("key_and_mac_and_time", v, outside, Some("BadKey"))); }
              } }
            muts.push(("tsig_not_last", add_rr(&awire, b"\x00\x00\x01\x00\x01\x00\x00\x00\x00\x00\x04\x01\x02\x03\x04"), t2, Some("FormErr")));
            muts.push(("two_tsigs", add_rr(&awire, &awire[tsig_at..].to_vec()), t2, Some("FormErr")));
            muts.push(("missing", ans.clone(), t2, Some("ServerUnsigned")));
            { let mut v = awire.clone(); let nid = id ^ (1 + r.below(0xfffe) as u16); v[0..2].copy_from_slice(&nid.to_be_bytes()); muts.push(("forwarded_id", v, t2, Some("accept"))); }
            muts.push(("tsig_class", flip(&awire, tsig_at + owner + 2 + r.below(2) as usize, r.below(8) as u8), t2, Some("reject")));
            { // the correct MAC with octets appended; a MAC below the RFC floor
                let mut d = with_len(&reqmac); d.extend_from_slice(&ans); d.extend_from_slice(&rfc_variables(&ks, t2, fudge2, 0, &[]));
                let full = ks.alg.hmac(x.c, &ks.secret, &d);
                let oid = u16::from_be_bytes([ans[0], ans[1]]);
                let nx = 1 + r.below(4) as usize; let mut m = full.clone(); m.extend_from_slice(&r.bytes(nx));
                muts.push(("mac_extended_beyond_digest", add_rr(&ans, &rfc_tsig_rr(&ks, t2, fudge2, &m, oid, 0, &[])), t2, Some("size:FormErr")));
                if ks.sign_len() < ks.alg.native() {
                    let mut m = full[..ks.sign_len()].to_vec(); m.push(full[ks.sign_len()] ^ 0x5a);
                    muts.push(("mac_extended_wrong_tail", add_rr(&ans, &rfc_tsig_rr(&ks, t2, fudge2, &m, oid, 0, &[])), t2, Some("BadSig")));
                }
                let floor = std::cmp::max(10, ks.alg.native() / 2);
                muts.push(("mac_below_rfc_floor", add_rr(&ans, &rfc_tsig_rr(&ks, t2, fudge2, &full[..floor - 1], oid, 0, &[])), t2, Some("size:FormErr")));
                if kc.min_len() > floor { muts.push(("mac_truncated_below_min", add_rr(&ans, &rfc_tsig_rr(&ks, t2, fudge2, &full[..kc.min_len() - 1], oid, 0, &[])), t2, Some("BadTrunc"))); }
            }
            let nflip = if thorough { 40 } else { 5 };
            for _ in 0..nflip { let at = r.range(2, awire.len() as u64 - 1) as usize; muts.push(("random_bit", flip(&awire, at, r.below(8) as u8), t2, None)); }
            for (kind, w, at, want) in muts {
                if (at as i128 - t2 as i128).unsigned_abs() as u64 <= fudge2 as u64 && kind == "time_outside" { continue; }
                if at >= (1 << 48) { continue; }
                let case = ccase(&w, at);
                x.out.begin(&case);
                let (obs, ok) = run_client(&w, at);
                x.out.case(&case, &obs, true, &format!("cans_mut_{}", kind));
                let diffs: Vec<usize> = (0..w.len().min(awire.len())).filter(|&i| w[i] != awire[i]).collect();
                let void = w.len() == awire.len() && diffs.len() == 1 && {
                    let i = diffs[0];
                    ((i > tsig_at && i < tsig_at + owner) || (i > rd_at && i < rd_at + algw)) && (w[i] ^ awire[i]) == 0x20 && awire[i].is_ascii_alphabetic()
                };
                if void || (w == awire && at == t2) { x.out.count("void_mutation"); continue; }
                if obs == "Panic" { x.out.check_c(false, "panic_on_mutated_message", &case, kind); continue; }
                if kind == "forwarded_id" {
                    if ok { let m = unhex(&obs[3..]); x.out.check_c(m.len() >= ans.len() && m[..ans.len()] == ans[..], "forwarded_id_not_restored", &case, &format!("after verification {} want prefix {}", obs, hex(&ans))); }
                    else { x.out.check_c(false, "forwarded_answer_rejected", &case, &obs); }
                    continue;
                }
                let in_class_ttl = w.len() == awire.len() && diffs.len() == 1 && diffs[0] >= tsig_at + owner + 2 && diffs[0] < tsig_at + owner + 8;
                if in_class_ttl { x.out.check_c(!ok, "tsig_class_ttl_unchecked", &case, &format!("{}: TSIG RR with CLASS/TTL octet changed verifies", kind)); continue; }
                x.out.check_c(!ok, "tampered_answer_accepted", &case, kind);
                if let (Some(wantw), false) = (want, ok) { if let Some(sz) = wantw.strip_prefix("size:") {
                    x.out.check_c(obs == format!("Err {}", sz), "mac_size_outside_rfc_range_wrong_error", &case, &format!("{}: RFC 8945 5.2.2.1 assigns FORMERR, got {}", kind, obs));
                } else if wantw != "reject" { x.out.check_c(obs == format!("Err {}", wantw), "wrong_error_for_tampered_answer", &case, &format!("{}: want {} got {}", kind, wantw, obs)); } }
            }
        }
    }

    // ---- 3b. compressing builder targets: the TSIG owner may be written as a pointer
    {
        use domain::base::message_builder::{HashCompressor, StaticCompressor, TreeCompressor};
        use domain::base::wire::Composer;
        fn exchange<T: Composer + AsRef<[u8]>>(out: &mut Out, c: &Sha2Consts, r: &mut Rng, tag: &str, alg: Alg, mk: fn() -> T) {
            let lo = std::cmp::max(10, alg.native() / 2);
            let sign = if r.chance(1, 2) { None } else { Some(r.range(lo as u64, alg.native() as u64) as usize) };
            let mut name = vec![];
            for _ in 0..r.range(1, 3) { let l: Vec<u8> = (0..r.range(2, 8)).map(|_| b'a' + r.below(26) as u8).collect(); name.push(l.len() as u8); name.extend_from_slice(&l); }
            name.push(0);
            let sl = r.range(8, 40) as usize; let k = KeySpec { alg, secret: r.bytes(sl), name: name.clone(), min: Some(lo), sign };
            let Ok(key) = k.lib() else { return };
            let t = 1_650_000_000 + r.below(1 << 27);
            let id = r.u16();
            // the question name ends in the key name, so that a compressor has something to point at
            let mut qn = b"\x03www".to_vec(); qn.extend_from_slice(&name);
            if qn.len() > 255 { return; }
            let mut b = MessageBuilder::from_target(mk()).ok().unwrap();
            b.header_mut().set_id(id);
            let mut q = b.question();
            q.push((name_from_wire(&qn), Rtype::A)).unwrap();
            let mut ab = q.additional();
            let pre = ab.as_slice().to_vec();
            let Ok(tr) = ClientTransaction::request(key.clone(), &mut ab, Time48::from_u64(t)) else { return };
            let wire = ab.as_slice().to_vec();
            let compressed = wire.len() > pre.len() && wire[pre.len()] & 0xC0 == 0xC0;
            out.count(if compressed { "compressed_owner" } else { "uncompressed_owner" });
            let mac = wire[wire.len() - 6 - k.sign_len()..wire.len() - 6].to_vec();
            let mut d = pre.clone(); d.extend_from_slice(&rfc_variables(&k, t, 300, 0, &[]));
            let mut want = alg.hmac(c, &k.secret, &d); want.truncate(k.sign_len());
            let case = format!("sreq {} {} {}", k.words(), hex(&wire), t);
            out.begin(&case);
            out.check_c(mac == want, "compressed_mac_rfc8945", &case, &format!("{} request MAC {} reference {}", tag, hex(&mac), hex(&want)));
            let sres = run_server(&key, &wire, t);
            out.case(&case, &sres.obs(), true, &format!("sreq_compressed_{}", tag));
            match &sres {
                Srv::Ok(m) => out.check_c(m.len() >= pre.len() && m[..pre.len()] == pre[..], "compressed_not_restored", &case, &hex(m)),
                o => { out.check_c(false, "compressed_request_rejected", &case, &format!("{} {}", tag, o.obs())); return; }
            }
            // answer through the same kind of target
            let mut reqm = Message::from_octets(wire.clone()).unwrap();
            let Ok(Some(st)) = ServerTransaction::request(&&key, &mut reqm, Time48::from_u64(t)) else { return };
            let ansb = MessageBuilder::from_target(mk()).ok().unwrap();
            let mut an = ansb.start_answer(&reqm, Rcode::NOERROR).unwrap();
            for i in 0..r.below(3) { an.push((name_from_wire(&qn), Class::IN, Ttl::from_secs(30), A::from_octets(192, 0, 2, i as u8))).unwrap(); }
            let mut aa = an.additional();
            let apre = aa.as_slice().to_vec();
            if st.answer(&mut aa, Time48::from_u64(t + 1)).is_err() { return; }
            let awire = aa.as_slice().to_vec();
            let mut d = with_len(&mac); d.extend_from_slice(&apre); d.extend_from_slice(&rfc_variables(&k, t + 1, 300, 0, &[]));
            let mut want = alg.hmac(c, &k.secret, &d); want.truncate(k.sign_len());
            let amac = awire[awire.len() - 6 - k.sign_len()..awire.len() - 6].to_vec();
            let ccase = format!("cans {} {} {} 300 {} {}", k.words(), hex(&pre), t, hex(&awire), t + 1);
            out.check_c(amac == want, "compressed_mac_rfc8945", &ccase, &format!("{} answer MAC {} reference {}", tag, hex(&amac), hex(&want)));
            let w2 = awire.clone();
            let res = catch_mut(move || { let mut m = Message::from_octets(w2).unwrap(); tr.answer(&mut m, Time48::from_u64(t + 1)).map(|_| m.as_slice().to_vec()) });
            let obs = match &res { Ok(Ok(m)) => format!("Ok {}", hex(m)), Ok(Err(e)) => format!("Err {}", verr(e)), Err(_) => "Panic".into() };
            // the model signs the request without compression; its context (the request MAC) is the same
            out.case(&ccase, &obs, true, &format!("cans_compressed_{}", tag));
            match res {
                Ok(Ok(m)) => out.check_c(m.len() >= apre.len() && m[..apre.len()] == apre[..], "compressed_not_restored", &ccase, &hex(&m)),
                _ => out.check_c(false, "compressed_answer_rejected", &ccase, &format!("{} {}", tag, obs)),
            }
        }
        let n = if thorough { 200 } else { 4 } * scale;
        for it in 0..n {
            let mut r = r.fork();
            idx += 1; if !out.wants(idx) { continue; }
            let alg = Alg::all()[it % 4];
            exchange(&mut out, &consts, &mut r, "static", alg, || StaticCompressor::new(Vec::<u8>::new()));
            exchange(&mut out, &consts, &mut r, "tree", alg, || TreeCompressor::new(Vec::<u8>::new()));
            exchange(&mut out, &consts, &mut r, "hash", alg, || HashCompressor::new(Vec::<u8>::new()));
        }
    }

    // ---- 3c. the server TSIG middleware, end to end (wall clock time: honest and tampered only)
    {
        use domain::net::server::message::{Request, TransportSpecificContext, UdpTransportContext};
        use domain::net::server::middleware::tsig::TsigMiddlewareSvc;
        use domain::net::server::service::{CallResult, Service, ServiceResult};
        use domain::net::server::util::{mk_builder_for_target, service_fn};
        use futures_util::StreamExt;
        use domain::base::ToName;
        fn handler(req: Request<Vec<u8>, Option<Key>>, _m: ()) -> ServiceResult<Vec<u8>> {
            let b = mk_builder_for_target::<Vec<u8>>();
            let mut a = b.start_answer(req.message(), Rcode::NOERROR).unwrap();
            let qn = req.message().first_question().map(|q| q.qname().to_name::<Vec<u8>>());
            if let Some(qn) = qn { a.push((qn, Class::IN, Ttl::from_secs(11), A::from_octets(203, 0, 113, 7))).unwrap(); }
            Ok(CallResult::new(a.additional()))
        }
        let rt = tokio::runtime::Builder::new_current_thread().enable_all().build().unwrap();
        let n = if thorough { 200 } else { 8 } * scale;
        for it in 0..n {
            let mut r = r.fork();
            idx += 1; if !out.wants(idx) { continue; }
            let alg = Alg::all()[it % 4];
            let lo = std::cmp::max(10, alg.native() / 2);
            let sign = if it % 3 == 0 { Some(r.range(lo as u64, alg.native() as u64) as usize) } else { None };
            let sl = r.range(8, 40) as usize;
            let k = KeySpec { alg, secret: r.bytes(sl), name: b"\x03mid\x04ware\x03Key\x00".to_vec(), min: Some(lo), sign };
            let Ok(key) = k.lib() else { continue };
            let id = r.u16();
            let mut pre = vec![];
            for _ in 0..8 {
                let cand = gen_message(&mut r, id, false).as_slice().to_vec();
                if Message::from_octets(cand.clone()).map(|m| m.first_question().is_some()).unwrap_or(false) { pre = cand; break; }
            }
            if pre.is_empty() { out.count("middleware_no_request_generated"); continue; }
            let mut b = builder_from(&pre);
            let started = std::time::Instant::now();
            let now = Time48::now();
            let Ok(tr) = ClientTransaction::request(key.clone(), &mut b, now) else { continue };
            let wire = b.finish();
            let mode = it % 4; // 0,1: honest  2: tampered body  3: unsigned
            let sent = match mode { 2 => { let mut w = wire.clone(); let at = 12 + r.below((pre.len() - 12) as u64) as usize; w[at] ^= 0x10; w } 3 => pre.clone(), _ => wire.clone() };
            let case = format!("middleware mode={} {} {}", mode, k.words(), hex(&sent));
            out.begin(&case);
            let svc = TsigMiddlewareSvc::<Vec<u8>, _, Key, ()>::new(service_fn(handler, ()), key.clone());
            let request = Request::new("127.0.0.1:53".parse().unwrap(), tokio::time::Instant::now(), Message::from_octets(sent.clone()).unwrap(),
                TransportSpecificContext::Udp(UdpTransportContext::new(None)), ());
            let resp: Result<Option<Vec<u8>>, String> = catch_mut(|| rt.block_on(async {
                let mut stream = svc.call(request).await;
                match stream.next().await { Some(Ok(cr)) => cr.into_inner().0.map(|b| b.finish().as_dgram_slice().to_vec()), _ => None }
            }));
            out.oracle_case(&case, true, "middleware");
            // signing and verification both read the wall clock (fudge 300 s): if this
            // process was stopped for a long time in between, nothing can be concluded
            if started.elapsed().as_secs() > 100 { out.count("middleware_slow_skipped"); continue; }
            let resp = match resp { Ok(Some(v)) => v, Ok(None) => { out.check_c(false, "middleware_no_response", &case, ""); continue } Err(e) => { let e: String = e; out.check_c(false, "middleware_panic", &case, &e); continue } };
            let rcode = resp[3] & 0x0f;
            match mode {
                0 | 1 => {
                    let rw = resp.clone();
                    let res = catch_mut(|| { let mut m = Message::from_octets(rw).unwrap(); tr.answer(&mut m, Time48::now()).map(|_| m.as_slice().to_vec()) });
                    out.check_c(matches!(res, Ok(Ok(_))), "middleware_exchange_rejected", &case, &format!("response {} -> {:?}", hex(&resp), res.as_ref().map(|r| r.as_ref().map(|_| ()))));
                    // independent MAC: request MAC | response without TSIG | variables with the time in the record
                    let rr_len = k.name.len() + 10 + k.alg.name_wire().len() + 16 + k.sign_len();
                    if resp.len() > rr_len + 12 && rcode == 0 {
                        let mut prer = resp[..resp.len() - rr_len].to_vec();
                        let ar = u16::from_be_bytes([prer[10], prer[11]]).wrapping_sub(1); prer[10..12].copy_from_slice(&ar.to_be_bytes());
                        let tpos = resp.len() - rr_len + k.name.len() + 10 + k.alg.name_wire().len();
                        let mut tb = [0u8; 8]; tb[2..].copy_from_slice(&resp[tpos..tpos + 6]);
                        let ts = u64::from_be_bytes(tb);
                        let fudge = u16::from_be_bytes([resp[tpos + 6], resp[tpos + 7]]);
                        let reqmac = &wire[wire.len() - 6 - k.sign_len()..wire.len() - 6];
                        let (_, want) = rfc_sign(&consts, &k, &with_len(reqmac), &prer, ts, fudge, 0, &[], false);
                        out.check_c(resp == want, "middleware_mac_rfc8945", &case, &format!("response {} reference {}", hex(&resp), hex(&want)));
                        out.check_c(fudge == 300, "middleware_fudge", &case, &format!("{}", fudge));
                    } else { out.check_c(false, "middleware_exchange_rejected", &case, &format!("unexpected response shape {}", hex(&resp))); }
                }
                2 => {
                    // RFC 8945 5.2.3: NOTAUTH with an unsigned TSIG carrying BADSIG; the application must not have answered
                    let m = Message::from_octets(resp.clone()).unwrap();
                    let answered = m.header_counts().ancount() > 0;
                    let rw = resp.clone();
                    let res = catch_mut(|| { let mut m = Message::from_octets(rw).unwrap(); tr.answer(&mut m, Time48::now()) });
                    out.check_c((rcode == 9 || rcode == 1) && !answered, "middleware_tampered_request_answered", &case, &format!("rcode {} ancount>0 {} response {}", rcode, answered, hex(&resp)));
                    // BADSIG is only the expected error if the flipped bit left the framing and the TSIG's names alone
                    let same_frame = match (view_tsig(&sent), view_tsig(&wire)) { (Some(a), Some(b)) => a.start == b.start && a.owner == b.owner && a.alg == b.alg && a.mac.len() == b.mac.len(), _ => false };
                    if rcode == 9 && same_frame { out.check_c(matches!(res, Ok(Err(ValidationError::ServerBadSig))), "middleware_tampered_wrong_error", &case, &format!("{:?}", res)); }
                    else { out.count("middleware_tampered_framing_changed"); }
                }
                _ => {
                    // an unsigned request passes through unsigned
                    let m = Message::from_octets(resp.clone()).unwrap();
                    let has_tsig = m.additional().map(|sec| sec.flatten().any(|rr| rr.rtype() == Rtype::TSIG)).unwrap_or(true);
                    out.check_c(rcode == 0 && !has_tsig, "middleware_unsigned_passthrough", &case, &hex(&resp));
                }
            }
        }
    }

    // ---- 3d. the client TSIG wrapper (net/client/tsig.rs), single and multi response paths, against
    //          scripted upstreams: every response must pass TsigClient::answer, a stream must not end unsigned
    {
        use domain::net::client::request::{ComposeRequest, ComposeRequestMulti, Error, GetResponse, GetResponseMulti,
            RequestMessage, RequestMessageMulti, SendRequest, SendRequestMulti};
        use domain::net::client::tsig::Connection;
        use std::sync::{Arc, Mutex};
        /// one scripted response
        #[derive(Clone, Copy, Debug)]
        struct Step { signed: bool, rcode: u8, answers: u8, extra_additional: bool, tamper: bool }
        #[derive(Default)]
        struct Log { request: Vec<u8>, sent: Vec<Vec<u8>> }
        /// build the scripted responses for the request that went out (reference signer, RFC 8945 5.3.1)
        fn responses(c: &Sha2Consts, k: &KeySpec, wire: &[u8], script: &[Step], multi: bool) -> Option<(Vec<u8>, u64, Vec<Vec<u8>>)> {
            let rr_len = k.name.len() + 10 + k.alg.name_wire().len() + 16 + k.sign_len();
            if wire.len() < rr_len + 12 { return None; }
            let mut pre = wire[..wire.len() - rr_len].to_vec();
            let ar = u16::from_be_bytes([pre[10], pre[11]]).wrapping_sub(1); pre[10..12].copy_from_slice(&ar.to_be_bytes());
            let tpos = wire.len() - rr_len + k.name.len() + 10 + k.alg.name_wire().len();
            let mut tb = [0u8; 8]; tb[2..].copy_from_slice(&wire[tpos..tpos + 6]);
            let t = u64::from_be_bytes(tb);
            let reqmac = wire[wire.len() - 6 - k.sign_len()..wire.len() - 6].to_vec();
            // question of the request (ends where its additional section would begin; requests here have no records but OPT-less)
            let qend = { let m = Message::from_octets(pre.clone()).ok()?; let qs = m.question(); let mut q = qs; for _ in q.by_ref() {} q.pos() };
            let mut prior = reqmac; let mut pending: Vec<u8> = vec![]; let mut out = vec![];
            for (i, st) in script.iter().enumerate() {
                let mut m = vec![0u8; 12];
                m[0..2].copy_from_slice(&pre[0..2]); m[2] = 0x84; m[3] = st.rcode & 0x0f; m[4..6].copy_from_slice(&pre[4..6]);
                m.extend_from_slice(&pre[12..qend]);
                for j in 0..st.answers { m.extend_from_slice(b"\xc0\x0c\x00\x01\x00\x01\x00\x00\x00\x3c\x00\x04\x0a\x00"); m.push(i as u8); m.push(j); }
                m[7] = st.answers;
                if st.extra_additional { m.extend_from_slice(b"\x00\x00\x29\x04\xd0\x00\x00\x00\x00\x00\x00"); m[11] = 1; }
                let w = if st.signed {
                    let mut pfx = with_len(&prior); pfx.extend_from_slice(&pending);
                    let (mac, mut w) = rfc_sign(c, k, &pfx, &m, t, 300, 0, &[], multi && i > 0);
                    prior = mac; pending.clear();
                    if st.tamper { w[2] ^= 0x01; }   // the RD flag: signed, and no part of any record framing
                    w
                } else { pending.extend_from_slice(&m); m.clone() };
                out.push(w);
            }
            Some((pre, t, out))
        }
        #[derive(Debug)]
        struct Get1 { resp: Option<Result<Message<bytes::Bytes>, Error>> }
        impl GetResponse for Get1 {
            fn get_response(&mut self) -> std::pin::Pin<Box<dyn std::future::Future<Output = Result<Message<bytes::Bytes>, Error>> + Send + Sync + '_>> {
                Box::pin(std::future::ready(self.resp.take().unwrap_or(Err(Error::ConnectionClosed))))
            }
        }
        #[derive(Debug)]
        struct GetN { resps: std::collections::VecDeque<Vec<u8>> }
        impl GetResponseMulti for GetN {
            fn get_response(&mut self) -> std::pin::Pin<Box<dyn std::future::Future<Output = Result<Option<Message<bytes::Bytes>>, Error>> + Send + Sync + '_>> {
                let r = self.resps.pop_front().map(|w| Message::from_octets(bytes::Bytes::from(w)).unwrap());
                Box::pin(std::future::ready(Ok(r)))
            }
        }
        struct Up { k: KeySpec, c: Arc<Sha2Consts>, script: Vec<Step>, log: Arc<Mutex<Log>> }
        impl<CR: ComposeRequest + std::fmt::Debug + Send + Sync + 'static> SendRequest<CR> for Up {
            fn send_request(&self, request_msg: CR) -> Box<dyn GetResponse + Send + Sync> {
                let Ok(wire) = request_msg.to_vec() else { return Box::new(Get1 { resp: None }) };
                let mut log = self.log.lock().unwrap();
                log.request = wire.clone();
                match responses(&self.c, &self.k, &wire, &self.script, false) {
                    Some((_, _, mut rs)) => { log.sent = rs.clone(); Box::new(Get1 { resp: Some(Ok(Message::from_octets(bytes::Bytes::from(rs.remove(0))).unwrap())) }) }
                    None => Box::new(Get1 { resp: None }),
                }
            }
        }
        struct UpN { k: KeySpec, c: Arc<Sha2Consts>, script: Vec<Step>, log: Arc<Mutex<Log>> }
        impl<CR: ComposeRequestMulti + std::fmt::Debug + Send + Sync + 'static> SendRequestMulti<CR> for UpN {
            fn send_request(&self, request_msg: CR) -> Box<dyn GetResponseMulti + Send + Sync> {
                let Ok(m) = request_msg.to_message() else { return Box::new(GetN { resps: Default::default() }) };
                let wire = m.as_slice().to_vec();
                let mut log = self.log.lock().unwrap();
                log.request = wire.clone();
                match responses(&self.c, &self.k, &wire, &self.script, true) {
                    Some((_, _, rs)) => { log.sent = rs.clone(); Box::new(GetN { resps: rs.into() }) }
                    None => Box::new(GetN { resps: Default::default() }),
                }
            }
        }
        fn show(r: &Result<Option<Message<bytes::Bytes>>, Error>) -> String {
            match r {
                Ok(Some(m)) => format!("ok:{}", hex(m.as_slice())), Ok(None) => "end".into(),
                Err(Error::Authentication(e)) => format!("Err {}", verr(e)), Err(e) => format!("Err other:{}", e),
            }
        }
        let consts_arc = Arc::new(sha2_consts());
        let rt = tokio::runtime::Builder::new_current_thread().enable_all().build().unwrap();
        let n = if thorough { 400 } else { 28 } * scale;
        for it in 0..n {
            let mut r = r.fork();
            idx += 1; if !out.wants(idx) { continue; }
            let alg = Alg::all()[it % 4];
            let lo = std::cmp::max(10, alg.native() / 2);
            let sign = if it % 2 == 0 { Some(r.range(lo as u64, alg.native() as u64) as usize) } else { None };
            let sl = r.range(8, 40) as usize;
            let k = KeySpec { alg, secret: r.bytes(sl), name: b"\x06client\x03Key\x00".to_vec(), min: Some(lo), sign };
            let Ok(key) = k.lib() else { continue };
            let multi = it % 2 == 1;
            // the request: one question; AXFR for the multi path
            let qname = gen_name_wire(&mut r);
            let mut qb = MessageBuilder::new_vec();
            qb.header_mut().set_id(r.u16());
            let mut qq = qb.question();
            qq.push((name_from_wire(&qname), if multi { Rtype::AXFR } else { *r.pick(&[Rtype::A, Rtype::SOA, Rtype::TXT]) })).unwrap();
            let qmsg = qq.into_message();
            let rcodes = [0u8, 2, 3, 5, 9, 1];
            let mk = |r: &mut Rng, signed: bool| Step { signed, rcode: if r.chance(1, 2) { 0 } else { *r.pick(&rcodes) }, answers: r.below(3) as u8, extra_additional: r.chance(1, 4), tamper: false };
            let script: Vec<Step> = if !multi {
                match (it / 2) % 7 {
                    0 => vec![mk(&mut r, true)],
                    1 => vec![Step { signed: false, rcode: 0, answers: 1, extra_additional: false, tamper: false }],
                    // the bare unsigned error: error RCODE, nothing in the additional section
                    2 => vec![Step { signed: false, rcode: *r.pick(&[1u8, 2, 3, 5, 9]), answers: 0, extra_additional: false, tamper: false }],
                    3 => vec![Step { signed: false, rcode: *r.pick(&[2u8, 5]), answers: 0, extra_additional: true, tamper: false }],
                    4 => vec![Step { signed: true, rcode: 0, answers: 1, extra_additional: false, tamper: true }],
                    5 => vec![Step { signed: true, rcode: *r.pick(&[2u8, 3, 5]), answers: 0, extra_additional: false, tamper: false }],
                    _ => vec![mk(&mut r, false)],
                }
            } else {
                let len = match (it / 2) % 5 { 0 => r.range(100, 104) as usize, _ => r.range(1, 8) as usize };
                let mut v = vec![];
                for i in 0..len {
                    let signed = match (it / 2) % 5 { 0 => i == 0, 1 => true, _ => i == 0 || r.chance(1, 2) };
                    let mut st = mk(&mut r, signed);
                    // bare unsigned errors in the middle and at the end of a stream
                    if !signed && r.chance(1, 2) { st.rcode = *r.pick(&[2u8, 5, 9]); st.answers = 0; st.extra_additional = false; }
                    if (it / 2) % 5 == 0 { st.answers = 0; st.extra_additional = false; st.rcode = if i % 2 == 0 { 2 } else { 0 }; }
                    v.push(st);
                }
                if (it / 2) % 5 == 3 { if let Some(l) = v.last_mut() { l.signed = false; l.rcode = 5; l.answers = 0; l.extra_additional = false; } }
                if (it / 2) % 5 == 4 && v.len() > 1 { let at = r.below(v.len() as u64) as usize; if v[at].signed { v[at].tamper = true; } }
                v
            };
            let log = Arc::new(Mutex::new(Log::default()));
            let started = std::time::Instant::now();
            let case0 = format!("client_wrapper {} {} script={:?}", if multi { "multi" } else { "single" }, k.words(), script.iter().map(|s| (s.signed, s.rcode, s.answers, s.extra_additional, s.tamper)).collect::<Vec<_>>());
            out.begin(&case0);
            let results: Result<Vec<Result<Option<Message<bytes::Bytes>>, Error>>, String> = if !multi {
                let conn = Connection::new(key.clone(), Up { k: k.clone(), c: consts_arc.clone(), script: script.clone(), log: log.clone() });
                let Ok(reqmsg) = RequestMessage::new(qmsg) else { out.count("client_wrapper_no_request_generated"); continue };
                catch_mut(|| rt.block_on(async { let mut g = SendRequest::send_request(&conn, reqmsg); vec![g.get_response().await.map(Some)] }))
            } else {
                let conn = Connection::new(key.clone(), UpN { k: k.clone(), c: consts_arc.clone(), script: script.clone(), log: log.clone() });
                let Ok(reqmsg) = RequestMessageMulti::new(qmsg) else { out.count("client_wrapper_no_request_generated"); continue };
                let nresp = script.len();
                catch_mut(|| rt.block_on(async {
                    let mut g = SendRequestMulti::send_request(&conn, reqmsg);
                    let mut v = vec![];
                    for _ in 0..nresp + 1 { v.push(g.get_response().await); }
                    v
                }))
            };
            if started.elapsed().as_secs() > 100 { out.count("client_wrapper_slow_skipped"); continue; }
            let results = match results { Ok(v) => v, Err(p) => { out.check_c(false, "client_wrapper_panic", &case0, &p); continue } };
            let (wire, sent) = { let l = log.lock().unwrap(); (l.request.clone(), l.sent.clone()) };
            let Some((pre, t, _)) = responses(&consts, &k, &wire, &[], multi) else { out.check_c(false, "client_wrapper_request_unsigned", &case0, &hex(&wire)); continue };
            if sent.len() != script.len() { out.count("client_wrapper_script_not_built"); continue; }
            // T2: what the wrapper put on the wire, and what it made of the responses
            let ccase = format!("creq {} {} {} 300", k.words(), hex(&pre), t);
            out.case(&ccase, &format!("Ok {}", hex(&wire)), true, "creq_wrapper");
            let (_, want) = rfc_sign(&consts, &k, &[], &pre, t, 300, 0, &[], false);
            out.check_c(wire == want, "client_wrapper_mac_rfc8945", &ccase, &format!("request {} reference {}", hex(&wire), hex(&want)));
            let wcase = format!("wrap {} {} {} {} 300 {} {}", if multi { "multi" } else { "single" }, k.words(), hex(&pre), t, t, sent.iter().map(|w| hex(w)).collect::<Vec<_>>().join(" "));
            out.case(&wcase, &results.iter().map(show).collect::<Vec<_>>().join(","), true, if multi { "wrap_multi" } else { "wrap_single" });
            // oracle, from the script alone
            let mut run = 0u32; let mut dead = false;
            for (i, st) in script.iter().enumerate() {
                if dead { break; }
                let res = &results[i];
                if st.signed && !st.tamper {
                    let restored = match res { Ok(Some(m)) => { let rr_len = k.name.len() + 10 + k.alg.name_wire().len() + 16 + k.sign_len(); let p = sent[i].len() - rr_len;
                        let has_tsig = m.additional().map(|sec| sec.flatten().any(|rr| rr.rtype() == Rtype::TSIG)).unwrap_or(true);
                        !has_tsig && m.as_slice().len() >= p && m.as_slice()[12..p] == sent[i][12..p] && m.header().rcode().to_int() == st.rcode } _ => false };
                    out.check_c(restored, if multi { "client_wrapper_stream_rejected" } else { "client_wrapper_exchange_rejected" }, &wcase, &format!("response {}: {}", i + 1, show(res)));
                    run = 0;
                    if !restored { dead = true; }
                } else if st.signed {
                    out.check_c(matches!(res, Err(Error::Authentication(ValidationError::BadSig))), "client_wrapper_tampered_accepted", &wcase, &format!("response {}: {}", i + 1, show(res)));
                    dead = true;
                } else if !multi || i == 0 {
                    // RFC 8945 5.3: an unsigned response to a signed request is rejected, whatever its RCODE or sections
                    out.check_c(matches!(res, Err(Error::Authentication(ValidationError::ServerUnsigned))), "client_wrapper_unsigned_accepted", &wcase,
                        &format!("response {} (rcode {}, {} answers, additional {}): {}", i + 1, st.rcode, st.answers, st.extra_additional, show(res)));
                    dead = true;
                } else {
                    run += 1;
                    if run <= 99 { out.check_c(matches!(res, Ok(Some(_))), "client_wrapper_unsigned_run", &wcase, &format!("unsigned message {} of a run: {}", run, show(res))); if !matches!(res, Ok(Some(_))) { dead = true; } }
                    else { out.check_c(matches!(res, Err(Error::Authentication(ValidationError::TooManyUnsigned))), "client_wrapper_unsigned_run", &wcase, &format!("unsigned message {} of a run accepted: {}", run, show(res))); dead = true; }
                }
            }
            if multi && !dead {
                let end = &results[script.len()];
                if run == 0 { out.check_c(matches!(end, Ok(None)), "client_wrapper_stream_end", &wcase, &show(end)); }
                else { out.check_c(matches!(end, Err(Error::Authentication(ValidationError::TooManyUnsigned))), "client_wrapper_stream_ends_unsigned", &wcase, &format!("stream ended after {} unsigned message(s): {}", run, show(end))); }
            }
            out.oracle_case(&case0, true, if multi { "client_wrapper_multi" } else { "client_wrapper_single" });
        }
    }

    // ---- 3e. MessageTsig::from_message: 0, 1 or 2 TSIG records in every position of the three record sections.
    //          The TSIG records name an unknown algorithm, so "found" shows as BADKEY, a rejected position as FORMERR,
    //          no TSIG as Ok(None): the three outcomes of the scan are observable through ServerTransaction::request.
    {
        let key = KeySpec { alg: Alg::S256, secret: b"0123456789abcdef".to_vec(), name: b"\x01k\x00".to_vec(), min: None, sign: None };
        let lib = key.lib().unwrap();
        let tsig_rr: Vec<u8> = { let mut rd = b"\x04nope\x00".to_vec(); rd.extend_from_slice(&[0, 0, 0x65, 0x53, 0xf1, 0, 1, 44, 0, 16]); rd.extend_from_slice(&[7u8; 16]); rd.extend_from_slice(&[0x12, 0x34, 0, 0, 0, 0]);
            let mut rr = b"\x01k\x00\x00\xfa\x00\xff\x00\x00\x00\x00".to_vec(); rr.extend_from_slice(&(rd.len() as u16).to_be_bytes()); rr.extend_from_slice(&rd); rr };
        let a_rr: &[u8] = b"\x00\x00\x01\x00\x01\x00\x00\x00\x05\x00\x04\x01\x02\x03\x04";
        for an in 0..3usize { for ns in 0..2usize { for ar in 0..4usize {
            let slots = an + ns + ar;
            // all subsets of at most two slots
            let mut subsets: Vec<Vec<usize>> = vec![vec![]];
            for i in 0..slots { subsets.push(vec![i]); for j in i + 1..slots { subsets.push(vec![i, j]); } }
            for sub in subsets {
                idx += 1; if !out.wants(idx) { continue; }
                let mut m = vec![0x12, 0x34, 0, 0, 0, 1, 0, an as u8, 0, ns as u8, 0, ar as u8];
                m.extend_from_slice(b"\x03www\x00\x00\x01\x00\x01");
                for i in 0..slots { if sub.contains(&i) { m.extend_from_slice(&tsig_rr); } else { m.extend_from_slice(a_rr); } }
                let case = format!("fm {}", hex(&m));
                out.begin(&case);
                let res = run_server(&lib, &m, 1_700_000_000);
                let obs = match &res { Srv::None => "None".to_string(), Srv::Err(w) if w == "BADKEY" => "Found".into(), Srv::Err(w) => w.clone(), o => o.obs() };
                out.case(&case, &obs, true, "fm");
                // RFC 8945 5.2: exactly one TSIG, as the last record of the additional section; anything else with a TSIG is FORMERR
                let want = if sub.is_empty() { "None" } else if sub.len() == 1 && ar > 0 && sub[0] == slots - 1 { "Found" } else { "FORMERR" };
                let outside = sub.iter().any(|&i| i < an + ns);
                if outside && obs != want {
                    out.check_c(false, "tsig_outside_additional_not_formerr", &case, &format!("TSIG record(s) at slots {:?} of an={} ns={} ar={}: RFC 8945 5.2 assigns FORMERR, got {}", sub, an, ns, ar, obs));
                } else {
                    out.check_c(obs == want, "tsig_position_rule", &case, &format!("TSIG record(s) at slots {:?} of an={} ns={} ar={}: want {} got {}", sub, an, ns, ar, want, obs));
                }
            }
        }}}
    }

    // ---- 3f. the server TSIG middleware signing a stream of responses (XFR style: BeginTransaction feedback,
    //          ServerSequence inside); the stream is verified by a ClientSequence and compared with the reference
    {
        use domain::net::server::message::{Request, TransportSpecificContext, NonUdpTransportContext};
        use domain::net::server::middleware::tsig::TsigMiddlewareSvc;
        use domain::net::server::service::{CallResult, Service, ServiceFeedback, ServiceResult};
        use domain::net::server::util::mk_builder_for_target;
        use futures_util::StreamExt;
        #[derive(Clone)]
        struct Multi { n: usize }
        impl Service<Vec<u8>, Option<Key>> for Multi {
            type Target = Vec<u8>;
            type Stream = futures_util::stream::Iter<std::vec::IntoIter<ServiceResult<Vec<u8>>>>;
            type Future = std::future::Ready<Self::Stream>;
            fn call(&self, req: Request<Vec<u8>, Option<Key>>) -> Self::Future {
                let mut v = vec![];
                for i in 0..self.n {
                    let b = mk_builder_for_target::<Vec<u8>>();
                    let mut a = b.start_answer(req.message(), Rcode::NOERROR).unwrap();
                    for j in 0..(i % 3) { a.push((Name::<Vec<u8>>::root_vec(), Class::IN, Ttl::from_secs(1), A::from_octets(10, 1, i as u8, j as u8))).unwrap(); }
                    let mut cr = CallResult::new(a.additional());
                    if i == 0 { cr = cr.with_feedback(ServiceFeedback::BeginTransaction); }
                    else if i + 1 == self.n { cr = cr.with_feedback(ServiceFeedback::EndTransaction); }
                    v.push(Ok(cr));
                }
                std::future::ready(futures_util::stream::iter(v))
            }
        }
        let rt = tokio::runtime::Builder::new_current_thread().enable_all().build().unwrap();
        let n = if thorough { 100 } else { 6 } * scale;
        for it in 0..n {
            let mut r = r.fork();
            idx += 1; if !out.wants(idx) { continue; }
            let alg = Alg::all()[it % 4];
            let lo = std::cmp::max(10, alg.native() / 2);
            let sign = if it % 2 == 0 { Some(r.range(lo as u64, alg.native() as u64) as usize) } else { None };
            let sl = r.range(8, 40) as usize;
            let k = KeySpec { alg, secret: r.bytes(sl), name: b"\x03xfr\x03Key\x00".to_vec(), min: Some(lo), sign };
            let Ok(key) = k.lib() else { continue };
            let mut qb = MessageBuilder::new_vec();
            qb.header_mut().set_id(r.u16());
            let mut qq = qb.question();
            qq.push((name_from_wire(&gen_name_wire(&mut r)), Rtype::AXFR)).unwrap();
            let mut ab = qq.additional();
            let pre = ab.as_slice().to_vec();
            let started = std::time::Instant::now();
            let Ok(mut cs) = ClientSequence::request(key.clone(), &mut ab, Time48::now()) else { continue };
            let wire = ab.finish();
            let nresp = r.range(2, 6) as usize;
            let case = format!("middleware_stream n={} {} {}", nresp, k.words(), hex(&wire));
            out.begin(&case);
            let svc = TsigMiddlewareSvc::<Vec<u8>, _, Key, ()>::new(Multi { n: nresp }, key.clone());
            let request = Request::new("127.0.0.1:53".parse().unwrap(), tokio::time::Instant::now(), Message::from_octets(wire.clone()).unwrap(),
                TransportSpecificContext::NonUdp(NonUdpTransportContext::new(None)), ());
            let resps: Result<Vec<Vec<u8>>, String> = catch_mut(|| rt.block_on(async {
                let mut stream = svc.call(request).await;
                let mut v = vec![];
                while let Some(item) = stream.next().await { if let Ok(cr) = item { if let (Some(b), _) = cr.into_inner() { v.push(b.finish().as_dgram_slice().to_vec()); } } }
                v
            }));
            out.oracle_case(&case, true, "middleware_stream");
            if started.elapsed().as_secs() > 100 { out.count("middleware_slow_skipped"); continue; }
            let resps = match resps { Ok(v) => v, Err(p) => { out.check_c(false, "middleware_panic", &case, &p); continue } };
            out.check_c(resps.len() == nresp, "middleware_stream_incomplete", &case, &format!("{} of {} responses", resps.len(), nresp));
            // reference + model: prior MAC as sent, first message full variables, later ones timers only
            let rr_len = k.name.len() + 10 + k.alg.name_wire().len() + 16 + k.sign_len();
            let tpos_of = |w: &[u8]| w.len() - rr_len + k.name.len() + 10 + k.alg.name_wire().len();
            let time_of = |w: &[u8]| { let p = tpos_of(w); let mut tb = [0u8; 8]; tb[2..].copy_from_slice(&w[p..p + 6]); u64::from_be_bytes(tb) };
            let treq = time_of(&wire);
            let mut scase = format!("sseq {} {} {} 300", k.words(), hex(&wire), treq);
            let mut prior = wire[wire.len() - 6 - k.sign_len()..wire.len() - 6].to_vec();
            let mut ok_shape = true;
            for (i, w) in resps.iter().enumerate() {
                if w.len() < rr_len + 12 { ok_shape = false; break; }
                let mut p = w[..w.len() - rr_len].to_vec();
                let ar = u16::from_be_bytes([p[10], p[11]]).wrapping_sub(1); p[10..12].copy_from_slice(&ar.to_be_bytes());
                let ti = time_of(w);
                scase.push_str(&format!(" {} {}", hex(&p), ti));
                let (mac, want) = rfc_sign(&consts, &k, &with_len(&prior), &p, ti, 300, 0, &[], i > 0);
                out.check_c(*w == want, "middleware_stream_mac_rfc8945", &case, &format!("response {}: {} reference {}", i + 1, hex(w), hex(&want)));
                prior = mac;
                let mut m = Message::from_octets(w.clone()).unwrap();
                let res = cs.answer(&mut m, Time48::now());
                out.check_c(res.is_ok(), "middleware_stream_rejected", &case, &format!("response {}: {:?}", i + 1, res));
            }
            if !ok_shape { out.check_c(false, "middleware_stream_mac_rfc8945", &case, "a response of the stream carries no TSIG"); continue; }
            out.check_c(cs.done().is_ok(), "middleware_stream_rejected", &case, "done()");
            out.case(&scase, &resps.iter().map(|w| hex(w)).collect::<Vec<_>>().join(","), true, "sseq_middleware");
            let _ = pre;
        }
    }

    // ---- 4. sequences
    let n_seq = if thorough { 300 } else { 14 } * scale;
    for it in 0..n_seq {
        let mut r = r.fork();
        idx += 1; if !out.wants(idx) { continue; }
        let kc = { let mut k = gen_key(&mut r); if it % 3 != 2 { k.sign = None; } k };
        let mut ks = kc.clone(); ks.min = Some(std::cmp::max(10, kc.alg.native() / 2));
        if it % 3 == 2 { ks.sign = Some(r.range(std::cmp::max(10, kc.alg.native() / 2) as u64, kc.alg.native() as u64) as usize); } else { ks.sign = None; }
        let mut kcv = kc.clone(); kcv.min = Some(std::cmp::max(10, kc.alg.native() / 2));
        // every fourth stream (of those a ServerSequence signs): the server's key comes from Key::generate, the client loads the exported secret
        let mut gen_s = None;
        if it % 4 == 2 { if let Ok((k, bits)) = generate(&ks) { ks.secret = bits.clone(); kcv.secret = bits; gen_s = Some(k); out.count("generated_sequence_key"); } }
        let (Ok(kcl), Ok(ksl)) = (kcv.lib(), ks.lib()) else { continue };
        let ksl = gen_s.unwrap_or(ksl);
        let t = 1_700_000_000 + r.below(100000);
        let id = r.u16();
        let req = gen_message(&mut r, id, false).as_slice().to_vec();
        let mut b = builder_from(&req);
        if b.as_slice() != &req[..] { continue; }
        let Ok(mut cs) = ClientSequence::request(kcl.clone(), &mut b, Time48::from_u64(t)) else { continue };
        let wire = b.finish();
        let reqmac = wire[wire.len() - 6 - kcv.sign_len()..wire.len() - 6].to_vec();
        if it % 2 == 0 {
            // (a) the library's ServerSequence signs every message
            let mut rm = Message::from_octets(wire.clone()).unwrap();
            let Ok(Some(mut ss)) = ServerSequence::request(&&ksl, &mut rm, Time48::from_u64(t)) else { out.check_c(false, "honest_request_rejected", &hex(&wire), "sequence"); continue };
            let n = r.range(2, 6);
            let mut scase = format!("sseq {} {} {} 300", ks.words(), hex(&wire), t);
            let mut wires = vec![];
            for i in 0..n {
                let ab = gen_message(&mut r, id, true);
                let ans = ab.as_slice().to_vec();
                let mut ab = ab;
                let ti = t + i;
                ss.answer(&mut ab, Time48::from_u64(ti)).unwrap();
                scase.push_str(&format!(" {} {}", hex(&ans), ti));
                wires.push((ans, ab.finish()));
            }
            out.case(&scase, &wires.iter().map(|w| hex(&w.1)).collect::<Vec<_>>().join(","), true, "sseq");
            let mut ccase = format!("cseq {} {} {} 300 {}", kcv.words(), hex(&req), t, t);
            let mut obs = vec![];
            let mut prior = reqmac.clone();
            for (i, (ans, w)) in wires.iter().enumerate() {
                // every second message went through a forwarder that picked a new ID
                let mut wf = w.clone();
                if i % 2 == 1 { let nid = id ^ 0x5aa5; wf[0..2].copy_from_slice(&nid.to_be_bytes()); }
                ccase.push(' '); ccase.push_str(&hex(&wf));
                let mut m = Message::from_octets(wf).unwrap();
                let res = cs.answer(&mut m, Time48::from_u64(t));
                obs.push(match &res { Ok(()) => "ok".to_string(), Err(e) => format!("Err {}", verr(e)) });
                if res.is_ok() { out.check_c(m.as_slice().len() >= ans.len() && m.as_slice()[..ans.len()] == ans[..], if i % 2 == 1 { "forwarded_id_not_restored" } else { "sequence_not_restored" }, &ccase, &format!("message {}: after verification {} want prefix {}", i + 1, hex(m.as_slice()), hex(ans))); }
                let cls = if ks.sign_len() < ks.alg.native() && i > 0 { "sequence_truncated_prior_mac" } else { "honest_sequence_rejected" };
                out.check_c(res.is_ok(), cls, &ccase, &format!("message {} of a ServerSequence (signing_len {} of {}): {:?}", i + 1, ks.sign_len(), ks.alg.native(), res));
                // reference: prior MAC as transmitted, then message, then variables / timers
                let (mac, want) = rfc_sign(&consts, &ks, &with_len(&prior), ans, t + i as u64, 300, 0, &[], i > 0);
                let cls = if ks.sign_len() < ks.alg.native() && i > 0 { "sequence_truncated_prior_mac" } else { "sequence_mac_rfc8945" };
                out.check_c(*w == want, cls, &scase, &format!("message {}: implementation {} reference {}", i + 1, hex(w), hex(&want)));
                prior = mac;
            }
            let d = cs.done();
            out.case(&ccase, &format!("{} done={}", obs.join(","), match d { Ok(()) => "ok".to_string(), Err(e) => format!("Err {}", verr(&e)) }), true, "cseq_lib");
        } else {
            // (b) reference-signed stream with unsigned stretches, up to 120+ messages
            let long = it % 4 == 1;
            let n = if long { r.range(100, 125) } else { r.range(2, 12) };
            let mut ccase = format!("cseq {} {} {} 300 {}", kcv.words(), hex(&req), t, t);
            let mut obs = vec![];
            let mut prior = reqmac.clone();
            let mut pending: Vec<u8> = vec![];
            let mut run = 0u32;
            let mut dead = false;
            for i in 0..n {
                let ans = { let mut m = vec![0u8; 12]; m[0..2].copy_from_slice(&id.to_be_bytes()); m[2] = 0x84; if !long || r.chance(1, 5) { let g = gen_message(&mut r, id, true); m = g.as_slice().to_vec(); } m };
                let signed = i == 0 || if long { i == n - 1 && r.chance(1, 2) || r.chance(1, 110) } else { r.chance(1, 2) };
                let w = if signed {
                    let mut pre = with_len(&prior); pre.extend_from_slice(&pending);
                    let (mac, w) = rfc_sign(&consts, &ks, &pre, &ans, t, 300, 0, &[], i > 0);
                    prior = mac; pending.clear(); w
                } else { pending.extend_from_slice(&ans); ans.clone() };
                ccase.push(' '); ccase.push_str(&hex(&w));
                let mut m = Message::from_octets(w.clone()).unwrap();
                let res = cs.answer(&mut m, Time48::from_u64(t));
                obs.push(match &res { Ok(()) => "ok".to_string(), Err(e) => format!("Err {}", verr(e)) });
                if dead { continue; }
                if signed {
                    out.check_c(res.is_ok(), "signed_message_after_unsigned_run_rejected", &ccase, &format!("message {} after {} unsigned: {:?}", i + 1, run, res));
                    run = 0;
                    if res.is_err() { dead = true; }
                } else {
                    run += 1;
                    // RFC 8945 5.3.1: at least every 100th message is signed, so at most 99 unsigned in a row
                    if run <= 99 { out.check_c(res.is_ok(), "unsigned_run_limit", &ccase, &format!("unsigned message {} of a run rejected: {:?}", run, res)); }
                    else { out.check_c(matches!(res, Err(ValidationError::TooManyUnsigned)), "unsigned_run_limit", &ccase, &format!("unsigned message {} of a run: {:?}", run, res)); dead = true; }
                }
            }
            let d = cs.done();
            if !dead { out.check_c(d.is_ok() == (run == 0), "sequence_end_unsigned", &ccase, &format!("done() = {:?} after {} trailing unsigned", d, run)); }
            out.case(&ccase, &format!("{} done={}", obs.join(","), match d { Ok(()) => "ok".to_string(), Err(e) => format!("Err {}", verr(&e)) }), true, if long { "cseq_long" } else { "cseq_ref" });
        }
    }
    // ---- 4c. double faults on the sequence path and on the server: the MAC is judged before the time
    {
        let n = if thorough { 200 } else { 8 } * scale;
        for it in 0..n {
            let mut r = r.fork();
            idx += 1; if !out.wants(idx) { continue; }
            let mut k = gen_key(&mut r); k.min = Some(std::cmp::max(10, k.alg.native() / 2)); if it % 2 == 0 { k.sign = None; }
            let Ok(kl) = k.lib() else { continue };
            let t = 1_700_000_000 + r.below(100000);
            let id = r.u16();
            let req = gen_message(&mut r, id, false).as_slice().to_vec();
            let mut b = builder_from(&req);
            if b.as_slice() != &req[..] { out.count("skipped_rebuild"); continue; }
            let Ok(cs0) = ClientSequence::request(kl.clone(), &mut b, Time48::from_u64(t)) else { continue };
            let wire = b.finish();
            let outside = if r.chance(1, 2) { t + 301 + r.below(100) } else { t - 301 - r.below(100) };
            // server: wrong MAC and outside the window -> BADSIG, not BADTIME
            {
                let mac_at = wire.len() - 6 - k.sign_len();
                let mut w = wire.clone(); w[mac_at + r.below(k.sign_len() as u64) as usize] ^= 1 << r.below(8);
                let case = format!("sreq {} {} {}", k.words(), hex(&w), outside);
                out.begin(&case);
                let res = run_server(&kl, &w, outside);
                out.case(&case, &res.obs(), true, "sreq_mac_and_time");
                out.check_c(matches!(&res, Srv::Err(wd) if wd == "BADSIG"), "server_double_fault_order", &case, &format!("wrong MAC and time outside the window: want BADSIG, got {}", res.obs()));
            }
            let mut rm = Message::from_octets(wire.clone()).unwrap();
            let Ok(Some(mut ss)) = ServerSequence::request(&&kl, &mut rm, Time48::from_u64(t)) else { continue };
            let mut answers = vec![];
            for _ in 0..3 { let mut ab = gen_message(&mut r, id, true); if ss.answer(&mut ab, Time48::from_u64(t)).is_err() { break; } answers.push(ab.finish()); }
            if answers.len() != 3 { continue; }
            let flipmac = |w: &[u8], r: &mut Rng| { let mut v = w.to_vec(); let at = v.len() - 6 - k.sign_len() + r.below(k.sign_len() as u64) as usize; v[at] ^= 0x04; v };
            // (i) first answer: wrong MAC + outside -> BadSig
            // (ii) first ok, second wrong MAC + outside -> BadSig
            // (iii) first ok, second honest but outside -> BadTime (the MAC verified)
            let scripts: Vec<Vec<(Vec<u8>, u64, &str)>> = vec![
                vec![(flipmac(&answers[0], &mut r), outside, "Err BadSig")],
                vec![(answers[0].clone(), t, "ok"), (flipmac(&answers[1], &mut r), outside, "Err BadSig")],
                vec![(answers[0].clone(), t, "ok"), (answers[1].clone(), outside, "Err BadTime")],
            ];
            for sc in scripts {
                let mut cs = cs0.clone();
                let mut ccase = format!("cseqt {} {} {} 300", k.words(), hex(&req), t);
                let mut obs = vec![];
                for (w, at, want) in &sc {
                    ccase.push_str(&format!(" {} {}", hex(w), at));
                    let mut m = Message::from_octets(w.clone()).unwrap();
                    let res = cs.answer(&mut m, Time48::from_u64(*at));
                    let o = match &res { Ok(()) => "ok".to_string(), Err(e) => format!("Err {}", verr(e)) };
                    out.check_c(&o == want, "sequence_double_fault_order", &ccase, &format!("want {} got {}", want, o));
                    obs.push(o);
                }
                out.case(&ccase, &obs.join(","), true, "cseqt");
            }
        }
    }

    out.finish(&[]);
}
